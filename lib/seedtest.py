#!/usr/bin/env python3
"""seedtest.py <prop id, e.g. C13> <seed dir> <index> <worktree> [extra check ids...]
Confirms a seeded change (suite still passes, demo fails with it and passes without it) in the scratch worktree,
runs the property's check against the changed tree (VERIF_REPO=<worktree>), stores everything under
/verif/seeded/<ID>-<index>/ and prints a summary."""
import sys, os, subprocess, json, shutil, re, time
pid, sdir, idx, wt = sys.argv[1], sys.argv[2], sys.argv[3], sys.argv[4]
extra = sys.argv[5:]
tags = os.environ.get("SEED_TAGS", "")   # e.g. binary_log: the demo needs it, and the suite is run under it as well
off = int(os.environ.get("SEED_IDX_OFFSET", "0"))   # second-round seeds are stored as <ID>-3, <ID>-4
_notes = os.path.join(sdir, f"notes{idx}.md")
_head = open(_notes).read()[:600] if os.path.exists(_notes) else ""
_m = re.search(r"TAGS:\s*`?(\w+)", _head)
if _m and not tags:
    tags = _m.group(1)
_m = re.search(r"DROPIN:\s*`?([\w/.-]+:[^\s`]+)", _head)
if _m and not os.environ.get("SEED_DROPIN"):
    os.environ["SEED_DROPIN"] = _m.group(1)
tagarg = f"-tags {tags} " if tags else ""
env = dict(os.environ, GOFLAGS="-mod=mod", GOPROXY="off", GOSUMDB="off", GOTOOLCHAIN="local")
def sh(cmd, cwd=None, timeout=1800, e=env):
    p = subprocess.run(cmd, cwd=cwd, shell=True, env=e, stdout=subprocess.PIPE, stderr=subprocess.STDOUT, text=True, timeout=timeout, errors="replace")
    return p.returncode, p.stdout
patch = os.path.join(sdir, f"patch{idx}.diff")
demo = os.path.join(sdir, f"demo{idx}")
out = os.path.join("/verif/seeded", f"{pid}-{int(idx) + off}")
meta = dict(property=pid, tags=tags, source=f"independent sub-agent given only the property text and a scratch worktree", index=int(idx) + off, round=(off // 2 + 1))
sh("git checkout -q -- . && git clean -fdq", cwd=wt)
rc, o = sh(f"git apply --check {patch}", cwd=wt)
if rc != 0:
    print("patch does not apply:", o); sys.exit(1)
# a drop-in demo: test files copied into a package directory of the worktree (SEED_DROPIN=<pkg dir>[:<-run pattern>])
dropin = os.environ.get("SEED_DROPIN", "")
def run_demo():
    if not dropin:
        return sh(f"go test -count=1 {tagarg}./...", cwd=demo)
    d, _, pat = dropin.partition(":")
    copied = []
    for f in os.listdir(demo):
        if f.endswith("_test.go"):
            shutil.copyfile(os.path.join(demo, f), os.path.join(wt, d, f)); copied.append(os.path.join(wt, d, f))
    try:
        return sh(f"go test -vet=off -count=1 {tagarg}{'-run ' + pat + ' ' if pat else ''}./{d}/", cwd=wt)
    finally:
        for f in copied: os.remove(f)
meta["demo_dropin"] = dropin
# without the change: demo passes
rc0, o0 = run_demo()
meta["demo_without_change"] = dict(exit=rc0, tail=o0[-600:])
sh(f"git apply {patch}", cwd=wt)
rcb, ob = sh("go build ./... ", cwd=wt)
rcs, os_ = sh("go test -vet=off -count=1 ./... 2>&1", cwd=wt)
if tags:
    rct, ot = sh(f"go test -vet=off -count=1 {tagarg}. ./internal/cbor 2>&1", cwd=wt)
    os_ += ot
fails = re.findall(r"^\s*--- FAIL: (\S+)", os_, re.M) + re.findall(r"^FAIL[ \t]+(\S+)", os_, re.M)
suite_ok = rcb == 0 and all(("journald" in f or f == "TestWriteReturnsNoOfWrittenBytes" or "RandomSampler" in f or f == "TestSamplers") for f in fails)  # RandomSampler is a known statistical flake of the pinned suite
meta["suite_with_change"] = dict(build_exit=rcb, failures=fails, ok=suite_ok)
rc1, o1 = run_demo()
meta["demo_with_change"] = dict(exit=rc1, tail=o1[-1200:])
confirmed = suite_ok and rc0 == 0 and rc1 != 0
meta["confirmed"] = confirmed
# our checks against the changed tree
results = {}
for cid in [pid] + extra:
    t0 = time.time()
    rc, o = sh(f"bin/check {cid}", cwd="/verif", e=dict(os.environ, VERIF_REPO=wt), timeout=3600)
    lines = [l for l in o.splitlines() if l.startswith("VIOLATION") or l.startswith("KNOWN-FINDING") or l.startswith(cid + ":") or l.startswith("broken:")]
    results[cid] = dict(exit=rc, detected=(rc != 0), seconds=round(time.time() - t0), lines=[l[:400] for l in lines])
meta["checks"] = results
sh("git checkout -q -- . && git clean -fdq", cwd=wt)
os.makedirs(out, exist_ok=True)
shutil.copyfile(patch, os.path.join(out, "patch.diff"))
if os.path.isdir(os.path.join(out, "demo")):
    shutil.rmtree(os.path.join(out, "demo"))
shutil.copytree(demo, os.path.join(out, "demo"))
notes = os.path.join(sdir, f"notes{idx}.md")
if os.path.exists(notes):
    shutil.copyfile(notes, os.path.join(out, "notes.md"))
    txt = open(notes).read()
    meta["needs_to_manifest"] = " ".join(txt.split())[:900]
meta["what_was_run"] = [f"git -C <worktree> apply patch.diff", "go build ./... && go test -vet=off -count=1 ./... (only the journald baseline failure allowed)",
                        f"demo: go test -count=1 {tagarg}./... with and without the change", f"VERIF_REPO=<worktree> bin/check {' '.join([pid]+extra)}"]
json.dump(meta, open(os.path.join(out, "meta.json"), "w"), indent=1)
print(json.dumps(dict(id=f"{pid}-{int(idx) + off}", confirmed=confirmed, suite=meta["suite_with_change"], demo_without=rc0, demo_with=rc1,
                      checks={k: (v["detected"], v["lines"][:3]) for k, v in results.items()}), indent=1)[:3000])
