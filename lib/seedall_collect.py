#!/usr/bin/env python3
"""seedall_collect.py: merges the result lines of lib/seedall.py runs (.work/seedlogs/*.log: '<id> CONCRETE|BROKEN-ONLY|MISSED [keys]')
into seeded/recheck.json (committed): how every recorded seeded change is caught by the checks as they are now."""
import os, re, json, glob, ast
V = os.path.dirname(os.path.dirname(os.path.abspath(__file__)))
res = {}
p = os.path.join(V, "seeded", "recheck.json")
if os.path.exists(p):
    res = json.load(open(p))
for f in sorted(glob.glob(os.path.join(V, ".work", "seedlogs", "*.log")), key=os.path.getmtime):
    for line in open(f, errors="replace"):
        m = re.match(r"^(C\d\d-\d+) (CONCRETE|BROKEN-ONLY|MISSED|PATCH-DOES-NOT-APPLY)\s*(\[.*\])?\s*$", line)
        if m:
            keys = []
            if m.group(3):
                try:
                    keys = [re.sub(r"-seed\d+\.json.*", "", k) for k in ast.literal_eval(m.group(3))]
                except Exception:
                    pass
            res[m.group(1)] = {"result": m.group(2), "keys": keys}
json.dump(dict(sorted(res.items())), open(p, "w"), indent=1)
c = {}
for v in res.values():
    c[v["result"]] = c.get(v["result"], 0) + 1
print(len(res), c)
