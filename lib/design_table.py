#!/usr/bin/env python3
"""design_table.py: refreshes the 'theorems' and 'quick tier, cases' columns of the per-property table in DESIGN.md
section 0 from coq/Properties/<ID>.v and evidence/<ID>.json (written by the last clean-tree runs)."""
import json, os, re
V = os.path.dirname(os.path.dirname(os.path.abspath(__file__)))
p = os.path.join(V, "DESIGN.md")
s = open(p).read()
out = []
for line in s.split("\n"):
    m = re.match(r"^\| (C\d\d) \| ", line)
    cols = line.split(" | ")
    if m and len(cols) >= 5 and not line.startswith("| id "):
        pid = m.group(1)
        pv = os.path.join(V, "coq", "Properties", pid + ".v")
        ev = os.path.join(V, "evidence", pid + ".json")
        if os.path.exists(pv) and os.path.exists(ev) and re.match(r"^\d+$", cols[2].strip()):
            n = len(re.findall(r"^Theorem ", open(pv).read(), re.M))
            e = json.load(open(ev))
            c = e.get("coverage", {})
            cases = c.get("evaluations", 0)
            mc = c.get("model_cases", 0)
            def k(x):
                return f"{x/1e6:.1f}M" if x >= 1e6 else (f"{x/1e3:.1f}k" if x >= 1e4 else str(x))
            cols[2] = str(n)
            cols[3] = f"{e.get('tier', '?')}: ~{e.get('wall_s', 0):.0f} s, {k(cases)} cases ({k(mc)} model-evaluated)"
            line = " | ".join(cols)
    out.append(line)
open(p, "w").write("\n".join(out))
print("table refreshed")
