#!/usr/bin/env python3
"""coqchk_all.py: ONE run of Coq's independent checker (coqchk -silent -o) over every Properties/<ID>.vo and everything
they depend on, under the build lock (nothing may be recompiled meanwhile).  The result - the axioms, type-in-type
constants, unsafe fixpoints and assumed-positivity inductives coqchk lists - is remembered in .work/coqchk_cache.json
together with a hash of all compiled files; bin/check reports it (thorough tier: instead of a coqchk run of its own;
quick tier: as additional information) as long as the compiled tree is still that one.  The full output is kept in
coq/COQCHK.txt."""
import os, sys, json, time, re
sys.path.insert(0, os.path.dirname(os.path.abspath(__file__)))
import verifcheck as vc

def main():
    pids = sorted(p[:-2] for p in os.listdir(os.path.join(vc.COQ, "Properties")) if re.match(r"^C\d\d\.v$", p))
    with vc.Lock():
        missing = [p for p in pids if not os.path.exists(os.path.join(vc.COQ, "Properties", p + ".vo"))]
        if missing:
            print("not compiled:", missing); return 2
        tree = vc.vo_tree_hash()
        t0 = time.time()
        rc, out, dt = vc.sh(["coqchk", "-silent", "-o", "-Q", ".", "Verif"] + ["Verif.Properties." + p for p in pids], cwd=vc.COQ, timeout=7200)
        res = vc.parse_coqchk(rc, out, dt)
        if vc.vo_tree_hash() != tree:
            print("the compiled tree changed during the run; result discarded"); return 2
    open(os.path.join(vc.COQ, "COQCHK.txt"), "w").write(
        f"coqchk -silent -o -Q . Verif {' '.join('Verif.Properties.' + p for p in pids)}\n({time.strftime('%Y-%m-%d %H:%M:%S')}, {dt:.0f} s, exit {rc})\n\n" + out[-20000:])
    os.makedirs(vc.WORK, exist_ok=True)
    json.dump(dict(tree=tree, properties=pids, result=res, when=time.strftime("%Y-%m-%d %H:%M:%S")), open(vc.COQCHK_CACHE, "w"), indent=1)
    print(json.dumps(res, indent=1))
    return 0 if res.get("ok") else 1

if __name__ == "__main__":
    sys.exit(main())
