#!/usr/bin/env python3
"""Writes seeded/README.md: one row per recorded seeded change (what it is, what it needs, which check caught it and how)."""
import json, os, re
V = "/verif"
DESC = {
 "C01-1": ("Logger.Output reuses the receiver copy and only swaps the writer (context bytes no longer copied)", "Output fork, then both branches extend the context"),
 "C01-2": ("appendFloat early return for a fixed FloatingPointPrecision skips the NaN/Inf/exponent handling", "non-default precision and a special or large float"),
 "C02-1": ("'simplified' invalid-UTF-8 branch in the JSON string escaper triples a literal U+FFFD", "a string containing a well-formed U+FFFD"),
 "C02-2": ("AppendTime computes UNIXMS/UNIXMICRO from Unix()+Nanosecond(); AppendTimes still divides UnixNano()", "a pre-1970 instant with a sub-unit fraction, scalar vs slice"),
 "C03-1": ("Logger.Hook appends in place instead of allocating a fresh slice", "two sibling loggers derived from one parent with spare hook capacity"),
 "C03-2": ("level field written iff LevelFieldMarshalFunc returns non-empty", "a custom marshal function returning \"\" / a NoLevel event with a custom function"),
 "C04-1": ("should() skips the global-level comparison while the global level is 'at its default'", "global level below TraceLevel (custom negative levels)"),
 "C04-2": ("Errs factored through a helper that runs marshalers before the nil-receiver check", "Errs with LogObjectMarshaler errors on a disabled (nil) event"),
 "C05-1": ("With() hands a parent context >= 500 bytes to the child without copying", "a fat parent context and two children"),
 "C05-2": ("pooled events keep the stack flag of their previous user (two cooperating sites)", "Stack() on one event, then an Err on a later pooled event of a logger without Stack"),
 "C06-1": ("one scratch event reused for all elements of a []error field, put back twice", "Fields with []error of marshalers under concurrency"),
 "C06-2": ("SyncWriter unwraps an already synchronised writer (two mutexes, one destination)", "SyncWriter(SyncWriter(w)) next to the inner wrapper, concurrent writers"),
 "C07-1": ("JSON Bytes slow path delegates to the string implementation (string(s) conversion allocates)", "Bytes with a byte that needs escaping"),
 "C07-2": ("Array.write early return for the empty array forgets putArray", "an Arr() without elements"),
 "C08-1": ("AppendFloat64 writes float32-exact values in the 4-byte form; the decoder prints those with the shortest float32 decimal", "a Float64 that is float32-exact with different shortest decimals (2^30, float64(float32(0.1)))"),
 "C08-2": ("decoder skips the UTF-8 slow path for text strings", "an invalid-UTF-8 string with no quote/backslash/control byte before the bad byte"),
 "C09-1": ("integer head encoding folded into a helper with the 32-bit threshold at 2^36", "an integer with magnitude in [2^32, 2^36)"),
 "C09-2": ("AppendDurations multiplies by a precomputed 1/unit (one ulp off)", "Durs with a duration that is not round in the unit"),
 "C10-1": ("Waiter.Set takes the waiter mutex around Broadcast", "ring lapped and an alerter that does not return promptly (or logs through the diode)"),
 "C10-2": ("diode.Writer.Write stops copying slices with cap > 64 KiB", "oversized caller buffer reused before delivery"),
 "C11-1": ("ManyToOne.TryNext takes the slot with Load + later Store(nil) instead of Swap", "a producer lapping into the slot inside that window"),
 "C11-2": ("Poller.Next: interruptible sleep that returns nil on cancellation", "poll interval > 0 and Close while the consumer sleeps"),
 "C12-1": ("Waiter.Next holds the mutex only around Wait", "cancellation landing between isDone and Wait"),
 "C12-2": ("Set broadcasts only on the empty-to-non-empty transition of a pending counter", "ring overflow, then idle, then a Write"),
 "C13-1": ("BasicSampler counter kept within [1,N] with a non-atomic reset", "concurrent callers / N=1 and long runs"),
 "C13-2": ("sampler consulted before the global level gate", "an event filtered by the global level consumes a sampler slot"),
 "C14-1": ("short-write check moved out of the MultiLevelWriter loop", "a short write at a destination that is not the last"),
 "C14-2": ("process-global re-entrancy guard around ErrorHandler", "overlapping handler calls: concurrent failures, or a handler that logs to a failing fallback"),
 "C15-1": ("lock-free pass-through in TriggerLevelWriter once triggered", "a writer racing the release"),
 "C15-2": ("buffer returned to the pool right after the flush and again on Close", "two trigger writers alternating through the pool"),
 "C16-1": ("needsQuote rewritten with <= ' ' / >= RuneSelf: DEL no longer quoted", "a string field containing 0x7f and nothing else special"),
 "C16-2": ("ConsoleWriter relies on WriteTo draining the pooled buffer", "a failing Out followed by a Write on any ConsoleWriter"),
 "C17-1": ("length validation moved to a helper, the embedded-CBOR (tag 63) path missed", "tag 63 + byte string with a negative 8-byte length"),
 "C17-2": ("decoder output buffered, not flushed when decoding fails", "a complete event followed by a torn one"),
 "C18-1": ("NewHandler copies the logger once per chain instead of once per request", "two requests in flight through one chain"),
 "C18-2": ("proxy ReadFrom returns before counting on error", "ReadFrom that fails after moving some bytes"),
 "C19-1": ("Context.Caller() freezes the global skip count at derivation time", "derive the logger, then change CallerSkipFrameCount, then log"),
 "C19-2": ("Msgf fast path for literal formats forwards to the exported Msg (one more frame)", "Msgf / log.Printf with a literal format and no arguments, hook-based caller"),
 "C01-3": ("UTF-8 'fast path' in the string escaper passes structurally plausible but ill-formed sequences (surrogates, overlongs, > U+10FFFF) through raw", "a string/key/bytes value with ED A0 80, C0 80, F4 90 ..."),
 "C01-4": ("appendUnixNanoTimes rewritten with a trailing comma overwritten by ']'", "an empty []time.Time under TimeFieldFormat UNIXMS/UNIXMICRO/UNIXNANO"),
 "C02-3": ("integer durations computed as int64(float64(d)/float64(unit))", "DurationFieldInteger and |d| > 2^53 ns"),
 "C02-4": ("'f'/'e' format choice moved into a helper, the precision == -1 guard lost", "FloatingPointPrecision >= 0 and |v| < 1e-6 or >= 1e21"),
 "C03-3": ("the hook loop stops once an earlier hook discarded the event", "two hooks, the first discards"),
 "C03-4": ("Context.Timestamp puts its hook in front of the inherited hooks", "a field-adding hook registered before With().Timestamp()"),
 "C04-3": ("sampler check moved into newEvent: a sampler-rejected Panic()/Fatal() no longer fires", "Panic()/Fatal() on a logger whose sampler rejects that event"),
 "C04-4": ("WithLevel collapsed to newEvent(level, nil): WithLevel(Disabled) returns a live event", "WithLevel(Disabled) with a hook / MsgFunc / marshaler observer"),
 "C05-3": ("Logger.Hook appends to the hooks slice in place", "a parent with 3 hooks added one at a time, then two siblings"),
 "C05-4": ("hlog.NewHandler drops the per-request With() copy (outside C05's tree language: UpdateContext on a logger not produced by With; a C18 violation)", "two overlapping requests through a chain with UpdateContext handlers"),
 "C06-3": ("With() keeps the parent's slice when the context is >= 500 bytes", "several children of one fat parent alive at once"),
 "C06-4": ("ConsoleWriter returns its buffer to the pool before Out.Write runs", "a destination that blocks while another goroutine renders"),
 "C07-3": ("appendUnixTimes go through a 4-element scratch []int64", "Times with more than 4 elements under a UNIX TimeFieldFormat"),
 "C07-4": ("Event.write returns early on a write error, before putEvent", "a failing destination, then another event"),
 "C08-3": ("decoder reads payloads with Peek/Discard: anything over the 4096-byte bufio buffer fails", "one string-like value longer than 4096 bytes"),
 "C08-4": ("encoder compacts IPv4-mapped addresses but keeps the 128-bit prefix length", "IPPrefix of ::ffff:a.b.c.d/N with N in 96..128"),
 "C09-3": ("zero fast path in the float encoders (-0.0 == 0)", "a negative-zero float"),
 "C09-4": ("AppendString sanitises invalid UTF-8 after writing the length head", "a string that is not valid UTF-8"),
 "C10-3": ("TryNext fast-forwards by exactly one ring", "producers lapping a stalled consumer more than once"),
 "C10-4": ("Write goes straight to the wrapped writer once the poller has exited", "Close, then Writes against a stuck sink"),
 "C11-3": ("the stale-slot branch of TryNext alerts again", "producers lap a stalled consumer and stop inside the new lap"),
 "C11-4": ("Logger.Fatal waits at most one second for Close", "Fatal with a backlog over a slow but alive sink"),
 "C12-3": ("Waiter.Set takes the mutex around Broadcast (second round: via an Alerter that logs through the diode)", "ring overflow and an Alerter writing to the same diode"),
 "C12-4": ("idle back-off in Poller.Next (interval << idle, cap 10)", "polling mode and a quiet period before a Write"),
 "C13-3": ("burst windows laid back to back (resetAt + Period)", "an event strictly inside the period after a window end, then over-budget events"),
 "C13-4": ("global level and sampling-disabled flag packed into one word; SetGlobalLevel stores the whole word", "DisableSampling(true) followed by SetGlobalLevel"),
 "C14-3": ("MultiLevelWriter returns a sole destination unwrapped", "one destination and a short write"),
 "C14-4": ("FilteredLevelWriter drops NoLevel/Disabled-level events ('sentinels')", "log.Log() / WithLevel(NoLevel) through a filtered destination"),
 "C15-3": ("WriteLevel asks 'hold back?' before 'does this line trigger?'", "TriggerLevel <= ConditionalLevel and a line between them"),
 "C15-4": ("Close() re-arms the writer (triggered = false)", "held line, trigger, Close, then a low line"),
 "C16-3": ("single-pass orderFields picks FieldsOrder names from the event map", "a name in both FieldsOrder and FieldsExclude, or a part name in FieldsOrder"),
 "C16-4": ("numeric timestamps read through Float64()", "TimeFieldFormat UNIXNANO with a sub-microsecond layout"),
 "C17-3": ("a torn event cut at a pair boundary is closed and accepted", "a cut exactly between two key/value pairs of the top-level map"),
 "C17-4": ("float16 support whose subnormal loop spins on negative zero", "the item f9 80 00"),
 "C18-3": ("WithContext overwrites the *Logger already in the context in place", "request contexts descending from one context that carries a logger, overlapping requests"),
 "C18-4": ("proxy WriteHeader forwards 1xx codes without latching", "WriteHeader(101) / WriteHeader(103) then 200"),
 "C19-3": ("CallerSkipFrame sets instead of accumulating", "two helper layers that each call CallerSkipFrame"),
 "C19-4": ("caller de-duplication flag not reset by newEvent (leaks through the pool)", "an Event.Caller() event finalized earlier, then a With().Caller() logger"),
 "C01-5": ("fields.go error encoding pulled into a helper modelled on AnErr: a nil marshal result appends nothing after the key/delimiter was written", "Fields with a []error holding a nil element, or an error for which ErrorMarshalFunc returns nil"),
 "C01-6": ("default InterfaceMarshalFunc = json.Marshal + bytes.ReplaceAll un-escaping of < > &", "an Interface/Any value whose text contains the literal characters \\u003c / \\u003e / \\u0026"),
 "C02-5": ("hand-rolled RFC3339 fast path takes the zone sign from the hour part", "a time whose zone offset is between -1h and 0 (e.g. -00:30) under the default TimeFieldFormat"),
 "C02-6": ("pooled Array emptied on release instead of on acquire; the filtered-event path returns it un-emptied", "a level-filtered event carrying a non-empty Arr(), then an enabled Array/Errs"),
 "C03-5": ("Context.Caller()/CallerWithSkipFrameCount replace an inherited caller hook instead of adding one", "a derivation chain configuring the caller twice with another hook in between"),
 "C03-6": ("Logger.WithLevel collapsed to newEvent(level, nil): the Disabled case is lost", "WithLevel(Disabled) with a hook that has a side effect"),
 "C04-5": ("a filtered Panic()/Fatal() returns a live Disabled-level event carrying done instead of firing done at once", "a filtered Panic/Fatal event with a marshaler / MsgFunc argument, or one that never reaches Msg"),
 "C04-6": ("ParseLevel bounds check tidied to +-math.MaxInt8", "the text -128"),
 "C05-5": ("Context.Reset() truncates the context buffer in place", "a sibling sharing the parent's array (Level/Hook/Sample), then parent.UpdateContext(c.Reset()...)"),
 "C05-6": ("UpdateContext returns early for any logger at level Disabled", "a Disabled With()-logger updated and then re-enabled by a child Level(Info)"),
 "C06-5": ("pooled events created outside a Logger keep the stack flag of their previous user", "ErrorStackMarshaler set, a Stack() event, then Dict().Err(...) without Stack()"),
 "C06-6": ("Event.Discard() returns the event to the pool, write() returns early for disabled events", "a discarding hook while another goroutine draws the same pooled event"),
 "C07-5": ("an Event/Array grown past 64 KiB goes back to the pool with buf = nil", "one >64 KiB event, re-warming, then a medium-sized line"),
 "C07-6": ("enc declared with the encoder interface type: every encode call dynamic, slice arguments escape", "stack-resident slice arguments built at the call site"),
 "C08-5": ("CBOR AppendString sanitises with strings.ToValidUTF8 (one U+FFFD per run of bad bytes)", "a string with two or more consecutive ill-formed bytes"),
 "C08-6": ("CBOR AppendInterface fast path encodes scalars natively", "Interface/Any with a NaN or +-Inf float"),
 "C09-5": ("appendTag helper: AppendInterface writes tag 262 before checking the marshal error", "an unmarshalable value (chan, func) through Interface/Fields"),
 "C09-6": ("appendFieldList gets a case nil arm after the key was written", "a custom ErrorMarshalFunc returning nil for an error value in Fields()"),
 "C10-5": ("poll() batches every queued message into one Write on the wrapped writer", "a backlog of two or more messages behind a slow writer"),
 "C10-6": ("Poller gets its own Set waking a sleeping Next through an unbuffered channel with a racy flag", "poller mode, idle consumer, slow or stuck wrapped writer"),
 "C11-5": ("Alerter rate-limited to once per second; the final flush runs on a value copy of Writer", "two overruns less than a second apart, then Close"),
 "C11-6": ("poll() stops when the wrapped writer returns a 'closed' error", "a sink failing one write with os.ErrClosed/EPIPE and then recovering"),
 "C12-5": ("consumer goroutine started lazily by the first Write", "Close after zero Writes"),
 "C12-6": ("Alerter wrapped: drop counts at most once per second, flush at Close", "a second overflow less than 1 s after a reported one, then quiet"),
 "C13-5": ("BurstSampler stores the window start (now-startAt >= Period)", "a first event whose clock reading is within one Period of the zero clock"),
 "C13-6": ("Logger.Write pre-checks should(NoLevel): two sampler slots per event", "an event arriving through Logger.Write (stdlib log bridge) on a sampled logger"),
 "C14-5": ("MultiLevelWriter caches the lowest filter level at construction", "every destination filtered, then a filter's Level lowered at run time"),
 "C14-6": ("Write/WriteLevel share an 'each' helper that keeps the LAST error", "two failing destinations with distinguishable failures"),
 "C15-5": ("held level byte stored with the high bit set, masked off again: negative levels lose their sign", "a negative-level line held before the trigger"),
 "C15-6": ("trigger() returns early when nothing is held, before setting triggered", "a trigger while the buffer is empty, then a low line"),
 "C16-5": ("PartsExclude filtering overwrites the caller's PartsOrder slice in place", "caller-owned PartsOrder + PartsExclude + two Writes"),
 "C16-6": ("numeric timestamps no longer converted with .In(TimeLocation)", "numeric TimeFieldFormat with a TimeLocation differing from the local zone"),
 "C17-5": ("decodeIntAdditionalType reads argument bytes with one bufio Read (short read at a refill unnoticed)", "a multi-byte argument lying across a 4096-byte boundary"),
 "C17-6": ("tag-261 range check panics with a string value: the recover's r.(error) assertion panics", "a tag-261 item with a prefix length out of range"),
 "C18-5": ("Logger.With() skips the private copy when the parent context is >= 500 bytes", "a NewHandler base logger with a large context and two overlapping requests"),
 "C18-6": ("proxy ReadFrom no longer records the implicit 200; Status() guesses 200", "ReadFrom as first output, then WriteHeader(c != 200)"),
 "C19-5": ("Logger.Hook appends to the parent's hook slice in place", "parent with three hooks, a With().Caller() child, then a later sibling with a caller/other hook"),
 "C19-6": ("Event.msg handles done in a separate branch that re-enters e.msg (one more frame)", "Fatal()/Panic() on a logger using With().Caller()"),
}
rows = []
for sid in sorted(os.listdir(os.path.join(V, "seeded"))):
    mp = os.path.join(V, "seeded", sid, "meta.json")
    if not os.path.exists(mp):
        continue
    m = json.load(open(mp))
    what, needs = DESC.get(sid, ("", ""))
    for cid, r in m["checks"].items():
        keys = []
        for l in r["lines"]:
            if l.startswith("VIOLATION"):
                k = re.sub(r"-seed\d+\.json.*", "", l.split("replay=")[-1].split("/")[-1])
                if l.rstrip().endswith("no-failing-input-found"):
                    k += " (no-failing-input-found)"
                keys.append(k)
        broke = [l[8:90] for l in r["lines"] if l.startswith("broken:")]
        how = ", ".join(dict.fromkeys(keys)) or "MISSED"
        if broke:
            how += "; also broken: " + "; ".join(b.split(":")[0] + ":" + b.split(":", 1)[1][:50] for b in broke[:2])
        rows.append(f"| {sid} | {what} | {needs} | {'yes' if m.get('confirmed') else 'NO'} | {cid} | {how} |")
out = ["# Seeded changes", "",
       "Each directory holds `patch.diff` (relative to /repo's HEAD), `demo/` (fails with the change, passes without), `notes.md` (the author's description) and `meta.json` (what was run).",
       "Written by independent sub-agents that saw only the property text and a scratch worktree. Confirmed = the pinned suite still passes with the change (apart from the baseline's journald failure) and the demo fails with / passes without it.",
       "To replay one: `git -C /repo apply /verif/seeded/<id>/patch.diff; bin/check <property>; git -C /repo checkout -- .` (or `python3 lib/seedall.py <id>` which uses a scratch worktree).", "",
       "| id | change | needs | confirmed | check | caught as (replay keys) |", "|---|---|---|---|---|---|"] + rows
open(os.path.join(V, "seeded", "README.md"), "w").write("\n".join(out) + "\n")
print(len(rows), "rows")
