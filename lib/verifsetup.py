#!/usr/bin/env python3
import sys, os
sys.path.insert(0, os.path.dirname(os.path.abspath(__file__)))
import verifcheck as vc

def main():
    log = []
    with vc.Lock():
        ok, msg = vc.run_go2coq(log)
        print("go2coq:", msg)
        vc.ensure_makefile()
        rc, out, dt = vc.sh(["make", "-j", "16"], cwd=vc.COQ, timeout=6000)
        print(out[-6000:])
        print(f"coq build: rc={rc} {dt:.0f}s")
        if rc != 0:
            return 1
        os.makedirs(os.path.join(vc.HARNESS, "bin"), exist_ok=True)
        rc = 0
        for d in sorted(os.listdir(os.path.join(vc.HARNESS, "cmd"))):
            if d == "go2coq":
                continue
            cfgs = [c for c in vc.PROPS.values() if c["driver"] == d]
            tags = cfgs[0]["tags"] if cfgs else "verif"
            race = cfgs[0]["race"] if cfgs else False
            r, out, dt = vc.go_build(os.path.join(vc.HARNESS, "bin", d), "./cmd/" + d, tags=tags, race=race)
            print(out[-3000:])
            print(f"harness build {d}: rc={r} {dt:.0f}s")
            rc = rc or r
        bad = vc.audit_sources()
        if bad:
            print("AUDIT:", bad)
            return 1
        return 0 if rc == 0 else 1

if __name__ == "__main__":
    sys.exit(main())
