#!/usr/bin/env python3
import sys, os
sys.path.insert(0, os.path.dirname(os.path.abspath(__file__)))
import verifcheck as vc

def main():
    log = []
    with vc.Lock():
        ok, msg = vc.run_go2coq(log)
        print("go2coq:", msg)
        vc.ensure_makefile()
        rc, out, dt = vc.sh(["make", "-j", "16"], cwd=vc.COQ, timeout=6000)
        print(out[-6000:])
        print(f"coq build: rc={rc} {dt:.0f}s")
        if rc != 0:
            return 1
        binp = os.path.join(vc.HARNESS, "bin", "drv")
        os.makedirs(os.path.dirname(binp), exist_ok=True)
        rc, out, dt = vc.go_build(binp, "./cmd/drv")
        print(out[-3000:])
        print(f"harness build: rc={rc} {dt:.0f}s")
        bad = vc.audit_sources()
        if bad:
            print("AUDIT:", bad)
            return 1
        return 0 if rc == 0 else 1

if __name__ == "__main__":
    sys.exit(main())
