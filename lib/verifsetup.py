#!/usr/bin/env python3
"""bin/setup: offline build of everything the registered checks need: Gen tables from /repo, a full .vo
build of the Coq files the claimed properties depend on , harness tools."""
import sys, os, json
sys.path.insert(0, os.path.dirname(os.path.abspath(__file__)))
import verifcheck as vc

def main():
    log = []
    man = json.load(open(os.path.join(vc.VERIF, "MANIFEST.json")))
    claimed = [c["property_id"] for c in man["checks"]]
    with vc.Lock():
        ok, msg = vc.run_go2coq(log)
        print("go2coq:", msg)
        vc.ensure_makefile()
        targets = []
        for pid in claimed:
            targets.append(f"Properties/{pid}.vo")
            hv = vc.PROPS[pid]["harness_v"]
            if hv and os.path.exists(os.path.join(vc.COQ, hv[:-1])) and hv not in targets:
                targets.append(hv)
        rc, out, dt = vc.sh(["make", "-j", "16", "-k"] + targets, cwd=vc.COQ, timeout=3000)
        print(out[-4000:])
        print(f"coq build of claimed properties: rc={rc} {dt:.0f}s")
        missing = [t for t in targets if not os.path.exists(os.path.join(vc.COQ, t))]
        if missing:
            print("NOT BUILT:", missing)
            return 1
        os.makedirs(os.path.join(vc.HARNESS, "bin"), exist_ok=True)
        rc = 0
        for d in sorted(set(vc.PROPS[p]["driver"] for p in claimed)):
            if not os.path.isdir(os.path.join(vc.HARNESS, "cmd", d)):
                continue
            cfg = [c for c in vc.PROPS.values() if c["driver"] == d][0]
            r, out, dt = vc.go_build(os.path.join(vc.HARNESS, "bin", d), "./cmd/" + d, tags=cfg["tags"], race=cfg["race"])
            print(out[-3000:])
            print(f"harness build {d}: rc={r} {dt:.0f}s")
            rc = rc or r
        bad = []
        for pid in claimed:
            roots = [f"Properties/{pid}.v"] + ([vc.PROPS[pid]["harness_v"][:-1]] if vc.PROPS[pid]["harness_v"] else [])
            bad += vc.audit_sources(set(vc.coq_closure(roots)))
        if bad:
            print("AUDIT:", bad)
            return 1
        return 0 if rc == 0 else 1

if __name__ == "__main__":
    sys.exit(main())
