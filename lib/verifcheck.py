#!/usr/bin/env python3
"""bin/check <ID> [--tier quick|thorough] [--replay file]

One run = (1) regenerate coq/Gen/*.v from /repo's working tree (go2coq),
(2) rebuild the Coq development incrementally and recompile Properties/<ID>.v,
reading every Print Assumptions answer, (3) build the Go harness against
/repo's working tree (overlay hooks, tag verif) and run the property's driver:
it executes the implementation, applies the property monitors, and writes the
same cases as Gallina terms, (4) evaluate the shards with coqc (vm_compute):
model prediction vs. implementation observation, (5) decide and write
evidence/<ID>.json.
"""
import sys, os, re, json, time, subprocess, shutil, fcntl, glob, hashlib, concurrent.futures

VERIF = os.path.dirname(os.path.dirname(os.path.abspath(__file__)))
REPO = os.environ.get("VERIF_REPO", "/repo")
COQ = os.path.join(VERIF, "coq")
HARNESS = os.path.join(VERIF, "harness")
WORK = os.path.join(VERIF, ".work")
BIN = os.path.join(HARNESS, "bin")
SCRATCH = os.path.realpath(REPO) != "/repo"
if SCRATCH:
    # a run against a scratch copy of the repository (mutation experiments) is isolated from the runs against /repo:
    # its own work directory, its own copy of the Coq tree (Gen tables and .vo files differ per repository) and its own binaries
    WORK = os.path.join(VERIF, ".work", "scratch_" + hashlib.sha1(os.path.realpath(REPO).encode()).hexdigest()[:10])
    COQ = os.path.join(WORK, "coq")
    BIN = os.path.join(WORK, "bin")
REPLAYS = os.path.join(WORK, "replays") if SCRATCH else os.path.join(VERIF, "replays")

GOENV = dict(os.environ, GOFLAGS="-mod=mod", GOPROXY="off", GOSUMDB="off", GOTOOLCHAIN="local",
             CGO_ENABLED=os.environ.get("CGO_ENABLED", "0"))

# axioms of the standard library that a theorem may depend on (none is needed today)
ALLOWED_AXIOMS = {
    "functional_extensionality_dep", "proof_irrelevance", "classic", "JMeq_eq", "Eqdep.Eq_rect_eq.eq_rect_eq",
    "propositional_extensionality", "constructive_definite_description", "constructive_indefinite_description",
}

TRUSTED_BASE = [
    "Coq 8.16.1 kernel (coqc, full .vo build; vm_compute used in finite-domain lemmas and to evaluate cases; no native_compute)",
    "the specifications in coq/Base/*Spec.v and the statements in coq/Properties/*.v",
    "hand-written Gallina models of the Go code (coq/{Enc,Api,Heap,Lts,Misc}); tied to /repo by go2coq tables (coq/Gen) and by the correspondence run of this check",
    "srcgen (harness/cmd/srcgen): the Go-subset-to-Gallina translator that regenerates coq/Gen/JsonSrc.v, CborSrc.v, RootSrc.v, DecSrc.v, SamplerSrc.v, GateSrc.v, LevelSrc.v, EventSrc.v, FieldSrc.v, ArraySrc.v, ProxySrc.v, WriterSrc.v and TriggerSrc.v from the working tree, and the semantics it targets (coq/Base/GoSem.v: wrap-around integers, Panic/Fuel/Unsup outcomes, slices as lists without aliasing; coq/Base/GoEff.v: functions over a *bufio.Reader / io.Writer as state transformers - one stream, ReadByte / UnreadByte-after-ReadByte / Peek(1), EOF the only read error, Write accepts everything, panic(error) and the deferred recover of Cbor2JsonManyObjects; coq/Enc/GoStd.v, coq/Enc/DecStd.v: the contracts of utf8.DecodeRune, strconv.AppendInt/Uint/Bool/Itoa, time methods as oracle records, net.IP/HardwareAddr/IPNet String and CIDRMask, and the two decoder functions called through hand-written stubs; coq/Base/GoExt.v: pointer-receiver methods as functions over the record of the struct's scalar fields, sync/atomic operations on a field as its sequential read/modify/write, interface-typed fields as opaque - calls through them are logged and answered by an environment function the theorems quantify over)",
    "harness: Go drivers, Gallina case printers, overlay shim (harness/shim, tag verif), lib/verifcheck.py",
    "Go toolchain and standard library behaviour used as oracles where stated",
]

# per property: extra Coq targets (harness glue), whether the driver needs a second build, etc.
PROPS = {}
def prop(pid, **kw):
    d = dict(harness_v=f"Harness/{pid}H.vo", driver=pid.lower(), tags="verif", race=False, variants=[], timeout_quick=900, timeout_thorough=7200)
    d.update(kw)
    PROPS[pid] = d

for _p in ["C%02d" % i for i in range(1, 20)]:
    prop(_p)
PROPS["C02"]["driver"] = "c01"; PROPS["C03"]["driver"] = "c01"
PROPS["C02"]["harness_v"] = "Harness/C01H.vo"; PROPS["C03"]["harness_v"] = "Harness/C01H.vo"
PROPS["C07"]["variants"] = [("bin", "verif binary_log")]
PROPS["C08"]["variants"] = [("json", "verif")]            # main run: binary build; second run: JSON build of the same driver   # the same driver built a second time with the binary encoder
PROPS["C05"]["race"] = True
PROPS["C06"]["race"] = True
PROPS["C15"]["race"] = True
PROPS["C18"]["race"] = True
for _p in ("C08", "C09", "C17"):
    PROPS[_p]["tags"] = "verif binary_log"


def sh(cmd, cwd=None, env=None, timeout=None, shell=False):
    t0 = time.time()
    try:
        p = subprocess.run(cmd, cwd=cwd, env=env, timeout=timeout, shell=shell, stdout=subprocess.PIPE, stderr=subprocess.STDOUT, text=True, errors="replace")
        return p.returncode, p.stdout, time.time() - t0
    except subprocess.TimeoutExpired as e:
        out = e.stdout or ""
        if isinstance(out, bytes):
            out = out.decode("utf8", "replace")
        return 124, out + "\n[timeout]", time.time() - t0


def strip_coq_comments(s):
    out = []
    depth = 0
    i = 0
    n = len(s)
    instr = False
    while i < n:
        if depth == 0 and s[i] == '"':
            instr = not instr
            out.append(s[i]); i += 1; continue
        if not instr and s.startswith("(*", i):
            depth += 1; i += 2; continue
        if not instr and depth > 0 and s.startswith("*)", i):
            depth -= 1; i += 2; continue
        if depth == 0:
            out.append(s[i])
        i += 1
    return "".join(out)


FORBIDDEN = re.compile(r"\b(Admitted|admit|give_up|Axiom|Axioms|Parameter|Parameters|Conjecture|Conjectures|Admit\s+Obligations|bypass_check)\b|Unset\s+Guard|Unset\s+Positivity|Unset\s+Universe\s+Checking|type-in-type|impredicative-set|Guard\s+Checking")

def coq_closure(roots):
    """files (relative to coq/) transitively required by the given files, via their Verif imports"""
    seen, todo = set(), list(roots)
    while todo:
        f = todo.pop()
        if f in seen or not os.path.exists(os.path.join(COQ, f)):
            continue
        seen.add(f)
        txt = strip_coq_comments(open(os.path.join(COQ, f), errors="replace").read())
        for m in re.finditer(r"From\s+Verif\s+Require\s+(?:Import\s+|Export\s+)?(.*?)\.(?=\s|$)", txt, re.S):
            for mod in m.group(1).split():
                todo.append(mod.replace(".", "/") + ".v")
        for m in re.finditer(r"(?<!Verif\s)Require\s+(?:Import\s+|Export\s+)?(.*?)\.(?=\s|$)", txt, re.S):
            for mod in m.group(1).split():
                if mod.startswith("Verif."):
                    todo.append(mod[len("Verif."):].replace(".", "/") + ".v")
    return seen


def audit_sources(only=None):
    bad = []
    for f in glob.glob(os.path.join(COQ, "**", "*.v"), recursive=True):
        if only is not None and os.path.relpath(f, COQ) not in only:
            continue
        txt = strip_coq_comments(open(f, errors="replace").read())
        for m in FORBIDDEN.finditer(txt):
            line = txt.count("\n", 0, m.start()) + 1
            bad.append(f"{os.path.relpath(f, VERIF)}:{line}: {m.group(0)}")
    # Variable/Hypothesis outside a section would show up in Print Assumptions; checked there.
    return bad


class Lock:
    def __enter__(self):
        os.makedirs(WORK, exist_ok=True)
        self.f = open(os.path.join(WORK, "lock"), "w")
        fcntl.flock(self.f, fcntl.LOCK_EX)
        return self
    def __exit__(self, *a):
        fcntl.flock(self.f, fcntl.LOCK_UN)
        self.f.close()


def coq_project_files():
    files = []
    for d in ["Base", "Enc", "Api", "Heap", "Lts", "Misc", "Gen", "Proofs", "Harness", "Properties"]:
        files += sorted(glob.glob(os.path.join(COQ, d, "*.v")))
    return [os.path.relpath(f, COQ) for f in files]


def ensure_makefile():
    files = coq_project_files()
    proj = open(os.path.join(COQ, "_CoqProject.in")).read() + "\n".join(files) + "\n"
    pj = os.path.join(COQ, "_CoqProject")
    old = open(pj).read() if os.path.exists(pj) else None
    if old != proj or not os.path.exists(os.path.join(COQ, "Makefile")):
        open(pj, "w").write(proj)
        rc, out, _ = sh(["coq_makefile", "-f", "_CoqProject", "-o", "Makefile"], cwd=COQ)
        if rc != 0:
            raise RuntimeError("coq_makefile failed:\n" + out)


def write_if_changed(path, content):
    old = open(path).read() if os.path.exists(path) else None
    if old != content:
        os.makedirs(os.path.dirname(path), exist_ok=True)
        open(path, "w").write(content)
        return True
    return False


def go_build(out, pkg, tags="verif", race=False, overlay=True, timeout=600):
    """Build a harness command against /repo's working tree."""
    gs = open(os.path.join(REPO, "go.sum")).read()
    write_if_changed(os.path.join(HARNESS, "go.sum"), gs)
    cmd = ["go", "build", "-o", out]
    if os.path.realpath(REPO) != "/repo":
        # checking a scratch copy of the repository: same go.mod with the replace directive redirected
        mf = os.path.join(WORK, "go_" + os.path.basename(pkg) + ".mod")
        gm = open(os.path.join(HARNESS, "go.mod")).read().replace("=> /repo", "=> " + os.path.realpath(REPO))
        open(mf, "w").write(gm)
        open(mf[:-4] + ".sum", "w").write(gs)
        cmd += ["-modfile", mf]
    if tags:
        cmd += ["-tags", tags]
    if race:
        cmd += ["-race"]
    if overlay:
        ov = make_overlay(os.path.basename(pkg))
        cmd += ["-overlay", ov]
    cmd += [pkg]
    env = dict(GOENV)
    if race:
        env["CGO_ENABLED"] = "1"
    return sh(cmd, cwd=HARNESS, env=env, timeout=timeout)


def make_overlay(driver):
    """overlay_<driver>.json: adds harness/shim/**/verif_export*.go and verif_<driver>*.go into the package
    directory of /repo with the same relative path (shim/x.go -> /repo/zz_verif_x.go,
    shim/internal/cbor/x.go -> /repo/internal/cbor/zz_verif_x.go) without touching /repo."""
    os.makedirs(WORK, exist_ok=True)
    repl = {}
    shim = os.path.join(HARNESS, "shim")
    for root, dirs, files in os.walk(shim):
        for f in files:
            if not f.endswith(".go"):
                continue
            if not (f.startswith("verif_export") or f.startswith("verif_" + driver)):
                continue
            rel = os.path.relpath(root, shim)
            dest_dir = REPO if rel == "." else os.path.join(REPO, rel)
            repl[os.path.join(dest_dir, "zz_verif_" + f)] = os.path.join(root, f)
    extra = os.path.join(WORK, f"overlay_extra_{driver}.json")
    if os.path.exists(extra):
        repl.update(json.load(open(extra)))
    p = os.path.join(WORK, f"overlay_{driver}.json")
    json.dump({"Replace": repl}, open(p, "w"), indent=1)
    return p


def run_go2coq(log):
    """Regenerate coq/Gen/*.v from the working tree: runs harness/cmd/go2coq and every harness/cmd/*gen
    (each takes -repo <dir> -out <dir> and writes .v files). Returns (ok, message)."""
    cmds = sorted(d for d in os.listdir(os.path.join(HARNESS, "cmd"))
                  if (d == "go2coq" or d.endswith("gen")) and glob.glob(os.path.join(HARNESS, "cmd", d, "*.go")))
    if not cmds:
        return True, "no translator present"
    msgs = []
    ok = True
    os.makedirs(BIN, exist_ok=True)
    os.makedirs(os.path.join(COQ, "Gen"), exist_ok=True)
    write_if_changed(os.path.join(HARNESS, "go.sum"), open(os.path.join(REPO, "go.sum")).read())
    for d in cmds:
        binp = os.path.join(BIN, d)
        rc, out, _ = sh(["go", "build", "-o", binp, "./cmd/" + d], cwd=HARNESS, env=GOENV, timeout=300)
        log.append(f"== go build {d}\n" + out)
        if rc != 0:
            ok = False
            msgs.append(f"{d}: build failed: " + out[-800:])
            continue
        tmp = os.path.join(WORK, "gen_tmp_" + d)
        shutil.rmtree(tmp, ignore_errors=True)
        os.makedirs(tmp)
        rc, out, _ = sh([binp, "-repo", REPO, "-out", tmp], env=GOENV, timeout=120)
        log.append(f"== {d}\n" + out)
        ownp = os.path.join(WORK, "gen_owner.json")
        owner = json.load(open(ownp)) if os.path.exists(ownp) else {}
        if rc != 0:
            # the tables this translator owns can no longer be derived from the source: remove them, so that
            # exactly the properties whose proofs depend on them stop building (and no other property is affected)
            if d in owner:
                for f in owner[d]:
                    for ext in (".v", ".vo", ".glob", ".vok", ".vos"):
                        try:
                            os.remove(os.path.join(COQ, "Gen", f[:-2] + ext))
                        except OSError:
                            pass
                msgs.append(f"{d} failed (its tables {owner[d]} were removed): " + " ".join(out.split())[-600:])
            else:
                ok = False
                msgs.append(f"{d} failed: " + out[-1500:])
            continue
        files = sorted(f for f in os.listdir(tmp) if f.endswith(".v"))
        for f in files:
            write_if_changed(os.path.join(COQ, "Gen", f), open(os.path.join(tmp, f)).read())
        owner[d] = files
        json.dump(owner, open(ownp, "w"))
        msgs.append(f"{d}: " + " ".join(out.split())[:300])
    return ok, "; ".join(msgs)


def parse_assumptions(out):
    """Split coqc output into the answers of consecutive Print Assumptions commands."""
    blocks = []
    cur = None
    for line in out.splitlines():
        if line.startswith("Closed under the global context"):
            if cur is not None:
                blocks.append(cur)
                cur = None
            blocks.append([])
        elif line.startswith("Axioms:"):
            if cur is not None:
                blocks.append(cur)
            cur = []
        elif cur is not None:
            m = re.match(r"^(\S+)\s*:", line)
            if m and not line.startswith(" "):
                cur.append(m.group(1))
    if cur is not None:
        blocks.append(cur)
    return blocks


def build_coq(pid, log, jobs=16):
    """make the dependencies, then recompile Properties/<pid>.v capturing Print Assumptions."""
    res = dict(ok=False, theorems=[], assumptions={}, failed=None, audit=[], log="")
    roots = [f"Properties/{pid}.v"] + ([PROPS[pid]["harness_v"][:-1]] if PROPS[pid]["harness_v"] else [])
    res["deps"] = sorted(coq_closure(roots))
    res["audit"] = audit_sources(set(res["deps"]))
    ensure_makefile()
    targets = [f"Properties/{pid}.vo"]
    hv = PROPS[pid]["harness_v"]
    if hv and os.path.exists(os.path.join(COQ, hv[:-1])):
        targets.append(hv)
    rc, out, dt = sh(["make", "-j", str(jobs)] + targets, cwd=COQ, timeout=3000)
    log.append(f"== make {' '.join(targets)} ({dt:.1f}s)\n" + out)
    pfile = os.path.join(COQ, "Properties", pid + ".v")
    src = strip_coq_comments(open(pfile).read())
    thms = re.findall(r"^\s*Theorem\s+(\w+)", src, re.M)
    prints = [x.split(".")[-1] for x in re.findall(r"Print\s+Assumptions\s+([\w.]*\w)\s*\.", src)]  # qualified names: last component
    res["theorems"] = thms
    if rc != 0:
        m = re.findall(r'File "([^"]+)", line (\d+)', out)
        res["failed"] = dict(stage="make", where=[f"{a}:{b}" for a, b in m][-3:], tail=out[-3000:])
        return res
    rc, out, dt = sh("ulimit -s unlimited; coqc -Q . Verif " + f"Properties/{pid}.v", cwd=COQ, timeout=1200, shell=True)
    log.append(f"== coqc Properties/{pid}.v ({dt:.1f}s)\n" + out)
    if rc != 0:
        res["failed"] = dict(stage="coqc", where=[f"Properties/{pid}.v"], tail=out[-3000:])
        return res
    blocks = parse_assumptions(out)
    if len(blocks) != len(prints):
        res["failed"] = dict(stage="assumptions", where=[f"Properties/{pid}.v"], tail=f"{len(prints)} Print Assumptions commands, {len(blocks)} answers")
        return res
    for name, ax in zip(prints, blocks):
        res["assumptions"][name] = ax
    missing = [t for t in thms if t not in prints]
    if missing:
        res["failed"] = dict(stage="assumptions", where=missing, tail="theorems without Print Assumptions: " + ", ".join(missing))
        return res
    bad = {t: [a for a in ax if a.split(".")[-1] not in ALLOWED_AXIOMS and a not in ALLOWED_AXIOMS] for t, ax in res["assumptions"].items()}
    bad = {t: a for t, a in bad.items() if a}
    if bad:
        res["failed"] = dict(stage="axioms", where=list(bad), tail=json.dumps(bad))
        return res
    if res["audit"]:
        res["failed"] = dict(stage="audit", where=res["audit"][:5], tail="forbidden constructs: " + "; ".join(res["audit"][:10]))
        return res
    res["ok"] = True
    return res


def vo_tree_hash():
    """hash of every compiled file of the development: the key under which a coqchk result is remembered"""
    h = hashlib.sha256()
    for f in sorted(glob.glob(os.path.join(COQ, "**", "*.vo"), recursive=True)):
        h.update(os.path.relpath(f, COQ).encode())
        h.update(hashlib.sha256(open(f, "rb").read()).digest())
    return h.hexdigest()


def parse_coqchk(rc, out, dt):
    m = re.search(r"\* Axioms:(.*?)\n\s*\n\* Constants/Inductives relying on type-in-type:(.*?)\n\s*\n\* Constants/Inductives relying on unsafe \(co\)fixpoints:(.*?)\n\s*\n\* Inductives whose positivity is assumed:(.*?)\n", out + "\n", re.S)
    if rc != 0 or not m:
        return dict(ok=False, seconds=round(dt), summary=out[-600:])
    parts = [" ".join(x.split()) for x in m.groups()]
    ok = all(x == "<none>" for x in parts)
    return dict(ok=ok, seconds=round(dt), axioms=parts[0], type_in_type=parts[1], unsafe_fixpoints=parts[2], assumed_positivity=parts[3])


COQCHK_CACHE = os.path.join(WORK, "coqchk_cache.json")


def cached_coqchk(pid):
    """the remembered result of lib/coqchk_all.py (one coqchk over all property files) if the compiled tree is still the one it checked"""
    try:
        c = json.load(open(COQCHK_CACHE))
    except Exception:
        return None
    if pid in c.get("properties", []) and c.get("tree") == vo_tree_hash():
        r = dict(c["result"])
        r["cached_from"] = "one coqchk run over " + " ".join(c["properties"]) + " at " + c.get("when", "?")
        return r
    return None


def run_coqchk(pid, log):
    """independent re-check of the compiled property file and everything it depends on (thorough tier)"""
    r = cached_coqchk(pid)
    if r is not None:
        log.append("== coqchk: remembered result for the unchanged compiled tree\n" + json.dumps(r))
        return r
    rc, out, dt = sh(["coqchk", "-silent", "-o", "-Q", ".", "Verif", f"Verif.Properties.{pid}"], cwd=COQ, timeout=3600)
    log.append(f"== coqchk Properties/{pid} ({dt:.0f}s)\n" + out[-3000:])
    m = re.search(r"\* Axioms:(.*?)\n\s*\n\* Constants/Inductives relying on type-in-type:(.*?)\n\s*\n\* Constants/Inductives relying on unsafe \(co\)fixpoints:(.*?)\n\s*\n\* Inductives whose positivity is assumed:(.*?)\n", out + "\n", re.S)
    if rc != 0 or not m:
        return dict(ok=False, seconds=round(dt), summary=out[-600:])
    parts = [" ".join(x.split()) for x in m.groups()]
    ok = all(x == "<none>" for x in parts)
    return dict(ok=ok, seconds=round(dt), axioms=parts[0], type_in_type=parts[1], unsafe_fixpoints=parts[2], assumed_positivity=parts[3])


def eval_shard(args):
    work, name = args
    rc, out, dt = sh(f"ulimit -s unlimited; coqc -Q {COQ} Verif {name}.v", cwd=work, timeout=3000, shell=True)
    for ext in (".vo", ".vok", ".vos", ".glob"):
        try:
            os.remove(os.path.join(work, name + ext))
        except OSError:
            pass
    txt = " ".join(out.split())
    m = re.search(r"M = (\[.*?\])\s*:\s*list N", txt)
    if rc != 0 or not m:
        return name, None, out[-2000:], dt
    body = m.group(1).strip("[]").strip()
    idx = [int(x.replace("%N", "").strip()) for x in body.split(";") if x.strip()] if body else []
    return name, idx, "", dt


def load_known(pid):
    known, fixed = [], []
    p = os.path.join(VERIF, "KNOWN_FINDINGS.txt")
    if os.path.exists(p):
        for line in open(p):
            line = line.strip()
            if not line or line.startswith("#"):
                continue
            m = re.match(r"known:\s+property=(\S+)\s+key=(\S+)\s+(.*)", line)
            if m and m.group(1) == pid:
                known.append(dict(key=m.group(2), desc=m.group(3)))
            m = re.match(r"fixed:\s+property=(\S+)\s+(\S+)\s+(.*)", line)
            if m and m.group(1) == pid:
                fixed.append(dict(commit=m.group(2), desc=m.group(3)))
    return known, fixed


def main():
    import argparse
    ap = argparse.ArgumentParser()
    ap.add_argument("pid")
    ap.add_argument("--tier", default=os.environ.get("VERIF_TIER", "quick"))
    ap.add_argument("--replay", default=None)
    ap.add_argument("--keep", action="store_true")
    a = ap.parse_args()
    pid, tier = a.pid, a.tier
    if tier not in ("quick", "thorough"):
        tier = "quick"
    try:
        seed = int(os.environ.get("VERIF_SEED", "1"))
    except ValueError:
        seed = 1
    if pid not in PROPS:
        print(f"unknown property {pid}", file=sys.stderr)
        return 2
    if a.replay:
        # a replay file records the seed and tier of the run that produced it: every case of a run derives from that
        # one seed, so re-running with it regenerates the failing case (drivers that can, also re-run just that case)
        try:
            rj = json.load(open(a.replay))
            seed = int(rj.get("seed", seed))
            tier = rj.get("tier", tier) if rj.get("tier") in ("quick", "thorough") else tier
            print(f"replaying {a.replay}: property={rj.get('property')} seed={seed} tier={tier} key={rj.get('key')}")
        except Exception as e:
            print(f"cannot read replay file: {e}", file=sys.stderr)
    t0 = time.time()
    cfg = PROPS[pid]
    work = os.path.join(WORK, pid)
    log = []
    broken = []       # names of theorems / correspondences that no longer check
    os.makedirs(WORK, exist_ok=True)
    shutil.rmtree(work, ignore_errors=True)
    os.makedirs(work)
    with Lock():
        if SCRATCH:
            # bring the scratch Coq tree up to date with the sources (Gen is regenerated below, never copied)
            first = not os.path.isdir(COQ)
            os.makedirs(COQ, exist_ok=True)
            excl = ["--exclude", "Gen/", "--exclude", "Makefile*", "--exclude", ".Makefile.d", "--exclude", "_CoqProject"]
            if not first:
                # compiled files are copied once, to start warm; afterwards only sources (a .vo built against /repo's Gen tables must not overwrite one built against this copy's)
                excl += ["--exclude", "*.vo", "--exclude", "*.vos", "--exclude", "*.vok", "--exclude", "*.glob", "--exclude", ".*.aux"]
            sh(["rsync", "-a", "--update"] + excl + [os.path.join(VERIF, "coq") + "/", COQ + "/"], timeout=600)
        # 1. translator
        gen_ok, gen_msg = run_go2coq(log)
        if not gen_ok:
            broken.append("go2coq: " + gen_msg)
        # 2. proofs
        coq = build_coq(pid, log)
        if not coq["ok"]:
            f = coq["failed"]
            broken.append(f"coq {f['stage']}: {', '.join(f['where'])}")
        chk = None
        if coq["ok"] and tier == "thorough" and os.environ.get("VERIF_NO_COQCHK") != "1":
            chk = run_coqchk(pid, log)
            if not chk["ok"]:
                broken.append("coqchk: " + json.dumps(chk)[:600])
        elif coq["ok"]:
            chk = cached_coqchk(pid)   # quick tier: only reported when the compiled tree is the one coqchk saw
    if True:
        # 3. harness
        drv_res = None
        shard_results = []
        if cfg["driver"] and os.path.isdir(os.path.join(HARNESS, "cmd", cfg["driver"])):
            binp = os.path.join(BIN, cfg["driver"])
            os.makedirs(os.path.dirname(binp), exist_ok=True)
            rc, out, dt = go_build(binp, "./cmd/" + cfg["driver"], tags=cfg["tags"], race=cfg["race"])
            log.append(f"== go build {cfg['driver']} ({dt:.1f}s)\n" + out)
            if rc != 0:
                broken.append("harness build against /repo failed (correspondence cannot run): " + out[-1500:])
            else:
                cmd = [binp, "-prop", pid, "-tier", tier, "-seed", str(seed), "-out", work]
                if a.replay:
                    cmd += ["-replay", a.replay]
                env = dict(GOENV, VERIF_DIR=VERIF, VERIF_REPO=REPO, VERIF_WORK=work, VERIF_OVERLAY=os.path.join(WORK, f"overlay_{cfg['driver']}.json"),
                           GORACE=f"log_path={os.path.join(work, 'race')} halt_on_error=0 exitcode=0")
                rc, out, dt = sh(cmd, cwd=HARNESS, env=env, timeout=cfg["timeout_thorough" if tier == "thorough" else "timeout_quick"])
                log.append(f"== drv ({dt:.1f}s)\n" + out[-20000:])
                rp = os.path.join(work, "result.json")
                if rc != 0 or not os.path.exists(rp):
                    broken.append(f"driver exited with {rc}: " + out[-1500:])
                else:
                    drv_res = json.load(open(rp))
                    for b in drv_res.get("broken") or []:
                        broken.append("driver obligation: " + b[:1500])
                    drv_res["shard_list"] = [(work, sn) for sn in (drv_res.get("shards") or [])]
            # the same driver under other build tags (e.g. the binary encoder); results are merged
            for suffix, vtags in cfg.get("variants", []):
                if drv_res is None:
                    break
                vbin = os.path.join(BIN, cfg["driver"] + "_" + suffix)
                rc, out, dt = go_build(vbin, "./cmd/" + cfg["driver"], tags=vtags, race=cfg["race"])
                log.append(f"== go build {cfg['driver']} [{vtags}] ({dt:.1f}s)\n" + out)
                if rc != 0:
                    broken.append(f"harness build ({vtags}) against /repo failed: " + out[-1500:])
                    continue
                vwork = os.path.join(work, suffix)
                os.makedirs(vwork, exist_ok=True)
                cmd = [vbin, "-prop", pid, "-tier", tier, "-seed", str(seed), "-out", vwork]
                rc, out, dt = sh(cmd, cwd=HARNESS, env=env, timeout=cfg["timeout_thorough" if tier == "thorough" else "timeout_quick"])
                log.append(f"== drv [{vtags}] ({dt:.1f}s)\n" + out[-20000:])
                rp = os.path.join(vwork, "result.json")
                if rc != 0 or not os.path.exists(rp):
                    broken.append(f"driver ({vtags}) exited with {rc}: " + out[-1500:])
                    continue
                vr = json.load(open(rp))
                drv_res["evaluations"] += vr.get("evaluations", 0)
                drv_res["distinct_nontrivial"] += vr.get("distinct_nontrivial", 0)
                drv_res["model_cases"] = drv_res.get("model_cases", 0) + vr.get("model_cases", 0)
                drv_res["violations"] += vr.get("violations", [])
                drv_res["notes"] = (drv_res.get("notes") or []) + (vr.get("notes") or [])
                drv_res["samples"] = (drv_res.get("samples") or []) + (vr.get("samples") or [])[:2]
                for hk, hv in (vr.get("histograms") or {}).items():
                    drv_res.setdefault("histograms", {})[suffix + ":" + hk] = hv
                for sn in vr.get("shards", []) or []:
                    drv_res["shard_list"].append((vwork, sn))
                drv_res.setdefault("extra_coverage", {})["variant_" + suffix] = dict(tags=vtags, evaluations=vr.get("evaluations", 0), violations=len(vr.get("violations", [])))
        # 4. model vs implementation
        mismatches = []
        shard_time = 0.0
        if drv_res and drv_res.get("shard_list"):
            hv = os.path.join(COQ, cfg["harness_v"]) if cfg["harness_v"] else None
            if hv and not os.path.exists(hv):
                broken.append("model not built: " + cfg["harness_v"])
            else:
                with concurrent.futures.ThreadPoolExecutor(max_workers=16) as ex:
                    for name, idx, err, dt in ex.map(eval_shard, drv_res["shard_list"]):
                        shard_time += dt
                        if idx is None:
                            broken.append(f"shard {name} did not evaluate: {err[-800:]}")
                        elif idx:
                            for i in idx:
                                mismatches.append((name, i))
        if mismatches:
            broken.append(f"correspondence model/implementation: {len(mismatches)} mismatching case(s), first {mismatches[0][0]}#{mismatches[0][1]}")
    # 5. decide
    known, fixed = load_known(pid)
    known_keys = {k["key"]: k for k in known}
    os.makedirs(os.path.join(REPLAYS, pid), exist_ok=True)
    violations = 0
    lines = []
    seen_known = set()
    concrete_unlisted = []
    for v in (drv_res or {}).get("violations", []):
        if v["key"] in known_keys:
            if v["key"] not in seen_known:
                seen_known.add(v["key"])
                lines.append(f"KNOWN-FINDING: property={pid} {v['key']}: {v['desc']}")
        else:
            concrete_unlisted.append(v)
    for k in known:
        if k["key"] not in seen_known and drv_res is not None:
            print(f"note: known finding {k['key']} did not reproduce in this run", file=sys.stderr)
    # mismatching cases -> attach their JSON twins
    mismatch_cases = []
    if mismatches:
        want = set(mismatches[:20])
        try:
            for line in open(os.path.join(work, "cases.jsonl")):
                d = json.loads(line)
                if (d["shard"], d["index"]) in want:
                    mismatch_cases.append(d)
        except OSError:
            pass
    def write_replay(name, payload):
        p = os.path.join(REPLAYS, pid, name)
        json.dump(payload, open(p, "w"), indent=1, default=str)
        return p
    reported = set()
    for v in concrete_unlisted:
        if v["key"] in reported:
            continue
        reported.add(v["key"])
        p = write_replay(f"{v['key']}-seed{seed}.json", dict(property=pid, kind="input", seed=seed, tier=tier, monitor=v.get("monitor"), key=v["key"], what=v["desc"],
                                                              case=v.get("case"), impl_observed=v.get("observed"), expected=v.get("expected"), broken=broken, known_finding_key=None))
        lines.append(f"VIOLATION property={pid} replay={p}")
        violations += 1
    if broken and not concrete_unlisted:
        p = write_replay(f"broken-seed{seed}.json", dict(property=pid, kind="obligation", seed=seed, tier=tier, broken=broken,
                                                          coq_failure=coq.get("failed"), mismatching_cases=mismatch_cases,
                                                          note="a proof obligation or the model/implementation correspondence no longer checks; the monitors found no concrete failing input on the implementation"))
        lines.append(f"VIOLATION property={pid} replay={p} no-failing-input-found")
        violations += 1
    # 6. evidence
    thms = coq["theorems"]
    discharged = len(thms) if coq["ok"] else 0
    cov = dict(
        obligations=len(thms), discharged=discharged,
        checker_cmd=f"make -C coq Properties/{pid}.vo && coqc -Q coq Verif coq/Properties/{pid}.v  (Print Assumptions parsed; forbidden-construct audit over coq/**/*.v)",
        trusted_base=TRUSTED_BASE,
        theorems=thms,
        assumptions={k: (v if v else "Closed under the global context") for k, v in coq["assumptions"].items()},
        gen=gen_msg,
        coqchk=chk,
        evaluations=(drv_res or {}).get("evaluations", 0),
        distinct_nontrivial=(drv_res or {}).get("distinct_nontrivial", 0),
        rule=(drv_res or {}).get("rule", ""),
        samples=(drv_res or {}).get("samples", []) or [dict(obligation=t) for t in thms[:3]],
        model_cases=(drv_res or {}).get("model_cases", 0),
        model_shards=len((drv_res or {}).get("shard_list", []) or []),
        model_mismatches=len(mismatches),
        model_eval_s=round(shard_time, 1),
        histograms=(drv_res or {}).get("histograms", {}),
        exhaustive=bool((drv_res or {}).get("exhaustive", False)),
        monitor_violations=len((drv_res or {}).get("violations", [])),
        known_findings_reproduced=sorted(seen_known),
        broken=broken,
        notes=(drv_res or {}).get("notes", []),
    )
    cov.update((drv_res or {}).get("extra_coverage", {}) or {})
    ev = dict(property_id=pid, tier=tier, seed=seed, level="proof", coverage=cov,
              assumptions=["oracle hypotheses named in the theorem statements (Go standard library behaviour)", "the model is tied to the code only by go2coq tables and the correspondence run recorded here"],
              wall_s=round(time.time() - t0, 1), violations=violations)
    # evidence/ describes /repo; a run against a scratch copy (VERIF_REPO, mutation experiments) keeps its record in the work directory
    evdir = os.path.join(VERIF, "evidence") if os.path.realpath(REPO) == "/repo" else work
    os.makedirs(evdir, exist_ok=True)
    json.dump(ev, open(os.path.join(evdir, pid + ".json"), "w"), indent=1, default=str)
    open(os.path.join(work, "check.log"), "w").write("\n".join(log))
    for l in lines:
        print(l)
    print(f"{pid}: theorems {discharged}/{len(thms)}; cases {cov['evaluations']} (model-evaluated {cov['model_cases']}, mismatches {len(mismatches)}); monitor violations {cov['monitor_violations']} (known {len(seen_known)}); {ev['wall_s']}s")
    if broken:
        for b in broken:
            print("broken: " + b[:600], file=sys.stderr)
    return 1 if violations else 0


if __name__ == "__main__":
    sys.exit(main())
