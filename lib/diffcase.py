#!/usr/bin/env python3
"""diffcase.py <work dir> <shard name> <index> <case type> <run fn>: print model vs implementation for one case"""
import sys, re, subprocess, os
work, shard, idx, typ, run = sys.argv[1], sys.argv[2], int(sys.argv[3]), sys.argv[4], sys.argv[5]
s = open(os.path.join(work, shard + ".v")).read()
body = s[s.index(':= [') + 4:s.rindex('\n].')]
cases = body.split(';\n ')
c = cases[idx].strip()
open('/tmp/one.v', 'w').write(s[:s.index('Definition cases')] + f"Definition c : {typ} := " + c + f".\nEval vm_compute in ({run} (fst c)).\nEval vm_compute in (snd c).\n")
out = subprocess.run("cd /tmp && coqc -Q /verif/coq Verif one.v", shell=True, capture_output=True, text=True).stdout
def dec(m):
    try:
        bs = bytes(int(v.replace('%N','')) for v in m.group(1).replace('\n', ' ').split(';') if v.strip())
        return 'b' + repr(bs.decode('latin1'))
    except Exception:
        return m.group(0)
parts = out.split('     = ')
for p in parts[1:]:
    p = re.sub(r'\[([0-9;\s%N]*)\]', dec, p)
    print(' '.join(p.split())[:3000])
    print('----')
