#!/usr/bin/env python3
"""Writes MANIFEST.json from the table below (single source of truth for what is claimed)."""
import json, os
VERIF = os.path.dirname(os.path.dirname(os.path.abspath(__file__)))

CLAIMED = {
 "C13": dict(
    text="Theorems in Coq over an executable model of sampler.go and Logger.should (uint32/int64 wrap written in): exact share of BasicSampler for every history and every interleaving of atomic adds, BurstSampler refines the window specification for every clock sequence, LevelSampler/gate/DisableSampling facts; the model is tied to the code on every run by evaluating it (vm_compute) on the same histories the real samplers ran, plus independent monitors on the real code. K5 (counter wrap) is a theorem (refuted) and a known finding.",
    note="Trusted: Coq kernel + vm_compute, the model of sampler.go (hand-written; checked against the implementation on ~7k histories per run incl. preset counters near 2^32 and int64 clock extremes), the Go harness and overlay accessors. RandomSampler (PRNG) is not modelled. Real goroutine interleavings are sampled (totals only); the all-interleavings claim is the theorem over the atomic-add LTS.",
    technique="Coq proof (induction over histories / schedules) + model-vs-implementation correspondence by vm_compute",
    design="5 C13"),
 "C04": dict(
    text="Theorems in Coq: should() admits iff writer set, level >= logger level and >= global level and the sampler admits (all levels, by lia); a complete logging call writes exactly once at exactly the event's level iff admitted; WithLevel(Disabled) never writes; Panic()/Fatal() fire exactly once filtered or not, WithLevel never; Level text round-trips for all 256 levels (finite, vm_compute lifted with forallb_forall); every exported *Event method of the current source is nil-guarded (obligation over the table go2coq regenerates from /repo on every run). The gate functions' source shapes are re-translated on every run and compared with what the model transcribes; the model is also evaluated against the real Logger on full 256-level rows.",
    note="Trusted: Coq kernel + vm_compute; go2coq (guard-shape recogniser over go/ast: which statement shapes count as a nil guard) and the statement-level comparison of should/newEvent/WithLevel/write/Panic/Fatal with the transcribed shapes (a harmless rewrite of those six functions is reported as broken, no-failing-input-found); Go harness: exhaustive 256x256x256 gate table and reflection-enumerated nil-event calls on the real code; Fatal observed in a re-executed child. strings.EqualFold is modelled for ASCII only.",
    technique="Coq proof + go2coq-regenerated method/shape tables as proof obligations + model-vs-implementation correspondence",
    design="5 C04"),
 "C01": dict(
    text="Theorem C01_event_line (Coq): for ALL settings, logger derivation chains, event programs of any nesting (Dict/Array/Object/EmbedObject/Fields/Func/errors/hooks), levels and messages, the line the model writes is body++newline with body one RFC 8259 object (inductive relation Json), valid RFC 3629 UTF-8 and no byte below 0x20; proved by refinement of a declarative member specification (run_chain_sound) over a byte-exact executable model of internal/json + event.go/context.go/array.go/fields.go/log.go. The string escaper theorem holds for every byte string with no premise. Tie: the model is evaluated (vm_compute) on ~3000 generated programs per run and must reproduce the real encoder's exact bytes; an independent Go RFC 8259/UTF-8 validator monitors every real line.",
    note="Premises of the theorem = the property's exclusions and oracle hypotheses (chain_ok/hooks_ok/ops_ok): RawJSON and marshal-function results are valid JSON, time layouts contain no quote/backslash/control byte, strconv float texts are JSON numbers (validated by the harness on every generated float), base64 text is base64. Trusted: Coq kernel + vm_compute, the JSON/UTF-8 relations in coq/Base, the hand-written model (checked byte-for-byte against the implementation each run), Go harness and generator. Discard is modelled only as the last op of a fragment; Caller fields are covered by C19.",
    technique="Coq proof (refinement to a declarative spec, induction on nesting fuel) + exact-byte model-vs-implementation correspondence",
    design="5 C01"),
 "C02": dict(
    text="Theorem C02_roundtrip (Coq): the emitted text denotes exactly the member list of the declarative specification event_spec (key read as text, value prim_jv per type), and denotes no other value (json_functional; parser sound+complete); per-type theorems: integers exact for every mathematical integer (parse_Z(print_Z z)=z, num_value), text = Go's rune reading with U+FFFD per ill-formed byte, floats NaN/Inf strings by bit pattern else the strconv text with value-preserving exponent clean-up, times/durations per format with truncating division, Hex/RawCBOR/nil forms, nil errors; slice element = scalar encoding; C02_entry_points_agree: Event, Array, Fields, Context append the same text for the same primitive. Tie: same exact-byte correspondence as C01 plus go2coq method tables.",
    note="Same premises/trusted base as C01. strconv.AppendFloat, time formatting, net/reflect String() and encoding/json are oracles: the harness computes their answers independently of zerolog and ships them with each case; that the 'f'/'e' float texts denote the float exactly is strconv's correctness, assumed. FloatingPointPrecision is a parameter of the model.",
    technique="Coq proof (refinement to declarative value spec; decimal round-trip lemmas) + exact-byte correspondence",
    design="5 C02"),
 "C03": dict(
    text="Theorem C03_layout (Coq): the member list is level ++ context(path) ++ event fields ++ hook fields ++ message, each exactly once and in order, for all derivation chains of any depth (With/UpdateContext/hooks), all programs; C03_hooks_of_path: the hooks run are those registered along the path, ancestors first, registration order (UpdateContext registers none), each folded over exactly once; C03_written_iff_not_discarded. Tie: exact-byte + hook/marshaler mark-trace correspondence on generated chains; Go monitor checks each path hook ran exactly once in order.",
    note="Same premises/trusted base as C01. Level()/Output()/Sample() are executed on the real code as byte-neutral derivations (the model ignores them, so any effect on bytes is a mismatch). A hook that discards does not stop later hooks (as in the code); they are still required to run once.",
    technique="Coq proof (logger invariant by induction over the derivation chain) + byte and mark-trace correspondence",
    design="5 C03"),
 "C14": dict(
    text="Theorems in Coq over an executable model of multiLevelWriter / FilteredLevelWriter / LevelWriterAdapter / SyncWriter and Event.msg's error routing, for ALL destination lists, wrapper chains, event sequences and outcome oracles {ok, error, short write}: every destination's call log is exactly the event sequence (filtered by its level), same bytes and level, independent of every other destination's outcome; the first failing destination's error is returned (short write = ErrShortWrite); ErrorHandler (or stderr) runs exactly once per failing event, the event is recycled and done still runs; call k depends only on event k. Tie: real Logger over real writers with scripted fakes, exhaustive 3^(D*E) outcome matrices for D<=3,E<=2 plus random, traces compared with the model; independent Go monitors.",
    note="Trusted: Coq kernel + vm_compute; the model of writer.go/event.go (trace-compared with the implementation on ~5.7k cases per run); Go harness. Entering a MultiLevelWriter through plain Write (hidden behind an io.Writer) bypasses level filters: outside the property, stated as C14_filter_needs_level_entry.",
    technique="Coq proof (induction over destinations/events) + trace correspondence on exhaustive outcome matrices",
    design="5 C14"),
 "C15": dict(
    text="Theorems in Coq over an executable model of TriggerLevelWriter exactly as implemented (level-byte framing, re-split on newline, int8/uint8 reinterpretation, the three WriteLevel branches, Trigger, Close): refinement of a declarative hold/release specification for ALL histories with newline-terminated lines without interior newline and levels <> 10, all threshold pairs; frame-split round trip; the two exclusions shown necessary by counterexample lemmas; int8(uint8 l)=l for all 256 levels; no loss/duplication (Permutation); C15_concurrent: in the lock-level LTS every schedule equals the sequential run in lock-acquisition order. Tie: 360k bounded-exhaustive + random histories through the real writer (a sample evaluated in Coq, all monitored by a Go re-implementation of the spec), concurrent runs under the race detector with a reconstructed sequential explanation.",
    note="Trusted: Coq kernel + vm_compute; the model of writer.go; sync.Mutex gives mutual exclusion and Unlock happens-before the next Lock (assumed by C15_concurrent; every method being Lock/body/deferred Unlock was read off writer.go); Go harness and race detector. Close discards held lines and does not reset the trigger latch (reading fixed in DESIGN section 8).",
    technique="Coq proof (refinement + lock-level LTS) + history correspondence, bounded-exhaustive and concurrent",
    design="5 C15"),
 "C18": dict(
    text="Theorems in Coq: C18_status_bytes - for ALL sequences of WriteHeader/Write/ReadFrom (Flush interspersed), all underlying-writer answers and every capability set selected by WrapWriter, the proxy reports the first WriteHeader code (200 if a body write came first, 0 if nothing) and the sum of the accepted byte counts; C18_request_isolation - over a slice/backing-array heap model with quantified growth policy, for all request sets, handler subsets/orders and ALL schedules, each request's context is base ++ its own fields, write footprints are disjoint and fresh; C18_base_unchanged. Tie: 58k exhaustive call sequences (<=5 calls, 3 capability sets) + random through the real hlog.AccessHandler, real httptest server comparison, concurrent request batches under the race detector.",
    note="Trusted: Coq kernel + vm_compute; models of writer_proxy.go and of With()/UpdateContext slice semantics; net/http behaviour; Go harness. Flush before the header (outside the property's call alphabet) makes net/http send 200 while the proxy records nothing - noted in DESIGN, not claimed. Premise of C18_status_bytes: total < 2^63 (C18_status_bytes_wrap has none).",
    technique="Coq proof (state machine for all call sequences; heap invariant for all schedules) + exhaustive call-sequence correspondence",
    design="5 C18"),
 "C19": dict(
    text="Theorems in Coq over a logical call-stack model whose frame chains and skip constants are REGENERATED from the source on every run (c19gen: go/types walk of every static path from an exported Event/Logger/log function to runtime.Caller): C19_reports_user_frame - for every entry point, finalizer, hook arrangement, wrapper depth d and k<=d, each of the six ways of asking (CallerSkipFrame(k), Caller(k), global count, Context.Caller, CallerWithSkipFrameCount(2+k), ...) names user frame k; skips from all sources add up; finite table obligations by vm_compute. Tie: a generated Go program logs from 487 known source lines (depth 0..4) built against the repository with default optimisation; reported file:line must equal runtime.Caller(0) captured on the same line.",
    note="Partial: the Go runtime's frame accounting (inlining, hidden wrapper frames for value-receiver methods behind interfaces) is trusted, not modelled - observed only through the generated program. Trusted: Coq kernel + vm_compute; c19gen's shape grammar (unrecognised shapes abort, never guessed); Go harness. CallerWithSkipFrameCount(-1) (doc says 'use global', code tests MinInt32) is outside the quantifier; noted in DESIGN.",
    technique="Coq proof over a call-chain table regenerated from the source + generated line-number program",
    design="5 C19"),
 "C07": dict(
    text="Partial. Theorems in Coq over the pool-trace model of the event/array pools (which API call takes a pooled object, which gives it back, in code order, for enabled and for level-filtered chains): every complete chain of any nesting, with any hooks, is well-nested and balanced (C07_pool_balanced, C07_filtered_balanced), so Gets = Puts per pool and a warm pool serves it without a single miss and is left as full as before (C07_warm_pool_no_miss). The rest of 'zero allocations' is measured on the real code on every run: testing.AllocsPerRun == 0 for generated chains over the documented allocation-free method set (closures, no reflection) on plain / context+timestamp / level-filtered loggers, in the JSON and the binary_log build; and on freshly emptied pools the first run must allocate exactly the peak demand the model's trace predicts, later runs nothing.",
    note="Partial because escape analysis, interface boxing and the allocator are not modelled: a method that starts boxing an argument changes no model and is caught only by the AllocsPerRun measurement. Trusted: Coq kernel + vm_compute, the pool-trace model (validated by the demand correspondence), the overlay shim that replaces the two pools by counting ones, Go's testing.AllocsPerRun. Encoded size is kept within the pooled 500-byte buffers' growth history (the property's own restriction).",
    technique="Coq proof (balanced pool traces, induction on nesting) + AllocsPerRun and pool-miss measurements vs the model's predicted demand, both encodings",
    design="5 C07"),
 "C16": dict(
    text="Theorems in Coq over an executable model of ConsoleWriter.Write / writeFields / writePart (field selection, reserved names, FieldsExclude, sort.Strings or the FieldsOrder comparator with sort modelled as ANY sorted permutation, binary search for the error field, move-to-front, needsQuote, spacing) for ALL events, ALL map iteration orders and ALL option sets: every non-excluded field exactly once; error first then lexical; FieldsOrder names first in that order then lexical; quoting predicate; numbers verbatim; determinism across iteration orders and sort outcomes (comparators proved strict total orders); returns len(p), nil. Tie: events really logged through zerolog then rendered by the real ConsoleWriter under generated option combinations, 3-5 renders each; exact-byte correspondence with the model; independent Go monitors.",
    note="Standard-library texts (strconv.Quote, time parse/format, fmt %s, json re-marshal, ToUpper, filepath.Rel) are oracles shipped per case as finite tables computed independently of ConsoleWriter; encoding/json's decoding of the event (last duplicate wins) is an oracle. Readings: byte 0x7f is quoted by the code (accepted either way by the monitors); only the final newline is asserted (messages/keys containing a newline are written verbatim by design). Trusted: Coq kernel + vm_compute, the model, the Go harness.",
    technique="Coq proof (permutation/sortedness reasoning for all iteration orders) + exact-byte correspondence on generated events x options",
    design="5 C16"),
 "C06": dict(
    text="Partial. Theorems in Coq over an ownership LTS of G threads emitting events through one shared pool (Get may return any pooled object or a fresh one; one step per pool/writer interaction), for ALL schedules and pool policies: every pooled buffer has at most one owner and is not in the pool while owned (C06_single_owner); whatever the interleaving and whatever stale bytes pooled buffers hold, the writer receives from each thread exactly that thread's events, one Write each, in program order, and the bytes seen on entry are the bytes still there on return (C06_schedule_independent); SyncWriter never admits two threads (C06_syncwriter_exclusive); the order 'one WriteLevel, then putEvent' is re-read from the current source of Event.write on every run. Tie: generated programs run alone (reference bytes, predicted by the Coq Exec model) and then from 2/4/16 goroutines through loggers derived from shared parents into a writer that checksums its argument on entry and return, delays and blocks; multiset of writes must equal the references; SyncWriter and global-logger runs; all under the Go race detector.",
    note="Partial because data-race freedom under the Go memory model and the real sync.Pool are not modelled: the LTS assumes a thread only touches the buffer it owns; that assumption is what the race detector and the checksumming writer observe on the schedules the runtime happens to pick (not all schedules). Trusted: Coq kernel + vm_compute, the ownership model, go2coq statement extraction for Event.write, Go race detector, harness.",
    technique="Coq proof (ownership invariant over all schedules of an LTS) + race-detector stress with checksumming writer against model-predicted bytes",
    design="5 C06"),
 "C05": dict(
    text="Theorem C05_independent (Coq): over Go slice semantics (backing arrays, headers, append in place iff it fits else a fresh array of ANY sufficient capacity - growth policy universally quantified), for EVERY derivation program of the property's language (trees of With()...Logger() chains, Level/Sample/Hook header copies, Output, UpdateContext on loggers produced by With()/Output, events from any node in any order) every emitted event reads exactly the context of its own derivation path; proved by an ownership invariant (one in-place appender per array, every other header no longer than it). K1 (a Context value used twice) is C05_ctx_value_branched_refuted and a known finding. GetCtx soundness and 'Output changes only the destination' are obligations over tables go2coq regenerates from the source on every run (every field of the current Event struct is reassigned by the current newEvent; Output copies every Logger field but the writer). Tie: 1200 generated derivation programs per run, including non-linear ones outside the language, on which the heap model must predict the real bytes; GetCtx probes through pooled helper events; a concurrent tree under the race detector.",
    note="Trusted: Coq kernel + vm_compute; the slice/heap model (validated by predicting the aliasing of non-linear programs byte for byte); go2coq struct-field/assignment extraction; harness. Statement-level interleavings of goroutines are covered by the sequential theorem only insofar as each interleaving is itself a program of the language; true concurrency (memory model) is observed by the race detector, not proved. Programs whose contexts outgrow 500 bytes are monitored against the path specification but not evaluated in the model (Go's growth policy is not the doubling used for evaluation; the theorem covers every policy).",
    technique="Coq proof (heap ownership invariant, all growth policies) + go2coq field tables + heap-model correspondence incl. programs outside the language",
    design="5 C05"),
}

NOT_YET = {}

def main():
    props = [json.loads(l) for l in open(os.path.join(VERIF, "properties.jsonl"))]
    checks = []
    na = []
    for p in props:
        pid = p["id"]
        if pid in CLAIMED:
            c = CLAIMED[pid]
            checks.append(dict(
                property_id=pid,
                quick_cmd=f"bin/check {pid} --tier quick",
                thorough_cmd=f"bin/check {pid} --tier thorough",
                evidence_file=f"/verif/evidence/{pid}.json",
                replay_cmd_template=f"bin/check {pid} --replay {{path}}",
                engine="coq+harness",
                level_claimed=dict(category="proof", text=c["text"], design_ref="DESIGN.md section " + c["design"]),
                level_note=c["note"],
                technique=c["technique"]))
        else:
            na.append(dict(property_id=pid, reason=NOT_YET.get(pid, "pipeline for this property is not built yet in the current state of /verif (planned: DESIGN.md section 10); it is not claimed until its check runs end to end")))
    m = dict(
        version=1,
        setup_cmd="bin/setup",
        hooks=dict(guard="verif",
                   enable="go build -tags verif -overlay .work/overlay_<driver>.json (files under harness/shim are added to /repo's packages at build time only; nothing is committed to /repo)",
                   baseline_off_cmd="cd /repo && GOFLAGS=-mod=mod GOPROXY=off GOSUMDB=off GOTOOLCHAIN=local go test -vet=off -count=1 ./... ; cd /repo/cmd/lint && GOFLAGS=-mod=mod GOPROXY=off GOSUMDB=off GOTOOLCHAIN=local go test -vet=off -count=1 ./...",
                   source_commits=[], add_only=True),
        engines=[dict(name="coq+harness", path="bin/check", serves_properties=[c["property_id"] for c in checks],
                      kind_free_text="Coq 8.16.1 development (coq/) + go2coq translator + Go differential harness (harness/) driven by lib/verifcheck.py")],
        checks=checks,
        notes="See DESIGN.md. bin/check <id> rebuilds Gen tables and the harness from /repo's working tree on every run.",
        not_applicable=na)
    json.dump(m, open(os.path.join(VERIF, "MANIFEST.json"), "w"), indent=1)
    print(f"claimed {len(checks)}, not claimed {len(na)}")

if __name__ == "__main__":
    main()
