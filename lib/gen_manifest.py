#!/usr/bin/env python3
"""Writes MANIFEST.json from the table below (single source of truth for what is claimed)."""
import json, os
VERIF = os.path.dirname(os.path.dirname(os.path.abspath(__file__)))

CLAIMED = {
 "C13": dict(
    text="Theorems in Coq over an executable model of sampler.go and Logger.should (uint32/int64 wrap written in): exact share of BasicSampler for every history and every interleaving of atomic adds, BurstSampler refines the window specification for every clock sequence, LevelSampler/gate/DisableSampling facts; the model is tied to the code on every run by evaluating it (vm_compute) on the same histories the real samplers ran, plus independent monitors on the real code. K5 (counter wrap) is a theorem (refuted) and a known finding.",
    note="Trusted: Coq kernel + vm_compute, the model of sampler.go (hand-written; checked against the implementation on ~7k histories per run incl. preset counters near 2^32 and int64 clock extremes), the Go harness and overlay accessors. RandomSampler (PRNG) is not modelled. Real goroutine interleavings are sampled (totals only); the all-interleavings claim is the theorem over the atomic-add LTS.",
    technique="Coq proof (induction over histories / schedules) + model-vs-implementation correspondence by vm_compute",
    design="5 C13"),
 "C04": dict(
    text="Theorems in Coq: should() admits iff writer set, level >= logger level and >= global level and the sampler admits (all levels, by lia); a complete logging call writes exactly once at exactly the event's level iff admitted; WithLevel(Disabled) never writes; Panic()/Fatal() fire exactly once filtered or not, WithLevel never; Level text round-trips for all 256 levels (finite, vm_compute lifted with forallb_forall); every exported *Event method of the current source is nil-guarded (obligation over the table go2coq regenerates from /repo on every run). The gate functions' source shapes are re-translated on every run and compared with what the model transcribes; the model is also evaluated against the real Logger on full 256-level rows.",
    note="Trusted: Coq kernel + vm_compute; go2coq (guard-shape recogniser over go/ast: which statement shapes count as a nil guard) and the statement-level comparison of should/newEvent/WithLevel/write/Panic/Fatal with the transcribed shapes (a harmless rewrite of those six functions is reported as broken, no-failing-input-found); Go harness: exhaustive 256x256x256 gate table and reflection-enumerated nil-event calls on the real code; Fatal observed in a re-executed child. strings.EqualFold is modelled for ASCII only.",
    technique="Coq proof + go2coq-regenerated method/shape tables as proof obligations + model-vs-implementation correspondence",
    design="5 C04"),
}

NOT_YET = {}

def main():
    props = [json.loads(l) for l in open(os.path.join(VERIF, "properties.jsonl"))]
    checks = []
    na = []
    for p in props:
        pid = p["id"]
        if pid in CLAIMED:
            c = CLAIMED[pid]
            checks.append(dict(
                property_id=pid,
                quick_cmd=f"bin/check {pid} --tier quick",
                thorough_cmd=f"bin/check {pid} --tier thorough",
                evidence_file=f"/verif/evidence/{pid}.json",
                replay_cmd_template=f"bin/check {pid} --replay {{path}}",
                engine="coq+harness",
                level_claimed=dict(category="proof", text=c["text"], design_ref="DESIGN.md section " + c["design"]),
                level_note=c["note"],
                technique=c["technique"]))
        else:
            na.append(dict(property_id=pid, reason=NOT_YET.get(pid, "pipeline for this property is not built yet in the current state of /verif (planned: DESIGN.md section 10); it is not claimed until its check runs end to end")))
    m = dict(
        version=1,
        setup_cmd="bin/setup",
        hooks=dict(guard="verif",
                   enable="go build -tags verif -overlay .work/overlay_<driver>.json (files under harness/shim are added to /repo's packages at build time only; nothing is committed to /repo)",
                   baseline_off_cmd="cd /repo && GOFLAGS=-mod=mod GOPROXY=off GOSUMDB=off GOTOOLCHAIN=local go test -vet=off -count=1 ./... ; cd /repo/cmd/lint && GOFLAGS=-mod=mod GOPROXY=off GOSUMDB=off GOTOOLCHAIN=local go test -vet=off -count=1 ./...",
                   source_commits=[], add_only=True),
        engines=[dict(name="coq+harness", path="bin/check", serves_properties=[c["property_id"] for c in checks],
                      kind_free_text="Coq 8.16.1 development (coq/) + go2coq translator + Go differential harness (harness/) driven by lib/verifcheck.py")],
        checks=checks,
        notes="See DESIGN.md. bin/check <id> rebuilds Gen tables and the harness from /repo's working tree on every run.",
        not_applicable=na)
    json.dump(m, open(os.path.join(VERIF, "MANIFEST.json"), "w"), indent=1)
    print(f"claimed {len(checks)}, not claimed {len(na)}")

if __name__ == "__main__":
    main()
