#!/usr/bin/env python3
"""seedprompt.py <ID> <round> : prepares a scratch worktree of /repo under /tmp/wt<round>/<ID> and an output directory
/tmp/seed<round>/<ID>, and prints the prompt for an independent sub-agent (property text only + what earlier rounds tried)."""
import sys, os, json, subprocess, importlib.util
pid, rnd = sys.argv[1], int(sys.argv[2])
V = "/verif"
prop = next(json.loads(l) for l in open(f"{V}/properties.jsonl") if json.loads(l)["id"] == pid)
wt, out = f"/tmp/wt{rnd}/{pid}", f"/tmp/seed{rnd}/{pid}"
os.makedirs(out, exist_ok=True)
if not os.path.isdir(wt):
    os.makedirs(os.path.dirname(wt), exist_ok=True)
    subprocess.run(["git", "-C", "/repo", "worktree", "add", "--detach", wt, "HEAD"], check=True, stdout=subprocess.DEVNULL, stderr=subprocess.DEVNULL)
src = open(f"{V}/lib/seeded_table.py").read()
ns = {}
exec(src[src.index("DESC = {"):src.index("rows = []")], ns)
earlier = [f"- {v[0]} (needed: {v[1]})" for k, v in sorted(ns["DESC"].items()) if k.startswith(pid + "-")]
binlog = pid in ("C08", "C09", "C17")
print(f"""You are helping to test a verification tool for the Go library rs/zerolog. Your job is to write two *realistic defective changes* to the library, each of which breaks ONE stated property of the library while still compiling and passing the library's existing test suite. You work ONLY in your own scratch git worktree of the library at {wt} (already created; it is at the library's pinned commit). Never touch /repo or /verif, and do not read anything under /verif.

The property (id {pid}): {prop['title']}

Statement: {prop['statement']}

Quantifier: {prop['quantifier']['text']}

Why the existing tests cannot settle it: {prop['why_tests_cant']}

Code the property is anchored in: {', '.join(prop['anchors']['files'])}

Earlier rounds already tried the following changes against this property; do something DIFFERENT - another code site, another mechanism, another kind of input or history:
{chr(10).join(earlier)}

What to produce - TWO independent changes (each applies alone to the pristine worktree). Each change must:
  * look like something a maintainer could plausibly commit (an optimisation, a refactoring, a "simplification", a new fast path, a tidy-up that is subtly wrong) - not sabotage with an obvious marker;
  * compile (`go build ./...`) and keep the existing test suite passing: `cd {wt} && GOFLAGS=-mod=mod GOPROXY=off GOSUMDB=off GOTOOLCHAIN=local go test -vet=off -count=1 ./...` (the journald test TestWriteReturnsNoOfWrittenBytes fails on the pristine tree too; ignore it){' and also `go test -vet=off -count=1 -tags binary_log . ./internal/cbor`' if binlog else ''};
  * break the property above, and need something SPECIFIC to manifest: a particular interleaving, a fault at a particular point, a multi-step sequence of operations, an unusual input or configuration value, or two cooperating code sites that each look fine alone. Ordinary use (a plain log line) must NOT expose it;
  * come with a demonstration: a tiny separate Go module (directory `demo<k>/` with `go.mod` containing `module demo`, `go 1.21`, `require github.com/rs/zerolog v0.0.0` and `replace github.com/rs/zerolog => {wt}`; copy {wt}/go.sum next to it) holding a `demo_test.go` whose test FAILS with the change applied and PASSES on the pristine worktree (`cd demo<k> && GOFLAGS=-mod=mod GOPROXY=off GOSUMDB=off GOTOOLCHAIN=local go test -count=1 ./...`). The demonstration must assert the property itself (what a user relies on), not an implementation detail. If the demo needs package internals, instead write test files meant to be dropped into a package directory of the library and say so in the first lines of the notes as `DROPIN: <pkg dir>:<-run regexp>` (e.g. `DROPIN: diode:TestSeeded`). If it needs a build tag, put `TAGS: <tag>` in the first lines of the notes.

Write, for k = 1 and 2:
  {out}/patch<k>.diff   - `git diff` of the change relative to the pristine worktree (must apply with `git apply` from the worktree root)
  {out}/demo<k>/        - the demonstration (go.mod, go.sum, demo_test.go)
  {out}/notes<k>.md     - (optional TAGS:/DROPIN: lines first, then) what the change is, why it looks innocent, exactly what it needs in order to manifest, and the outputs you observed (suite with the change; demo with and without)
When you finish a change, reset the worktree (`git -C {wt} checkout -- . && git -C {wt} clean -fdq`) before starting the next, and leave the worktree pristine at the end. Verify everything yourself by actually running the commands (no network is available; the Go env vars above are required on every go command). Your final message should be three or four lines: for each change one sentence saying what it is and what it needs, and whether you verified suite-pass / demo-fail-with / demo-pass-without.""")
