#!/usr/bin/env python3
"""seedall.py [--seed N] [ids...]: applies every recorded seeded change (seeded/<id>/patch.diff) to a scratch
worktree of /repo outside /verif, runs the property's quick check against it (VERIF_REPO) and prints how it was
caught: CONCRETE (a VIOLATION line with a failing input), BROKEN-ONLY (only no-failing-input-found) or MISSED.
The worktree is created and removed here; /repo itself is never modified."""
import sys, os, subprocess, json, re, tempfile, shutil
args = sys.argv[1:]
seed = "1"
if args[:1] == ["--seed"]:
    seed = args[1]; args = args[2:]
V = "/verif"
ids = args or sorted(os.listdir(os.path.join(V, "seeded")))
wt = tempfile.mkdtemp(prefix="wt_seedall_", dir="/tmp")
os.rmdir(wt)
subprocess.run(["git", "-C", "/repo", "worktree", "add", "--detach", wt, "HEAD"], check=True, stdout=subprocess.DEVNULL, stderr=subprocess.DEVNULL)
res = {}
try:
    for sid in ids:
        d = os.path.join(V, "seeded", sid)
        if not os.path.exists(os.path.join(d, "patch.diff")):
            continue
        pid = sid.split("-")[0]
        subprocess.run("git checkout -q -- . && git clean -fdq", cwd=wt, shell=True)
        if subprocess.run(["git", "apply", os.path.join(d, "patch.diff")], cwd=wt).returncode != 0:
            res[sid] = "PATCH-DOES-NOT-APPLY"; print(sid, res[sid], flush=True); continue
        # the checks recorded for this change (its own property's, plus another property's where the change belongs there)
        try:
            checks = list(json.load(open(os.path.join(d, "meta.json")))["checks"].keys())
        except Exception:
            checks = [pid]
        best = "MISSED"
        shown = []
        for cid in checks:
            p = subprocess.run(["bin/check", cid], cwd=V, env=dict(os.environ, VERIF_REPO=wt, VERIF_SEED=seed), stdout=subprocess.PIPE, stderr=subprocess.STDOUT, text=True, errors="replace")
            vio = [l for l in p.stdout.splitlines() if l.startswith("VIOLATION")]
            conc = [l for l in vio if not l.rstrip().endswith("no-failing-input-found")]
            kind = "CONCRETE" if conc else ("BROKEN-ONLY" if vio else "MISSED")
            if p.returncode == 0:
                kind = "MISSED"
            if kind == "CONCRETE" or (kind == "BROKEN-ONLY" and best == "MISSED"):
                best = kind
            shown += [cid + ":" + l.split("replay=")[-1].split("/")[-1] for l in (conc or vio)][:3]
        res[sid] = best
        print(sid, best, shown[:6], flush=True)
finally:
    subprocess.run(["git", "-C", "/repo", "worktree", "remove", "--force", wt])
json.dump(res, open(os.path.join(V, ".work", f"seedall_seed{seed}.json"), "w"), indent=1)
print({k: list(res.values()).count(k) for k in set(res.values())})
