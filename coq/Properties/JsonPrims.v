(* Concrete evaluations of the JSON encoder primitives (the hypotheses of the
   lemmas in Proofs/JsonEncP.v are satisfiable; the parser runs), and the
   assumption audit of the main lemmas. *)
From Coq Require Import QArith.
From Verif Require Import Base.Prelude Base.Decimal Base.Utf8 Base.JsonSpec Enc.JsonEnc
  Proofs.DecimalP Proofs.JsonEncP.
Open Scope N_scope.

(* a"\n e-acute <0xFF> DEL  ->  "a\"\n<C3 A9>�\u007f" *)
Example ex_string :
  json_string [0x61; 0x22; 0x0A; 0xC3; 0xA9; 0xFF; 0x7F]
  = [0x22; 0x61; 0x5C; 0x22; 0x5C; 0x6E; 0xC3; 0xA9; 0x5C; 0x75; 0x66; 0x66; 0x66; 0x64;
     0x5C; 0x75; 0x30; 0x30; 0x37; 0x66; 0x22].
Proof. vm_compute. reflexivity. Qed.

Example ex_runes : go_runes [0x61; 0x22; 0x0A; 0xC3; 0xA9; 0xFF; 0x7F] = [0x61; 0x22; 0x0A; 0xE9; 0xFFFD; 0x7F].
Proof. vm_compute. reflexivity. Qed.

(* the parser reads the encoder's output back *)
Example ex_parse_string :
  parse_json (json_string [0x61; 0x22; 0x0A; 0xC3; 0xA9; 0xFF; 0x7F]) = Some (JStr [0x61; 0x22; 0x0A; 0xE9; 0xFFFD; 0x7F]).
Proof. vm_compute. reflexivity. Qed.

(* {"k":-12,"l":[true,null,1.5e-7],"s":"😀"} with some whitespace *)
Definition ex_obj_txt : list N :=
  [0x7B; 0x22; 107; 0x22; 0x3A; 45; 49; 50; 0x2C; 0x20; 0x22; 108; 0x22; 0x3A; 0x5B; 116; 114; 117; 101; 0x2C;
   110; 117; 108; 108; 0x2C; 0x20; 49; 46; 53; 101; 45; 55; 0x5D; 0x2C; 0x22; 115; 0x22; 0x20; 0x3A;
   0x22; 0x5C; 0x75; 100; 56; 51; 100; 0x5C; 0x75; 100; 101; 48; 48; 0x22; 0x7D; 0x0A].
Example ex_parse_obj :
  parse_json ex_obj_txt =
  Some (JObj [([107], JNum [45; 49; 50]);
              ([108], JArr [JBool true; JNull; JNum [49; 46; 53; 101; 45; 55]]);
              ([115], JStr [0x1F600])]).
Proof. vm_compute. reflexivity. Qed.
Example ex_obj_json : exists v, Json ex_obj_txt v.
Proof. eexists. apply parse_json_sound. vm_compute. reflexivity. Qed.

(* keys and values through AppendKey / AppendInt / AppendBool *)
Example ex_event :
  AppendEndMarker (AppendBool (AppendKey (AppendInt (AppendKey [0x7B] [97]) (-7)) [98]) true)
  = [0x7B; 0x22; 97; 0x22; 0x3A; 45; 55; 0x2C; 0x22; 98; 0x22; 0x3A; 116; 114; 117; 101; 0x7D].
Proof. vm_compute. reflexivity. Qed.

(* integers: no range restriction *)
Example ex_int : print_Z (-9223372036854775808) = [45;57;50;50;51;51;55;50;48;51;54;56;53;52;55;55;53;56;48;56].
Proof. vm_compute. reflexivity. Qed.
Example ex_int_value : num_dec (print_Z (-9223372036854775808)) = Some ((-9223372036854775808)%Z, 0%Z).
Proof. apply num_dec_print_Z. Qed.

(* a float oracle satisfying the hypothesis: 1e-7 as float64, texts 0.0000001 and 1e-07 *)
Definition ex_f : fval :=
  {| f_bits := 0x3e7ad7f29abcaf48;
     f_txt_f := [48; 46; 48; 48; 48; 48; 48; 48; 49];
     f_txt_e := [49; 101; 45; 48; 55] |}.
Example ex_float_ok : float_ok ex_f.
Proof. split; vm_compute; reflexivity. Qed.
Example ex_float_txt : float_txt false ex_f (-1) = [49; 101; 45; 55].
Proof. vm_compute. reflexivity. Qed.
Example ex_float_value : num_dec (float_txt false ex_f (-1)) = Some (1%Z, (-7)%Z) /\ num_dec (f_txt_e ex_f) = Some (1%Z, (-7)%Z).
Proof. split; vm_compute; reflexivity. Qed.
Example ex_float_nan : float_jv false {| f_bits := 0x7ff8000000000001; f_txt_f := []; f_txt_e := [] |} (-1) = JStr str_NaN.
Proof. vm_compute. reflexivity. Qed.
Example ex_float32_inf : float_txt true {| f_bits := 0xff800000; f_txt_f := []; f_txt_e := [] |} 3 = s_ninf.
Proof. vm_compute. reflexivity. Qed.

(* slices *)
Example ex_ints : AppendInts [] [1%Z; (-2)%Z; 30%Z] = [0x5B; 49; 0x2C; 45; 50; 0x2C; 51; 48; 0x5D].
Proof. vm_compute. reflexivity. Qed.
Example ex_empty : AppendStrings [0x3A] [] = [0x3A; 0x5B; 0x5D].
Proof. vm_compute. reflexivity. Qed.

(* object splice *)
Example ex_objdata1 : AppendObjectData [0x7B] [0x7B; 0x22; 97; 0x22; 0x3A; 49] = [0x7B; 0x22; 97; 0x22; 0x3A; 49].
Proof. vm_compute. reflexivity. Qed.
Example ex_objdata2 : AppendObjectData [0x7B; 0x22; 98; 0x22; 0x3A; 50] [0x7B; 0x22; 97; 0x22; 0x3A; 49]
                      = [0x7B; 0x22; 98; 0x22; 0x3A; 50; 0x2C; 0x22; 97; 0x22; 0x3A; 49].
Proof. vm_compute. reflexivity. Qed.

(* a time layout text that satisfies plain_text: 2006-01-02 *)
Example ex_time_plain : plain_text [50; 48; 48; 54; 45; 48; 49; 45; 48; 50].
Proof. apply plain_ascii. repeat (constructor; [unfold printable; lia|]). constructor. Qed.

(* hex *)
Example ex_hex : AppendHex [] [0x00; 0xAB; 0xFF] = [0x22; 48; 48; 97; 98; 102; 102; 0x22].
Proof. vm_compute. reflexivity. Qed.

Print Assumptions go_decode_rune_spec.
Print Assumptions go_runes_Utf8.
Print Assumptions parse_json_sound.
Print Assumptions parse_json_complete.
Print Assumptions json_functional.
Print Assumptions is_json_number_correct.
Print Assumptions parse_print_Z.
Print Assumptions num_value_print_Z.
Print Assumptions json_string_good.
Print Assumptions AppendKey_shape.
Print Assumptions hex_good.
Print Assumptions int_good.
Print Assumptions append_slice_good.
Print Assumptions cleanup_exp_number.
Print Assumptions float_good.
Print Assumptions floats_good.
Print Assumptions time_good.
Print Assumptions durations_good.
Print Assumptions interface_good.
Print Assumptions stringers_good.
Print Assumptions rawcbor_good.
Print Assumptions AppendObjectData_shape.
