(* C02 - Logged values decode back to what was logged, through every entry point.
   Statements only. *)
From Coq Require Import QArith.
From Verif Require Import Base.Prelude Base.Decimal Base.Utf8 Base.JsonSpec Enc.JsonEnc Misc.Level
     Proofs.DecimalP Proofs.JsonEncP Api.Exec Api.Spec Proofs.ExecP
     Misc.GenTypes Gen.EventMethods Gen.ContextMethods Gen.ArrayMethods Gen.FieldsCases Proofs.GenTablesP.
From Verif Require Base.GoSem Gen.FieldSrc Gen.ArraySrc Gen.ContextSrc Proofs.SrcFieldP.
Open Scope N_scope.

(* Parsing an emitted event yields exactly the members the declarative
   specification [event_spec] lists (Api/Spec.v: for every field call the key
   read as text and the value of [prim_jv]), in order, and no other value: the
   text denotes at most one JSON value. For ALL programs, chains, settings. *)
Theorem C02_roundtrip : forall st chain lvl ops msg line,
  chain_ok st chain -> hooks_ok st chain -> ops_ok st ops ->
  fst (run_chain st chain lvl ops msg) = Some line ->
  exists body, line = body ++ [10] /\ Json body (JObj (fst (event_spec st chain lvl ops msg))) /\
    forall v, Json body v -> v = JObj (fst (event_spec st chain lvl ops msg)).
Proof. exact event_members. Qed.

(* the reference parser is sound and complete for the RFC 8259 relation, so
   "parsing" above is not tied to any particular parser *)
Theorem C02_parser_agrees : forall bs v, parse_json bs = Some v <-> Json bs v.
Proof. intros bs v. split; [apply parse_json_sound|apply parse_json_complete]. Qed.

(* --- what the specified values are, type by type --- *)

(* text: exactly Go's reading of the bytes; well-formed UTF-8 reads as its
   scalars, every ill-formed byte as U+FFFD *)
Theorem C02_text_value : forall st s, prim_jv st (PStr s) = JStr (go_runes s) /\ prim_jv st (PBytes s) = JStr (go_runes s).
Proof. intros; split; reflexivity. Qed.
Theorem C02_text_wellformed : forall bs cs, Utf8 bs cs -> go_runes bs = cs.
Proof. exact go_runes_Utf8. Qed.
Theorem C02_text_illformed_byte : forall b t, go_decode_rune (b :: t) = None -> go_runes (b :: t) = 0xFFFD :: go_runes t.
Proof. exact go_runes_invalid. Qed.

(* integers: exact for every mathematical integer, hence over the full 8..64
   bit signed and unsigned ranges: the digits parse back to the value and
   denote it as a rational *)
Theorem C02_int_exact : forall st z,
  prim_jv st (PInt z) = JNum (print_Z z) /\ parse_Z (print_Z z) = Some z /\ num_value (print_Z z) = Some (inject_Z z).
Proof. intros st z. split; [reflexivity|]. split; [apply parse_print_Z|apply num_value_print_Z]. Qed.
Theorem C02_uint_exact : forall st n,
  prim_jv st (PUint n) = JNum (print_N n) /\ parse_N (print_N n) = Some n /\ num_value (print_N n) = Some (inject_Z (Z.of_N n)).
Proof. intros st n. split; [reflexivity|]. split; [apply parse_print_N|apply num_value_print_N]. Qed.

(* floats: NaN / +Inf / -Inf as those strings, exactly for those bit patterns;
   every other pattern as the strconv text ('f', or 'e' with the exponent
   clean-up, which does not change the number denoted) *)
Theorem C02_float_value : forall w32 f prec,
  float_jv w32 f prec =
    if f_isnan w32 (f_bits f) then JStr [78; 97; 78]
    else if f_ispinf w32 (f_bits f) then JStr [43; 73; 110; 102]
    else if f_isninf w32 (f_bits f) then JStr [45; 73; 110; 102]
    else JNum (if f_use_e w32 (f_bits f) prec then cleanup_exp (f_txt_e f) else f_txt_f f).
Proof.
  intros. unfold float_jv, float_txt.
  destruct (f_isnan w32 (f_bits f)); [reflexivity|]. destruct (f_ispinf w32 (f_bits f)); [reflexivity|].
  destruct (f_isninf w32 (f_bits f)); reflexivity.
Qed.
Theorem C02_float_cleanup_same_number : forall t, is_json_number t = true -> num_value (cleanup_exp t) = num_value t.
Proof. exact cleanup_exp_num_value. Qed.

(* times per TimeFieldFormat (integer formats: Go's truncating division), durations per unit / integer flag *)
Theorem C02_time_value : forall t f,
  time_jv t f = match f with
                | TFUnix => JNum (print_Z (t_unix t))
                | TFUnixMs => JNum (print_Z (Z.quot (t_unixnano t) 1000000))
                | TFUnixMicro => JNum (print_Z (Z.quot (t_unixnano t) 1000))
                | TFUnixNano => JNum (print_Z (t_unixnano t))
                | TFLayout => JStr (go_runes (t_fmt t))
                end.
Proof. intros t f; destruct f; reflexivity. Qed.
Theorem C02_duration_value : forall d unit useInt prec,
  duration_jv d unit useInt prec = if useInt then JNum (print_Z (wrap64 (Z.quot (d_ns d) unit))) else float_jv false (d_quot d) prec.
Proof. reflexivity. Qed.
(* ... which is the exact truncated quotient for every int64 duration and every unit other
   than 0 (Go panics: excluded by the premise dur_ok) and -1 (MinInt64 / -1 wraps in Go too) *)
Theorem C02_duration_value_exact : forall d unit prec,
  (- two63Z <= d_ns d < two63Z)%Z -> unit <> 0%Z -> unit <> (-1)%Z ->
  duration_jv d unit true prec = JNum (print_Z (Z.quot (d_ns d) unit)).
Proof. exact duration_jv_exact. Qed.

(* Hex, RawCBOR, nil *)
Theorem C02_hex_value : forall st s, prim_jv st (PHex s) = JStr (flat_map (fun v => [hex_digit (v / 16); hex_digit (v mod 16)]) s).
Proof. reflexivity. Qed.
Theorem C02_rawcbor_value : forall st b64, prim_jv st (PRawCBOR b64) = JStr (cbor_pfx ++ b64).
Proof. reflexivity. Qed.
Theorem C02_nil_value : forall st, prim_jv st PNil = JNull.
Proof. reflexivity. Qed.

(* a nil error adds no field through Err / AnErr, and is null inside slices and Fields *)
Theorem C02_nil_error : forall st sp key s,
  an_err_members sp key ENil s = ([], s) /\ an_err_members sp key ETypedNil s = ([], s) /\
  errv_jv st sp ETypedNil = JNull.
Proof. intros; repeat split; reflexivity. Qed.

(* slice variants: element i is encoded exactly like the scalar *)
Theorem C02_slice_elements : forall st,
  (forall l, prim_jv st (PInts l) = JArr (map (fun z => prim_jv st (PInt z)) l)) /\
  (forall l, prim_jv st (PUints l) = JArr (map (fun n => prim_jv st (PUint n)) l)) /\
  (forall l, prim_jv st (PStrs l) = JArr (map (fun s => prim_jv st (PStr s)) l)) /\
  (forall l, prim_jv st (PBools l) = JArr (map (fun b => prim_jv st (PBool b)) l)) /\
  (forall l, prim_jv st (PFs32 l) = JArr (map (fun f => prim_jv st (PF32 f)) l)) /\
  (forall l, prim_jv st (PFs64 l) = JArr (map (fun f => prim_jv st (PF64 f)) l)) /\
  (forall l, prim_jv st (PTimes l) = JArr (map (fun t => prim_jv st (PTime t)) l)) /\
  (forall l, prim_jv st (PDurs l) = JArr (map (fun d => prim_jv st (PDur d)) l)).
Proof. intros; repeat split; reflexivity. Qed.

(* the same (type, value) encodes identically through Event, Array, Fields and
   Context (and hence Dict / Object members, which are events): one text function *)
Theorem C02_entry_points_agree : forall st p, prim_ok st p ->
  (forall e key, e_buf (exec st (OKey key p) e) = AppendKey (e_buf e) key ++ prim_txt st p) /\
  (forall buf marks ex, fst (arr_op st ex (AElem p) (buf, marks)) = AppendArrayDelim buf ++ prim_txt st p) /\
  (forall ex stack dst marks, fst (field_value st ex stack dst marks (FVPrim p)) = dst ++ prim_txt st p) /\
  (forall l key, l_context (ctx_exec st (COp (OKey key p)) l) = AppendKey (l_context l) key ++ prim_txt st p).
Proof. exact entry_points_agree. Qed.

(* ... and in the CURRENT source (tables regenerated by go2coq on every run):
   every regular method of Event, Context, Array and every simple case of the
   Fields type switch calls the canonical primitive of its Go parameter type,
   key first, with the same global settings; and the set of regular methods /
   simple cases is the expected one (nothing silently became irregular) *)
Theorem C02_event_table_canonical : forallb keyed_ok event_methods = true.
Proof. exact event_table_canonical. Qed.
Theorem C02_context_table_canonical : forallb keyed_ok context_methods = true.
Proof. exact context_table_canonical. Qed.
Theorem C02_array_table_canonical : forallb elem_ok array_methods = true.
Proof. exact array_table_canonical. Qed.
Theorem C02_fields_cases_canonical : forallb fcase_ok fields_cases = true.
Proof. exact fields_cases_canonical. Qed.
Theorem C02_tables_complete :
  list_eqb_s (keyprim_names event_methods) event_regular = true /\
  list_eqb_s (keyprim_names context_methods) context_regular = true /\
  list_eqb_s (keyprim_names array_methods) array_regular = true /\
  list_eqb_s simple_case_types fields_simple_types = true.
Proof. exact (conj event_regular_complete (conj context_regular_complete (conj array_regular_complete fields_simple_complete))). Qed.

Example C02_ex : forall st, prim_jv st (PInts [-9223372036854775808; 255]%Z) = JArr [JNum [45;57;50;50;51;51;55;50;48;51;54;56;53;52;55;55;53;56;48;56]; JNum [50;53;53]].
Proof. intros. vm_compute. reflexivity. Qed.

(* ... and the field methods THEMSELVES, not only their call tables: the machine translation of
   event.go's Str, Strs, Bytes, Hex, RawJSON, Bool(s), Int..(s), Uint..(s), Float32/64, Floats32/64,
   Time(s), Dur(s) (Gen/FieldSrc.v, regenerated by harness/cmd/srcgen on every run) returns, within
   the guards of the encoder refinement (Proofs/SrcJsonP.v) collected in [fcall_ok], the receiver
   whose buffer is the model's [append_prim] after [AppendKey] - what [exec st (OKey key p)] does -
   every other field of the event unchanged.  Durs: integer mode only (DurationFieldInteger). *)
Theorem C02_source_event_fields : forall fo fq prec tf du di st e key c,
  SrcFieldP.settings_agree st prec tf du di -> SrcFieldP.key_pre e key ->
  SrcFieldP.fcall_ok fo fq prec du di (AppendKey (FieldSrc.Event_buf e) key) c ->
  SrcFieldP.run_fcall fo fq prec tf du di e key c =
  GoSem.Ok (let b := append_prim st (AppendKey (FieldSrc.Event_buf e) key) (SrcFieldP.prim_of c) in
      (FieldSrc.set_Event_buf e b, FieldSrc.set_Event_buf e b)).
Proof. exact SrcFieldP.event_fields_refine_model. Qed.
Theorem C02_source_event_fields_exec : forall fo fq prec tf du di st e key c ev0,
  SrcFieldP.settings_agree st prec tf du di -> SrcFieldP.key_pre e key ->
  SrcFieldP.fcall_ok fo fq prec du di (AppendKey (FieldSrc.Event_buf e) key) c ->
  e_buf ev0 = FieldSrc.Event_buf e ->
  SrcFieldP.run_fcall fo fq prec tf du di e key c =
  GoSem.Ok (FieldSrc.set_Event_buf e (e_buf (exec st (OKey key (SrcFieldP.prim_of c)) ev0)),
      FieldSrc.set_Event_buf e (e_buf (exec st (OKey key (SrcFieldP.prim_of c)) ev0))) /\
  exec st (OKey key (SrcFieldP.prim_of c)) ev0 = key_prim st ev0 key (SrcFieldP.prim_of c).
Proof. exact SrcFieldP.event_fields_refine_exec. Qed.
(* array.go's element methods (Gen/ArraySrc.v) against the model's [AElem]: same buffer, the marks
   and the array's recorded calls untouched *)
Theorem C02_source_array_elems : forall fo fq prec tf du di st ex marks a c,
  SrcFieldP.settings_agree st prec tf du di ->
  SrcFieldP.acall_ok fo fq prec du di (AppendArrayDelim (ArraySrc.Array_buf a)) c ->
  SrcFieldP.run_acall fo fq prec tf du di a c =
  GoSem.Ok (let b := fst (arr_op st ex (AElem (SrcFieldP.aprim_of c)) (ArraySrc.Array_buf a, marks)) in
      (ArraySrc.set_Array_buf a b, ArraySrc.set_Array_buf a b)) /\
  snd (arr_op st ex (AElem (SrcFieldP.aprim_of c)) (ArraySrc.Array_buf a, marks)) = marks /\
  (forall b, ArraySrc.Array_calls (ArraySrc.set_Array_buf a b) = ArraySrc.Array_calls a).
Proof. exact SrcFieldP.array_elems_refine_model. Qed.
(* Array.write: "[" buf "]" after dst, then the array goes back to its pool; with the buffer the
   model's element ops built, the bytes written are the model's [array_bytes] *)
Theorem C02_source_array_write : forall st ex es marks a dst,
  ArraySrc.write a dst =
    GoSem.Ok (dst ++ [91] ++ ArraySrc.Array_buf a ++ [93],
        ArraySrc.set_Array_calls a (ArraySrc.Array_calls a ++ [SrcFieldP.putArray_call])) /\
  (ArraySrc.Array_buf a = fst (arr_list st ex es ([], marks)) ->
   ArraySrc.write a dst =
     GoSem.Ok (dst ++ fst (array_bytes st ex es marks),
         ArraySrc.set_Array_calls a (ArraySrc.Array_calls a ++ [SrcFieldP.putArray_call]))).
Proof. exact SrcFieldP.array_write_refines_model. Qed.
(* context.go's field methods (Gen/ContextSrc.v; value receiver: the returned Context carries the new
   l.context, the caller's Context is unchanged) against the model: the same calls, the same guards *)
Theorem C02_source_context_fields : forall fo fq prec tf du di st cx key c,
  SrcFieldP.settings_agree st prec tf du di -> SrcFieldP.ckey_pre cx key ->
  SrcFieldP.fcall_ok fo fq prec du di (AppendKey (ContextSrc.Context_l_context cx) key) c ->
  SrcFieldP.run_ccall fo fq prec tf du di cx key c =
  GoSem.Ok (let b := append_prim st (AppendKey (ContextSrc.Context_l_context cx) key) (SrcFieldP.prim_of c) in
      (ContextSrc.set_Context_l_context cx b, cx)).
Proof. exact SrcFieldP.context_fields_refine_model. Qed.
Theorem C02_source_context_fields_exec : forall fo fq prec tf du di st cx key c lg,
  SrcFieldP.settings_agree st prec tf du di -> SrcFieldP.ckey_pre cx key ->
  SrcFieldP.fcall_ok fo fq prec du di (AppendKey (ContextSrc.Context_l_context cx) key) c ->
  l_context lg = ContextSrc.Context_l_context cx ->
  SrcFieldP.run_ccall fo fq prec tf du di cx key c =
  GoSem.Ok (ContextSrc.set_Context_l_context cx (l_context (ctx_exec st (COp (OKey key (SrcFieldP.prim_of c))) lg)), cx).
Proof. exact SrcFieldP.context_fields_refine_ctx_exec. Qed.
(* the two entry points in the source: from the same starting bytes the Event method and the
   Context method of the same call append the same bytes *)
Theorem C02_source_entry_points_agree : forall fo fq prec tf du di st e cx key c,
  SrcFieldP.settings_agree st prec tf du di -> SrcFieldP.key_pre e key ->
  SrcFieldP.fcall_ok fo fq prec du di (AppendKey (FieldSrc.Event_buf e) key) c ->
  FieldSrc.Event_buf e = ContextSrc.Context_l_context cx ->
  exists b,
    SrcFieldP.run_fcall fo fq prec tf du di e key c = GoSem.Ok (FieldSrc.set_Event_buf e b, FieldSrc.set_Event_buf e b) /\
    SrcFieldP.run_ccall fo fq prec tf du di cx key c = GoSem.Ok (ContextSrc.set_Context_l_context cx b, cx) /\
    b = append_prim st (AppendKey (FieldSrc.Event_buf e) key) (SrcFieldP.prim_of c).
Proof. exact SrcFieldP.event_context_fields_agree. Qed.
(* every function of the three translation units was translated, none skipped *)
Theorem C02_source_fields_translated_set :
  length FieldSrc.translated_functions = 38%nat /\ length FieldSrc.skipped_functions = 0%nat /\
  length ArraySrc.translated_functions = 21%nat /\ length ArraySrc.skipped_functions = 0%nat /\
  length ContextSrc.translated_functions = 36%nat /\ length ContextSrc.skipped_functions = 0%nat.
Proof. exact SrcFieldP.field_counts. Qed.

Print Assumptions C02_roundtrip.
Print Assumptions C02_parser_agrees.
Print Assumptions C02_text_value.
Print Assumptions C02_text_wellformed.
Print Assumptions C02_text_illformed_byte.
Print Assumptions C02_int_exact.
Print Assumptions C02_uint_exact.
Print Assumptions C02_float_value.
Print Assumptions C02_float_cleanup_same_number.
Print Assumptions C02_time_value.
Print Assumptions C02_duration_value.
Print Assumptions C02_duration_value_exact.
Print Assumptions C02_hex_value.
Print Assumptions C02_rawcbor_value.
Print Assumptions C02_nil_value.
Print Assumptions C02_nil_error.
Print Assumptions C02_slice_elements.
Print Assumptions C02_entry_points_agree.
Print Assumptions C02_event_table_canonical.
Print Assumptions C02_context_table_canonical.
Print Assumptions C02_array_table_canonical.
Print Assumptions C02_fields_cases_canonical.
Print Assumptions C02_tables_complete.
Print Assumptions C02_source_event_fields.
Print Assumptions C02_source_event_fields_exec.
Print Assumptions C02_source_array_elems.
Print Assumptions C02_source_array_write.
Print Assumptions C02_source_context_fields.
Print Assumptions C02_source_context_fields_exec.
Print Assumptions C02_source_entry_points_agree.
Print Assumptions C02_source_fields_translated_set.
