(* C18 - hlog keeps requests isolated and reports what was actually sent.
   Only statements live here; every proof is [exact <lemma>] from Proofs/HlogP.v.
   Models: Misc/Hlog.v (response proxy of AccessHandler, WrapWriter selection),
   Misc/HlogHeap.v (slices over backing arrays; NewHandler's With().Logger() copy
   and the field handlers' UpdateContext appends). *)
From Verif Require Import Base.Prelude Misc.Hlog Misc.HlogNest Misc.HlogHeap Proofs.HlogP Proofs.HlogNestP.
From Verif Require Base.GoSem Base.GoEff Base.GoExt Gen.ProxySrc Proofs.SrcProxyP.

(* ---------------- what AccessHandler reports ---------------- *)
Open Scope Z_scope.

(* For EVERY capability set of the underlying ResponseWriter (WrapWriter's
   selection included), EVERY handler behaviour - any sequence of WriteHeader /
   Write / ReadFrom calls (Flush calls may be interspersed: they change neither
   number) - and EVERY answer of the underlying writer (any accepted count
   0 <= n <= len, with or without error): the reported status is the first
   WriteHeader's code, else 200 if a body write came first, else 0; the reported
   size is the sum of the byte counts the underlying writer accepted; and both
   equal what the underlying writer itself recorded (the first WriteHeader it
   received, the sum of what it accepted).  Premise on the size: the total stays
   below 2^63 (BytesWritten is a Go int). *)
Theorem C18_status_bytes : forall c ops, Forall op_ok ops -> spec_bytes (wrap_writer c) ops < two63Z ->
  let '(status, bytes, calls) := report c ops in
  let k := wrap_writer c in
  status = spec_status k ops /\ bytes = spec_bytes k ops /\
  status = first_header calls /\ bytes = total_accepted calls.
Proof. exact status_bytes. Qed.

(* without any premise: the status as above; the size is the wrapped (int64) running sum *)
Theorem C18_status_bytes_wrap : forall c ops,
  let '(status, bytes, calls) := report c ops in
  let k := wrap_writer c in
  status = spec_status k ops /\ bytes = wsum 0 (accepted_list k ops) /\
  status = first_header calls /\ accepted_calls calls = accepted_list k ops.
Proof. exact status_bytes_wrap. Qed.

(* a WriteHeader after the header went out (explicitly or by a body write) never changes the report *)
Theorem C18_first_header_wins : forall k ops1 c ops2,
  spec_status k (ops1 ++ OWriteHeader c :: ops2) =
  if existsb (fun x => match x with OWriteHeader _ => true | _ => body_write k x end) ops1
  then spec_status k ops1 else c.
Proof. exact first_header_wins. Qed.

(* WrapWriter: fancyWriter only for CloseNotifier+Flusher+Hijacker+ReaderFrom, flushWriter for any other Flusher *)
Theorem C18_wrap_writer_selection : forall c,
  wrap_writer c = KFancy /\ c_closenotifier c = true /\ c_flusher c = true /\ c_hijacker c = true /\ c_readerfrom c = true \/
  wrap_writer c = KFlush /\ c_flusher c = true /\ (c_closenotifier c && c_hijacker c && c_readerfrom c = false) \/
  wrap_writer c = KBasic /\ c_flusher c = false.
Proof. exact wrap_writer_cases. Qed.

(* Stacked AccessHandlers (Misc/HlogNest.v): the ResponseWriter an AccessHandler is given is the proxy of another
   AccessHandler further out, and calls are made between the two (a middleware sending a prefix or the status
   before it calls the next handler, or something after it returned).  [xs] lists every call in execution order
   with the number of proxies it passes through.  For EVERY capability set of the underlying writer, EVERY number
   of stacked handlers, EVERY placement of the calls and EVERY answer of the underlying writer: the j-th
   AccessHandler from the outside reports the first WriteHeader made INSIDE it (200 if a body write came first, 0
   if nothing was sent inside it) and the (wrapping) sum of the byte counts accepted for the body writes made
   inside it - whatever was sent outside it; and when every call goes through the outermost one, the underlying
   writer received that one's status first and accepted exactly its body writes. *)
Theorem C18_nested_status_bytes : forall c levels xs,
  let '(reps, calls) := nest_report c levels xs in
  let k := wrap_writer c in
  reps = map (fun j => (spec_status k (ops_from j xs), wsum 0 (accepted_list k (ops_from j xs)))) (seq 1 levels) /\
  ((1 <= levels)%nat -> Forall (fun dx => (1 <= fst dx)%nat) xs ->
   first_header calls = spec_status k (ops_from 1 xs) /\ accepted_calls calls = accepted_list k (ops_from 1 xs)).
Proof. exact nested_status_bytes. Qed.

Close Scope Z_scope.
Open Scope nat_scope.

(* ---------------- request isolation ---------------- *)
(* For every growth policy of append, every initial heap and base logger (a
   well-formed context of at least the '{', or nil), every set of requests with
   any chains of field handlers (request i appends the chunks [nth i work []],
   one Go append each) and EVERY interleaving [sched] of the requests' steps
   (NewHandler's With() first, then its appends in order), at every moment:
   each request's context is exactly the base bytes followed by the chunks it
   has appended so far - never another request's - and no backing array is
   written or allocated by two different requests; every array a request
   touches was allocated after the requests started. *)
Theorem C18_request_isolation : forall grow h0 base work sched, base_ok h0 base ->
  let s := run_sched true grow base (init_state h0 work) sched in
  (forall i r, nth_error (st_reqs s) i = Some r ->
     rq_done r ++ rq_todo r = nth i work [] /\
     match rq_logger r with
     | Some l => view (st_heap s) l = base_bytes h0 base ++ concat (rq_done r)
     | None => rq_done r = []
     end) /\
  (forall a i j, In (i, a) (st_log s) -> In (j, a) (st_log s) -> i = j) /\
  (forall i a, In (i, a) (st_log s) -> length h0 <= a).
Proof. exact request_isolation. Qed.

(* once all of a request's handlers have run, its events carry base ++ exactly its own fields *)
Theorem C18_request_isolation_complete : forall grow h0 base work sched i chunks, base_ok h0 base ->
  nth_error work i = Some chunks ->
  let s := run_sched true grow base (init_state h0 work) sched in
  (exists r, nth_error (st_reqs s) i = Some r /\ rq_logger r <> None /\ rq_todo r = []) ->
  request_context s i = Some (base_bytes h0 base ++ concat chunks).
Proof. exact request_isolation_complete. Qed.

(* the logger passed to NewHandler is left unchanged: its bytes, and every byte of every array that
   existed before (in particular the spare capacity behind its context) *)
Theorem C18_base_unchanged : forall grow h0 base work sched, base_ok h0 base ->
  let s := run_sched true grow base (init_state h0 work) sched in
  (forall b, b < length h0 -> array (st_heap s) b = array h0 b) /\
  (forall bs, base = Some bs -> view (st_heap s) bs = view h0 bs).
Proof. exact base_unchanged. Qed.

(* non-vacuity *)
Example C18_ex_ops_ok :
  Forall op_ok [OWrite 3 {| o_n := 1; o_err := true |}; OWriteHeader 404; OReadFrom 5 {| o_n := 5; o_err := false |}; OFlush].
Proof. repeat (apply Forall_cons; [cbn [op_ok o_n]; try lia; exact I|]). apply Forall_nil. Qed.

Example C18_ex_report :
  report full_caps [OFlush; OWrite 3 {| o_n := 1; o_err := true |}; OWriteHeader 404; OReadFrom 5 {| o_n := 5; o_err := false |}]
  = (200, 6, [UFlush; UWriteHeader 200; UWrite 3 1; UReadFrom 5 5])%Z.
Proof. vm_compute. reflexivity. Qed.

Example C18_ex_base_ok : base_ok demo_h0 (Some demo_base) /\ base_ok [] None.
Proof. cbv -[lt]. repeat split; lia. Qed.

(* a middleware between two AccessHandlers sends 202 and a 6-byte prefix, the inner handler writes 7 bytes *)
Example C18_ex_nested :
  nest_report {| c_closenotifier := false; c_flusher := false; c_hijacker := false; c_readerfrom := false |} 2
    [(1, OWriteHeader 202); (1, OWrite 6 {| o_n := 6; o_err := false |}); (2, OWrite 7 {| o_n := 7; o_err := false |})]
  = ([(202, 13); (200, 7)], [UWriteHeader 202; UWrite 6 6; UWrite 7 7])%Z.
Proof. exact nested_example. Qed.

(* two requests, interleaved, base with spare capacity: each sees only its own bytes *)
Example C18_ex_isolated :
  let s := run_sched true (fun c n => 2 * c) (Some demo_base) (init_state demo_h0 [[[44; 65; 65]%N]; [[44; 66; 66]%N]]) [0; 1; 0; 1] in
  request_context s 0 = Some [123; 34; 98; 34; 58; 49; 44; 65; 65]%N /\
  request_context s 1 = Some [123; 34; 98; 34; 58; 49; 44; 66; 66]%N.
Proof. vm_compute. auto. Qed.

(* why NewHandler's copy matters: the same run when the base logger's header is handed out as is *)
Example C18_ex_copy_is_needed :
  let s := run_sched false (fun c n => 2 * c) (Some demo_base) (init_state demo_h0 [[[44; 65; 65]%N]; [[44; 66; 66]%N]]) [0; 1; 0; 1] in
  request_context s 0 = Some [123; 34; 98; 34; 58; 49; 44; 66; 66]%N /\
  request_context s 1 = Some [123; 34; 98; 34; 58; 49; 44; 66; 66]%N.
Proof. exact without_copy_requests_interfere. Qed.

(* ---- the source of the response proxy: basicWriter's WriteHeader, Write, maybeWriteHeader, Status and BytesWritten
   (hlog/internal/mutil/writer_proxy.go) are re-translated by srcgen on every run (Gen/ProxySrc.v) and equal the model:
   the record of the struct's fields is abstracted to the model's [proxy] by [SrcProxyP.abs]; the embedded
   ResponseWriter and the tee are opaque - the calls made on them are logged and what they answer is the environment
   [ans], for every [ans]. ---- *)
Open Scope Z_scope.
Theorem C18_source_write_header : forall (ans : nat -> GoExt.oval) b code,
  exists b', ProxySrc.WriteHeader ans b code = GoSem.Ok (tt, b') /\
    SrcProxyP.abs b' = fst (write_header (SrcProxyP.abs b) code) /\
    ProxySrc.basicWriter_calls b' = ProxySrc.basicWriter_calls b ++ SrcProxyP.header_calls (snd (write_header (SrcProxyP.abs b) code)) /\
    ProxySrc.basicWriter_ResponseWriter b' = ProxySrc.basicWriter_ResponseWriter b.
Proof. exact SrcProxyP.WriteHeader_src. Qed.

(* Write: the implicit 200 header if none was sent, ONE Write on the underlying writer, whose answer (n, err) becomes
   the model's outcome; n is added to the byte count whatever err is; with a tee, buf[:n] goes to it (premise: the
   underlying writer's n is within the buffer, otherwise the Go code panics slicing) *)
Theorem C18_source_write : forall (ans : nat -> GoExt.oval) b buf,
  let hdr := snd (write_header (SrcProxyP.abs b) 200) in
  let k := (length (ProxySrc.basicWriter_calls b) + length (SrcProxyP.header_calls hdr))%nat in
  let n := GoExt.oval_int (GoExt.oval_fst (ans k)) in
  let err := GoExt.oval_err (GoExt.oval_snd (ans k)) in
  (ProxySrc.basicWriter_tee b = true -> 0 <= n <= GoSem.len buf) ->
  exists b' err', ProxySrc.Write ans b buf = GoSem.Ok ((n, err'), b') /\
    SrcProxyP.abs b' = fst (write (SrcProxyP.abs b) (GoSem.len buf) {| o_n := n; o_err := negb (GoEff.err_isnil err) |}) /\
    ProxySrc.basicWriter_calls b' = ProxySrc.basicWriter_calls b ++ SrcProxyP.header_calls hdr ++
       [GoExt.OCall SrcProxyP.fRW SrcProxyP.mWrite [GoExt.OVBytes buf]] ++
       (if ProxySrc.basicWriter_tee b then [GoExt.OCall SrcProxyP.fTee SrcProxyP.mWrite [GoExt.OVBytes (GoSem.slice buf 0 n)]] else []) /\
    err' = (if ProxySrc.basicWriter_tee b then (if GoEff.err_isnil err then GoExt.oval_err (GoExt.oval_snd (ans (S k))) else err) else err).
Proof. exact SrcProxyP.Write_src. Qed.

Theorem C18_source_status_bytes : forall b,
  ProxySrc.Status b = GoSem.Ok (p_code (SrcProxyP.abs b), b) /\ ProxySrc.BytesWritten b = GoSem.Ok (p_bytes (SrcProxyP.abs b), b).
Proof. intros b. split; reflexivity. Qed.

Theorem C18_source_translated_set :
  length ProxySrc.translated_functions = 5%nat /\ length ProxySrc.skipped_functions = 0%nat.
Proof. exact SrcProxyP.proxy_counts. Qed.

Print Assumptions C18_status_bytes.
Print Assumptions C18_status_bytes_wrap.
Print Assumptions C18_nested_status_bytes.
Print Assumptions C18_first_header_wins.
Print Assumptions C18_wrap_writer_selection.
Print Assumptions C18_request_isolation.
Print Assumptions C18_request_isolation_complete.
Print Assumptions C18_base_unchanged.
Print Assumptions C18_source_write_header.
Print Assumptions C18_source_write.
Print Assumptions C18_source_status_bytes.
Print Assumptions C18_source_translated_set.
