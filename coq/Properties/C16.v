(* C16 - ConsoleWriter renders every event losslessly and deterministically.
   Only statements live here; every proof is [exact <lemma>] from
   Proofs/ConsoleP.v.  bin/check recompiles this file on every run and reads
   the Print Assumptions output.

   Vocabulary (Misc/Console.v).  [evt] is the event as encoding/json decodes
   it into a map (distinct keys, last duplicate already applied); [order] is
   the same association list in the order in which Go happens to iterate the
   map -- any permutation.  [console_writes O o order inlen names r] says: on
   that iteration order, with configuration [o] and standard-library
   behaviour [O] (arbitrary functions: strconv.Quote, fmt %s, time formatting,
   ...), for SOME outcome of sort.Strings / sort.Slice that satisfies sort's
   postcondition, Write renders the field names [names] in that order and
   returns [r] = (bytes written to Out, n, err).  [wanted o evt] are the keys
   other than level/time/message/caller that are not in FieldsExclude.
   All theorems hold for every event (any number of fields, any keys incl.
   the empty key and the reserved names), every iteration order, every
   option combination and every oracle. *)
From Coq Require Import String Ascii Permutation Sorted.
From Verif Require Import Base.Prelude Misc.Console Proofs.ConsoleP.
From Verif Require Base.GoSem Gen.RootSrc Proofs.SrcRootP.

(* "every remaining field" spelled out *)
Theorem C16_wanted_spec : forall o evt k,
  In k (wanted o evt) <->
  In k (map fst evt) /\ ~ In k (co_fields_exclude o) /\
  k <> n_level /\ k <> n_time /\ k <> n_message /\ k <> n_caller.
Proof. exact wanted_spec. Qed.

(* The line is: the non-excluded parts of PartsOrder (those whose text is not
   empty), then one name=value per rendered name, single spaces in between, a
   final newline; and the rendered names are a permutation of the wanted keys
   -- every one exactly once, nothing else. *)
Theorem C16_fields_exactly_once : forall O o evt order inlen names r,
  NoDup (map fst evt) -> Permutation evt order ->
  console_writes O o order inlen names r ->
  Permutation names (wanted o evt) /\ NoDup names /\
  r_out r = join_sp (rendered_parts O o (lookup evt) ++ map (field_text O (lookup evt)) names) ++ [10%N].
Proof. exact fields_exactly_once. Qed.

(* name=value *)
Theorem C16_field_text : forall O get k,
  field_text O get k = k ++ [61%N] ++ value_text O (get k).
Proof. exact field_text_eq. Qed.

(* the parts: PartsOrder (default time, level, caller, message) minus PartsExclude, in that order *)
Theorem C16_parts_in_order : forall O o get,
  write_parts O o get = join_sp (rendered_parts O o get) /\
  rendered_parts O o get =
    filter nonempty (map (part_text O o get)
      (filter (fun p => negb (mem p (co_parts_exclude o)))
        (match co_parts_order o with None => [n_time; n_level; n_caller; n_message] | Some po => po end))).
Proof. intros O o get. split; [exact (write_parts_shape O o get)|reflexivity]. Qed.

(* FieldsOrder empty: the error field first, the rest strictly increasing in
   Go's string order *)
Theorem C16_order_default : forall O o evt order inlen names r,
  NoDup (map fst evt) -> Permutation evt order -> co_fields_order o = [] ->
  console_writes O o order inlen names r ->
  exists rest,
    names = (if mem n_error (wanted o evt) then [n_error] else []) ++ rest /\
    StronglySorted blt_p rest /\ ~ In n_error rest.
Proof. exact order_default. Qed.

(* FieldsOrder set: apart from the error field (whose position the property
   leaves open) the names are: those listed in FieldsOrder, ordered by their
   position there (the last one if a name is listed twice), then the others
   strictly increasing *)
Theorem C16_order_fieldsorder : forall O o evt order inlen names r,
  NoDup (map fst evt) -> Permutation evt order -> co_fields_order o <> [] ->
  console_writes O o order inlen names r ->
  exists listed rest,
    filter not_error names = filter not_error (listed ++ rest) /\
    Permutation (listed ++ rest) (wanted o evt) /\
    (forall k, In k listed -> In k (co_fields_order o)) /\
    (forall k, In k rest -> ~ In k (co_fields_order o)) /\
    StronglySorted (idx_lt (co_fields_order o)) listed /\ StronglySorted blt_p rest.
Proof. exact order_fieldsorder. Qed.

(* ... and when FieldsOrder lists no name twice, the listed block is literally
   FieldsOrder restricted to the rendered names *)
Theorem C16_order_fieldsorder_nodup : forall O o evt order inlen names r,
  NoDup (map fst evt) -> Permutation evt order ->
  co_fields_order o <> [] -> NoDup (co_fields_order o) ->
  console_writes O o order inlen names r ->
  exists rest,
    filter not_error names =
      filter not_error (filter (fun k => mem k (wanted o evt)) (co_fields_order o) ++ rest) /\
    Permutation (filter (fun k => mem k (wanted o evt)) (co_fields_order o) ++ rest) (wanted o evt) /\
    (forall k, In k rest -> ~ In k (co_fields_order o)) /\
    StronglySorted blt_p rest.
Proof. exact order_fieldsorder_nodup. Qed.

(* strings: Go-quoted (the strconv.Quote oracle's answer) iff some byte is a
   space, quote, backslash, control byte (C0 or DEL) or non-ASCII, else verbatim *)
Theorem C16_quote_rule : forall O s,
  value_text O (CStr s) = (if needs_quote s then o_quote O s else s) /\
  (needs_quote s = true <-> exists c, In c s /\ special_byte c).
Proof. intros O s. split; [exact (quote_rule O s)|exact (needs_quote_spec s)]. Qed.

(* premise: strconv.Quote adds at least the two quotes *)
Theorem C16_quote_rule_iff : forall O s, (forall x, length x + 2 <= length (o_quote O x)) ->
  (value_text O (CStr s) = s <-> forall c, In c s -> ~ special_byte c).
Proof. exact quote_rule_iff. Qed.

(* the code's predicate, byte by byte; 127 (DEL) is quoted: it is the one byte
   on which "control byte" can be read both ways *)
Theorem C16_quote_byte_spec : forall c,
  quote_byte c = true <-> (c = 32 \/ c = 34 \/ c = 92 \/ c < 32 \/ c = 127 \/ 128 <= c)%N.
Proof. exact quote_byte_spec. Qed.

Theorem C16_numbers_verbatim : forall O t, value_text O (CNum t) = t.
Proof. exact numbers_verbatim. Qed.

(* other values: compact JSON (nested values carry their re-marshalling) *)
Theorem C16_other_values : forall O,
  (forall j, value_text O (COther j) = j) /\
  value_text O (CBool true) = bs "true" /\ value_text O (CBool false) = bs "false" /\
  value_text O CNull = bs "null".
Proof. exact other_values. Qed.

(* same event, same configuration: the same bytes (and n, err), whatever the
   two iteration orders and whatever the two sort outcomes *)
Theorem C16_deterministic : forall O o evt order1 order2 inlen names1 names2 r1 r2,
  NoDup (map fst evt) -> Permutation evt order1 -> Permutation evt order2 ->
  console_writes O o order1 inlen names1 r1 -> console_writes O o order2 inlen names2 r2 ->
  r1 = r2 /\ names1 = names2.
Proof. exact deterministic. Qed.

(* ... namely what the executable model computes (this is what the
   correspondence run compares with the real ConsoleWriter) *)
Theorem C16_model_is_the_outcome : forall O o evt order inlen names r,
  NoDup (map fst evt) -> Permutation evt order ->
  console_writes O o order inlen names r ->
  names = console_names o evt /\ r = console_write O o (Some evt) inlen.
Proof. exact writes_canonical. Qed.

Theorem C16_reports_len : forall O o evt inlen names r,
  console_writes O o evt inlen names r -> r_n r = inlen /\ r_err r = false.
Proof. exact reports_len. Qed.

(* the relation is never empty: Write has an outcome on every event *)
Theorem C16_write_total : forall O o evt inlen,
  console_writes O o evt inlen (console_names o evt) (console_write O o (Some evt) inlen).
Proof. exact console_write_allowed. Qed.

(* what determinism rests on: both comparators (Go's string order for
   sort.Strings, orderFields' closure for sort.Slice) are strict total orders
   on names, so sort's postcondition leaves exactly one outcome on distinct
   names *)
Theorem C16_less_strict_total : forall o, strict_total (less_of o).
Proof. exact less_of_strict_total. Qed.

Theorem C16_sort_outcome_unique : forall o l l1 l2, NoDup l ->
  sort_result (less_of o) l l1 -> sort_result (less_of o) l l2 -> l1 = l2.
Proof. intros o. exact (sort_result_unique (less_of o) (less_of_strict_total o)). Qed.

(* the fuel of the binary search suffices *)
Theorem C16_search_fuel : forall n f fuel, n <= fuel -> search_loop fuel f 0 n = search n f.
Proof. exact search_fuel_suffices. Qed.

(* ------------------------------------------------------------------ *)
(* non-vacuity: concrete instances                                      *)
(* ------------------------------------------------------------------ *)

(* a toy standard library: Quote wraps in quotes, EqualFold is equality, ... *)
Definition ex_O : oracles :=
  {| o_quote := fun s => [34%N] ++ s ++ [34%N];
     o_sprint := fun _ => bs "%!s(?)";
     o_upper := fun s => s;
     o_fold := beq;
     o_atoi := fun _ => None;
     o_int64 := fun _ => None;
     o_time_str := fun _ => None;
     o_time_unix := fun _ _ => bs "T";
     o_rel := fun _ => None |}.

Definition ex_o (fo fe : list bytes) : copts :=
  {| co_parts_order := None; co_parts_exclude := []; co_fields_order := fo; co_fields_exclude := fe; co_time_unit := TUSec |}.

(* the F9 input: a field named "" together with an error field *)
Definition ex_evt : event :=
  [ (bs "level", CStr (bs "info")); (bs "", CStr (bs "x y")); (bs "error", CStr (bs "boom"));
    (bs "a", CNum (bs "1")); (bs "message", CStr (bs "hello world")); (bs "zz", COther (bs "{""k"":null}")) ].

Example C16_ex_nodup : NoDup (map fst ex_evt).
Proof. repeat constructor; cbn; intuition discriminate. Qed.

Example C16_ex_quote_len : forall x, length x + 2 <= length (o_quote ex_O x).
Proof. intros x. cbn. rewrite app_length. cbn. lia. Qed.

Example C16_ex_default :
  console_write ex_O (ex_o [] []) (Some ex_evt) 99 =
  {| r_out := bs "<nil> INF hello world error=boom =""x y"" a=1 zz={""k"":null}" ++ [10%N]; r_n := 99; r_err := false |} /\
  console_write ex_O (ex_o [] []) (Some (rev ex_evt)) 99 = console_write ex_O (ex_o [] []) (Some ex_evt) 99.
Proof. vm_compute. auto. Qed.

Example C16_ex_fieldsorder :
  console_names (ex_o [bs "zz"; bs "nope"; bs "a"] [bs ""]) ex_evt = [bs "error"; bs "zz"; bs "a"] /\
  console_names (ex_o [bs "zz"; bs ""] []) ex_evt = [bs "error"; bs "zz"; bs ""; bs "a"] /\
  (* the binary search runs on a slice that is not sorted lexically and can miss the error field *)
  console_names (ex_o [bs "zz"; bs "error"; bs ""] []) ex_evt = [bs "zz"; bs "error"; bs ""; bs "a"].
Proof. vm_compute. auto. Qed.

Example C16_ex_writes : exists names r,
  Permutation ex_evt (rev ex_evt) /\
  console_writes ex_O (ex_o [] []) (rev ex_evt) 99 names r /\
  names = [bs "error"; bs ""; bs "a"; bs "zz"].
Proof.
  eexists. eexists. split; [apply Permutation_rev|]. split; [apply C16_write_total|].
  vm_compute. reflexivity.
Qed.

(* a reading the check commits to: parts and names are written verbatim, so a
   message (or a key) that contains a newline yields a newline inside the
   "line"; only the final newline is asserted *)
Example C16_ex_interior_newline :
  r_out (console_write ex_O (ex_o [] []) (Some [(bs "message", CStr [97; 10; 98]%N)]) 0)
  = bs "<nil> ??? a" ++ [10%N] ++ bs "b" ++ [10%N].
Proof. vm_compute. reflexivity. Qed.

(* the code before fix 2538a27 (tombstone "" and filter) loses the field named "" *)
Definition move_error_front_old (fs : list bytes) : list bytes :=
  let ei := search (length fs) (fun i => negb (blt (nth i fs []) n_error)) in
  if (ei <? length fs)%nat && beq (nth ei fs []) n_error
  then filter (fun f => negb (beq f [])) (n_error :: upd fs ei [])
  else fs.

Example C16_ex_f9_old_code :
  move_error_front_old (isort blt [bs "a"; bs "error"; bs ""]) = [bs "error"; bs "a"] /\
  move_error_front (isort blt [bs "a"; bs "error"; bs ""]) = [bs "error"; bs ""; bs "a"].
Proof. vm_compute. auto. Qed.

(* ---- about the SOURCE: Gen/RootSrc.v holds the translation (harness/cmd/srcgen, regenerated on every run) of
   console.go's needsQuote - a `for i := range s` over the string, i.e. over rune start offsets - and the model's
   quoting predicate is proved equal to it for every byte string: the code returns true exactly when some byte is a
   control byte, above 0x7e (DEL and every non-ASCII byte), a space, a backslash or a double quote. ---- *)
Theorem C16_source_quote_rule : forall s, RootSrc.needsQuote s = GoSem.Ok (needs_quote s).
Proof. exact Proofs.SrcRootP.needsQuote_src. Qed.

(* the translation evaluates: the source's own answers on concrete inputs (vm_compute) *)
Example C16_source_ex : RootSrc.needsQuote [97;98]%N = GoSem.Ok false /\ RootSrc.needsQuote [97;127]%N = GoSem.Ok true /\ RootSrc.needsQuote [97;195;169]%N = GoSem.Ok true /\ RootSrc.needsQuote [97;32]%N = GoSem.Ok true.
Proof. vm_compute. repeat split. Qed.

Print Assumptions C16_wanted_spec.
Print Assumptions C16_fields_exactly_once.
Print Assumptions C16_field_text.
Print Assumptions C16_parts_in_order.
Print Assumptions C16_order_default.
Print Assumptions C16_order_fieldsorder.
Print Assumptions C16_order_fieldsorder_nodup.
Print Assumptions C16_quote_rule.
Print Assumptions C16_quote_rule_iff.
Print Assumptions C16_quote_byte_spec.
Print Assumptions C16_numbers_verbatim.
Print Assumptions C16_other_values.
Print Assumptions C16_deterministic.
Print Assumptions C16_model_is_the_outcome.
Print Assumptions C16_reports_len.
Print Assumptions C16_write_total.
Print Assumptions C16_less_strict_total.
Print Assumptions C16_sort_outcome_unique.
Print Assumptions C16_search_fuel.
Print Assumptions C16_source_quote_rule.
