(* C08 - The binary (CBOR) build decodes to the same event the JSON build emits.
   Statements only; proofs are [exact <lemma>] from Proofs/C08P.v
   (on top of Proofs/Cbor2JsonP.v, Proofs/CborDecP.v, Proofs/JsonEncP.v).

   For one field list [kvs] (keys with values; a value is a primitive, an
   Arr() of values or a Dict() of fields, to any depth):
     binary build:  enc_event ft fd kvs          (Enc/CborEnc.v), decoded by
                    the model of decode_stream.go (Enc/CborDec.v);
     JSON build:    json_event JO (-1) fd kvs    (Enc/JsonEv.v over Enc/JsonEnc.v),
                    FloatingPointPrecision = -1, TimeFieldFormat a layout.
   As in C09, the assumption about the Event / Context / Array API is that
   the bytes of one event are these compositions of the primitives; the
   context splice of both builds is proved to give the concatenated field
   list (C09_context_splice, C08_context_splice).

   PREMISES, all explicit.
   [c08_oracles Orc JO ft fd] - both builds call the same Go library:
     co_time_range, co_dur_range: the encoder's float conversions return 64-bit patterns;
     co_bits32/64: the JSON side's float record of a bit pattern is about that pattern;
     co_f32/64:   the decoder's strconv.AppendFloat(v,'f',-1,bits) text is the
                  JSON encoder's 'f' text of the same float;
     co_fa32/64:  strconv's 'f' text and its (exponent-cleaned) 'e' text are JSON
                  numbers and denote the same number (num_value) - strconv's
                  correctness; validated by the driver on every float it generates;
     co_time:     for whole-second instants the JSON layout text is the text the
                  decoder prints (RFC3339, times in UTC);
     co_time_plain: a layout text needs no escaping.
   [wf_fields] / [small_fields] - bytes are bytes, integers in range, lengths < 2^60.
   [fields_c08] - what the property quantifies over, per value ([prim_c08]):
     whole-second times (fractional: C08_time_partial), embedded JSON that is
     JSON, 4/16-byte IPs, 6-byte MACs, canonical prefixes - for these the JSON
     side's net text equals the text of the decoder's model of the same net
     function and needs no escaping; base64 text.  Integer durations need no
     premise: both builds wrap int64(d / unit) the same way (MinInt64 / -1).
   No field kind of the encoder is left out. *)
From Coq Require Import QArith Qabs.
From Verif Require Import Base.Prelude Base.Decimal Base.Utf8 Base.JsonSpec Base.CborSpec.
From Verif Require Import Enc.CborEnc Enc.CborDec Proofs.CborEncP Proofs.CborDecP Proofs.Cbor2JsonP.
From Verif Require Import Enc.JsonEnc Enc.JsonEv Proofs.JsonEncP Proofs.C08P.
Open Scope N_scope.

(* THE property: for all field lists the decoder turns the binary event into
   a JSON text t1, the JSON build writes t2 and a newline, both are JSON, and
   their values are equivalent: same keys in the same order, strings / bools /
   null equal, numbers numerically equal, arrays and objects recursively *)
Theorem C08_decode_equiv : forall Orc JO ft fd, c08_oracles Orc JO ft fd ->
  forall kvs, wf_fields kvs -> small_fields kvs -> fields_c08 JO kvs ->
  exists t1 v1 t2 v2,
    decodes Orc (enc_event ft fd kvs) t1 /\ Json t1 v1 /\
    JsonEv.json_event JO (-1) fd kvs = t2 ++ [10] /\ Json t2 v2 /\ jv_equiv v1 v2.
Proof. exact C08_main. Qed.

(* the same through Cbor2JsonManyObjects: exactly one line, no error *)
Theorem C08_decode_equiv_line : forall Orc JO ft fd, c08_oracles Orc JO ft fd ->
  forall kvs, wf_fields kvs -> small_fields kvs -> fields_c08 JO kvs -> fits_memory (enc_event ft fd kvs) ->
  exists t1 v1 t2 v2 a,
    cbor2json Orc (enc_event ft fd kvs) = (t1 ++ [10], FOk, a) /\ Json t1 v1 /\
    JsonEv.json_event JO (-1) fd kvs = t2 ++ [10] /\ Json t2 v2 /\ jv_equiv v1 v2.
Proof. exact C08_main_line. Qed.

(* per primitive: the decoder's text of the CBOR bytes, the JSON build's text,
   both JSON, equivalent values *)
Theorem C08_primitive_equiv : forall Orc JO ft fd, c08_oracles Orc JO ft fd ->
  forall p, wf_prim p -> small_prim p -> prim_c08 JO p ->
  exists t1 v1 v2, Cbor2JsonP.json_prim Orc ft fd p = Some t1 /\ item_json Orc (enc_prim ft fd [] p) t1 /\
    (forall dst, JsonEv.json_prim JO (-1) fd dst p = dst ++ jt_prim JO fd p) /\
    Json t1 v1 /\ Json (jt_prim JO fd p) v2 /\ jv_equiv v1 v2.
Proof. exact C08_prim. Qed.

(* the JSON build's context splice (AppendObjectData) yields the line of the concatenated field list *)
Theorem C08_context_splice : forall Orc JO ft fd, c08_oracles Orc JO ft fd ->
  forall pre ctx ev, wf_fields (pre ++ ctx ++ ev) -> small_fields (pre ++ ctx ++ ev) -> fields_c08 JO (pre ++ ctx ++ ev) ->
  JsonEv.json_event_ctx JO (-1) fd pre ctx ev = JsonEv.json_event JO (-1) fd (pre ++ ctx ++ ev).
Proof. exact C08_splice. Qed.

(* the defect fixed by e480b62: all 64-bit unsigned and signed integers decode
   to their exact decimal text - the JSON build's text - which reads back as the number *)
Theorem C08_uint_exact : forall Orc n, n < 2 ^ 64 ->
  item_json Orc (cbor_AppendUint64 [] n) (print_N n) /\ AppendUint [] n = print_N n /\ parse_N (print_N n) = Some n.
Proof. exact uint_exact. Qed.

Theorem C08_int_exact : forall Orc z, int64_ok z ->
  item_json Orc (cbor_AppendInt64 [] z) (print_Z z) /\ AppendInt [] z = print_Z z /\ parse_Z (print_Z z) = Some z.
Proof. exact int_exact. Qed.

(* the defect fixed by cb46159: Bytes decode with the escaping of text strings:
   the JSON build's text, a JSON string denoting Go's reading of the bytes *)
Theorem C08_bytes_escaped : forall Orc s, wf_str s -> len s < 2 ^ 63 ->
  item_json Orc (cbor_AppendBytes [] s) (json_string s) /\
  item_json Orc (cbor_AppendString [] s) (json_string s) /\
  AppendBytes [] s = json_string s /\ JString (json_string s) (go_runes s).
Proof. exact bytes_escaped. Qed.

(* fractional timestamps (PARTIAL: everything numeric is assumed, see the
   comment in Proofs/C08P.v): if (A1) the float64 conversion is within e1 of
   the exact instant, (A2) the decoder's text denotes an instant within e2 of
   the float, (A3) the JSON layout text denotes the whole second, then the
   decoded text is the quoted RFC3339Nano text, denotes an instant within
   e1+e2 of the logged one, and agrees with the JSON text at the layout's
   precision up to e1+e2 (e1 + e2 <= 1e-6 s for |secs| < 2^33) *)
Theorem C08_time_partial : forall Orc JO ft (val64 : N -> Q) (inst : list N -> option Q) (e1 e2 : Q) secs nanos txt q j,
  nanos <> 0 -> nanos < 1000000000 ->
  o_tsf Orc W64 (canon64 (ft secs nanos)) = Some txt ->
  (Qabs (val64 (canon64 (ft secs nanos)) - exact_instant secs nanos) <= e1)%Q ->
  inst txt = Some q -> (Qabs (q - val64 (canon64 (ft secs nanos))) <= e2)%Q ->
  inst (jo_time JO (secs, nanos)) = Some j -> j = inject_Z secs ->
  time_json Orc ft (secs, nanos) = Some (CborDec.quote txt) /\
  (Qabs (q - exact_instant secs nanos) <= e1 + e2)%Q /\
  (j <= q + (e1 + e2) /\ q - (e1 + e2) < j + 1)%Q.
Proof. exact time_partial. Qed.

(* REFUTED for fractional instants far from the epoch (known finding
   binary-time-float64-precision): CBOR tag 1 carries float64 seconds, every
   float64 is m * 2^e with |m| < 2^53, and none of them is within one
   microsecond of T9 = 2^34 s + 123456789 ns (year 2514).  The inequality is
   |m * 2^e - T9/10^9| > 10^-6 with denominators cleared: multiplied by
   10^9 * 2^18 when e >= -18, and further by 2^(-18-e) when e < -18.  Whatever
   the decoder prints, the "same instant within one microsecond" clause cannot
   hold for this Time field when the JSON build is asked for sub-microsecond
   text (TimeFieldFormat = RFC3339Nano); the driver replays it on the real code. *)
Theorem C08_time_far_refuted : forall m e : Z, (Z.abs m < 2^53)%Z ->
  if (-18 <=? e)%Z then (Z.abs (m * 2^(e+18) * 10^9 - T9 * 2^18) > 10^3 * 2^18)%Z
  else (Z.abs (m * 10^9 - T9 * 2^18 * 2^(-18-e)) > 10^3 * 2^18 * 2^(-18-e))%Z.
Proof. exact time_far_refuted. Qed.

Theorem C08_equiv_refl : forall v, jv_equiv v v.
Proof. exact jv_equiv_refl. Qed.

(* ---- non-vacuity: oracles meeting [c08_oracles], a nested field list meeting the premises ---- *)
Definition exO : oracle := mkoracle (fun _ => Some [48]) (fun _ => Some [48]) (fun _ => Some [84]) (fun _ _ => None).
Definition exF (b : N) : fval := {| f_bits := b; f_txt_f := [48]; f_txt_e := [48; 101; 43; 48; 48] |}.
Definition exJ : joracle :=
  mkjoracle exF exF (fun _ => [84]) ip_string mac_string (fun ip m => ipnet_string ip (mask_size_ones m mod 256))
            (fun s => b64enc (length s) s).
Definition ex_ft (s : Z) (n : N) : N := 0.
Definition ex_fd (d u : Z) : N := 0.

Example C08_ex_oracles : c08_oracles exO exJ ex_ft ex_fd.
Proof.
  constructor; try reflexivity; try (intros; vm_compute; reflexivity).
  - intros b. split; [split; vm_compute; reflexivity|vm_compute; reflexivity].
  - intros b. split; [split; vm_compute; reflexivity|vm_compute; reflexivity].
  - intros t. apply plain_ascii. repeat constructor; unfold printable; lia.
Qed.

Definition ex_kvs : list (list N * cval) :=
  [ ([108;101;118;101;108], VP (PString [105;110;102;111]));
    ([117], VP (PUint 18446744073709551615));
    ([98], VP (PBytes [97;34;98;92;99;10;255]));
    ([102], VP (PFs64 [4607182418800017408; 9221120237041090560]));
    ([116], VP (PTime (1700000000%Z, 0)));
    ([105;112], VP (PIP [10;0;0;1]));
    ([97], VArr [VP (PBool true); VDict [([107], VP PNil)]; VP (PHex [171;205])]);
    ([106], VP (PJSON [123;34;120;34;58;49;125])) ].

Example C08_ex_premises : wf_fields ex_kvs /\ small_fields ex_kvs /\ fields_c08 exJ ex_kvs.
Proof.
  unfold ex_kvs, wf_fields, small_fields, fields_c08.
  repeat split; repeat (constructor; cbn [fst snd wf_cval wf_prim small_cval small_prim cval_c08 prim_c08]);
    unfold wf_str, small_str, bytes_ok, byte_ok, len, int64_ok; cbn [length N.of_nat];
    repeat (first [split | constructor | lia | (vm_compute; reflexivity) | left; reflexivity]);
    try (exists (JObj [([120], JNum [49])]); apply parse_json_sound; vm_compute; reflexivity).
  all: unfold two63Z; lia.
Qed.

Example C08_ex_texts :
  Cbor2JsonP.json_fields exO ex_ft ex_fd ex_kvs <> None /\
  option_map (fun t => t ++ [10]) (Cbor2JsonP.json_fields exO ex_ft ex_fd ex_kvs) = Some (JsonEv.json_event exJ (-1) ex_fd ex_kvs).
Proof. split; vm_compute; [discriminate|reflexivity]. Qed.

(* ---- the same at the level of the Go source ----
   C08_decode_equiv_line with the decoder model replaced by the machine
   translation of internal/cbor/decode_stream.go (Gen/DecSrc.v): [run_source]
   is what a caller of the translated Cbor2JsonManyObjects observes (output and
   final error), [fo] is the translation's strconv oracle, agreeing with [Orc],
   [F] any fuel of the translation of at least [fuel_for] the input.  By
   Proofs/SrcDecP.v (many_objects_refines: model = translated source on byte
   strings that fit in memory) and Proofs/C08SrcP.v (a well-formed CBOR item,
   hence an encoder-model event, is a string of bytes).  No premise beyond
   those of C08_decode_equiv_line, [orc_agree] and the fuel bound. *)
From Verif Require Import Base.GoEff Enc.GoStd Enc.DecStd Proofs.SrcDecP Proofs.C08SrcP.
Open Scope N_scope.

Theorem C08_source_decode_equiv_line : forall Orc JO ft fd, c08_oracles Orc JO ft fd ->
  forall fo, orc_agree Orc fo ->
  forall kvs, wf_fields kvs -> small_fields kvs -> fields_c08 JO kvs -> fits_memory (enc_event ft fd kvs) ->
  forall F, (fuel_for (enc_event ft fd kvs) <= F)%nat ->
  exists t1 v1 t2 v2,
    run_source Orc fo F (enc_event ft fd kvs) = Some (t1 ++ [10], FOk) /\ Json t1 v1 /\
    JsonEv.json_event JO (-1) fd kvs = t2 ++ [10] /\ Json t2 v2 /\ jv_equiv v1 v2.
Proof. exact C08_source_decode_equiv_line_P. Qed.

Print Assumptions C08_decode_equiv.
Print Assumptions C08_decode_equiv_line.
Print Assumptions C08_primitive_equiv.
Print Assumptions C08_context_splice.
Print Assumptions C08_uint_exact.
Print Assumptions C08_int_exact.
Print Assumptions C08_bytes_escaped.
Print Assumptions C08_time_partial.
Print Assumptions C08_time_far_refuted.
Print Assumptions C08_equiv_refl.

Print Assumptions C08_source_decode_equiv_line.
