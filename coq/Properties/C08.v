(* C08 - placeholder while the proofs are being written *)
From Verif Require Import Base.Prelude.
Theorem C08_placeholder : True. Proof. exact I. Qed.
Print Assumptions C08_placeholder.
