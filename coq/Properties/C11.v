(* C11 - Diode loses nothing silently: delivered or reported, and Close drains.
   Statements only; proofs are [exact <lemma>] from Proofs/DiodeP.v.
   "Close after the last Write returned" = every producer is done and the consumer has run
   until TryNext fails ([drained]: the slot at the read index is empty or stale), which is
   what Poller.Next / Waiter.Next do once the context is cancelled. *)
From Verif Require Import Base.Prelude Lts.Diode Lts.Waiter Proofs.DiodeP Proofs.WaiterInvP Proofs.WaiterP.
From Coq Require Import Permutation Sorted.
Open Scope N_scope.

(* in every reachable state the read index is exactly delivered + reported *)
Theorem C11_accounting : forall n ps sched, let s := run n ps sched in
  claims s < two64 -> ri s = N.of_nat (length (delivered s)) + sumN (alerts s).
Proof. exact accounting. Qed.

(* Drain (partial: the three ghost-counter premises are exactly what K2/K3 violate).
   If no CAS ever failed, the newer-test never fired (no producer had to retry a position)
   and no successful CAS replaced a bucket of larger seq, then at Close
   delivered + reported = written (= returned), and the read head reached the write head. *)
Theorem C11_drain_partial : forall n ps sched, (0 < n)%nat -> let s := run n ps sched in
  claims s < two64 -> g_casfail s = 0 -> g_newer s = 0 -> g_ovl s = 0 ->
  producers_done s = true -> drained s = true ->
  N.of_nat (length (delivered s)) + sumN (alerts s) = N.of_nat (length (returned s)) /\ ri s = claims s.
Proof. exact drain_partial. Qed.

(* Below capacity: if at every fetch-add fewer than n claimed positions were outstanding
   (claims - ri < n; ghost flag g_overcap), then nothing is reported dropped, no producer
   ever retries, every returned message is delivered or still in its slot, and Close
   delivers exactly the returned Writes. *)
Theorem C11_below_capacity_no_drop : forall n ps sched, (0 < n)%nat -> let s := run n ps sched in
  claims s < two64 -> g_overcap s = false ->
  alerts s = [] /\ g_casfail s = 0 /\ g_newer s = 0 /\
  (forall b, In b (returned s) -> In b (delivered s) \/ slot_at s (fst b mod size s) = Some b) /\
  (producers_done s = true -> drained s = true -> Permutation (delivered s) (returned s)).
Proof. exact below_capacity. Qed.

(* K2 (known finding diode-hole-at-close): ring of 2, producers [100;101] and [102].
   The consumer empties slot 0 between producer 1's load and its CAS; the CAS fails, the
   producer retries at position 3, position 2 is never filled; the consumer stalls at 2 and
   Close returns with 102 (returned at position 3) neither delivered nor reported. *)
Theorem C11_hole_refuted :
  let s := run 2 k2_ps k2_sched in
  silent_loss s /\ g_casfail s = 1 /\ g_newer s = 0 /\ g_ovl s = 0 /\
  delivered s = [(0, 100); (1, 101)] /\ returned s = [(0, 100); (1, 101); (3, 102)] /\ ri s = 2 /\ claims s = 4.
Proof. exact hole_refuted. Qed.

(* K3 (known finding diode-firstlap-overwrite): ring of 2, producers [100;101] and [200].
   Producer 1 claims position 0 and is overtaken; on the first lap writeIndex - len
   underflows, the newer-test cannot fire, and its CAS installs seq 0 over seq 2: message
   101 (returned at position 2) is lost without any failed CAS and without any alert. *)
Theorem C11_firstlap_overwrite_refuted :
  let s := run 2 k3_ps k3_sched in
  silent_loss s /\ g_casfail s = 0 /\ g_newer s = 0 /\ g_ovl s = 1 /\
  delivered s = [(0, 200); (1, 100)] /\ returned s = [(1, 100); (2, 101); (0, 200)] /\ ri s = 2 /\ claims s = 3.
Proof. exact firstlap_overwrite_refuted. Qed.

(* Close drains, at the level of diode.Writer (waiter or poller mode, repaired Next of commit
   1123673: one more TryNext once the context is done).  For every schedule in which Close is
   called after the last Write returned: when Close has returned, the poll goroutine has
   finished, every Write has returned and the ring has nothing deliverable at the read index. *)
Theorem C11_close_drains : forall wt n ps sched, let w := wrun wt true n ps sched in
  closer w = KDone -> drained (d w) = true /\ all_written w = true /\ cons w = CDone.
Proof. exact close_drains. Qed.

(* ... hence delivered + reported = written at the wrapped writer whenever no producer retried
   a position and no CAS replaced a larger seq (i.e. modulo K2 and K3) *)
Theorem C11_close_accounting : forall wt n ps sched, (0 < n)%nat -> let w := wrun wt true n ps sched in
  closer w = KDone -> claims (d w) < two64 ->
  g_casfail (d w) = 0 -> g_newer (d w) = 0 -> g_ovl (d w) = 0 ->
  N.of_nat (length (wdelivered w)) + sumN (alerts (d w)) = N.of_nat (length (wreturned w)).
Proof. exact close_accounting. Qed.

(* regression of the fixed defect close-races-last-poll: the Write completes and Close is called
   between the consumer's failed TryNext and its isDone check; the message is delivered *)
Example C11_ex_close_race_fixed :
  let w := wrun true true 1 [[100]]
    ([TCons; TCons; TProd 0; TProd 0; TProd 0; TProd 0; TCloser] ++ rep 12 TCons ++ rep 4 TCancel ++ [TCloser])%nat in
  closer w = KDone /\ wreturned w = [100] /\ wdelivered w = [100] /\ drained (d w) = true.
Proof. vm_compute. auto. Qed.

(* the underflow itself: on the first lap the newer-test is false whatever the slot holds *)
Example C11_ex_underflow : newer_test 2 0 (Some (2, 101)) = false /\ newer_test 2 4 (Some (6, 101)) = true.
Proof. vm_compute. auto. Qed.

(* non-vacuity of C11_drain_partial with a reported drop: ring of 1, one producer laps the consumer *)
Example C11_ex_drain :
  let s := run 1 [[100; 101]] [P 0; P 0; P 0; P 0; P 0; P 0; C; C]%nat in
  claims s < two64 /\ g_casfail s = 0 /\ g_newer s = 0 /\ g_ovl s = 0 /\
  producers_done s = true /\ drained s = true /\ delivered s = [(1, 101)] /\ alerts s = [1].
Proof. vm_compute. repeat split; auto. Qed.

(* non-vacuity of C11_below_capacity_no_drop *)
Example C11_ex_below_capacity :
  let s := run 2 [[100; 101]; [200]] [P 0; P 1; P 1; P 1; P 0; P 0; C; C; P 0; P 0; P 0; C; C]%nat in
  claims s < two64 /\ g_overcap s = false /\ producers_done s = true /\ drained s = true /\
  delivered s = [(0, 100); (1, 200); (2, 101)].
Proof. vm_compute. repeat split; auto. Qed.

Print Assumptions C11_accounting.
Print Assumptions C11_drain_partial.
Print Assumptions C11_below_capacity_no_drop.
Print Assumptions C11_hole_refuted.
Print Assumptions C11_firstlap_overwrite_refuted.
Print Assumptions C11_close_drains.
Print Assumptions C11_close_accounting.
