(* C09 - Binary output is well-formed CBOR that carries the logged values.
   Only statements live here; proofs are [exact <lemma>] from
   Proofs/CborSpecP.v and Proofs/CborEncP.v.

   Scope.  Enc/CborEnc.v models every encoder primitive of internal/cbor byte
   for byte.  An event is modelled as [enc_event kvs]: begin marker, then for
   each field AppendKey followed by the value, end marker; a value is a
   primitive, an Arr() of values or a Dict() of fields, to any depth
   ([cval]).  THE ASSUMPTION of the top theorems about the Event / Context /
   Array API (modelled in coq/Api, the coordinator's part) is exactly this:
   the bytes of one event are [enc_event kvs] for the list [kvs] of
   (key, value) the program logged (context fields first, spliced with
   AppendObjectData: [C09_context_splice]).

   Premises.  [wf_*]: byte strings are bytes, lengths fit a uint64, integers
   are in the range of int64/uint64, float patterns in 32/64 bits.  Oracles
   (Go float arithmetic) only have to return 64-bit patterns.

   NaN: the encoder replaces every NaN by the canonical quiet NaN
   (7fc00000 / 7ff8000000000000); all other floats are carried bit-exactly
   ([C09_float_exact]). *)
From Verif Require Base.GoSem Proofs.SrcCborP.
From Verif Require Import Base.Prelude Base.CborSpec Proofs.CborSpecP Enc.CborEnc Proofs.CborEncP.
From Verif Require Gen.FieldCborSrc Proofs.SrcFieldCborP.
Open Scope N_scope.

(* ---- the reference parser is sound and complete for the specification ---- *)
Theorem C09_parser_sound : forall bs i, parse_cbor bs = Some i -> Cbor bs i.
Proof. exact parse_cbor_sound. Qed.

Theorem C09_parser_complete : forall bs i, Cbor bs i -> parse_cbor bs = Some i.
Proof. exact parse_cbor_complete. Qed.

Theorem C09_decoding_unique : forall bs i j, Cbor bs i -> Cbor bs j -> i = j.
Proof. exact Cbor_deterministic. Qed.

(* items are self-delimiting: a generic parser finds the event boundaries *)
Theorem C09_self_delimiting : forall b1 i1 r1 b2 i2 r2,
  Cbor b1 i1 -> Cbor b2 i2 -> b1 ++ r1 = b2 ++ r2 -> b1 = b2 /\ i1 = i2.
Proof. exact Cbor_prefix_free. Qed.

(* ---- appendCborTypePrefix: every major type, every 64-bit argument ---- *)
Theorem C09_prefix_wellformed : forall m n dst r, m < 8 -> n < 2 ^ 64 ->
  exists h, appendCborTypePrefix dst (m * 32) n = dst ++ h /\ Head m n h /\
            parse_head (h ++ r) = Some (m, prefix_ai n, AVal n, r) /\
            length h = S (prefix_width n) /\
            n < 2 ^ (8 * N.of_nat (prefix_width n)) /\
            (forall w, In w [1; 2; 4; 8]%nat -> n < 2 ^ (8 * N.of_nat w) -> (prefix_width n <= w)%nat).
Proof. exact prefix_wellformed. Qed.

(* the inline form used for lengths and values <= 23 *)
Theorem C09_head_wellformed : forall m l dst, m < 8 -> l < 2 ^ 64 ->
  exists h, append_head dst (m * 32) l = dst ++ h /\ Head m l h /\ (l <= 23 -> h = [m * 32 + l]).
Proof. exact append_head_head. Qed.

(* ---- every primitive appends exactly one well-formed item carrying the value ---- *)
Theorem C09_primitive_wellformed : forall f64_of_time f64_of_dur,
  (forall s n, f64_of_time s n < 2 ^ 64) -> (forall d u, f64_of_dur d u < 2 ^ 64) ->
  forall p, wf_prim p ->
  exists b, Cbor b (spec_prim f64_of_time f64_of_dur p) /\
            forall dst, enc_prim f64_of_time f64_of_dur dst p = dst ++ b.
Proof. exact prim_wellformed. Qed.

(* integers exact over the full ranges: the item of Int*(z) denotes z, for
   every int64 z; Uint*(n) is the unsigned item n for every n < 2^64 *)
Theorem C09_int_exact : forall z, int64_ok z ->
  (exists b, Cbor b (item_of_int z) /\ forall dst, cbor_AppendInt64 dst z = dst ++ b) /\
  item_int_value (item_of_int z) = Some z.
Proof. intros z H. split; [exact (emits_int z H)|exact (item_of_int_value z)]. Qed.

Theorem C09_uint_exact : forall n, n < 2 ^ 64 ->
  exists b, Cbor b (IUint n) /\ forall dst, cbor_AppendUint64 dst n = dst ++ b.
Proof. exact emits_uint. Qed.

Theorem C09_float_exact :
  (forall b, b < 2 ^ 32 -> exists bs, Cbor bs (IF32 (canon32 b)) /\ forall dst, cbor_AppendFloat32 dst b = dst ++ bs) /\
  (forall b, b < 2 ^ 64 -> exists bs, Cbor bs (IF64 (canon64 b)) /\ forall dst, cbor_AppendFloat64 dst b = dst ++ bs) /\
  (forall b, f32_is_nan b = false -> canon32 b = b) /\ (forall b, f64_is_nan b = false -> canon64 b = b) /\
  (forall b, f32_is_nan b = true -> f32_is_nan (canon32 b) = true) /\
  (forall b, f64_is_nan b = true -> f64_is_nan (canon64 b) = true).
Proof.
  exact (conj emits_f32 (conj emits_f64 (conj canon32_exact (conj canon64_exact (conj canon32_nan canon64_nan))))).
Qed.

(* ---- arrays and dicts of primitives, nested to any depth ---- *)
Theorem C09_nested_wellformed : forall f64_of_time f64_of_dur,
  (forall s n, f64_of_time s n < 2 ^ 64) -> (forall d u, f64_of_dur d u < 2 ^ 64) ->
  forall v, wf_cval v -> Cbor (enc_cval f64_of_time f64_of_dur v) (spec_cval f64_of_time f64_of_dur v).
Proof. exact cval_wellformed. Qed.

(* ---- one event = one indefinite-length map, text-string keys, the logged
   keys in order with the logged values ---- *)
Theorem C09_wellformed : forall f64_of_time f64_of_dur,
  (forall s n, f64_of_time s n < 2 ^ 64) -> (forall d u, f64_of_dur d u < 2 ^ 64) ->
  forall kvs, wf_fields kvs ->
  Cbor (enc_event f64_of_time f64_of_dur kvs) (IMapI (spec_fields f64_of_time f64_of_dur kvs)) /\
  event_shape (IMapI (spec_fields f64_of_time f64_of_dur kvs)).
Proof. exact event_wellformed. Qed.

(* what an independent generic parser reads *)
Theorem C09_values : forall f64_of_time f64_of_dur,
  (forall s n, f64_of_time s n < 2 ^ 64) -> (forall d u, f64_of_dur d u < 2 ^ 64) ->
  forall kvs, wf_fields kvs ->
  parse_cbor (enc_event f64_of_time f64_of_dur kvs) = Some (IMapI (spec_fields f64_of_time f64_of_dur kvs)).
Proof. exact event_parses. Qed.

(* the context splice (AppendObjectData drops the context's begin marker) *)
Theorem C09_context_splice : forall f64_of_time f64_of_dur,
  (forall s n, f64_of_time s n < 2 ^ 64) -> (forall d u, f64_of_dur d u < 2 ^ 64) ->
  forall ctx ev, wf_fields ctx -> wf_fields ev ->
  cbor_AppendLineBreak (cbor_AppendEndMarker
    (enc_fields f64_of_time f64_of_dur
       (cbor_AppendObjectData (cbor_AppendBeginMarker []) (enc_context f64_of_time f64_of_dur ctx)) ev))
  = enc_event f64_of_time f64_of_dur (ctx ++ ev).
Proof. exact event_with_context. Qed.

(* a log stream is a sequence of such items *)
Theorem C09_stream : forall f64_of_time f64_of_dur,
  (forall s n, f64_of_time s n < 2 ^ 64) -> (forall d u, f64_of_dur d u < 2 ^ 64) ->
  forall evs, Forall wf_fields evs ->
  Forall2 Cbor (map (enc_event f64_of_time f64_of_dur) evs)
               (map (fun kvs => IMapI (spec_fields f64_of_time f64_of_dur kvs)) evs).
Proof. exact stream_wellformed. Qed.

(* ---- non-vacuity ---- *)
Definition ex_time (s : Z) (n : N) : N := 4742290407621132288.  (* some 64-bit pattern *)
Definition ex_dur (d u : Z) : N := 4607182418800017408.
Definition ex_fields : list (list N * cval) :=
  [ ([108;101;118;101;108], VP (PString [105;110;102;111]));                    (* "level":"info" *)
    ([110], VP (PInt (-9223372036854775808)%Z));
    ([117], VP (PUint 18446744073709551615));
    ([102], VP (PFs32 [1065353216; 2143289345]));                              (* 1.0, a NaN *)
    ([116], VP (PTime (1700000000%Z, 5)));
    ([97], VArr [VP (PBool true); VDict [([107], VP PNil)]; VArr []]);
    ([100], VDict [([105;112], VP (PPrefix [10;0;0;0] [255;255;255;0]))]) ].

Example C09_ex_wf : wf_fields ex_fields.
Proof.
  unfold ex_fields, wf_fields, wf_str, bytes_ok, byte_ok, len, int64_ok, two63Z.
  repeat (constructor; cbn [fst snd wf_cval wf_prim length N.of_nat]); try lia; try (vm_compute; reflexivity);
    unfold wf_str, bytes_ok, byte_ok, len, int64_ok, two63Z; cbn [length N.of_nat]; repeat constructor; try lia;
    try (vm_compute; reflexivity).
Qed.

Example C09_ex_bytes :
  enc_event ex_time ex_dur ex_fields =
  [191; 101;108;101;118;101;108; 100;105;110;102;111;
   97;110; 59;127;255;255;255;255;255;255;255;
   97;117; 27;255;255;255;255;255;255;255;255;
   97;102; 130; 250;63;128;0;0; 250;127;192;0;0;
   97;116; 193; 251;65;208;0;0;0;0;0;0;
   97;97; 159; 245; 191; 97;107; 246; 255; 159; 255; 255;
   97;100; 191; 98;105;112; 217;1;5; 161; 68;10;0;0;0; 24;24; 255;
   255] /\
  parse_cbor (enc_event ex_time ex_dur ex_fields) = Some (IMapI (spec_fields ex_time ex_dur ex_fields)).
Proof. split; vm_compute; reflexivity. Qed.

(* ---- about the SOURCE: Gen/CborSrc.v is the translation (harness/cmd/srcgen, regenerated on every run) of the
   function bodies of /repo/internal/cbor's encoder.  The head encoder appendCborTypePrefix (width switch and the
   big-endian byte loop), text/byte strings, keys, the object splice, booleans, signed and unsigned integers with
   their slice forms, the tagged byte strings, the embedded JSON/CBOR wrappers and the float32/float64 encoders with
   their slice forms return exactly what the model computes, for every argument (slices shorter than 2^62 elements,
   integers in their int64 range), as do the narrower integer widths that forward to these, AppendStrings and the
   whole-second (integer) timestamp. Not translated (outside the subset: float arithmetic, interfaces, net.IPNet):
   the float timestamp, durations, AppendInterface/Type/IPPrefix/Stringer - tied by the byte-exact correspondence. ---- *)
Theorem C09_source_refines_model : Proofs.SrcCborP.cbor_source_refinement.
Proof. exact Proofs.SrcCborP.cbor_source_refines_model. Qed.

(* the translation evaluates: the source's own answers on concrete inputs (vm_compute) *)
Example C09_source_ex : Gen.CborSrc.AppendInt [] (-9223372036854775808)%Z = GoSem.Ok [59;127;255;255;255;255;255;255;255] /\ Gen.CborSrc.AppendString [] [1;2;3] = GoSem.Ok [99;1;2;3].
Proof. vm_compute. split; reflexivity. Qed.

(* ---- about the SOURCE of the Event field methods as the binary build compiles them: Gen/FieldCborSrc.v is the
   translation (harness/cmd/srcgen, build tag binary_log) of /repo/event.go's Str, Strs, Bytes, Hex, Bool(s),
   Int*(s), Uint*(s), Float32/64, Floats32/64, Dur(s), IPAddr, MACAddr (and Stack, CallerSkipFrame).  Each keyed
   method returns the receiver whose buffer is the model's [enc_prim (cbor_AppendKey buf key) p], every other field
   unchanged.  Premises ([fcall_ok], exactly those of the encoder theorems above): key / string / slice lengths
   below 2^62, integers in the int64 range, float32 patterns below 2^32, DurationFieldUnit <> 0.  [ft], [fd] are
   CborEnc's float oracles; the source's float quotient is [fun a b => mk64 (fd a b)]. ---- *)
Theorem C09_source_event_fields : forall (ft : Z -> N -> N) (fd : Z -> Z -> N) (prec du : Z) (di : bool)
    (e : FieldCborSrc.Event_st) (key : list N) (c : SrcFieldCborP.fcall),
  SrcFieldCborP.key_pre key -> SrcFieldCborP.fcall_ok du c ->
  SrcFieldCborP.run_fcall fd prec du di e key c =
  GoSem.Ok (let b := enc_prim ft fd (cbor_AppendKey (FieldCborSrc.Event_buf e) key) (SrcFieldCborP.prim_of du di c) in
            (FieldCborSrc.set_Event_buf e b, FieldCborSrc.set_Event_buf e b)).
Proof. exact SrcFieldCborP.event_fields_refine_cbor_model. Qed.

(* a chain of field calls e.M1(k1,v1).M2(k2,v2)... from buffer [b0] leaves [enc_fields b0] of the logged
   (key, value) list in the buffer: the assumption of [C09_wellformed] about the fields of one event, discharged
   for the translated methods *)
Theorem C09_source_event_field_sequence : forall (ft : Z -> N -> N) (fd : Z -> Z -> N) (prec du : Z) (di : bool)
    (calls : list (list N * SrcFieldCborP.fcall)) (e : FieldCborSrc.Event_st) (b0 : list N),
  FieldCborSrc.Event_buf e = b0 ->
  Forall (fun kc => SrcFieldCborP.key_pre (fst kc) /\ SrcFieldCborP.fcall_ok du (snd kc)) calls ->
  SrcFieldCborP.run_fcalls fd prec du di e calls =
  GoSem.Ok (FieldCborSrc.set_Event_buf e
    (enc_fields ft fd b0 (map (fun '(k, c) => (k, VP (SrcFieldCborP.prim_of du di c))) calls))).
Proof. exact SrcFieldCborP.event_field_sequence_refines_enc_fields. Qed.

(* every function of the translation unit was translated, none skipped *)
Theorem C09_source_fields_translated_set :
  length FieldCborSrc.translated_functions = 36%nat /\ length FieldCborSrc.skipped_functions = 0%nat.
Proof. exact SrcFieldCborP.field_cbor_counts. Qed.

Print Assumptions C09_parser_sound.
Print Assumptions C09_parser_complete.
Print Assumptions C09_decoding_unique.
Print Assumptions C09_self_delimiting.
Print Assumptions C09_prefix_wellformed.
Print Assumptions C09_head_wellformed.
Print Assumptions C09_primitive_wellformed.
Print Assumptions C09_int_exact.
Print Assumptions C09_uint_exact.
Print Assumptions C09_float_exact.
Print Assumptions C09_nested_wellformed.
Print Assumptions C09_wellformed.
Print Assumptions C09_values.
Print Assumptions C09_context_splice.
Print Assumptions C09_stream.
Print Assumptions C09_source_refines_model.
Print Assumptions C09_source_event_fields.
Print Assumptions C09_source_event_field_sequence.
Print Assumptions C09_source_fields_translated_set.
