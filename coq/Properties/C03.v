(* C03 - Event layout: level, context, fields, hook fields, message - each exactly once.
   Statements only. *)
From Verif Require Import Base.Prelude Base.Decimal Base.Utf8 Base.JsonSpec Enc.JsonEnc Misc.Level
     Proofs.JsonEncP Api.Exec Api.Spec Proofs.ExecP Proofs.FuelP.
Open Scope N_scope.

(* the member list of the emitted object is, in this order and nothing else:
   the level field (absent for NoLevel or an empty LevelFieldName), the context
   fields of the derivation path from the root down, the event's own fields in
   call order, the fields added by the path's hooks, the message (absent when
   empty) - [event_spec] is literally that concatenation - for ALL derivation
   chains of any depth, hook lists, event programs, finalizers' messages *)
Theorem C03_layout : forall st chain lvl ops msg line,
  chain_ok st chain -> hooks_ok st chain -> ops_ok st ops ->
  fst (run_chain st chain lvl ops msg) = Some line ->
  exists body, line = body ++ [10] /\
    Json body (JObj (fst (event_spec st chain lvl ops msg))) /\
    fst (event_spec st chain lvl ops msg) =
      let l := chain_spec st chain in
      let me := spec_ops st ops (ls_stack l, false) in
      let mh := hooks_spec st (ls_hooks l) (snd me) in
      level_members st lvl ++ ls_kvs l ++ fst me ++ fst mh ++ msg_members st msg.
Proof. exact event_layout. Qed.

(* the hooks that run are exactly those registered along the derivation path,
   ancestors before descendants, in registration order, each once per
   registration (UpdateContext registers none); [finish] folds over this list,
   so every one of them runs exactly once per enabled event and its fields
   appear once, after the event's own fields and before the message *)
Theorem C03_hooks_of_path : forall st chain, chain_ok st chain ->
  l_hooks (fold_left (step st) chain root) = hooks_of_chain chain /\
  ls_hooks (chain_spec st chain) = hooks_of_chain chain.
Proof. intros st chain H. split; [apply logger_hooks; auto|apply chain_hooks]. Qed.

(* an event that a hook (or the caller) discards is not written; otherwise it is *)
Theorem C03_written_iff_not_discarded : forall st chain lvl ops msg,
  chain_ok st chain -> hooks_ok st chain -> ops_ok st ops ->
  (fst (run_chain st chain lvl ops msg) = None <-> snd (event_spec st chain lvl ops msg) = false).
Proof. exact event_written_iff. Qed.

(* level and message members *)
Theorem C03_level_member : forall st lvl,
  level_members st lvl =
    if negb (lvl =? NoLevel)%Z && negb (match s_level_name st with [] => true | _ => false end)
    then [(go_runes (s_level_name st), JStr (go_runes (s_level_text st lvl)))] else [].
Proof. reflexivity. Qed.
Theorem C03_message_member : forall st msg,
  msg_members st msg = match msg with [] => [] | _ => [(go_runes (s_message_name st), JStr (go_runes msg))] end.
Proof. reflexivity. Qed.

(* the specification does not depend on its fuel either: with any fuel covering the
   nesting depth the members of an op are those of [op_spec], and the members of a
   program are the concatenation of its ops' members *)
Theorem C03_spec_fuel_irrelevant : forall st n o s, (depth o <= n)%nat -> spec_n st n o s = op_spec st o s.
Proof. exact spec_fuel_enough. Qed.

Theorem C03_spec_ops_is_op_spec : forall st l s, spec_ops st l s = spec_list (op_spec st) l s.
Proof. exact spec_ops_is_op_spec. Qed.

Print Assumptions C03_layout.
Print Assumptions C03_spec_fuel_irrelevant.
Print Assumptions C03_spec_ops_is_op_spec.
Print Assumptions C03_hooks_of_path.
Print Assumptions C03_written_iff_not_discarded.
Print Assumptions C03_level_member.
Print Assumptions C03_message_member.
