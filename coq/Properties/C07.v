(* C07 - Zero heap allocation on the documented fast paths (partial).
   What a theorem can carry here is the part of "zero allocations" that is
   logic of the code: pool discipline and buffer growth.  Escape analysis,
   interface boxing and the runtime's allocator are measured, not modelled
   (testing.AllocsPerRun in the correspondence run). *)
From Verif Require Import Base.Prelude Enc.JsonEnc Api.Exec Heap.Pool Proofs.PoolP.

(* every complete chain on an enabled event - any ops of any nesting, any hooks -
   takes and returns pooled events / arrays in a well-nested, balanced way *)
Theorem C07_pool_balanced : forall n ops hooks, Bal (chain_trace n ops hooks).
Proof. exact chain_trace_bal. Qed.

(* the same call chain on a level-filtered (nil) event is balanced too: the
   zerolog.Dict() / zerolog.Arr() arguments the caller built are handed back *)
Theorem C07_filtered_balanced : forall n ops, Bal (nil_chain_trace n ops).
Proof. exact nil_chain_trace_bal. Qed.

(* balanced means: as many Puts as Gets on each pool ... *)
Theorem C07_counts_equal : forall t, Bal t -> count GetE t = count PutE t /\ count GetA t = count PutA t.
Proof. exact bal_counts. Qed.

(* ... and a warm pool (holding at least |trace| objects of each kind) serves
   the whole chain without a single miss (= allocation) and is left exactly
   as full as it was, so the next chain finds it warm again *)
Theorem C07_warm_pool_no_miss : forall t, Bal t -> forall e a,
  (N.of_nat (length t) <= e)%N -> (N.of_nat (length t) <= a)%N -> run_pool t (e, a) = Some (e, a).
Proof. exact bal_served. Qed.

(* a filtered chain whose arguments involve no Dict()/Arr() touches no pool at all *)
Theorem C07_filtered_plain_no_pool : forall n key p, tr_nil (tr_n n) (OKey key p) = [].
Proof. reflexivity. Qed.

Example C07_ex :
  chain_trace 3 [OKey [107] (PInt 1); ODict [100] [OArray [97] [AObj []; ADict [OKey [120] PNil]]]] [[OErrs [101] [EObj []]]]
  = [GetE; GetE; GetA; GetE; PutE; GetE; PutE; PutA; PutE; GetA; GetE; PutE; PutA; PutE].
Proof. vm_compute. reflexivity. Qed.

Print Assumptions C07_pool_balanced.
Print Assumptions C07_filtered_balanced.
Print Assumptions C07_counts_equal.
Print Assumptions C07_warm_pool_no_miss.
Print Assumptions C07_filtered_plain_no_pool.
