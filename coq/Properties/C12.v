(* C12 - Diode delivers promptly without further writes, and Close always returns (partial).
   Statements only; proofs are [exact <lemma>] from Proofs/WaiterInvP.v, Proofs/WaiterP.v.
   Model: Lts/Waiter.v; [wrun waiter gated n ps sched] for ANY schedule of the consumer
   (Writer.poll), the cancel goroutine of NewWaiter, the goroutine calling Close and the
   producers.  Partial because liveness is stated as stuck-state freedom (every state in
   which work is pending has an enabled step of the thread that has to do it); real time
   and the fairness of the Go scheduler are not modelled. *)
From Verif Require Import Base.Prelude Lts.Diode Lts.Waiter Proofs.DiodeP Proofs.WaiterInvP Proofs.WaiterP Proofs.WaiterTermP.
From Coq Require Import Permutation.
Open Scope N_scope.

(* Close returns (waiter and poller mode).
   (1) the state the cancel-path mutex exists to exclude is unreachable: the cancel goroutine
       has broadcast (or finished) while the consumer is enqueued on the condition variable
       without having been signalled;
   (2) after cancel, until the consumer goroutine has finished, the consumer or the cancel
       goroutine always has an enabled step (the wrapped writer's Write counts as a step:
       premise "the wrapped writer returns");
   (3) once the consumer goroutine has finished, the pending Close has an enabled step. *)
Theorem C12_close_returns : forall wt gt n ps sched, let w := wrun wt gt n ps sched in
  (waiter w = true ->
     match cons w, cg w with CParked false, GDone => False | CParked false, GUnlock => False | _, _ => True end) /\
  (cancelled w = true -> is_cdone (cons w) = false -> enabled w TCons || enabled w TCancel = true) /\
  (cons w = CDone -> closer w = KAwait -> enabled w TCloser = true).
Proof. exact close_returns. Qed.

(* ... and it returns within a bounded number of steps: once Close has cancelled the context
   (Close called after the last Write returned), EVERY sequence of steps that are actually taken
   (by whichever threads, in whichever order) is at most 16*size + 26 long - each step lowers the
   measure 16*(non-empty slots) + 8*(message in the consumer's hand) + program-counter ranks.
   With (2) and (3) above: every maximal run ends with Close returned. *)
Theorem C12_close_terminates : forall wt n ps sched0 sched, let w := wrun wt true n ps sched0 in
  cancelled w = true -> effective w sched = true ->
  N.of_nat (length sched) <= 16 * N.of_nat n + 26.
Proof. exact close_terminates. Qed.

(* polling mode: the consumer is never disabled before it has finished *)
Theorem C12_poller_not_stuck : forall gt n ps sched, let w := wrun false gt n ps sched in
  is_cdone (cons w) = false -> enabled w TCons = true.
Proof. exact poller_not_stuck. Qed.

(* K4 (known finding waiter-lost-wakeup): consumer Lock, TryNext (empty), isDone (false);
   producer Set (add, load, CAS) and Broadcast (nobody waits yet); consumer Wait.
   The Write has returned, the message sits in the ring at the read index, and no thread
   except a future Write or Close has an enabled step. *)
Theorem C12_waiter_lost_wakeup_refuted :
  let w := wrun true true 2 [[100]] k4_sched in
  cons w = CParked false /\ wreturned w = [100] /\ wdelivered w = [] /\ alerts (d w) = [] /\
  drained (d w) = false /\ slot_at (d w) (ri (d w) mod size (d w)) = Some (0, 100) /\
  g_lost w = true /\ all_written w = true /\
  enabled w TCons = false /\ enabled w TCancel = false /\ enabled w (TProd 0) = false /\
  closer w = KIdle.
Proof. exact lost_wakeup_refuted. Qed.

(* Prompt delivery (partial): K4 is the ONLY way to sleep on pending work.  If no producer
   Broadcast fell between a failed TryNext and the following Wait (ghost g_lost), fewer than
   n positions were outstanding at every fetch-add (no lapping: ghost g_overcap), and no Write
   is in progress, then a consumer asleep in Cond.Wait has been handed every message whose
   Write returned - no later Write and no Close is needed. *)
Theorem C12_waiter_prompt_partial : forall gt n ps sched, (0 < n)%nat ->
  let w := wrun true gt n ps sched in
  claims (d w) < two64 -> g_lost w = false -> g_overcap (d w) = false ->
  forallb quiescent (prods (d w)) = true -> forallb pb_none (pb w) = true ->
  cons w = CParked false ->
  Permutation (wdelivered w) (wreturned w) /\ alerts (d w) = [] /\ ri (d w) = claims (d w).
Proof. exact prompt_partial. Qed.

(* ... and in general (any lapping): a consumer asleep without a lost Broadcast and without a
   producer about to broadcast has nothing deliverable at the read index *)
Theorem C12_parked_means_drained : forall gt n ps sched, let w := wrun true gt n ps sched in
  g_lost w = false -> cons w = CParked false -> forallb pb_none (pb w) = true -> drained (d w) = true.
Proof. exact parked_means_drained. Qed.

(* non-vacuity: the good interleaving of the K4 scenario (Broadcast after the Wait) *)
Example C12_ex_prompt :
  let w := wrun true true 2 [[100]]
     [TCons; TCons; TCons; TCons; TProd 0; TProd 0; TProd 0; TProd 0; TCons; TCons; TCons; TCons; TCons; TCons; TCons; TCons]%nat in
  g_lost w = false /\ g_overcap (d w) = false /\ cons w = CParked false /\
  wdelivered w = [100] /\ wreturned w = [100].
Proof. vm_compute. auto. Qed.

Example C12_ex_close :
  let w := wrun true true 2 [[100]]
     ([TCons; TCons; TCons; TCons; TProd 0; TProd 0; TProd 0; TProd 0] ++
      [TCloser; TCancel; TCancel; TCancel; TCancel] ++ rep 12 TCons ++ [TCloser])%nat in
  closer w = KDone /\ cons w = CDone /\ wdelivered w = [100].
Proof. vm_compute. auto. Qed.

Print Assumptions C12_close_returns.
Print Assumptions C12_close_terminates.
Print Assumptions C12_poller_not_stuck.
Print Assumptions C12_waiter_lost_wakeup_refuted.
Print Assumptions C12_waiter_prompt_partial.
Print Assumptions C12_parked_means_drained.
