(* C10 - Diode never blocks producers and never corrupts, duplicates or reorders.
   Statements only; proofs are [exact <lemma>] from Proofs/DiodeP.v, Proofs/WaiterP.v.
   Model: Lts/Diode.v (ManyToOne at the granularity of one sync/atomic operation per
   step) and Lts/Waiter.v (diode.Writer with Waiter/Poller, Close).
   [run n ps sched]: ring of size n, producer p writes the messages [nth p ps], [sched] is
   ANY list of thread choices (P p | C); a chosen thread without an enabled step idles.
   Common premise [claims s < two64]: fewer than 2^64 fetch-adds happened (the uint64
   counter has not wrapped), needed because a bucket is identified by its seq. *)
From Verif Require Import Base.Prelude Lts.Diode Lts.Waiter Proofs.DiodeP Proofs.DiodeSoloP Proofs.DiodeOrderP Proofs.WaiterInvP Proofs.WaiterP.
From Coq Require Import Permutation Sorted.
Open Scope N_scope.

(* No producer step ever waits: in EVERY state (reachable or not, whatever the consumer,
   the wrapped writer or other producers did or did not do) a producer that has not
   finished its Writes has an enabled step. *)
Theorem C10_producer_enabled : forall s p,
  pdone (nth p (prods s) (PIdle [])) = false -> exists l s', pstep s p = Some (l, s').
Proof. exact producer_enabled. Qed.

(* ... and that step is a function of (claims, slots, producers) only: it never reads the
   consumer's progress (readIndex, delivered, alerts) *)
Theorem C10_producer_ignores_consumer : forall a b p, same_shared a b ->
  match pstep a p, pstep b p with
  | Some (la, a'), Some (lb, b') => la = lb /\ same_shared a' b'
  | None, None => True
  | _, _ => False
  end.
Proof. exact producer_step_ignores_consumer. Qed.

(* the same at the level of diode.Writer.Write (waiter or poller mode): whatever the state
   of the mutex, the condition variable, the consumer (parked, inside the wrapped writer's
   Write, finished), the cancel goroutine and Close *)
Theorem C10_producer_enabled_writer : forall w p,
  prod_unfinished w p = true -> enabled w (TProd p) = true.
Proof. exact producer_enabled_writer. Qed.

(* Solo progress: from ANY reachable state, let only producer p and the consumer run (the
   other producers are paused wherever they are, the wrapped writer never has to move).
   If during that window p has neither completed a Write nor run out of work, it has taken at
   most 3*size + 5 steps: the consumer can make at most [size] of p's CASes fail (each failure
   costs one non-empty slot), and the newer-test can fire at most once (for a position claimed
   before the window).  So p's current Set returns within 3*size + 6 of p's own steps. *)
Theorem C10_solo_bound : forall n ps sched0 p sched, (0 < n)%nat ->
  let s := run n ps sched0 in
  Forall (only p) sched -> let s' := exec s sched in
  claims s' < two64 ->
  pdone (nth p (prods s') (PIdle [])) = false ->
  length (returned s') = length (returned s) ->
  count_p p sched <= 3 * N.of_nat n + 5.
Proof. exact solo_bound. Qed.

(* Delivered once, identical: no ring position is delivered twice; every delivered bucket
   is the (position, message) of a Write that returned; every returned message is an
   argument of some producer's Write; and when the written messages are pairwise distinct,
   no message is returned twice or delivered twice. *)
Theorem C10_delivered_once_identical : forall n ps sched, let s := run n ps sched in
  claims s < two64 ->
  NoDup (map fst (delivered s)) /\
  (forall b, In b (delivered s) -> In b (returned s)) /\
  (forall m, In m (map snd (returned s)) -> In m (concat ps)) /\
  (NoDup (concat ps) -> NoDup (map snd (returned s)) /\ NoDup (map snd (delivered s))).
Proof. exact delivered_once. Qed.

(* Order: the ring positions of the delivered buckets strictly increase *)
Theorem C10_order : forall n ps sched, let s := run n ps sched in
  claims s < two64 -> StronglySorted N.lt (map fst (delivered s)).
Proof. exact order. Qed.

(* ... and the positions at which one producer's Writes took effect increase in the order of
   its Writes: with C10_order, each producer's messages arrive in its program order.
   Premise: the written messages are pairwise distinct (they identify the Write). *)
Theorem C10_program_order : forall n ps sched p l1 m1 l2 m2 l3 s1 s2, let s := run n ps sched in
  claims s < two64 -> NoDup (concat ps) -> (p < length ps)%nat ->
  nth p ps [] = l1 ++ m1 :: l2 ++ m2 :: l3 ->
  In (s1, m1) (returned s) -> In (s2, m2) (returned s) -> s1 < s2.
Proof. exact program_order. Qed.

(* Alert bound: delivered + reported = read index <= ring positions claimed *)
Theorem C10_alerts_bounded : forall n ps sched, let s := run n ps sched in
  claims s < two64 ->
  N.of_nat (length (delivered s)) + sumN (alerts s) = ri s /\ ri s <= claims s.
Proof. exact alerts_bounded. Qed.

(* non-vacuity: a lapping run (ring of 1, two producers, 3 writes) within the premises *)
Example C10_ex_lapping :
  let s := run 1 [[100; 101]; [200]] [P 0; P 0; P 0; P 1; P 1; P 1; P 0; P 0; P 0; C; C]%nat in
  claims s < two64 /\ NoDup (concat [[100; 101]; [200]]) /\
  delivered s = [(2, 101)] /\ alerts s = [2] /\ map snd (returned s) = [100; 200; 101] /\ ri s = 3.
Proof. vm_compute. repeat split; auto. repeat constructor; cbn; intuition discriminate. Qed.

Example C10_ex_writer_blocked_consumer :
  (* consumer inside the wrapped writer's Write, mutex free, a producer still has a step *)
  let w := wrun true true 2 [[100; 101]] [TProd 0; TProd 0; TProd 0; TProd 0; TCons; TCons; TCons]%nat in
  cons w = CWrite (0, 100) /\ prod_unfinished w 0 = true /\ enabled w (TProd 0) = true.
Proof. vm_compute. auto. Qed.

Example C10_ex_solo :
  (* producer 1 paused after its load; producer 0 and the consumer run; the window is non-trivial *)
  let s := run 1 [[100; 101]; [200]] [P 1; P 1]%nat in
  let sched := [P 0; C; P 0; C]%nat in
  Forall (only 0%nat) sched /\ pdone (nth 0 (prods (exec s sched)) (PIdle [])) = false /\
  length (returned (exec s sched)) = length (returned s) /\ count_p 0 sched = 2.
Proof.
  cbv zeta. split; [|vm_compute; auto].
  repeat (apply Forall_cons; [unfold only; solve [left; reflexivity|right; reflexivity]|]). apply Forall_nil.
Qed.

Print Assumptions C10_producer_enabled.
Print Assumptions C10_producer_ignores_consumer.
Print Assumptions C10_producer_enabled_writer.
Print Assumptions C10_solo_bound.
Print Assumptions C10_delivered_once_identical.
Print Assumptions C10_order.
Print Assumptions C10_program_order.
Print Assumptions C10_alerts_bounded.
