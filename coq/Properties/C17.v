(* C17 - The CBOR decoder is total: errors not crashes; truncation costs only
   the last event.  Statements only; proofs are [exact <lemma>] from
   Proofs/CborDecP.v (and Proofs/Cbor2JsonP.v for the link to the encoder).

   The model (Enc/CborDec.v) is decode_stream.go as it is after the fix
   commits: [cbor2json Orc bs] is what a caller of Cbor2JsonManyObjects
   observes on input [bs]: (bytes written to dst, nil / error class /
   re-raised runtime panic / model out of fuel, allocation meter).

   Quantification.  All theorems hold for EVERY byte string [bs] (any list of
   numbers, bytes or not) that fits in memory ([lenZ bs < 2^60]: Go's int
   arithmetic on lengths is modelled with wrap-around, and a slice cannot be
   longer) and, except for the allocation bound, for EVERY oracle, i.e.
   whatever text strconv / time return, even none.  The allocation bound
   assumes the answers are at most 64 / 400 / 64 bytes long (float32 /
   float64 / timestamp; measured on every answer the harness ships: 48 / 326 /
   38).  That Go's strconv.AppendFloat, time.Unix, Time.AppendFormat and
   net.IP.String themselves return (do not panic) is the assumption made by
   modelling them as functions. *)
From Verif Require Import Base.Prelude Base.CborSpec Base.GoEff Enc.GoStd Enc.CborEnc Enc.CborDec Enc.DecStd Proofs.CborEncP Proofs.CborDecP Proofs.Cbor2JsonP Proofs.SrcDecP.
From Verif Require Gen.DecSrc.
Open Scope Z_scope.

(* termination: the fuel 2*len+2 always suffices; and no runtime panic:
   the outcome is output + nil or output + error, for every input and oracle *)
Theorem C17_total : forall Orc bs, fits_memory bs ->
  match cbor2json Orc bs with
  | (_, FOk, _) | (_, FErr _, _) => True
  | (_, FRuntimePanic _, _) | (_, FOutOfFuel, _) => False
  end.
Proof. exact decoder_total. Qed.

Theorem C17_fuel_sufficient : forall Orc bs, fits_memory bs ->
  snd (fst (cbor2json Orc bs)) <> FOutOfFuel.
Proof.
  intros Orc bs H. pose proof (decoder_total Orc bs H) as T.
  destruct (cbor2json Orc bs) as [[o f] a]. cbn. destruct f; try contradiction; discriminate.
Qed.

Theorem C17_no_runtime_panic : forall Orc bs, fits_memory bs ->
  forall k, snd (fst (cbor2json Orc bs)) <> FRuntimePanic k.
Proof.
  intros Orc bs H k. pose proof (decoder_total Orc bs H) as T.
  destruct (cbor2json Orc bs) as [[o f] a]. cbn. destruct f; try contradiction; discriminate.
Qed.

(* the meter (make sizes, bytes appended to slices, bytes written) is linear *)
Theorem C17_alloc_linear : forall Orc bs, fits_memory bs -> oracle_bounded Orc ->
  let '(_, _, a) := cbor2json Orc bs in Z.of_N a <= 256 * lenZ bs + 8192.
Proof. exact decoder_alloc_linear. Qed.

(* the other entry points: DecodeIfBinaryToBytes returns (no panic at all);
   DecodeObjectToStr has no recover: malformed input makes it panic with the
   decoder's error value, never with a runtime error *)
Theorem C17_decodeIfBinary_returns : forall Orc bs, fits_memory bs ->
  snd (decodeIfBinaryToBytes Orc bs) = FOk.
Proof. exact decodeIfBinary_total. Qed.

Theorem C17_decodeObject_no_runtime_panic : forall Orc bs, fits_memory bs ->
  match snd (decodeObjectToStr Orc bs) with FRuntimePanic _ | FOutOfFuel => False | _ => True end.
Proof. exact decodeObject_total. Qed.

(* extension: whatever the decoder did on a prefix without hitting the end of
   the input, it does on every extension (items are read strictly left to
   right; the only look-ahead is one peeked byte) *)
Theorem C17_extension : forall A (p : prog A) s tail, ext_res (run p s) (run p (ext_st s tail)) tail.
Proof. exact @run_ext. Qed.

(* prefix stability.  [decodes Orc e j]: the non-empty byte string e is one
   top-level item that the decoder turns into the text j, consuming e exactly.
   (Every event the encoder model produces from supported values is such an
   item: Properties/C08 groundwork, Proofs/Cbor2JsonP.v event_decodes.) *)
Theorem C17_stream_decodes : forall Orc es js, Forall2 (decodes Orc) es js -> fits_memory (concat es) ->
  exists a, cbor2json Orc (concat es) = (lines js, FOk, a).
Proof. exact stream_decodes. Qed.

(* a cut inside event e = p ++ q: the events before it are decoded exactly as
   in the full stream, then an end-of-input error is reported *)
Theorem C17_prefix_stability : forall Orc es js e j p q,
  Forall2 (decodes Orc) es js -> decodes Orc e j -> e = p ++ q -> p <> [] -> q <> [] ->
  fits_memory (concat es ++ e) ->
  exists part k a, cbor2json Orc (concat es ++ p) = (lines js ++ part, FErr k, a) /\ is_eof k = true.
Proof. exact stream_torn. Qed.

(* every cut point is one of the two cases *)
Theorem C17_cut_points : forall es : list (list N), (forall e, In e es -> e <> []) ->
  forall k, (k <= length (concat es))%nat ->
  (exists n, firstn k (concat es) = concat (firstn n es)) \/
  (exists es1 e es2 p q, es = es1 ++ e :: es2 /\ e = p ++ q /\ p <> [] /\ q <> [] /\
                         firstn k (concat es) = concat es1 ++ p).
Proof. exact cut_cases. Qed.

(* the premise [decodes] holds of every event of the encoder model: for all
   field lists of well-formed, memory-sized values (any nesting of Arr / Dict,
   every primitive) for which the oracle has the float / time texts
   ([json_fields kvs = Some j]; the j is the JSON object text).  Hence: a
   stream written by the encoder decodes to one line per event, and any cut
   decodes the whole events and then reports an end-of-input error. *)
Theorem C17_encoder_events_decode : forall Orc f64_of_time f64_of_dur,
  (forall s n, (f64_of_time s n < 2 ^ 64)%N) -> (forall d u, (f64_of_dur d u < 2 ^ 64)%N) ->
  forall evs js, Forall wf_fields evs -> Forall (small_fields) evs ->
  Forall2 (fun kvs j => json_fields Orc f64_of_time f64_of_dur kvs = Some j) evs js ->
  Forall2 (decodes Orc) (map (enc_event f64_of_time f64_of_dur) evs) js.
Proof. exact events_decode. Qed.

(* ---- the same statements about the SOURCE ----
   Gen/DecSrc.v is regenerated on every run by harness/cmd/srcgen from /repo/internal/cbor/decode_stream.go
   (17 functions: readNBytes, readByte, decodeIntAdditionalType, decodeInteger, decodeFloat, decodeStringComplex,
   decodeString, decodeUTF8String, appendQuotedJSON, array2Json, map2Json, decodeTagData, decodeSimpleFloat,
   cbor2JsonOneObject, moreBytesToRead, Cbor2JsonManyObjects with its deferred recover, binaryFmt) into state
   transformers over (remaining input, push-back byte, output written) - Base/GoEff.v.  Proofs/SrcDecP.v proves every
   one of them equal to its hand-model counterpart.  [run_source Orc fo F bs] is what a caller of the TRANSLATED
   Cbor2JsonManyObjects observes on input bs with fuel F: [Some (bytes written, FOk | FErr kind)], or [None] for a
   run-time panic / translation out of fuel / an operation outside the modelled reader contract.
   Premises: the input fits in memory and consists of bytes; the float-text oracle of the translation (what
   strconv.AppendFloat answers) is the one of the hand model ([orc_agree]).
   Not translated, called through the hand model's definition (DecSrc.stub_functions): decodeStringToDataUrl
   (aliased slices) and decodeTimeStamp (package time, float arithmetic). *)
Theorem C17_source_refines_model : forall Orc fo, orc_agree Orc fo ->
  forall bs F, fits_memory bs -> bytes bs -> (fuel_for bs <= F)%nat ->
  run_source Orc fo F bs = Some (fst (cbor2json Orc bs)).
Proof. exact many_objects_refines. Qed.

(* totality of the source: it returns, with nil or an error value - never a run-time panic, never out of fuel,
   never outside the reader contract (e.g. an UnreadByte that bufio would refuse) *)
Theorem C17_source_total : forall Orc fo, orc_agree Orc fo ->
  forall bs F, fits_memory bs -> bytes bs -> (fuel_for bs <= F)%nat ->
  exists out fin, run_source Orc fo F bs = Some (out, fin) /\ (fin = FOk \/ exists k, fin = FErr k).
Proof. exact source_total. Qed.

Theorem C17_source_stream_decodes : forall Orc fo, orc_agree Orc fo -> forall es js F,
  Forall2 (decodes Orc) es js -> fits_memory (concat es) -> bytes (concat es) -> (fuel_for (concat es) <= F)%nat ->
  run_source Orc fo F (concat es) = Some (lines js, FOk).
Proof. exact source_stream_decodes. Qed.

Theorem C17_source_prefix_stability : forall Orc fo, orc_agree Orc fo -> forall es js e j p q F,
  Forall2 (decodes Orc) es js -> decodes Orc e j -> e = p ++ q -> p <> [] -> q <> [] ->
  fits_memory (concat es ++ e) -> bytes (concat es ++ e) -> (fuel_for (concat es ++ p) <= F)%nat ->
  exists part k, run_source Orc fo F (concat es ++ p) = Some (lines js ++ part, FErr k) /\ is_eof k = true.
Proof. exact source_stream_torn. Qed.

(* function by function (the statements the top-level theorem is composed of): same value, same remaining input, same
   push-back byte, same output; same error kind and output on an error *)
Theorem C17_source_functions : forall Orc fo, orc_agree Orc fo ->
  sim DecSrc.readByte CborDec.readByte /\
  (forall n, (n < 2 ^ 63)%Z -> sim (DecSrc.readNBytes n) (CborDec.readNBytes n)) /\
  (forall minor, sim (DecSrc.decodeIntAdditionalType minor) (CborDec.decodeIntAdditionalType minor)) /\
  sim DecSrc.decodeInteger CborDec.decodeInteger /\
  sim DecSrc.decodeFloat (wb <- CborDec.decodeFloat ;; PRet (fl_of wb)) /\
  (forall nq, sim (DecSrc.decodeString nq) (CborDec.decodeString nq)) /\
  sim DecSrc.decodeUTF8String CborDec.decodeUTF8String /\
  sim (DecSrc.decodeTagData Orc) (CborDec.decodeTagData Orc) /\
  sim (DecSrc.decodeSimpleFloat fo) (CborDec.decodeSimpleFloat Orc) /\
  (forall pbs, (GoSem.len pbs < 2 ^ 62)%Z -> DecSrc.appendQuotedJSON pbs = GoSem.Ok (CborDec.appendQuotedJSON pbs)) /\
  (forall p, DecSrc.binaryFmt p = GoSem.Ok (CborDec.binaryFmt p)) /\
  (forall f, (Z.of_nat f < 2 ^ 62)%Z -> forall F, (f <= F)%nat ->
     simF (DecSrc.cbor2JsonOneObject Orc fo F) (CborDec.cbor2JsonOneObject Orc f)).
Proof.
  intros Orc fo Ha. repeat split.
  - exact readByte_sim.
  - exact readNBytes_sim.
  - exact decodeIntAT_sim.
  - exact decodeInteger_sim.
  - exact decodeFloat_sim.
  - exact decodeString_sim.
  - exact decodeUTF8String_sim.
  - exact (decodeTagData_sim Orc).
  - exact (decodeSimpleFloat_sim Orc fo Ha).
  - exact SrcDecPureP.appendQuotedJSON_src.
  - exact SrcDecPureP.binaryFmt_src.
  - intros f Hf. exact (proj1 (rec_sim Orc fo Ha f Hf)).
Qed.

(* the translated set is what it is: a function dropping out of it (or into the stubs) breaks this *)
Theorem C17_source_translated_set :
  length DecSrc.translated_functions = 17%nat /\ length DecSrc.skipped_functions = 4%nat /\ length DecSrc.stub_functions = 2%nat.
Proof. exact dec_counts. Qed.

(* premises are satisfiable, and a concrete run of the translated decoder *)
Example C17_ex_source_oracles_agree : orc_agree Orc_const fo_const.
Proof. exact orc_agree_ex. Qed.
Example C17_ex_source_run :
  run_source Orc_const fo_const 100
    [191; 97;97; 1; 97;98; 131; 1; 2; 97;120; 97;99; 250;63;192;0;0; 97;100; 217;1;7; 66; 171;205; 255; 161; 97]%N =
  Some ([123;34;97;34;58;49;44;34;98;34;58;91;49;44;50;44;34;120;34;93;44;34;99;34;58;48;44;34;100;34;58;34;97;98;99;100;34;125;10;123]%N,
        FErr EEofReadN).
Proof. exact source_run_example. Qed.

(* ---- non-vacuity and the fixed defects as theorems about the model ---- *)
Definition O_none : oracle := mkoracle (fun _ => None) (fun _ => None) (fun _ => None) (fun _ _ => None).

(* ff99b7e: these inputs used to reach make() with a negative / 2 GiB size *)
Example C17_ex_fixed_negative_length :
  cbor2json O_none [91; 255; 255; 255; 255; 255; 255; 255; 255]%N = ([], FErr EInvalidLength, 16%N).
Proof. vm_compute. reflexivity. Qed.

Example C17_ex_fixed_huge_length :
  cbor2json O_none [90; 127; 255; 255; 255]%N = ([], FErr EEofReadN, 4104%N).
Proof. vm_compute. reflexivity. Qed.

Example C17_ex_decodes :
  decodes O_none [191; 97; 97; 1; 97; 98; 159; 245; 57; 1; 243; 255; 255]%N
                 [123; 34; 97; 34; 58; 49; 44; 34; 98; 34; 58; 91; 116; 114; 117; 101; 44; 45; 53; 48; 48; 93; 125]%N.
Proof. split; [discriminate|]. exists 30%nat. eexists. vm_compute. reflexivity. Qed.

(* an encoder-model stream, cut inside its second event *)
Definition ex_tf (s : Z) (n : N) : N := 4742290407621132288%N.
Definition ex_df (d u : Z) : N := 4607182418800017408%N.
Definition ex_ev1 : list (list N * cval) :=
  [([108;101;118;101;108]%N, VP (PString [105;110;102;111]%N)); ([110]%N, VP (PInt (-5)));
   ([97]%N, VArr [VP (PBool true); VDict [([107]%N, VP PNil)]])].
Definition ex_ev2 : list (list N * cval) := [([117]%N, VP (PUints [1; 18446744073709551615]%N)); ([104]%N, VP (PHex [171; 205]%N))].

Example C17_ex_encoder_stream :
  let e1 := enc_event ex_tf ex_df ex_ev1 in
  let e2 := enc_event ex_tf ex_df ex_ev2 in
  json_fields O_none ex_tf ex_df ex_ev1 <> None /\ json_fields O_none ex_tf ex_df ex_ev2 <> None /\
  fst (cbor2json O_none (e1 ++ e2)) =
    ([123;34;108;101;118;101;108;34;58;34;105;110;102;111;34;44;34;110;34;58;45;53;44;34;97;34;58;91;116;114;117;101;44;
      123;34;107;34;58;110;117;108;108;125;93;125;10;
      123;34;117;34;58;91;49;44;49;56;52;52;54;55;52;52;48;55;51;55;48;57;53;53;49;54;49;53;93;44;34;104;34;58;34;97;98;99;100;34;125;10]%N, FOk) /\
  snd (fst (cbor2json O_none (e1 ++ firstn 5 e2))) = FErr EEofPeek.
Proof. cbv zeta. repeat split; try (vm_compute; discriminate); vm_compute; reflexivity. Qed.

Print Assumptions C17_total.
Print Assumptions C17_fuel_sufficient.
Print Assumptions C17_no_runtime_panic.
Print Assumptions C17_alloc_linear.
Print Assumptions C17_decodeIfBinary_returns.
Print Assumptions C17_decodeObject_no_runtime_panic.
Print Assumptions C17_extension.
Print Assumptions C17_stream_decodes.
Print Assumptions C17_prefix_stability.
Print Assumptions C17_cut_points.
Print Assumptions C17_encoder_events_decode.
Print Assumptions C17_source_refines_model.
Print Assumptions C17_source_total.
Print Assumptions C17_source_stream_decodes.
Print Assumptions C17_source_prefix_stability.
Print Assumptions C17_source_functions.
Print Assumptions C17_source_translated_set.
