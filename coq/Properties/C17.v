(* C17 - placeholder while the proofs are being written *)
From Verif Require Import Base.Prelude Enc.CborDec.
Theorem C17_placeholder : True. Proof. exact I. Qed.
Print Assumptions C17_placeholder.
