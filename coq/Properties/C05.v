(* C05 - Derived loggers are independent values.  Statements only. *)
From Coq Require Import String.
From Verif Require Import Base.Prelude Misc.HlogHeap Heap.LoggerHeap Proofs.LoggerHeapP
     Heap.EventPool Gen.Structs Proofs.EventPoolP.
Open Scope nat_scope.

(* Go slice semantics (backing arrays, headers, append in place iff it fits,
   otherwise a fresh array of ANY sufficient capacity): for EVERY program of the
   property's language - trees of With()...Logger() chains, Level / Sample / Hook
   (header copies), Output (make + copy), UpdateContext on loggers produced by
   With()...Logger() or Output (the updating function calling any sequence of
   appending context methods and Reset()), events emitted from any node in any order
   ([in_language]: each Context value is consumed by the call that uses it) - and
   EVERY growth policy, each emitted event reads exactly the context of its own
   derivation path (the pure semantics [prun], where a variable's context is a
   plain value that nothing else can touch) *)
Theorem C05_independent : forall grow p, in_language p = true -> hs_obs (hrun grow p) = ps_obs (prun p).
Proof. exact independent. Qed.

(* K1 (known finding): outside that language - a Context value used as the
   receiver of two calls - the first branch emits the second branch's bytes *)
Theorem C05_ctx_value_branched_refuted :
  in_language k1_prog = false /\
  hs_obs (hrun (fun c n => 2 * c) k1_prog) = [[123;98;97;66;66;66;66]%N; [123;98;97;66;66;66;66]%N] /\
  ps_obs (prun k1_prog) = [[123;98;97;65;65;65;65]%N; [123;98;97;66;66;66;66]%N].
Proof. exact k1_refuted. Qed.

(* GetCtx: sync.Pool may hand newEvent ANY earlier event; because the CURRENT
   newEvent reassigns every field of the CURRENT Event struct (tables
   regenerated from the source on every run), the new event is independent of
   the stale one, and its Go context reads as Background until the logger's
   newEvent or Ctx() sets it *)
Theorem C05_newEvent_resets_every_field : covers event_fields newEvent_resets = true.
Proof. exact newEvent_covers_all_fields. Qed.

Theorem C05_pooled_event_carries_nothing_over : forall assigned s1 s2,
  new_event event_fields newEvent_resets assigned s1 = new_event event_fields newEvent_resets assigned s2.
Proof. intros. apply new_event_stale_independent. exact newEvent_covers_all_fields. Qed.

Theorem C05_getctx_sound : forall assigned stale, assigned "ctx"%string = 0 ->
  get_ctx (new_event event_fields newEvent_resets assigned stale) = 0.
Proof. exact getctx_never_stale. Qed.

(* Output(w) changes nothing but the destination: every Logger field except the writer is copied *)
Theorem C05_output_only_destination :
  forallb (fun f => String.eqb f "w" || existsb (String.eqb f) output_all) logger_fields = true.
Proof. exact output_copies_all_but_writer. Qed.

Theorem C05_logger_context_reaches_event :
  existsb (String.eqb "ctx") logger_newEvent_sets = true /\ existsb (String.eqb "ch") logger_newEvent_sets = true.
Proof. exact logger_newEvent_sets_ctx. Qed.

(* non-vacuity: a branching tree in the language; the parent (3) is reset and refilled through
   UpdateContext after a Level copy (4) of it was taken - the copy keeps the old fields *)
Example C05_ex :
  let p := [HRoot; HWith 0; HOp 1 [98]%N; HLogger 2; HCopy 3; HWith 3; HOp 5 [65]%N; HLogger 6; HWith 4; HOp 8 [66]%N; HLogger 9;
            HUpdate 3 [CApp [67]%N]; HOutput 7; HEmit 3; HEmit 4; HEmit 7; HEmit 10; HEmit 11;
            HUpdate 3 [CReset; CApp [68]%N]; HEmit 3; HEmit 4; HWith 3; HReset 12; HOp 13 [69]%N; HLogger 14; HEmit 15; HEmit 3] in
  in_language p = true /\
  ps_obs (prun p) = [[123;98;67]; [123;98]; [123;98;65]; [123;98;66]; [123;98;65];
                     [123;68]; [123;98]; [123;69]; [123;68]]%N.
Proof. vm_compute. auto. Qed.

Print Assumptions C05_independent.
Print Assumptions C05_ctx_value_branched_refuted.
Print Assumptions C05_newEvent_resets_every_field.
Print Assumptions C05_pooled_event_carries_nothing_over.
Print Assumptions C05_getctx_sound.
Print Assumptions C05_output_only_destination.
Print Assumptions C05_logger_context_reaches_event.
