(* C19 - the caller field names the user's call site.
   Only statements live here; every proof is [exact <lemma>] from
   Proofs/CallerP.v.  The call chains, the skip expressions and the constants
   are NOT written in the model: they are the table Gen/CallChains.v that
   harness/cmd/c19gen extracts from the repository's working tree before every
   build (cc_paths, cc_entries, cc_finalizers, cc_terminals, cc_direct,
   cc_hook_ctors, cc_consts).

   Trusted, not modelled: the Go runtime's frame accounting.  The model counts
   LOGICAL frames - one per function on the static call chain - and assumes that
   runtime.Caller does the same: inlined calls are reported as if not inlined,
   and the compiler-generated wrappers for value-receiver methods called through
   an interface (callerHook.Run in the hook loop, Logger.Write behind an
   io.Writer) are hidden (the reason for go112.go).  That assumption is what the
   correspondence run of the check tests on a generated program built with the
   default compiler settings. *)
From Verif Require Import Base.Prelude Misc.CallerTypes Gen.CallChains Misc.Caller Proofs.CallerP.
From Coq Require Import String.
Open Scope string_scope.
Open Scope list_scope.
Open Scope Z_scope.

(* For every entry point and finalizer of the table, any hooks before and after
   the caller hook that do not themselves call CallerSkipFrame, whatever the
   pooled Event carried, every wrapper depth d and every k <= d - with the
   statement in a function reached through d wrapper functions (user frames
   FUser 0 = the statement, FUser 1 = the call of that function ... FUser d) -
   the one caller field of the event names user frame k:
     l.E().CallerSkipFrame(k).Caller().F(..)               Event.Caller
     l.E().Caller(k).F(..)
     l.E().Caller().F(..)         with CallerSkipFrameCount = default + k
     l.E().CallerSkipFrame(k).F(..)   logger built With().Caller()
     l.E().F(..)                      logger built With().CallerWithSkipFrameCount(2+k)
     l.E().F(..)                      With().Caller(), CallerSkipFrameCount = default + k
   and for Print/Printf/Println/Write and package log Print/Printf the frame of
   the Print/Write call itself moves up by k the same way. *)
Theorem C19_reports_user_frame :
  forall (d k : nat) (rest : stack) (stale : Z) (pre post : list hook),
    (k <= d)%nat -> quiet pre -> quiet post ->
    let st := ustack d rest in
    let K := Z.of_nat k in
    let want := Some [Some (FUser (N.of_nat k))] in
    let g0 := global_default in
    let W g hs := {| w_global := g; w_stale := stale; w_hooks := hs |} in
    (forall en fin, In en (map fst cc_entries) -> In fin cc_finalizers ->
       run_stmt (W g0 (pre ++ post)) st (SLog en [OSkipFrame K; OCaller None] fin) = want /\
       run_stmt (W g0 (pre ++ post)) st (SLog en [OCaller (Some K)] fin) = want /\
       run_stmt (W (g0 + K) (pre ++ post)) st (SLog en [OCaller None] fin) = want /\
       run_stmt (W g0 (pre ++ HCaller flag_value :: post)) st (SLog en [OSkipFrame K] fin) = want /\
       run_stmt (W g0 (pre ++ HCaller (2 + K) :: post)) st (SLog en [] fin) = want /\
       run_stmt (W (g0 + K) (pre ++ HCaller flag_value :: post)) st (SLog en [] fin) = want) /\
    (forall t, In t cc_terminals ->
       run_stmt (W g0 (pre ++ HCaller (2 + K) :: post)) st (STerminal t) = want /\
       run_stmt (W (g0 + K) (pre ++ HCaller flag_value :: post)) st (STerminal t) = want).
Proof. exact reports_user_frame. Qed.

(* The hooks above are the ones the Context methods install. *)
Theorem C19_context_caller_hook : ctx_hook "Context.Caller" 0 = Some (HCaller flag_value).
Proof. exact ctx_caller_hook. Qed.

Theorem C19_context_caller_with_skip_hook : forall n,
  ctx_hook "Context.CallerWithSkipFrameCount" n = Some (HCaller n).
Proof. exact ctx_caller_skip_hook. Qed.

(* The general form: every statement over the table (any sequence of
   CallerSkipFrame / Caller calls on the event, any hooks, any value of the
   global, any stack at all) yields exactly the frames of the declarative reading
   [spec_stmt]: a Caller report lands (sum of CallerSkipFrame so far) +
   (global - default) + (its argument) frames above the statement, a caller-hook
   report (sum of all CallerSkipFrame incl. those of earlier hooks) + (global -
   default, or hook field - default) frames above it.  Premise: no offset is
   negative (a negative offset names a frame of zerolog itself). *)
Theorem C19_refines_reading : forall w st s, stmt_in_table s ->
  Forall (fun o => 0 <= o) (spec_stmt w s) ->
  run_stmt w st s = Some (map (frame_at st) (spec_stmt w s)).
Proof. exact run_stmt_spec. Qed.

(* Skips from all sources add up, also those of other hooks that call
   CallerSkipFrame before the caller hook runs. *)
Theorem C19_skips_add_up : forall en fin g stale a b (pre post : list Z) f st,
  In en (map fst cc_entries) -> In fin cc_finalizers ->
  let off1 := a + (g - global_default) + arg_or0 b in
  let off2 := a + sumZ pre + (if f =? flag_value then g - global_default else f - global_default) in
  0 <= off1 -> 0 <= off2 ->
  run_stmt {| w_global := g; w_stale := stale; w_hooks := map HOther pre ++ HCaller f :: map HOther post |} st
           (SLog en [OSkipFrame a; OCaller b] fin)
  = Some [frame_at st off1; frame_at st off2].
Proof. exact skips_add_up. Qed.

(* --- skip arithmetic --- *)
(* a skip expression of the table is a linear form in (global, Caller argument, hook field, skipFrame) *)
Theorem C19_skip_expression_linear : forall l L r, lin l = Some L ->
  (la L = 0 \/ is_some (r_arg r) = true) ->
  sum_atoms r l = Some (l0 L + lg L * r_global r + la L * arg_or0 (r_arg r) + lf L * r_field r + ls L * r_sf r).
Proof. exact lin_sum. Qed.

(* one report of Event.Caller, for all register values and stacks *)
Theorem C19_event_caller_offset : forall root r st, In root cc_direct ->
  0 <= r_sf r + (r_global r - global_default + arg_or0 (r_arg r)) ->
  read root r st = nth_error st (Z.to_nat (r_sf r + (r_global r - global_default + arg_or0 (r_arg r)))).
Proof. exact (fun root r st => read_direct root r st). Qed.

(* one report of the caller hook, through any finalizer / Print* / Write *)
Theorem C19_hook_offset : forall root r st, In root (cc_finalizers ++ cc_terminals) -> r_arg r = None ->
  0 <= r_sf r + (if r_field r =? flag_value then r_global r - global_default else r_field r - global_default) ->
  read root r st = nth_error st (Z.to_nat
    (r_sf r + (if r_field r =? flag_value then r_global r - global_default else r_field r - global_default))).
Proof. exact (fun root r st => read_hook root r st). Qed.

(* --- the obligations over the generated table (finite checks, vm_compute) --- *)
(* every function the property names is in the table, so the quantifiers above are not vacuous *)
Theorem C19_table_covers_api : covers_ok = true.
Proof. exact table_covers_api. Qed.

(* Event.Caller: for each truth value of `len(skip) > 0` exactly one row applies and
   chain length = CallerSkipFrameCount(default) *)
Theorem C19_table_event_caller_rows : direct_ok = true.
Proof. exact direct_rows_ok. Qed.

(* hook rows: for each finalizer / Print* / Write and each truth value of
   `field == useGlobalSkipFrameCount` exactly one row applies and chain length =
   contextCallerSkipFrameCount + CallerSkipFrameCount(default) + the CallerSkipFrame literals on the way *)
Theorem C19_table_hook_rows : hooks_ok = true.
Proof. exact hook_rows_ok. Qed.

Theorem C19_table_entries_apply_no_skip : entries_ok = true.
Proof. exact entries_apply_no_skip. Qed.

Theorem C19_table_newEvent_resets_skipFrame : cc_newEvent_resets_skipFrame = true.
Proof. exact newEvent_resets. Qed.

Theorem C19_table_hook_constructors : hook_ctors_ok = true.
Proof. exact hook_ctors_as_documented. Qed.

Theorem C19_global_default_is_2 : global_default = 2.
Proof. exact global_default_is_2. Qed.

(* non-vacuity: the premises are met by concrete instances, and the model computes *)
Example C19_ex_in_table :
  In "Logger.Info" (map fst cc_entries) /\ In "log.WithLevel" (map fst cc_entries) /\
  In "Event.MsgFunc" cc_finalizers /\ In "log.Printf" cc_terminals /\ In "Logger.Write" cc_terminals /\
  quiet [HOther 0; HOther 0] /\ stmt_in_table (SLog "Logger.Err" [OSkipFrame 1; OCaller (Some 1)] "Event.Send").
Proof. cbn. repeat split; auto 25. repeat constructor. Qed.

(* helper three wrappers deep reporting its caller's caller: l.Info().Caller(2).Msg("") *)
Example C19_ex_event_caller :
  run_stmt {| w_global := 2; w_stale := 7; w_hooks := [HOther 0] |} (ustack 3 [FOuter])
           (SLog "Logger.Info" [OCaller (Some 2)] "Event.Msg") = Some [Some (FUser 2)].
Proof. vm_compute. reflexivity. Qed.

(* log.Printf under With().Caller(): the line of the Printf call *)
Example C19_ex_log_printf :
  run_stmt {| w_global := 2; w_stale := 0; w_hooks := [HOther 0; HCaller flag_value; HOther 0] |} (ustack 0 [FOuter])
           (STerminal "log.Printf") = Some [Some (FUser 0)].
Proof. vm_compute. reflexivity. Qed.

(* Event.Caller and Context.Caller together: two caller fields, both the statement's line *)
Example C19_ex_two_fields :
  run_stmt {| w_global := 2; w_stale := 0; w_hooks := [HCaller flag_value] |} (ustack 1 [FOuter])
           (SLog "log.Warn" [OCaller None] "Event.Send") = Some [Some (FUser 0); Some (FUser 0)].
Proof. vm_compute. reflexivity. Qed.

(* outside the property (documented differently in context.go): CallerWithSkipFrameCount(-1)
   does not mean "use the global" - the flag is useGlobalSkipFrameCount = math.MinInt32 -
   and the report names a frame of zerolog itself *)
Example C19_ex_minus_one_names_zerolog :
  run_stmt {| w_global := 2; w_stale := 0; w_hooks := [HCaller (-1)] |} (ustack 0 [FOuter])
           (SLog "Logger.Info" [] "Event.Msg") = Some [Some (FZ "callerHook.Run")].
Proof. vm_compute. reflexivity. Qed.

Print Assumptions C19_reports_user_frame.
Print Assumptions C19_context_caller_hook.
Print Assumptions C19_context_caller_with_skip_hook.
Print Assumptions C19_refines_reading.
Print Assumptions C19_skips_add_up.
Print Assumptions C19_skip_expression_linear.
Print Assumptions C19_event_caller_offset.
Print Assumptions C19_hook_offset.
Print Assumptions C19_table_covers_api.
Print Assumptions C19_table_event_caller_rows.
Print Assumptions C19_table_hook_rows.
Print Assumptions C19_table_entries_apply_no_skip.
Print Assumptions C19_table_newEvent_resets_skipFrame.
Print Assumptions C19_table_hook_constructors.
Print Assumptions C19_global_default_is_2.
