(* C01 - placeholder while the proofs are being written: the statements arrive with Proofs/ExecP.v *)
From Verif Require Import Base.Prelude Enc.JsonEnc Api.Exec.
Theorem C01_fresh_begins_with_brace : forall marks, e_buf (fresh marks) = [123%N].
Proof. reflexivity. Qed.
Print Assumptions C01_fresh_begins_with_brace.
