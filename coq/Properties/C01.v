(* C01 - Every emitted event is exactly one well-formed JSON object on one line.
   Statements only; proofs are [exact] from Proofs/ExecP.v and Proofs/JsonEncP.v. *)
From Verif Require Import Base.Prelude Base.Decimal Base.Utf8 Base.JsonSpec Enc.JsonEnc Misc.Level
     Proofs.JsonEncP Api.Exec Api.Spec Proofs.ExecP Proofs.FuelP
     Base.GoSem Proofs.SrcJsonP.
From Verif Require Gen.JsonSrc.
Open Scope N_scope.

(* For ALL settings, ALL logger derivation chains (With / UpdateContext with any
   context ops, hooks), ALL event programs (any nesting of Dict / Array / Object
   / EmbedObject / Fields / Func / errors, any bytes in keys, strings, []byte,
   error texts, NaN/Inf, nil values, empty slices, field-less objects), ALL
   levels, messages:  if the line is written, it is  body ++ "\n"  where body is
   one RFC 8259 object, valid UTF-8 (RFC 3629), and every byte of body is >= 0x20
   (so no raw newline or control byte).
   Premises = the property's own exclusions and the oracle hypotheses:
   [chain_ok] / [hooks_ok] / [ops_ok] only constrain pre-encoded fragments
   (RawJSON, marshal-function results: valid JSON), time layouts (no quote,
   backslash, control bytes), the strconv float texts (JSON numbers) and base64
   text (base64 alphabet); see Api/Spec.v [prim_ok]. *)
Theorem C01_event_line : forall st chain lvl ops msg line,
  chain_ok st chain -> hooks_ok st chain -> ops_ok st ops ->
  fst (run_chain st chain lvl ops msg) = Some line ->
  exists body kvs, line = body ++ [10] /\ Json body (JObj kvs) /\
    (exists cs, Utf8 body cs) /\ Forall (fun b => 32 <= b /\ b < 256) body.
Proof. exact event_line. Qed.

(* the string escaper alone: for EVERY byte string (no premise), the quoted
   text is a JSON string denoting Go's reading of the bytes (ill-formed bytes
   read as U+FFFD), is valid UTF-8 and has no control byte *)
Theorem C01_string_escaping : forall s, JString (json_string s) (go_runes s) /\ GoodTxt (json_string s).
Proof. exact json_string_good_all. Qed.

(* the comma decision of AppendKey and the context splice, as shapes *)
Theorem C01_AppendKey_shape : forall dst key,
  AppendKey dst key = dst ++ (if last_byte dst =? 0x7B then [] else [0x2C]) ++ json_string key ++ [0x3A].
Proof. exact AppendKey_shape. Qed.

(* no value text ends in an opening brace: this is what makes "look at the last byte" sound *)
Theorem C01_value_never_ends_in_brace : forall t v, Json t v -> t <> [] /\ last_byte t <> 0x7B.
Proof. exact Json_last. Qed.

(* the execution fuel of the model is only a device: every fuel that covers the
   nesting depth of the program gives the result of [exec] (fuel = depth), so
   the model never runs a truncated program, whatever the nesting *)
Theorem C01_exec_fuel_irrelevant : forall st n o e, (depth o <= n)%nat -> exec_n st n o e = exec st o e.
Proof. exact exec_fuel_enough. Qed.

Theorem C01_exec_list_is_exec : forall st l e, exec_list st l e = run_list (exec st) l e.
Proof. exact exec_list_is_exec. Qed.

(* ... and so do the premises: [ops_ok] is the conjunction of the per-op oracle
   premises, each of which constrains every nested fragment (no fuel runs out
   and turns a premise into True) *)
Theorem C01_premises_fuel_irrelevant : forall st l, ops_ok st l <-> Forall (op_ok st) l.
Proof. exact ops_ok_is_op_ok. Qed.

(* ---- about the SOURCE.  Gen/JsonSrc.v is the translation, regenerated on every run by harness/cmd/srcgen,
   of the function bodies of /repo/internal/json (loops, indices, switch, the noEscapeTable built by init()).
   [bytes_ok s]: every element is a byte; [len_ok s]: len s < 2^62 (so that Go's int index arithmetic, which
   the translation wraps at 64 bits, cannot overflow - true of every slice that fits in memory). ---- *)

(* the code of AppendString and of AppendBytes, as it stands in the working tree, returns (never panics, never
   loops) dst followed by a JSON string denoting Go's reading of the bytes, valid UTF-8, no control byte *)
Theorem C01_source_string_escaper : forall dst s, bytes_ok s -> len_ok s ->
  exists t, JsonSrc.AppendString dst s = Ok (dst ++ t) /\ JsonSrc.AppendBytes dst s = Ok (dst ++ t) /\
            JString t (go_runes s) /\ GoodTxt t.
Proof. exact source_string_escaper. Qed.

(* the code of AppendKey: comma unless the last byte is an opening brace, the escaped key, a colon; it indexes
   dst[len(dst)-1] and therefore panics on an empty dst - zerolog never calls it so (Event.buf and
   Logger.context start with the begin marker) and the premise says so *)
Theorem C01_source_AppendKey : forall dst key, dst <> [] -> len_ok dst -> bytes_ok key -> len_ok key ->
  JsonSrc.AppendKey dst key = Ok (dst ++ (if last_byte dst =? 0x7B then [] else [0x2C]) ++ json_string key ++ [0x3A]).
Proof. exact source_AppendKey. Qed.

(* the translated functions of internal/json (strings, keys, hex, object splice, markers, booleans, every
   integer width and its slice form, times in the five formats, and the float encoders with their slice forms: NaN/Inf strings,
   the 'e'/'f' choice against the float32 / float64 thresholds, the exponent clean-up that rewrites dst in place)
   return exactly what the hand-written model computes - so every theorem about the model's primitives is a
   theorem about this code.  For the floats strconv.AppendFloat is an oracle [fo] assumed to return the two texts
   the model carries, and float64(float32) is the exact bit-level conversion of Base/FloatBits.v *)
Theorem C01_source_refines_model : json_source_refinement.
Proof. exact json_source_refines_model. Qed.

(* non-vacuity: a nested program with context, hook, Dict, Array, Fields, errors meets the premises *)
Definition ex_settings : settings :=
  {| s_level_name := [108]; s_message_name := [109]; s_error_name := [101]; s_stack_name := [115];
     s_timestamp_name := [116]; s_caller_name := [99]; s_timefmt := TFUnixMs; s_dur_unit := 1000000; s_dur_int := true;
     s_prec := (-1)%Z; s_nil_iface := IfOk [110;117;108;108]; s_level_text := level_string; s_stack_marshaler := true |}.
Definition ex_chain : list (bool * list cop) :=
  [(false, [COp (OKey [97;34] (PStr [10;255;226;130])); CEmbed None; CObject [111] (Some []); CHook [OMark 1; OKey [104] (PBool true)]]);
   (true, [COp (OKey [117] (PInt (-5)))])].
Definition ex_ops : list op :=
  [OKey [107] (PInts [1; -2]%Z); ODict [100] [OKey [120] PNil; OArray [97] [AElem (PUint 7); AObj []; AErr ETypedNil]];
   OStack; OFields [(Some [102], FVErrs [EText [98;111;111;109]; ENil]); (None, FVPrim PNil); (Some [103], FVErr (EText [120]) ENil)];
   OErr (EObj [OKey [105] (PStr [])]) (EText [116;114]); OEmbed (Some []); OObject [122] None].

Lemma raw_null_ok : raw_ok [110;117;108;108].
Proof.
  split.
  - exists JNull. apply parse_json_sound. vm_compute. reflexivity.
  - apply GoodTxt_ascii. repeat constructor; unfold printable; lia.
Qed.

Example C01_ex_premises : chain_ok ex_settings ex_chain /\ hooks_ok ex_settings ex_chain /\ ops_ok ex_settings ex_ops.
Proof.
  unfold chain_ok, hooks_ok, ops_ok, op_ok. cbn.
  repeat first [exact raw_null_ok | exact Logic.I | lia | split | constructor | progress cbn].
Qed.

Example C01_ex_line :
  fst (run_chain ex_settings ex_chain 1%Z ex_ops [104;105]) <> None.
Proof. vm_compute. discriminate. Qed.

(* the translation evaluates: the source's own answers on concrete inputs (vm_compute) *)
(* h, quote, a lone 0xE9 (ill-formed), newline, a valid e-acute, DEL *)
Example C01_source_ex_string : JsonSrc.AppendString [123] [104;34;233;10;195;169;127] =
  GoSem.Ok [123; 34; 104; 92; 34; 92; 117; 102; 102; 102; 100; 92; 110; 195; 169; 92; 117; 48; 48; 55; 102; 34].
Proof. vm_compute. reflexivity. Qed.
Example C01_source_ex_key : JsonSrc.AppendKey [123] [107] = GoSem.Ok [123;34;107;34;58] /\ JsonSrc.AppendKey [123;49] [107] = GoSem.Ok [123;49;44;34;107;34;58] /\ JsonSrc.AppendKey [] [107] = GoSem.Panic.
Proof. vm_compute. repeat split. Qed.

Print Assumptions C01_event_line.
Print Assumptions C01_string_escaping.
Print Assumptions C01_AppendKey_shape.
Print Assumptions C01_value_never_ends_in_brace.
Print Assumptions C01_exec_fuel_irrelevant.
Print Assumptions C01_exec_list_is_exec.
Print Assumptions C01_premises_fuel_irrelevant.
Print Assumptions C01_source_string_escaper.
Print Assumptions C01_source_AppendKey.
Print Assumptions C01_source_refines_model.
