(* C14 - Writer fan-out is complete and failures stay contained.
   Only statements live here; every proof is [exact <lemma>] from
   Proofs/WritersP.v.  The model (Lts/Writers.v) is tied to writer.go /
   event.go by the correspondence run of bin/check C14.

   Vocabulary: a configuration [c] is the writer a Logger was built over
   (wrappers around a MultiLevelWriter over [c_dests c], or a single
   destination); [om k d] is what the fake of destination d does when it is
   called for event k (ok / error value e / short write n); [run c om evs] is,
   per logging call, the trace of actions; [calls_of d] projects a trace on
   destination d's call log (entry mode = Write or WriteLevel l, bytes). *)
From Verif Require Import Base.Prelude Misc.Level Lts.Writers Proofs.WritersP.
From Verif Require Import Lts.WriterTree Proofs.WriterTreeP.
From Verif Require Base.GoSem Base.GoEff Base.GoExt Gen.WriterSrc Proofs.SrcWriterP.
Open Scope Z_scope.

(* For ALL destination lists, event sequences and outcome matrices: the call
   log of every destination is the event sequence pushed through its own
   wrapper chain ([deliver]) - each event once, in order, same bytes and level.
   The outcome matrix does not occur on the right-hand side: what the other
   destinations (or this one) returned is irrelevant. *)
Theorem C14_every_destination_once : forall c om d evs,
  calls_of d (concat (run c om evs)) = flat_map (deliver c d) evs.
Proof. exact every_destination_once. Qed.

(* ... spelled out for zerolog.New(MultiLevelWriter(dests...)): *)
Theorem C14_level_writer_destination : forall c om d evs,
  c_wraps c = [] -> c_kind c = KMulti -> enabled evs ->
  nth_error (c_dests c) d = Some {| d_wraps := []; d_leaf := LLevel |} ->
  calls_of d (concat (run c om evs)) = map (fun ev => (MLevel (ev_level ev), ev_bytes ev)) evs.
Proof. exact log_level_dest. Qed.

Theorem C14_io_writer_destination : forall c om d ws evs,
  c_wraps c = [] -> c_kind c = KMulti -> enabled evs ->
  (forall w, In w ws -> w = WSync \/ w = WAdapter) ->
  nth_error (c_dests c) d = Some {| d_wraps := ws; d_leaf := LPlain |} ->
  calls_of d (concat (run c om evs)) = map (fun ev => (MWrite, ev_bytes ev)) evs.
Proof. exact log_plain_dest. Qed.

(* a FilteredLevelWriter destination receives exactly the events at or above its level *)
Theorem C14_filtered_destination : forall c om d min evs,
  c_wraps c = [] -> c_kind c = KMulti -> enabled evs ->
  nth_error (c_dests c) d = Some {| d_wraps := [WFiltered min]; d_leaf := LLevel |} ->
  calls_of d (concat (run c om evs)) =
  map (fun ev => (MLevel (ev_level ev), ev_bytes ev)) (filter (fun ev => min <=? ev_level ev) evs).
Proof. exact log_filtered_dest. Qed.

Theorem C14_filtered_io_writer_destination : forall c om d min evs,
  c_wraps c = [] -> c_kind c = KMulti -> enabled evs ->
  nth_error (c_dests c) d = Some {| d_wraps := [WFiltered min; WAdapter]; d_leaf := LPlain |} ->
  calls_of d (concat (run c om evs)) =
  map (fun ev => (MWrite, ev_bytes ev)) (filter (fun ev => min <=? ev_level ev) evs).
Proof. exact log_filtered_plain_dest. Qed.

(* scope note: when the MultiLevelWriter is entered through Write (it is hidden
   behind a plain io.Writer), FilteredLevelWriter.Write sees no level and
   forwards every event.  The property speaks of events with levels, i.e. of
   the WriteLevel entry that a Logger built over the MultiLevelWriter uses. *)
Theorem C14_filter_needs_level_entry : forall c om d min evs,
  c_wraps c = [WAdapter] -> c_kind c = KMulti -> enabled evs ->
  nth_error (c_dests c) d = Some {| d_wraps := [WFiltered min]; d_leaf := LLevel |} ->
  calls_of d (concat (run c om evs)) = map (fun ev => (MWrite, ev_bytes ev)) evs.
Proof. exact log_filtered_via_write. Qed.

(* multiLevelWriter.Write/WriteLevel: all destinations are called (the complete
   fan-out, whatever the outcomes) and the returned error is [first_fail]:
   the error of the first destination, in order, that was reached and failed;
   a short write counts as io.ErrShortWrite *)
Theorem C14_first_failure_wins : forall ds m p o,
  fst (multi_write ds m p o) = fanout ds 0%nat m p /\
  snd (snd (multi_write ds m p o)) = first_fail ds 0%nat m p o.
Proof. exact multi_write_spec. Qed.

(* [first_fail] is what its name says *)
Theorem C14_first_fail_is_first : forall ds m p o e,
  first_fail ds 0%nat m p o = Some e ->
  exists k d, nth_error ds k = Some d /\ dest_err d m p (o k) = Some e /\
              forall j dj, (j < k)%nat -> nth_error ds j = Some dj -> dest_err dj m p (o j) = None.
Proof. exact first_fail_is_first. Qed.

Theorem C14_no_failure_no_error : forall ds m p o,
  first_fail ds 0%nat m p o = None <->
  forall k d, nth_error ds k = Some d -> dest_err d m p (o k) = None.
Proof. exact no_failure_no_error. Qed.

(* and n = len(p) when nobody failed *)
Theorem C14_no_failure_full_length : forall ds m p o,
  ds <> [] -> first_fail ds 0%nat m p o = None -> fst (snd (multi_write ds m p o)) = blen p.
Proof. exact no_failure_full_length. Qed.

(* the shape of every logging call of an enabled event, for every
   configuration and every outcome row: first the complete fan-out, then the
   event is recycled, then the error - if any - is reported exactly once to
   ErrorHandler (stderr if none is set), then the deferred done runs if set *)
Theorem C14_logging_call_shape : forall c o ev, ev_level ev <> Disabled ->
  msg c o ev = event_calls c ev ++ [APut] ++ report c (event_err c o ev)
               ++ (if ev_panic ev then [ADone] else []).
Proof. exact msg_spec. Qed.

(* ErrorHandler is invoked exactly once per failing event, with the error of
   the first failing destination, and not at all otherwise; the event is
   recycled exactly once either way; done runs exactly when it is set. The
   logging call returns normally: [msg] is a total function whose trace ends
   after these actions (a panic is only ever the [ADone] of Logger.Panic()). *)
Theorem C14_handler_once : forall c o ev, ev_level ev <> Disabled ->
  handler_calls (msg c o ev) = (if c_handler c then match event_err c o ev with Some x => [x] | None => [] end else []) /\
  stderr_calls (msg c o ev) = (if c_handler c then [] else match event_err c o ev with Some x => [x] | None => [] end) /\
  puts (msg c o ev) = 1%nat /\
  dones (msg c o ev) = (if ev_panic ev then 1%nat else 0%nat).
Proof. exact handler_once. Qed.

(* statelessness: what logging call k does is a function of event k and row k
   of the outcome matrix only *)
Theorem C14_event_independent : forall c om evs k ev,
  nth_error evs k = Some ev -> nth_error (run c om evs) k = Some (msg c (om k) ev).
Proof. exact run_nth. Qed.

(* whatever happened to the events of a prefix [a] (any failures), the events
   after it behave exactly as in a fresh run *)
Theorem C14_next_events_unaffected : forall c om om' a b,
  (forall i j, om (length a + i)%nat j = om' i j) ->
  skipn (length a) (run c om (a ++ b)) = run c om' b.
Proof. exact next_events_unaffected. Qed.

(* and an event whose own row is clean is complete and reports nothing *)
Theorem C14_next_event_clean : forall c om evs k ev,
  nth_error evs k = Some ev -> ev_level ev <> Disabled -> (forall j, om k j = OOk) ->
  nth_error (run c om evs) k =
  Some (event_calls c ev ++ [APut] ++ (if ev_panic ev then [ADone] else [])).
Proof. exact next_event_clean. Qed.

(* scope note: without MultiLevelWriter a short write is not reported (Event.write drops n) *)
Theorem C14_single_short_write_silent : forall c d n ev o,
  c_kind c = KSingle -> c_dests c = [d] -> o 0%nat = OShort n -> event_err c o ev = None.
Proof. exact single_short_write_silent. Qed.

(* non-vacuity: three destinations (io.Writer, LevelWriter, filtered at Warn),
   two events (Info, Error); for the first event destination 0 writes short and
   destination 1 fails with error 7: ErrShortWrite wins, all three are called *)
Definition ex_cfg : cfg :=
  {| c_wraps := []; c_kind := KMulti;
     c_dests := [ {| d_wraps := []; d_leaf := LPlain |};
                  {| d_wraps := []; d_leaf := LLevel |};
                  {| d_wraps := [WFiltered 2]; d_leaf := LLevel |} ];
     c_handler := true |}.
Definition ex_evs : list event :=
  [ {| ev_level := 1; ev_bytes := [123;125;10]%N; ev_panic := false |};
    {| ev_level := 3; ev_bytes := [123;49;125;10]%N; ev_panic := false |} ].
Definition ex_om (k d : nat) : outcome :=
  match k, d with O, O => OShort 1 | O, S O => OErr 7 | _, _ => OOk end.

Example C14_ex_run :
  run ex_cfg ex_om ex_evs =
  [ [ACall 0 MWrite [123;125;10]%N; ACall 1 (MLevel 1) [123;125;10]%N; APut; AHandler EShortWrite];
    [ACall 0 MWrite [123;49;125;10]%N; ACall 1 (MLevel 3) [123;49;125;10]%N;
     ACall 2 (MLevel 3) [123;49;125;10]%N; APut] ].
Proof. vm_compute. reflexivity. Qed.

Example C14_ex_premises :
  c_wraps ex_cfg = [] /\ c_kind ex_cfg = KMulti /\ enabled ex_evs /\
  nth_error (c_dests ex_cfg) 2 = Some {| d_wraps := [WFiltered 2]; d_leaf := LLevel |} /\
  (forall i j, ex_om (length (firstn 1 ex_evs) + i)%nat j = (fun _ _ => OOk) i j).
Proof.
  repeat split. repeat constructor; cbn; discriminate.
Qed.

(* ---- the source of the fan-out: multiLevelWriter.Write / WriteLevel, FilteredLevelWriter.Write / WriteLevel and
   LevelWriterAdapter.WriteLevel (writer.go) are re-translated by srcgen on every run (Gen/WriterSrc.v).  The destinations
   are opaque: the calls made on them are logged, their answers (n, err) are the environment [ans], for every [ans].
   For every list of writers, level, byte string and environment: every destination is called exactly once, in order,
   with the same level and bytes - also after an earlier one failed -, and the returned (n, err) is the fold of the loop
   body over the answers, which is the model's [acc_step]: the first failure wins, a short count without an error
   becomes io.ErrShortWrite. ---- *)
Theorem C14_source_multi_write_level : forall (ans : nat -> GoExt.oval) t l p,
  WriterSrc.multiLevelWriter_WriteLevel ans t l p =
  GoSem.Ok (SrcWriterP.fold_answers ans (GoSem.len p) (length (WriterSrc.multiLevelWriter_calls t)) (WriterSrc.multiLevelWriter_writers t) (0%Z, None),
      WriterSrc.set_multiLevelWriter_calls t (WriterSrc.multiLevelWriter_calls t ++
        map (fun w => GoExt.OCall SrcWriterP.fWriters SrcWriterP.mWriteLevel [GoExt.OVInt (Z.of_N w); GoExt.OVInt l; GoExt.OVBytes p])
            (WriterSrc.multiLevelWriter_writers t))).
Proof. exact SrcWriterP.multi_WriteLevel_src. Qed.

Theorem C14_source_multi_write : forall (ans : nat -> GoExt.oval) t p,
  WriterSrc.multiLevelWriter_Write ans t p =
  GoSem.Ok (SrcWriterP.fold_answers ans (GoSem.len p) (length (WriterSrc.multiLevelWriter_calls t)) (WriterSrc.multiLevelWriter_writers t) (0%Z, None),
      WriterSrc.set_multiLevelWriter_calls t (WriterSrc.multiLevelWriter_calls t ++
        map (fun w => GoExt.OCall SrcWriterP.fWriters SrcWriterP.mWrite [GoExt.OVInt (Z.of_N w); GoExt.OVBytes p])
            (WriterSrc.multiLevelWriter_writers t))).
Proof. exact SrcWriterP.multi_Write_src. Qed.

Theorem C14_source_loop_body_is_model : forall plen acc r,
  SrcWriterP.acc_src plen (SrcWriterP.inj_ret acc) (SrcWriterP.inj_ret r) = SrcWriterP.inj_ret (acc_step acc r plen).
Proof. exact SrcWriterP.acc_src_is_model. Qed.

Theorem C14_source_filtered_write_level : forall (ans : nat -> GoExt.oval) w level p,
  WriterSrc.FilteredLevelWriter_WriteLevel ans w level p =
  if (WriterSrc.FilteredLevelWriter_Level w <=? level)%Z then
    GoSem.Ok (SrcWriterP.answer ans (length (WriterSrc.FilteredLevelWriter_calls w)),
        WriterSrc.set_FilteredLevelWriter_calls w (WriterSrc.FilteredLevelWriter_calls w ++
          [GoExt.OCall SrcWriterP.fWriter SrcWriterP.mWriteLevel [GoExt.OVInt level; GoExt.OVBytes p]]))
  else GoSem.Ok ((GoSem.len p, None), w).
Proof. exact SrcWriterP.filtered_WriteLevel_src. Qed.

Theorem C14_source_filtered_is_model : forall w level,
  (WriterSrc.FilteredLevelWriter_Level w <=? level)%Z =
  match through [WFiltered (WriterSrc.FilteredLevelWriter_Level w)] (MLevel level) with Some _ => true | None => false end.
Proof. exact SrcWriterP.filtered_through_model. Qed.

Theorem C14_source_adapter_write_level : forall (ans : nat -> GoExt.oval) lw l p,
  WriterSrc.LevelWriterAdapter_WriteLevel ans lw l p =
  GoSem.Ok (SrcWriterP.answer ans (length (WriterSrc.LevelWriterAdapter_calls lw)),
      WriterSrc.set_LevelWriterAdapter_calls lw (WriterSrc.LevelWriterAdapter_calls lw ++
        [GoExt.OCall SrcWriterP.fWriter SrcWriterP.mWrite [GoExt.OVBytes p]])).
Proof. exact SrcWriterP.adapter_WriteLevel_src. Qed.

Theorem C14_source_translated_set :
  length WriterSrc.translated_functions = 5%nat /\ length WriterSrc.skipped_functions = 4%nat.
Proof. exact SrcWriterP.writer_counts. Qed.

(* ---- writers built from writers (Lts/WriterTree.v): MultiLevelWriter whose arguments are results of earlier
   MultiLevelWriter calls (a fan-out extended by a destination, nested fan-outs), possibly behind SyncWriter /
   FilteredLevelWriter / LevelWriterAdapter.  For ALL such expressions in which every MultiLevelWriter call has at
   least one argument, all entry modes, byte strings and destination answers: one call makes exactly the destination
   calls, in the same order, and returns the same error as the one-level MultiLevelWriter over the flattened
   destinations (each behind the wrappers met on the way down), so every theorem above applies to it with
   [c_dests := flatten t].  This is what the correspondence run relies on when it ships a logging step of a writer
   derivation as a case over the flattened destinations of its writer. ---- *)
Theorem C14_nested_writer_is_its_destinations : forall ws args m p o,
  nonempty (TMulti ws args) = true ->
  fst (tree_call (TMulti ws args) 0%nat m p o) = fst (multi_write (flatten (TMulti ws args)) m p o) /\
  snd (snd (tree_call (TMulti ws args) 0%nat m p o)) = snd (snd (multi_write (flatten (TMulti ws args)) m p o)).
Proof. exact nested_is_flat. Qed.

(* ... so each destination of the derived writer is called once per call that its wrappers let through, whatever
   any destination answered ([o] does not occur on the right) *)
Theorem C14_nested_writer_every_destination_once : forall ws args m p o d,
  nonempty (TMulti ws args) = true ->
  calls_of d (fst (tree_call (TMulti ws args) 0%nat m p o)) =
  match nth_error (flatten (TMulti ws args)) d with Some dd => delivered dd m p | None => [] end.
Proof. exact nested_calls_of. Qed.

(* the premise is needed: MultiLevelWriter() answers (0, nil), which the MultiLevelWriter it is an argument of takes
   for a short write; and it is satisfiable: a base fan-out extended once and then twice more (two siblings) *)
Example C14_nested_empty_argument_is_short_write :
  snd (snd (tree_call (TMulti [] [TMulti [] []; TDest {| d_wraps := []; d_leaf := LLevel |}]) 0%nat (MLevel 1) [123;125;10]%N (fun _ => OOk))) = Some EShortWrite /\
  snd (snd (multi_write (flatten (TMulti [] [TMulti [] []; TDest {| d_wraps := []; d_leaf := LLevel |}])) (MLevel 1) [123;125;10]%N (fun _ => OOk))) = None.
Proof. vm_compute. split; reflexivity. Qed.

Example C14_nested_ex :
  let L := {| d_wraps := []; d_leaf := LLevel |} in
  let service := TMulti [] [TMulti [] [TDest L; TDest L]; TDest L] in
  let req1 := TMulti [] [service; TDest {| d_wraps := [WFiltered 2]; d_leaf := LPlain |}] in
  nonempty req1 = true /\
  tree_call req1 0%nat (MLevel 3) [123;125;10]%N (fun i => if Nat.eqb i 1 then OShort 1 else OOk) =
  ([ACall 0 (MLevel 3) [123;125;10]%N; ACall 1 (MLevel 3) [123;125;10]%N; ACall 2 (MLevel 3) [123;125;10]%N;
    ACall 3 MWrite [123;125;10]%N], (1, Some EShortWrite)).
Proof. vm_compute. split; reflexivity. Qed.

Print Assumptions C14_every_destination_once.
Print Assumptions C14_level_writer_destination.
Print Assumptions C14_io_writer_destination.
Print Assumptions C14_filtered_destination.
Print Assumptions C14_filtered_io_writer_destination.
Print Assumptions C14_filter_needs_level_entry.
Print Assumptions C14_first_failure_wins.
Print Assumptions C14_first_fail_is_first.
Print Assumptions C14_no_failure_no_error.
Print Assumptions C14_no_failure_full_length.
Print Assumptions C14_logging_call_shape.
Print Assumptions C14_handler_once.
Print Assumptions C14_event_independent.
Print Assumptions C14_next_events_unaffected.
Print Assumptions C14_next_event_clean.
Print Assumptions C14_single_short_write_silent.
Print Assumptions C14_source_multi_write_level.
Print Assumptions C14_source_multi_write.
Print Assumptions C14_source_loop_body_is_model.
Print Assumptions C14_source_filtered_write_level.
Print Assumptions C14_source_filtered_is_model.
Print Assumptions C14_source_adapter_write_level.
Print Assumptions C14_source_translated_set.
Print Assumptions C14_nested_writer_is_its_destinations.
Print Assumptions C14_nested_writer_every_destination_once.
