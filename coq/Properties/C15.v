(* C15 - TriggerLevelWriter holds back, releases and orders lines as specified.
   Only statements live here; every proof is [exact <lemma>] from
   Proofs/TriggerP.v.  The model (Lts/Trigger.v: buffer of level-byte-prefixed
   frames, trigger()'s re-split, the branches of WriteLevel, Trigger, Close) is
   tied to writer.go by the correspondence run of bin/check C15.

   Vocabulary: [run c s h] runs a history of operations W(l,p) / Trigger / Close
   and returns, per operation, the destination calls made during it and its
   result; [init []] is the fresh writer over a destination that never fails
   (reading of the property: a destination that fails during the release is
   outside its quantifier); [spec_run] is the declarative specification in
   Lts/Trigger.v (hold lines at or below ConditionalLevel until the first line at
   or above TriggerLevel or an explicit Trigger; then release the held lines in
   order with their levels, followed by that line; from then on pass through;
   Close discards what is held and leaves the latch as it is). *)
From Verif Require Import Base.Prelude Misc.Level Lts.Trigger Proofs.TriggerP Misc.LockTypes Gen.LockShapes Proofs.GenLockP.
From Coq Require Import Permutation.
From Verif Require Base.GoSem Base.GoEff Base.GoExt Gen.TriggerSrc Proofs.SrcTriggerP.
Open Scope Z_scope.

(* The refinement.  For ALL histories of WriteLevel/Trigger/Close whose lines are
   newline-terminated without interior newline and whose levels are int8 values
   other than 10, ALL pairs ConditionalLevel/TriggerLevel (any order, any
   integers), both kinds of destination: operation by operation the destination
   receives exactly what the specification says (so also: "immediately"), and
   every WriteLevel returns (len(p), nil), Trigger and Close return nil. *)
Theorem C15_refines_spec : forall c h, Forall op_ok h ->
  map fst (fst (run c (init []) h)) =
    map (map (dest_view (t_lw c))) (fst (spec_run (t_cond c) (t_trig c) sinit h)) /\
  map snd (fst (run c (init []) h)) = map op_ret h.
Proof. exact refines_spec. Qed.

(* the frame split round trip: whatever was held, in whatever number, comes back
   from trigger()'s re-split as the same lines with the same levels in the same
   order.  The premises [held_ok] (level in int8, level <> 10, line newline-
   terminated without interior newline) are exactly what the proof uses. *)
Theorem C15_frame_split_roundtrip : forall lw hs fuel, Forall held_ok hs ->
  (length (frames hs) <= fuel)%nat ->
  flush fuel lw (frames hs) [] = (map (dest_view lw) hs, TOk, []).
Proof. exact frame_split_roundtrip. Qed.

(* the fuel of the model's loop is sufficient: more fuel changes nothing *)
Theorem C15_flush_fuel_suffices : forall lw p sc k,
  flush (length p + k) lw p sc = flush (length p) lw p sc.
Proof. exact flush_fuel_suffices. Qed.

(* int8(uint8(l)) = l for every level, and as an enumeration of all 256 *)
Theorem C15_level_byte_roundtrip : forall l, level_ok l -> byte_level (level_byte l) = l.
Proof. exact level_byte_roundtrip. Qed.

Theorem C15_level_byte_roundtrip_all :
  forallb (fun l => byte_level (level_byte l) =? l) all_levels = true /\ length all_levels = 256%nat.
Proof. exact level_byte_roundtrip_all. Qed.

(* the two exclusions of the property are necessary (they are not findings):
   a level of 10 and an interior newline both break the re-split *)
Theorem C15_level_10_counterexample :
  let h := [OWrite 10 [97; 10]%N; OTrigger] in
  map fst (fst (run cx_cfg (init []) h)) = [[]; [(Some 10, []); (Some 97, [10%N])]] /\
  map (map (dest_view true)) (fst (spec_run 20 30 sinit h)) = [[]; [(Some 10, [97; 10]%N)]].
Proof. exact level_10_counterexample. Qed.

Theorem C15_interior_newline_counterexample :
  let h := [OWrite 0 [97; 10; 98; 10]%N; OTrigger] in
  map fst (fst (run cx_cfg (init []) h)) = [[]; [(Some 0, [97; 10]%N); (Some 98, [10%N])]] /\
  map (map (dest_view true)) (fst (spec_run 20 30 sinit h)) = [[]; [(Some 0, [97; 10; 98; 10]%N)]].
Proof. exact interior_newline_counterexample. Qed.

(* ... and so is "newline-terminated": an unterminated held line makes trigger() panic *)
Theorem C15_unterminated_line_panics :
  map snd (fst (run cx_cfg (init []) [OWrite 0 [97]%N; OTrigger])) = [ROk 1; RPanic].
Proof. exact unterminated_line_panics. Qed.

(* "If the trigger never happens the held lines are never written" *)
Theorem C15_never_triggered_never_written : forall c h,
  Forall op_ok h -> Forall (quiet (t_trig c)) h ->
  map fst (fst (run c (init []) h)) =
  map (fun o => match o with
                | OWrite l p => if l <=? t_cond c then [] else [dest_write (t_lw c) l p]
                | _ => []
                end) h.
Proof. exact never_triggered. Qed.

(* "from then on every line immediately" - for any bytes whatsoever *)
Theorem C15_after_trigger_passthrough : forall c h s, s_triggered s = true -> s_script s = [] ->
  map fst (fst (run c s h)) =
  map (fun o => match o with OWrite l p => [dest_write (t_lw c) l p] | _ => [] end) h.
Proof. exact after_trigger_passthrough. Qed.

(* "no line is lost, duplicated or altered": for every valid history without
   Close, the destination log plus what is still held is a permutation of the
   lines written (with their levels); once triggered nothing is held *)
Theorem C15_no_loss_no_dup : forall c h, Forall op_ok h -> no_close h ->
  exists rest,
    Permutation (concat (map fst (fst (run c (init []) h))) ++ map (dest_view (t_lw c)) rest)
                (map (dest_view (t_lw c)) (writes h)) /\
    (s_triggered (snd (run c (init []) h)) = true -> rest = []).
Proof. exact no_loss_no_dup. Qed.

(* concurrency.  LTS of Lts/Trigger.v: threads with programs; a step of a thread
   is Lock (only when the mutex is free), the whole method body, or Unlock.
   For ALL thread programs and ALL schedules, whenever no method is in progress:
   results, destination calls and writer state are those of the sequential
   history in lock-acquisition order, the log is in that order, and that
   history is an interleaving of the programs.  Assumes what the LTS says:
   sync.Mutex is a mutex with happens-before between Unlock and the next Lock,
   and each exported method is Lock; body; deferred Unlock (writer.go) - the
   latter is no longer an assumption: C15_lock_bracket_in_source below is an
   obligation over the table lockgen re-reads from writer.go on every run. *)
Theorem C15_concurrent : forall c sc progs sched,
  let st := crun c sc progs sched in
  cs_lock st = None ->
  run c (init sc) (map snd (cs_acq st)) = (map strip (cs_log st), cs_state st) /\
  map tid (cs_log st) = map fst (cs_acq st) /\
  forall t, ops_of t (cs_acq st) ++ nth t (cs_progs st) [] = nth t progs [].
Proof. exact concurrent_sequential. Qed.

Theorem C15_blocked_thread_changes_nothing : forall c st t t' b,
  cs_lock st = Some (t', b) -> t' <> t -> cstep c st t = st.
Proof. exact blocked_is_noop. Qed.

Module LockBracket.
Import Coq.Strings.String.
(* the lock bracket of the CURRENT source (Gen/LockShapes.v, regenerated by
   harness/cmd/lockgen): WriteLevel, Trigger and Close of TriggerLevelWriter begin
   with w.mu.Lock(); defer w.mu.Unlock(), contain no other operation on the mutex
   and start no goroutine; every method of the type that uses its state is either
   such a method or the unexported trigger(), which is called only from them *)
Theorem C15_lock_bracket_in_source :
  has_bracketed lock_methods "TriggerLevelWriter"%string "WriteLevel"%string = true /\
  has_bracketed lock_methods "TriggerLevelWriter"%string "Trigger"%string = true /\
  has_bracketed lock_methods "TriggerLevelWriter"%string "Close"%string = true.
Proof. exact trigger_writer_ops_bracketed. Qed.

Theorem C15_state_only_under_lock : forall m, In m lock_methods -> lm_touches m = true ->
  bracketed m = true \/
  (lm_exported m = false /\ lm_go m = false /\ lm_extra_ops m = 0%nat /\ lm_callers m <> [] /\
   forall c, In c (lm_callers m) -> exists m', In m' lock_methods /\ full_name m' = c /\ bracketed m' = true).
Proof. exact guarded_state_under_lock. Qed.
End LockBracket.

(* non-vacuity *)
Definition ex_h : list op :=
  [OWrite 0 [100; 10]%N; OWrite 1 [105; 10]%N; OWrite (-1) [116; 10]%N; OWrite 3 [101; 10]%N;
   OWrite 0 [122; 10]%N; OClose; OTrigger].

Example C15_ex_valid : Forall op_ok ex_h.
Proof.
  repeat constructor; cbn; try lia; try discriminate;
    (eexists [_]; split; [reflexivity|]; cbn; intros [H|[]]; discriminate).
Qed.

(* ConditionalLevel = Debug, TriggerLevel = Error: debug and trace are held, info passes at
   once, the error line releases debug, trace (original order and levels) and then itself *)
Example C15_ex_run :
  fst (run {| t_cond := 0; t_trig := 3; t_lw := true |} (init []) ex_h) =
  [ ([], ROk 2); ([(Some 1, [105; 10]%N)], ROk 2); ([], ROk 2);
    ([(Some 0, [100; 10]%N); (Some (-1), [116; 10]%N); (Some 3, [101; 10]%N)], ROk 2);
    ([(Some 0, [122; 10]%N)], ROk 2); ([], ROk 0); ([], ROk 0) ].
Proof. vm_compute. reflexivity. Qed.

Example C15_ex_quiet : Forall (quiet 3) [OWrite 0 [100; 10]%N; OClose; OWrite 2 [119; 10]%N].
Proof. repeat constructor; cbn; lia. Qed.

(* two threads, the schedule interleaves their Lock/body/Unlock steps; thread 1 is
   scheduled while thread 0 holds the mutex and stays blocked *)
Example C15_ex_concurrent :
  let st := crun {| t_cond := 0; t_trig := 3; t_lw := true |} []
                 [[OWrite 0 [97; 10]%N; OWrite 3 [98; 10]%N]; [OWrite 0 [99; 10]%N]]
                 [0; 1; 0; 1; 0; 1; 1; 0; 1; 0; 0; 0]%nat in
  cs_lock st = None /\
  map snd (cs_acq st) = [OWrite 0 [97; 10]%N; OWrite 0 [99; 10]%N; OWrite 3 [98; 10]%N] /\
  concat (map (fun x => snd (fst x)) (cs_log st)) =
    [(Some 0, [97; 10]%N); (Some 0, [99; 10]%N); (Some 3, [98; 10]%N)].
Proof. vm_compute. repeat split; reflexivity. Qed.

(* the model against the source.  Gen/TriggerSrc.v is the machine translation of trigger / Trigger / Close /
   WriteLevel of writer.go (regenerated by harness/cmd/srcgen on every run; semantics Base/GoSem.v, Base/GoExt.v: the
   destination behind the embedded io.Writer is opaque, every call through it is logged and answered by the
   environment [ans] at the index "length of the log").  The model's script is the one the environment induces
   ([script_of ans k n]: the error/success outcome of the next n destination calls when the log has length k); the
   model's state is read off the receiver ([abs_state]: buf, triggered; [cfg_of]: ConditionalLevel, TriggerLevel, the
   comma-ok flag of w.Writer.(LevelWriter)); [upd_w w b t cs] is w with buf := b, triggered := t and cs appended to
   the log, every other field as in w; [to_ocall] renders a destination call of the model as a log entry.
   Premises, all used: the buffer content is shorter than 2^63 bytes (i + 1 does not wrap; any Go slice), and the
   script is long enough (one outcome per buffered byte for the flush, one more for WriteLevel's pass-through call;
   a shorter script would let the model's "empty script = success" default speak for the environment).  No premise
   on the bytes of the buffer or on l: Level(b) and byte(l) of the translation agree with the model on every value. *)
Theorem C15_source_trigger : forall ans w n,
  GoSem.len (GoExt.buf_bytes (TriggerSrc.TriggerLevelWriter_buf w)) < 9223372036854775808 ->
  (length (GoExt.buf_bytes (TriggerSrc.TriggerLevelWriter_buf w)) <= n)%nat ->
  let k := length (TriggerSrc.TriggerLevelWriter_calls w) in
  let lw := TriggerSrc.TriggerLevelWriter_Writer_is_LevelWriter w in
  (match trigger (SrcTriggerP.cfg_of w) (SrcTriggerP.abs_state w (SrcTriggerP.script_of ans k n)) with
   | (s', cs, TOk) =>
       TriggerSrc.trigger ans w =
         GoSem.Ok (None, SrcTriggerP.upd_w w (s_buf s') (s_triggered s') (map (SrcTriggerP.to_ocall lw) cs)) /\
       s_script s' = SrcTriggerP.script_of ans (k + length cs) (n - length cs) /\
       (length cs <= length (GoExt.buf_bytes (TriggerSrc.TriggerLevelWriter_buf w)))%nat
   | (s', cs, TErr e) =>
       TriggerSrc.trigger ans w =
         GoSem.Ok (SrcTriggerP.ans_err ans (k + length cs - 1),
                   SrcTriggerP.upd_w w (s_buf s') (s_triggered s') (map (SrcTriggerP.to_ocall lw) cs)) /\
       SrcTriggerP.err_code (SrcTriggerP.ans_err ans (k + length cs - 1)) = Some e /\
       (1 <= length cs <= length (GoExt.buf_bytes (TriggerSrc.TriggerLevelWriter_buf w)))%nat /\
       s_script s' = SrcTriggerP.script_of ans (k + length cs) (n - length cs)
   | (s', cs, TPanic) => TriggerSrc.trigger ans w = GoSem.Panic
   end) /\
  (* Trigger() is trigger() between Lock and the deferred Unlock: the model's step for OTrigger *)
  (match step (SrcTriggerP.cfg_of w) (SrcTriggerP.abs_state w (SrcTriggerP.script_of ans k n)) OTrigger with
   | (s', cs, ROk m) =>
       m = 0 /\
       TriggerSrc.Trigger ans w =
         GoSem.Ok (None, SrcTriggerP.upd_w w (s_buf s') (s_triggered s') (map (SrcTriggerP.to_ocall lw) cs))
   | (s', cs, RErr m e) =>
       m = 0 /\
       TriggerSrc.Trigger ans w =
         GoSem.Ok (SrcTriggerP.ans_err ans (k + length cs - 1),
                   SrcTriggerP.upd_w w (s_buf s') (s_triggered s') (map (SrcTriggerP.to_ocall lw) cs)) /\
       SrcTriggerP.err_code (SrcTriggerP.ans_err ans (k + length cs - 1)) = Some e /\
       (1 <= length cs)%nat
   | (s', cs, RPanic) => TriggerSrc.Trigger ans w = GoSem.Panic
   end).
Proof. exact SrcTriggerP.trigger_Trigger_src. Qed.

(* WriteLevel.  [held_back w s' l]: the line was appended to buf (untriggered after the trigger phase and
   l <= ConditionalLevel) - then the model's s_buf s' is Some (old content ++ byte(l) :: p), no destination call is
   made, pool.Get is logged first iff buf was nil, and (len p, nil) is returned.  Otherwise the last call made is the
   pass-through call (or the failing call of the flush): err is what the environment answered for it.  The count:
   len p when held back; 0 when the error came from trigger() ([trigger_fails]); otherwise whatever count the
   destination answered - the model, whose destination accepts everything on success, says len p resp. 0 there. *)
Theorem C15_source_write_level : forall ans w l p n,
  GoSem.len (GoExt.buf_bytes (TriggerSrc.TriggerLevelWriter_buf w)) < 9223372036854775808 ->
  (length (GoExt.buf_bytes (TriggerSrc.TriggerLevelWriter_buf w)) < n)%nat ->
  let k := length (TriggerSrc.TriggerLevelWriter_calls w) in
  match write_level (SrcTriggerP.cfg_of w) (SrcTriggerP.abs_state w (SrcTriggerP.script_of ans k n)) l p with
  | (s', cs, ROk m) =>
      m = GoSem.len p /\
      TriggerSrc.WriteLevel ans w l p =
        GoSem.Ok ((if SrcTriggerP.held_back w s' l then GoSem.len p else SrcTriggerP.ans_n ans (k + length cs - 1), None),
                  SrcTriggerP.wl_after w s' cs l) /\
      (if SrcTriggerP.held_back w s' l then cs = []
       else (1 <= length cs)%nat /\ SrcTriggerP.ans_err ans (k + length cs - 1) = None)
  | (s', cs, RErr m e) =>
      m = 0 /\
      TriggerSrc.WriteLevel ans w l p =
        GoSem.Ok ((if SrcTriggerP.trigger_fails (SrcTriggerP.cfg_of w)
                        (SrcTriggerP.abs_state w (SrcTriggerP.script_of ans k n)) l then 0
                   else SrcTriggerP.ans_n ans (k + length cs - 1),
                   SrcTriggerP.ans_err ans (k + length cs - 1)),
                  SrcTriggerP.wl_after w s' cs l) /\
      SrcTriggerP.err_code (SrcTriggerP.ans_err ans (k + length cs - 1)) = Some e /\
      (1 <= length cs)%nat /\ SrcTriggerP.held_back w s' l = false
  | (s', cs, RPanic) => TriggerSrc.WriteLevel ans w l p = GoSem.Panic
  end.
Proof. exact SrcTriggerP.write_level_src. Qed.

(* Close: returns nil, buf becomes nil, triggered is NOT reset; the log gains buf.Cap() and, iff the answered capacity
   is within TriggerLevelWriterBufferReuseLimit, pool.Put ([close_calls]; nothing at all when buf is nil) - and the
   model's step for OClose does exactly that to the state, without a destination call *)
Theorem C15_source_close : forall limit ans w c sc,
  TriggerSrc.Close limit ans w =
    GoSem.Ok (None, SrcTriggerP.upd_w w None (TriggerSrc.TriggerLevelWriter_triggered w)
                      (SrcTriggerP.close_calls limit ans w)) /\
  step c (SrcTriggerP.abs_state w sc) OClose =
    (SrcTriggerP.abs_state (SrcTriggerP.upd_w w None (TriggerSrc.TriggerLevelWriter_triggered w)
                              (SrcTriggerP.close_calls limit ans w)) sc, [], ROk 0).
Proof. exact SrcTriggerP.Close_src. Qed.

(* every function of the unit is translated, none skipped *)
Theorem C15_source_translated_set :
  length TriggerSrc.translated_functions = 4%nat /\ length TriggerSrc.skipped_functions = 0%nat.
Proof. exact SrcTriggerP.trigger_counts. Qed.

Print Assumptions C15_refines_spec.
Print Assumptions C15_frame_split_roundtrip.
Print Assumptions C15_flush_fuel_suffices.
Print Assumptions C15_level_byte_roundtrip.
Print Assumptions C15_level_byte_roundtrip_all.
Print Assumptions C15_level_10_counterexample.
Print Assumptions C15_interior_newline_counterexample.
Print Assumptions C15_unterminated_line_panics.
Print Assumptions C15_never_triggered_never_written.
Print Assumptions C15_after_trigger_passthrough.
Print Assumptions C15_no_loss_no_dup.
Print Assumptions C15_concurrent.
Print Assumptions LockBracket.C15_lock_bracket_in_source.
Print Assumptions LockBracket.C15_state_only_under_lock.
Print Assumptions C15_blocked_thread_changes_nothing.
Print Assumptions C15_source_trigger.
Print Assumptions C15_source_write_level.
Print Assumptions C15_source_close.
Print Assumptions C15_source_translated_set.
