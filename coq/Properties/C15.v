(* C15 - TriggerLevelWriter holds back, releases and orders lines as specified.
   Only statements live here; every proof is [exact <lemma>] from
   Proofs/TriggerP.v.  The model (Lts/Trigger.v: buffer of level-byte-prefixed
   frames, trigger()'s re-split, the branches of WriteLevel, Trigger, Close) is
   tied to writer.go by the correspondence run of bin/check C15.

   Vocabulary: [run c s h] runs a history of operations W(l,p) / Trigger / Close
   and returns, per operation, the destination calls made during it and its
   result; [init []] is the fresh writer over a destination that never fails
   (reading of the property: a destination that fails during the release is
   outside its quantifier); [spec_run] is the declarative specification in
   Lts/Trigger.v (hold lines at or below ConditionalLevel until the first line at
   or above TriggerLevel or an explicit Trigger; then release the held lines in
   order with their levels, followed by that line; from then on pass through;
   Close discards what is held and leaves the latch as it is). *)
From Verif Require Import Base.Prelude Misc.Level Lts.Trigger Proofs.TriggerP Misc.LockTypes Gen.LockShapes Proofs.GenLockP.
From Coq Require Import Permutation.
Open Scope Z_scope.

(* The refinement.  For ALL histories of WriteLevel/Trigger/Close whose lines are
   newline-terminated without interior newline and whose levels are int8 values
   other than 10, ALL pairs ConditionalLevel/TriggerLevel (any order, any
   integers), both kinds of destination: operation by operation the destination
   receives exactly what the specification says (so also: "immediately"), and
   every WriteLevel returns (len(p), nil), Trigger and Close return nil. *)
Theorem C15_refines_spec : forall c h, Forall op_ok h ->
  map fst (fst (run c (init []) h)) =
    map (map (dest_view (t_lw c))) (fst (spec_run (t_cond c) (t_trig c) sinit h)) /\
  map snd (fst (run c (init []) h)) = map op_ret h.
Proof. exact refines_spec. Qed.

(* the frame split round trip: whatever was held, in whatever number, comes back
   from trigger()'s re-split as the same lines with the same levels in the same
   order.  The premises [held_ok] (level in int8, level <> 10, line newline-
   terminated without interior newline) are exactly what the proof uses. *)
Theorem C15_frame_split_roundtrip : forall lw hs fuel, Forall held_ok hs ->
  (length (frames hs) <= fuel)%nat ->
  flush fuel lw (frames hs) [] = (map (dest_view lw) hs, TOk, []).
Proof. exact frame_split_roundtrip. Qed.

(* the fuel of the model's loop is sufficient: more fuel changes nothing *)
Theorem C15_flush_fuel_suffices : forall lw p sc k,
  flush (length p + k) lw p sc = flush (length p) lw p sc.
Proof. exact flush_fuel_suffices. Qed.

(* int8(uint8(l)) = l for every level, and as an enumeration of all 256 *)
Theorem C15_level_byte_roundtrip : forall l, level_ok l -> byte_level (level_byte l) = l.
Proof. exact level_byte_roundtrip. Qed.

Theorem C15_level_byte_roundtrip_all :
  forallb (fun l => byte_level (level_byte l) =? l) all_levels = true /\ length all_levels = 256%nat.
Proof. exact level_byte_roundtrip_all. Qed.

(* the two exclusions of the property are necessary (they are not findings):
   a level of 10 and an interior newline both break the re-split *)
Theorem C15_level_10_counterexample :
  let h := [OWrite 10 [97; 10]%N; OTrigger] in
  map fst (fst (run cx_cfg (init []) h)) = [[]; [(Some 10, []); (Some 97, [10%N])]] /\
  map (map (dest_view true)) (fst (spec_run 20 30 sinit h)) = [[]; [(Some 10, [97; 10]%N)]].
Proof. exact level_10_counterexample. Qed.

Theorem C15_interior_newline_counterexample :
  let h := [OWrite 0 [97; 10; 98; 10]%N; OTrigger] in
  map fst (fst (run cx_cfg (init []) h)) = [[]; [(Some 0, [97; 10]%N); (Some 98, [10%N])]] /\
  map (map (dest_view true)) (fst (spec_run 20 30 sinit h)) = [[]; [(Some 0, [97; 10; 98; 10]%N)]].
Proof. exact interior_newline_counterexample. Qed.

(* ... and so is "newline-terminated": an unterminated held line makes trigger() panic *)
Theorem C15_unterminated_line_panics :
  map snd (fst (run cx_cfg (init []) [OWrite 0 [97]%N; OTrigger])) = [ROk 1; RPanic].
Proof. exact unterminated_line_panics. Qed.

(* "If the trigger never happens the held lines are never written" *)
Theorem C15_never_triggered_never_written : forall c h,
  Forall op_ok h -> Forall (quiet (t_trig c)) h ->
  map fst (fst (run c (init []) h)) =
  map (fun o => match o with
                | OWrite l p => if l <=? t_cond c then [] else [dest_write (t_lw c) l p]
                | _ => []
                end) h.
Proof. exact never_triggered. Qed.

(* "from then on every line immediately" - for any bytes whatsoever *)
Theorem C15_after_trigger_passthrough : forall c h s, s_triggered s = true -> s_script s = [] ->
  map fst (fst (run c s h)) =
  map (fun o => match o with OWrite l p => [dest_write (t_lw c) l p] | _ => [] end) h.
Proof. exact after_trigger_passthrough. Qed.

(* "no line is lost, duplicated or altered": for every valid history without
   Close, the destination log plus what is still held is a permutation of the
   lines written (with their levels); once triggered nothing is held *)
Theorem C15_no_loss_no_dup : forall c h, Forall op_ok h -> no_close h ->
  exists rest,
    Permutation (concat (map fst (fst (run c (init []) h))) ++ map (dest_view (t_lw c)) rest)
                (map (dest_view (t_lw c)) (writes h)) /\
    (s_triggered (snd (run c (init []) h)) = true -> rest = []).
Proof. exact no_loss_no_dup. Qed.

(* concurrency.  LTS of Lts/Trigger.v: threads with programs; a step of a thread
   is Lock (only when the mutex is free), the whole method body, or Unlock.
   For ALL thread programs and ALL schedules, whenever no method is in progress:
   results, destination calls and writer state are those of the sequential
   history in lock-acquisition order, the log is in that order, and that
   history is an interleaving of the programs.  Assumes what the LTS says:
   sync.Mutex is a mutex with happens-before between Unlock and the next Lock,
   and each exported method is Lock; body; deferred Unlock (writer.go) - the
   latter is no longer an assumption: C15_lock_bracket_in_source below is an
   obligation over the table lockgen re-reads from writer.go on every run. *)
Theorem C15_concurrent : forall c sc progs sched,
  let st := crun c sc progs sched in
  cs_lock st = None ->
  run c (init sc) (map snd (cs_acq st)) = (map strip (cs_log st), cs_state st) /\
  map tid (cs_log st) = map fst (cs_acq st) /\
  forall t, ops_of t (cs_acq st) ++ nth t (cs_progs st) [] = nth t progs [].
Proof. exact concurrent_sequential. Qed.

Theorem C15_blocked_thread_changes_nothing : forall c st t t' b,
  cs_lock st = Some (t', b) -> t' <> t -> cstep c st t = st.
Proof. exact blocked_is_noop. Qed.

Module LockBracket.
Import Coq.Strings.String.
(* the lock bracket of the CURRENT source (Gen/LockShapes.v, regenerated by
   harness/cmd/lockgen): WriteLevel, Trigger and Close of TriggerLevelWriter begin
   with w.mu.Lock(); defer w.mu.Unlock(), contain no other operation on the mutex
   and start no goroutine; every method of the type that uses its state is either
   such a method or the unexported trigger(), which is called only from them *)
Theorem C15_lock_bracket_in_source :
  has_bracketed lock_methods "TriggerLevelWriter"%string "WriteLevel"%string = true /\
  has_bracketed lock_methods "TriggerLevelWriter"%string "Trigger"%string = true /\
  has_bracketed lock_methods "TriggerLevelWriter"%string "Close"%string = true.
Proof. exact trigger_writer_ops_bracketed. Qed.

Theorem C15_state_only_under_lock : forall m, In m lock_methods -> lm_touches m = true ->
  bracketed m = true \/
  (lm_exported m = false /\ lm_go m = false /\ lm_extra_ops m = 0%nat /\ lm_callers m <> [] /\
   forall c, In c (lm_callers m) -> exists m', In m' lock_methods /\ full_name m' = c /\ bracketed m' = true).
Proof. exact guarded_state_under_lock. Qed.
End LockBracket.

(* non-vacuity *)
Definition ex_h : list op :=
  [OWrite 0 [100; 10]%N; OWrite 1 [105; 10]%N; OWrite (-1) [116; 10]%N; OWrite 3 [101; 10]%N;
   OWrite 0 [122; 10]%N; OClose; OTrigger].

Example C15_ex_valid : Forall op_ok ex_h.
Proof.
  repeat constructor; cbn; try lia; try discriminate;
    (eexists [_]; split; [reflexivity|]; cbn; intros [H|[]]; discriminate).
Qed.

(* ConditionalLevel = Debug, TriggerLevel = Error: debug and trace are held, info passes at
   once, the error line releases debug, trace (original order and levels) and then itself *)
Example C15_ex_run :
  fst (run {| t_cond := 0; t_trig := 3; t_lw := true |} (init []) ex_h) =
  [ ([], ROk 2); ([(Some 1, [105; 10]%N)], ROk 2); ([], ROk 2);
    ([(Some 0, [100; 10]%N); (Some (-1), [116; 10]%N); (Some 3, [101; 10]%N)], ROk 2);
    ([(Some 0, [122; 10]%N)], ROk 2); ([], ROk 0); ([], ROk 0) ].
Proof. vm_compute. reflexivity. Qed.

Example C15_ex_quiet : Forall (quiet 3) [OWrite 0 [100; 10]%N; OClose; OWrite 2 [119; 10]%N].
Proof. repeat constructor; cbn; lia. Qed.

(* two threads, the schedule interleaves their Lock/body/Unlock steps; thread 1 is
   scheduled while thread 0 holds the mutex and stays blocked *)
Example C15_ex_concurrent :
  let st := crun {| t_cond := 0; t_trig := 3; t_lw := true |} []
                 [[OWrite 0 [97; 10]%N; OWrite 3 [98; 10]%N]; [OWrite 0 [99; 10]%N]]
                 [0; 1; 0; 1; 0; 1; 1; 0; 1; 0; 0; 0]%nat in
  cs_lock st = None /\
  map snd (cs_acq st) = [OWrite 0 [97; 10]%N; OWrite 0 [99; 10]%N; OWrite 3 [98; 10]%N] /\
  concat (map (fun x => snd (fst x)) (cs_log st)) =
    [(Some 0, [97; 10]%N); (Some 0, [99; 10]%N); (Some 3, [98; 10]%N)].
Proof. vm_compute. repeat split; reflexivity. Qed.

Print Assumptions C15_refines_spec.
Print Assumptions C15_frame_split_roundtrip.
Print Assumptions C15_flush_fuel_suffices.
Print Assumptions C15_level_byte_roundtrip.
Print Assumptions C15_level_byte_roundtrip_all.
Print Assumptions C15_level_10_counterexample.
Print Assumptions C15_interior_newline_counterexample.
Print Assumptions C15_unterminated_line_panics.
Print Assumptions C15_never_triggered_never_written.
Print Assumptions C15_after_trigger_passthrough.
Print Assumptions C15_no_loss_no_dup.
Print Assumptions C15_concurrent.
Print Assumptions LockBracket.C15_lock_bracket_in_source.
Print Assumptions LockBracket.C15_state_only_under_lock.
Print Assumptions C15_blocked_thread_changes_nothing.
