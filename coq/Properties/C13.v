(* C13 - Samplers admit exactly the documented share.
   Only statements live here; every proof is [exact <lemma>] from
   Proofs/SamplerP.v.  bin/check recompiles this file on every run and reads
   the Print Assumptions output. *)
From Verif Require Import Base.Prelude Misc.Level Lts.Sampler Proofs.SamplerP.
From Verif Require Base.GoSem Base.GoEff Base.GoExt Enc.JsonEnc Enc.GoStd Gen.SamplerSrc Proofs.SrcSamplerP.
Open Scope N_scope.

(* BasicSampler{N}, N >= 2, fresh counter: for every history of k < 2^32 calls
   (any clock readings, any levels) the decisions are exactly
   [i mod N = 0] for call i = 0,1,..., hence the first is admitted and
   ceil(k/N) of k are. *)
Theorem C13_basic_exact : forall n h, 2 <= n -> N.of_nat (length h) < two32 ->
  fst (run_sampler (SBasic n 0) h) = every_nth n (length h) /\
  count_true (fst (run_sampler (SBasic n 0) h)) = (N.of_nat (length h) + n - 1) / n.
Proof. exact basic_exact. Qed.

(* ... and for every k at all when N divides 2^32 (the wrap is then harmless) *)
Theorem C13_basic_exact_pow2 : forall n h, 2 <= n -> two32 mod n = 0 ->
  fst (run_sampler (SBasic n 0) h) = every_nth n (length h) /\
  count_true (fst (run_sampler (SBasic n 0) h)) = (N.of_nat (length h) + n - 1) / n.
Proof. exact basic_exact_div. Qed.

Theorem C13_basic_zero_none : forall cnt h,
  fst (run_sampler (SBasic 0 cnt) h) = repeat false (length h) /\
  snd (run_sampler (SBasic 0 cnt) h) = SBasic 0 cnt.
Proof. exact basic_zero. Qed.

Theorem C13_basic_one_all : forall cnt h,
  fst (run_sampler (SBasic 1 cnt) h) = repeat true (length h) /\
  snd (run_sampler (SBasic 1 cnt) h) = SBasic 1 cnt.
Proof. exact basic_one. Qed.

(* however the calls are spread over goroutines: in the LTS where every Sample
   is one atomic AddUint32, for every thread set and every complete schedule
   the decisions, in the order the adds took effect, are the sequential ones *)
Theorem C13_basic_concurrent : forall n todo sched, 2 <= n ->
  let s := brun n todo sched in
  total (b_todo s) = 0%nat -> N.of_nat (total todo) < two32 ->
  map snd (b_log s) = every_nth n (total todo) /\
  count_true (map snd (b_log s)) = (N.of_nat (total todo) + n - 1) / n.
Proof. exact basic_concurrent. Qed.

(* K5 (known finding): the hypothesis k < 2^32 above is necessary.  On a fresh
   BasicSampler{3} call number 2^32-1 (0-based) is rejected although 3 divides
   its index; around it the decisions read admit, reject, reject, reject, admit. *)
Theorem C13_basic_wrap_refuted :
  forall i : nat, N.of_nat i = two32 - 1 ->
    (N.of_nat i mod 3 =? 0) = true /\
    forall k, (i < k)%nat -> nth i (basic_results 3 0 k) false = false.
Proof. exact basic_wrap_refuted. Qed.

Theorem C13_basic_wrap_witness :
  (forall k : nat, N.of_nat k = two32 - 4 -> iter_inc 0 k = two32 - 4) /\
  basic_results 3 (two32 - 4) 5 = [true; false; false; false; true].
Proof. exact basic_wrap_witness. Qed.

(* BurstSampler, Burst > 0 and Period > 0: for every clock sequence (also
   non-monotonic) the decisions are those of the window specification
   [burst_spec]: a window opens at the first event at or after the previous
   window's end, its first Burst events are admitted, every other event is
   decided by NextSampler (rejected if there is none).  Premises: now+Period
   fits int64, fewer than 2^32 events per window. *)
Theorem C13_burst_refines_windows : forall burst period next h,
  0 < burst -> (0 < period)%Z ->
  burst_ok period {| w_end := 0; w_seen := 0 |} h ->
  fst (run_sampler (SBurst burst period next 0 0) h) =
  burst_spec burst period next {| w_end := 0; w_seen := 0 |} h.
Proof. exact burst_refines. Qed.

Theorem C13_burst_disabled : forall burst period h, (burst = 0 \/ (period <= 0)%Z) ->
  forall next cnt resetAt,
  fst (run_sampler (SBurst burst period next cnt resetAt) h) =
  match next with None => repeat false (length h) | Some nx => fst (run_sampler nx h) end.
Proof. exact burst_disabled. Qed.

(* LevelSampler consults only the sampler of the event's level (the others are
   returned unchanged) and admits levels without one *)
Theorem C13_level_sampler : forall t d i w e now lvl,
  sample (SLevel t d i w e) now lvl =
  if (lvl =? TraceLevel)%Z then let '(r, x) := sub_result t now lvl in (r, SLevel x d i w e)
  else if (lvl =? DebugLevel)%Z then let '(r, x) := sub_result d now lvl in (r, SLevel t x i w e)
  else if (lvl =? InfoLevel)%Z then let '(r, x) := sub_result i now lvl in (r, SLevel t d x w e)
  else if (lvl =? WarnLevel)%Z then let '(r, x) := sub_result w now lvl in (r, SLevel t d i x e)
  else if (lvl =? ErrorLevel)%Z then let '(r, x) := sub_result e now lvl in (r, SLevel t d i w x)
  else (true, SLevel t d i w e).
Proof. exact level_sampler_spec. Qed.

(* events rejected by the level gate never consume sampler budget: the whole
   gate state (all counters, all nested samplers) is returned unchanged *)
Theorem C13_gate_before_sampler : forall g now lvl,
  (lvl < g_level g \/ lvl < g_global g)%Z -> should g now lvl = (false, g).
Proof. exact gate_rejects_before_sampler. Qed.

Theorem C13_disable_sampling : forall g now lvl,
  g_has_writer g = true -> g_sampling_disabled g = true ->
  (g_level g <= lvl)%Z -> (g_global g <= lvl)%Z -> should g now lvl = (true, g).
Proof. exact gate_disable_sampling. Qed.

(* non-vacuity: the premises are met by concrete, non-trivial instances *)
Example C13_ex_basic :
  fst (run_sampler (SBasic 3 0) [(0,0);(0,1);(5,0);(7,3);(9,0);(9,0);(9,0)]%Z)
  = [true;false;false;true;false;false;true].
Proof. vm_compute. reflexivity. Qed.

Example C13_ex_burst_ok :
  burst_ok 10 {| w_end := 0; w_seen := 0 |} [(0,1);(3,1);(10,1);(9,1);(25,1);(26,1);(27,1);(28,1)]%Z /\
  fst (run_sampler (SBurst 1 10 (Some (SBasic 3 0)) 0 0) [(0,1);(3,1);(10,1);(9,1);(25,1);(26,1);(27,1);(28,1)]%Z)
  = [true; true; true; false; true; false; true; false].
Proof. split; [|vm_compute; reflexivity]. cbn; unfold two63Z, two32; repeat split; lia. Qed.

Example C13_ex_concurrent :
  let s := brun 2 [2;1]%nat [0;1;0]%nat in total (b_todo s) = 0%nat /\ b_log s = [(0%nat,true);(1%nat,false);(0%nat,true)].
Proof. vm_compute. auto. Qed.

(* ---- the source: sampler.go's BasicSampler.Sample, BurstSampler.inc, BurstSampler.Sample and LevelSampler.Sample,
   re-translated on every run by srcgen (Gen/SamplerSrc.v: the receiver struct is the record of its scalar fields,
   returned updated; sync/atomic operations on a field are a read / modify / write of that field; TimestampFunc() is
   the oracle parameter clk; NextSampler and the five per-level samplers are opaque - a non-nil flag, the call logged, the
   verdict answered by the environment), are the model's [basic_sample], [burst_inc] and [sample] for every field
   value, counter, clock reading, level and environment.  RandomSampler.Sample (math/rand) is not translated. ---- *)
Theorem C13_source_basic_sample : forall n cnt lvl,
  SamplerSrc.BasicSampler_Sample {| SamplerSrc.BasicSampler_N := n; SamplerSrc.BasicSampler_counter := cnt |} lvl =
  GoSem.Ok (fst (basic_sample n cnt),
            {| SamplerSrc.BasicSampler_N := n; SamplerSrc.BasicSampler_counter := snd (basic_sample n cnt) |}).
Proof. exact SrcSamplerP.BasicSampler_Sample_src. Qed.

Theorem C13_source_burst_inc : forall clk burst period hasnext cnt resetAt calls,
  SamplerSrc.inc clk (SrcSamplerP.burst_rec burst period hasnext cnt resetAt calls) =
  GoSem.Ok (let '(c, cnt', resetAt') := burst_inc period cnt resetAt (JsonEnc.t_unixnano clk) in
            (c, SrcSamplerP.burst_rec burst period hasnext cnt' resetAt' calls)).
Proof. exact SrcSamplerP.BurstSampler_inc_src. Qed.

(* BurstSampler.Sample: the model's decision, the model's new counter and window end; the next sampler is asked at most
   once and only outside the burst *)
Theorem C13_source_burst_sample : forall (ans : nat -> GoExt.oval) clk burst period next cnt resetAt calls lvl,
  (forall nx, next = Some nx -> ans (length calls) = GoExt.OVBool (fst (sample nx (JsonEnc.t_unixnano clk) lvl))) ->
  let hasnext := match next with Some _ => true | None => false end in
  exists cnt' resetAt' calls',
    SamplerSrc.BurstSampler_Sample ans clk (SrcSamplerP.burst_rec burst period hasnext cnt resetAt calls) lvl =
      GoSem.Ok (fst (sample (SBurst burst period next cnt resetAt) (JsonEnc.t_unixnano clk) lvl),
                SrcSamplerP.burst_rec burst period hasnext cnt' resetAt' calls') /\
    (match snd (sample (SBurst burst period next cnt resetAt) (JsonEnc.t_unixnano clk) lvl) with
     | SBurst _ _ _ c r => c = cnt' /\ r = resetAt' | _ => False end) /\
    (calls' = calls \/ calls' = calls ++ [SrcSamplerP.next_call lvl]).
Proof. exact SrcSamplerP.BurstSampler_Sample_src. Qed.

(* LevelSampler.Sample, for ALL levels (not only the five named ones): the configured sampler of the event's level
   decides, every other level is admitted *)
Theorem C13_source_level_sample : forall (ans : nat -> GoExt.oval) now t d i w e calls lvl,
  (forall x, (lvl = TraceLevel /\ t = Some x) \/ (lvl = DebugLevel /\ d = Some x) \/ (lvl = InfoLevel /\ i = Some x) \/
             (lvl = WarnLevel /\ w = Some x) \/ (lvl = ErrorLevel /\ e = Some x) ->
             ans (length calls) = GoExt.OVBool (fst (sample x now lvl))) ->
  exists calls', SamplerSrc.LevelSampler_Sample ans
      (SrcSamplerP.level_rec (SrcSamplerP.is_some t) (SrcSamplerP.is_some d) (SrcSamplerP.is_some i) (SrcSamplerP.is_some w) (SrcSamplerP.is_some e) calls) lvl =
    GoSem.Ok (fst (sample (SLevel t d i w e) now lvl),
      SrcSamplerP.level_rec (SrcSamplerP.is_some t) (SrcSamplerP.is_some d) (SrcSamplerP.is_some i) (SrcSamplerP.is_some w) (SrcSamplerP.is_some e) calls').
Proof. exact SrcSamplerP.LevelSampler_Sample_src. Qed.

(* RandomSampler.Sample: rand.Intn is the environment (rnd n = its answer for this call) *)
Theorem C13_source_random_sample : forall (rnd : Z -> Z) (s : N) lvl,
  SamplerSrc.RandomSampler_Sample rnd s lvl = GoSem.Ok ((0 <? s)%N && (rnd (Z.of_N s) =? 0)%Z).
Proof. exact SrcSamplerP.RandomSampler_Sample_src. Qed.

Theorem C13_source_random_one_admits_all : forall (rnd : Z -> Z) lvl, (forall n, (0 <= rnd n < Z.max n 1)%Z) ->
  SamplerSrc.RandomSampler_Sample rnd 1%N lvl = GoSem.Ok true.
Proof. exact SrcSamplerP.RandomSampler_one_admits_all. Qed.

Theorem C13_source_translated_set :
  length SamplerSrc.translated_functions = 5%nat /\ length SamplerSrc.skipped_functions = 0%nat.
Proof. exact SrcSamplerP.sampler_counts. Qed.

Print Assumptions C13_basic_exact.
Print Assumptions C13_basic_exact_pow2.
Print Assumptions C13_basic_zero_none.
Print Assumptions C13_basic_one_all.
Print Assumptions C13_basic_concurrent.
Print Assumptions C13_basic_wrap_refuted.
Print Assumptions C13_basic_wrap_witness.
Print Assumptions C13_burst_refines_windows.
Print Assumptions C13_burst_disabled.
Print Assumptions C13_level_sampler.
Print Assumptions C13_gate_before_sampler.
Print Assumptions C13_disable_sampling.
Print Assumptions C13_source_basic_sample.
Print Assumptions C13_source_burst_inc.
Print Assumptions C13_source_burst_sample.
Print Assumptions C13_source_level_sample.
Print Assumptions C13_source_random_sample.
Print Assumptions C13_source_random_one_admits_all.
Print Assumptions C13_source_translated_set.
