(* Level text forms under customised level names (log.go ParseLevel /
   MarshalText / UnmarshalText with LevelFieldMarshalFunc replaced, or with the
   Level*Value variables reassigned).  No proofs here (Proofs/LevelNamesP.v).

   ParseLevel compares (strings.EqualFold) its argument with
   LevelFieldMarshalFunc of the nine named levels, in the order of the switch
   (Trace Debug Info Warn Error Fatal Panic Disabled NoLevel), before it tries a
   number; MarshalText is LevelFieldMarshalFunc itself. *)
From Verif Require Import Base.Prelude Base.Decimal Misc.Level.
Open Scope Z_scope.

(* [mf] is whatever function is installed as LevelFieldMarshalFunc *)
Definition parse_level_with (mf : level -> list N) (s : list N) : parse_result :=
  if equal_fold s (mf TraceLevel) then POk TraceLevel
  else if equal_fold s (mf DebugLevel) then POk DebugLevel
  else if equal_fold s (mf InfoLevel) then POk InfoLevel
  else if equal_fold s (mf WarnLevel) then POk WarnLevel
  else if equal_fold s (mf ErrorLevel) then POk ErrorLevel
  else if equal_fold s (mf FatalLevel) then POk FatalLevel
  else if equal_fold s (mf PanicLevel) then POk PanicLevel
  else if equal_fold s (mf Disabled) then POk Disabled
  else if equal_fold s (mf NoLevel) then POk NoLevel
  else match parse_Z s with
       | None => PErrUnknown
       | Some i =>
           if (i >? 9223372036854775807) || (i <? -9223372036854775808) then PErrUnknown
           else if (i >? 127) || (i <? -128) then PErrRange else POk i
       end.

(* a naming: the texts of the nine named levels; every other level keeps its
   decimal text.  This is the shape of a replaced LevelFieldMarshalFunc that
   only renames, and of the default one (Level.String) after the Level*Value
   variables were reassigned (then n_nolevel = "" and n_disabled = "disabled"). *)
Record naming := {
  n_trace : list N; n_debug : list N; n_info : list N; n_warn : list N; n_error : list N;
  n_fatal : list N; n_panic : list N; n_nolevel : list N; n_disabled : list N }.

Definition naming_mf (n : naming) (l : level) : list N :=
  if l =? -1 then n_trace n else if l =? 0 then n_debug n else if l =? 1 then n_info n
  else if l =? 2 then n_warn n else if l =? 3 then n_error n else if l =? 4 then n_fatal n
  else if l =? 5 then n_panic n else if l =? 7 then n_disabled n else if l =? 6 then n_nolevel n
  else print_Z l.

Definition default_naming : naming :=
  {| n_trace := s_trace; n_debug := s_debug; n_info := s_info; n_warn := s_warn; n_error := s_error;
     n_fatal := s_fatal; n_panic := s_panic; n_nolevel := []; n_disabled := s_disabled |}.

(* the texts of the 256 levels are pairwise different up to (ASCII) case *)
Definition naming_injective (n : naming) : bool :=
  forallb (fun l1 => forallb (fun l2 => (l1 =? l2) || negb (equal_fold (naming_mf n l1) (naming_mf n l2)))
                             all_levels) all_levels.
