(* Types of the tables that go2coq regenerates from /repo on every run
   (coq/Gen/*.v).  A method summary records the shape of its nil guard and,
   when the body is the regular `buf = enc.AppendX(enc.AppendKey(buf, K), args)`
   form, the primitive, the key source and the argument expressions. *)
From Coq Require Import String List Bool Ascii.
Import ListNotations.
Local Open Scope string_scope.

Inductive guard :=
| GNilReturn              (* first statement: if recv == nil { [putEvent/putArray of an argument;] return ... } *)
| GNilSkip                (* whole body: if recv != nil [&& ...] { ... }; return recv *)
| GNilSafeExpr            (* the receiver is only read behind `recv != nil &&` / `recv == nil ||` *)
| GDelegates (m : string) (* nothing touches the receiver except a final `return recv.m(...)` *)
| GNoGuard.

Inductive body :=
| BKeyPrim (prim key : string) (args : list string)
| BSpecial
| BOpaque.

Record method := { m_name : string; m_params : list (string * string); m_guard : guard; m_body : body }.
Record fcase := { fc_type : string; fc_call : string; fc_nil : string }.

Definition is_upper (c : ascii) : bool :=
  let n := nat_of_ascii c in Nat.leb 65 n && Nat.leb n 90.
Definition exported (m : method) : bool :=
  match m_name m with String c _ => is_upper c | EmptyString => false end.

Fixpoint lookup (tbl : list method) (name : string) : option method :=
  match tbl with
  | [] => None
  | m :: t => if String.eqb (m_name m) name then Some m else lookup t name
  end.

(* what calling the method on a nil receiver can do, as far as the guard shape
   tells: [true] = returns immediately / skips its body: no buffer write, no
   callback, no hook, no writer call, no panic. Delegation is followed with
   fuel (the table is finite). *)
Fixpoint nil_inert (fuel : nat) (tbl : list method) (m : method) : bool :=
  match m_guard m with
  | GNilReturn | GNilSkip | GNilSafeExpr => true
  | GDelegates target =>
      match fuel with
      | O => false
      | S f => match lookup tbl target with Some m' => nil_inert f tbl m' | None => false end
      end
  | GNoGuard => false
  end.

Definition all_exported_inert (tbl : list method) : bool :=
  forallb (fun m => implb (exported m) (nil_inert 4 tbl m)) tbl.

Definition no_opaque (tbl : list method) : bool :=
  forallb (fun m => match m_body m with BOpaque => false | _ => true end) tbl.

Fixpoint list_eqb_s (a b : list string) : bool :=
  match a, b with
  | [], [] => true
  | x :: a', y :: b' => String.eqb x y && list_eqb_s a' b'
  | _, _ => false
  end.
