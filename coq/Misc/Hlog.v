(* The response proxy of hlog.AccessHandler
   (hlog/internal/mutil/writer_proxy.go: WrapWriter, basicWriter, flushWriter,
   fancyWriter) as an executable state machine, and the language of handler
   behaviours the property quantifies over.

   A handler behaviour is a list of [op]s.  How the handler turns an op into
   calls on the http.ResponseWriter it was given (the proxy) is fixed here and
   in the driver alike:
     OWriteHeader c     w.WriteHeader(c)
     OWrite len o       w.Write(buf) with len(buf) = len
     OReadFrom len o    if w is an io.ReaderFrom: w.ReadFrom(r), r holding len bytes;
                        otherwise the io.Copy fallback: nothing if len = 0, else ONE
                        w.Write of all len bytes (len <= 32 KiB, reader returns them at once)
     OFlush             if w is an http.Flusher: w.Flush(); otherwise nothing
   The outcome [o] scripted with a body op is what the UNDERLYING writer answers
   to the one call that op causes: the number of bytes it accepted and whether it
   also returned an error.  All outcomes are quantified over. *)
From Verif Require Import Base.Prelude.
Open Scope Z_scope.

(* ---- WrapWriter ---- *)
Record caps := { c_closenotifier : bool; c_flusher : bool; c_hijacker : bool; c_readerfrom : bool }.

Inductive kind := KBasic | KFlush | KFancy.

Definition wrap_writer (c : caps) : kind :=
  if c_closenotifier c && c_flusher c && c_hijacker c && c_readerfrom c then KFancy
  else if c_flusher c then KFlush
  else KBasic.

(* ---- handler behaviours ---- *)
Record outcome := { o_n : Z; o_err : bool }.

Inductive op :=
| OWriteHeader (code : Z)
| OWrite (len : Z) (o : outcome)
| OReadFrom (len : Z) (o : outcome)
| OFlush.

(* calls received by the underlying http.ResponseWriter, with what it answered *)
Inductive ucall :=
| UWriteHeader (code : Z)
| UWrite (len : Z) (accepted : Z)
| UReadFrom (len : Z) (accepted : Z)
| UFlush.

(* ---- basicWriter ---- *)
Record proxy := {
  p_wroteHeader : bool;
  p_code : Z;
  p_bytes : Z;         (* Go int (64 bit): additions wrap *)
  p_tee : bool         (* tee != nil; only Tee() sets it, which no handler behaviour above does *)
}.

Definition proxy0 : proxy := {| p_wroteHeader := false; p_code := 0; p_bytes := 0; p_tee := false |}.

Definition add_bytes (p : proxy) (n : Z) : proxy :=
  {| p_wroteHeader := p_wroteHeader p; p_code := p_code p; p_bytes := wrap64 (p_bytes p + n); p_tee := p_tee p |}.

(* func (b *basicWriter) WriteHeader(code int) *)
Definition write_header (p : proxy) (c : Z) : proxy * list ucall :=
  if p_wroteHeader p then (p, [])
  else ({| p_wroteHeader := true; p_code := c; p_bytes := p_bytes p; p_tee := p_tee p |}, [UWriteHeader c]).

(* func (b *basicWriter) Write(buf []byte): the tee'd writer (if any) accepts buf[:n]; its error is not modelled *)
Definition write (p : proxy) (len : Z) (o : outcome) : proxy * list ucall :=
  let '(p1, c1) := write_header p 200 in
  (add_bytes p1 (o_n o), c1 ++ [UWrite len (o_n o)]).

(* func (b *basicWriter) maybeWriteHeader() *)
Definition maybe_write_header (p : proxy) : proxy * list ucall :=
  if p_wroteHeader p then (p, []) else write_header p 200.

(* func (f *fancyWriter) ReadFrom(r io.Reader).  With a tee it runs io.Copy(&f.basicWriter, r):
   nothing for an empty reader, else one basicWriter.Write, and then adds the copied count AGAIN. *)
Definition read_from_fancy (p : proxy) (len : Z) (o : outcome) : proxy * list ucall :=
  if p_tee p then
    if len =? 0 then (add_bytes p 0, [])
    else let '(p1, c1) := write p len o in (add_bytes p1 (o_n o), c1)
  else
    let '(p1, c1) := maybe_write_header p in
    (add_bytes p1 (o_n o), c1 ++ [UReadFrom len (o_n o)]).

Definition step (k : kind) (p : proxy) (x : op) : proxy * list ucall :=
  match x with
  | OWriteHeader c => write_header p c
  | OWrite len o => write p len o
  | OReadFrom len o =>
      match k with
      | KFancy => read_from_fancy p len o
      | _ => if len =? 0 then (p, []) else write p len o     (* io.Copy fallback in the handler *)
      end
  | OFlush =>
      match k with
      | KBasic => (p, [])                                      (* not an http.Flusher *)
      | _ => (p, [UFlush])                                     (* flushWriter.Flush / fancyWriter.Flush *)
      end
  end.

Fixpoint run (k : kind) (p : proxy) (ops : list op) : proxy * list ucall :=
  match ops with
  | [] => (p, [])
  | x :: t => let '(p1, c1) := step k p x in
              let '(p2, c2) := run k p1 t in (p2, c1 ++ c2)
  end.

(* what AccessHandler passes to its callback: lw.Status(), lw.BytesWritten() *)
Definition report (c : caps) (ops : list op) : Z * Z * list ucall :=
  let '(p, calls) := run (wrap_writer c) proxy0 ops in (p_code p, p_bytes p, calls).

(* ---- the property's reading ---- *)
(* does the op reach the ResponseWriter as a body write? *)
Definition body_write (k : kind) (x : op) : bool :=
  match x with
  | OWrite _ _ => true
  | OReadFrom len _ => match k with KFancy => true | _ => negb (len =? 0) end
  | _ => false
  end.

(* the first WriteHeader, 200 if the body was written first, 0 if nothing was sent *)
Fixpoint spec_status (k : kind) (ops : list op) : Z :=
  match ops with
  | [] => 0
  | OWriteHeader c :: _ => c
  | x :: t => if body_write k x then 200 else spec_status k t
  end.

Definition accepted (k : kind) (x : op) : Z :=
  match x with
  | OWrite _ o => o_n o
  | OReadFrom _ o => if body_write k x then o_n o else 0
  | _ => 0
  end.

(* the number of body bytes accepted by the underlying ResponseWriter *)
Definition spec_bytes (k : kind) (ops : list op) : Z := fold_right Z.add 0 (map (accepted k) ops).

(* ... one summand per body write, in order (BytesWritten is a Go int: the additions wrap) *)
Definition accepted_list (k : kind) (ops : list op) : list Z :=
  flat_map (fun x => if body_write k x then [accepted k x] else []) ops.

Definition wsum (b : Z) (l : list Z) : Z := fold_left (fun acc n => wrap64 (acc + n)) l b.

(* the same two numbers read off what the underlying writer recorded *)
Fixpoint first_header (calls : list ucall) : Z :=
  match calls with
  | [] => 0
  | UWriteHeader c :: _ => c
  | _ :: t => first_header t
  end.

Definition ucall_accepted (u : ucall) : Z :=
  match u with UWrite _ n => n | UReadFrom _ n => n | _ => 0 end.

Definition total_accepted (calls : list ucall) : Z := fold_right Z.add 0 (map ucall_accepted calls).

Definition accepted_calls (calls : list ucall) : list Z :=
  flat_map (fun u => match u with UWrite _ n | UReadFrom _ n => [n] | _ => [] end) calls.

Definition header_calls (calls : list ucall) : list Z :=
  flat_map (fun u => match u with UWriteHeader c => [c] | _ => [] end) calls.

(* the status a net/http-like underlying writer puts on the wire: the first of its
   WriteHeader / Write / ReadFrom / Flush commits the header, implicit 200 for the last three *)
Definition sent_status (calls : list ucall) : Z :=
  match calls with
  | [] => 0
  | UWriteHeader c :: _ => c
  | _ :: _ => 200
  end.

(* outcomes an io.Writer / io.ReaderFrom may answer: 0 <= n <= len *)
Definition op_ok (x : op) : Prop :=
  match x with
  | OWrite len o | OReadFrom len o => 0 <= o_n o <= len
  | _ => True
  end.
