(* Request isolation in hlog: a small self-contained model of Go slices over
   backing arrays (log.go Logger.With / UpdateContext as used by hlog.NewHandler
   and the field handlers).  Kept private to C18; the general heap model for C05
   is built elsewhere.

   heap    : list of backing arrays (index = identity; arrays are never freed)
   slice   : (arr, off, len, cap) header
   append  : in place iff len+k <= cap, else a fresh array of ANY capacity >= needed
             (the growth policy is a parameter, universally quantified in the theorems)

   hlog.NewHandler(log): per request  l := log.With().Logger()  - a fresh 500-byte
   array with log.context copied in; the pointer &l travels in the request context.
   Every field handler does zerolog.Ctx(r.Context()).UpdateContext(c.Str(k,v)):
   appends through that pointer.  A request's work is [With] followed by a list
   of chunks, each appended by one Go append; a schedule interleaves the
   requests' steps arbitrarily. *)
From Verif Require Import Base.Prelude.
Open Scope nat_scope.

Record slice := { arr : nat; off : nat; len : nat; cap : nat }.
Definition heap := list (list N).

Definition array (h : heap) (a : nat) : list N := nth a h [].

Definition view (h : heap) (s : slice) : list N := firstn (len s) (skipn (off s) (array h (arr s))).

(* the backing array is long enough for the header *)
Definition wf (h : heap) (s : slice) : Prop :=
  arr s < length h /\ off s + cap s <= length (array h (arr s)) /\ len s <= cap s.

Definition write_at (l : list N) (i : nat) (bs : list N) : list N :=
  firstn i l ++ bs ++ skipn (i + length bs) l.

(* Go's append(s, bs...).  Returns the new heap, the new header and the index of the array it wrote. *)
Definition append (grow : nat -> nat -> nat) (h : heap) (s : slice) (bs : list N) : heap * slice * nat :=
  let k := length bs in
  if len s + k <=? cap s then
    (upd h (arr s) (write_at (array h (arr s)) (off s + len s) bs),
     {| arr := arr s; off := off s; len := len s + k; cap := cap s |}, arr s)
  else
    let nc := Nat.max (grow (cap s) (len s + k)) (len s + k) in
    (h ++ [view h s ++ bs ++ repeat 0%N (nc - (len s + k))],
     {| arr := length h; off := 0; len := len s + k; cap := nc |}, length h).

(* make([]byte, 0, c) *)
Definition make (h : heap) (c : nat) : heap * slice :=
  (h ++ [repeat 0%N c], {| arr := length h; off := 0; len := 0; cap := c |}).

Definition begin_marker : list N := [123%N].   (* enc.AppendBeginMarker: '{' *)

(* func (l Logger) With() Context - on the copy l of the receiver; base = the receiver's context (None: nil slice).
   Returns the arrays it allocated or wrote. *)
Definition logger_with (grow : nat -> nat -> nat) (h : heap) (base : option slice) : heap * slice * list nat :=
  let '(h1, s1) := make h 500 in
  let '(h2, s2, a) := append grow h1 s1 (match base with Some b => view h b | None => begin_marker end) in
  (h2, s2, [length h; a]).

(* func (l *Logger) UpdateContext(update): the two guards, then the appends of update, then the store
   l.context = c.l.context.  One chunk = one append of the update function. *)
Definition update_context (grow : nat -> nat -> nat) (h : heap) (s : slice) (chunk : list N) : heap * slice * list nat :=
  let '(h1, s1, w1) := if cap s =? 0 then let '(hh, ss) := make h 500 in (hh, ss, [length h]) else (h, s, []) in
  let '(h2, s2, w2) := if len s1 =? 0 then let '(hh, ss, a) := append grow h1 s1 begin_marker in (hh, ss, [a]) else (h1, s1, []) in
  let '(h3, s3, a3) := append grow h2 s2 chunk in
  (h3, s3, w1 ++ w2 ++ [a3]).

(* ---- requests and schedules ---- *)
Record request := {
  rq_logger : option slice;       (* the per-request Logger variable's context; None before NewHandler ran *)
  rq_todo : list (list N);        (* chunks the remaining handlers will append *)
  rq_done : list (list N)         (* chunks appended so far, oldest first *)
}.

Record state := {
  st_heap : heap;
  st_reqs : list request;
  st_log : list (nat * nat)       (* ghost: (request, array written or allocated) *)
}.

Definition new_request (chunks : list (list N)) : request :=
  {| rq_logger := None; rq_todo := chunks; rq_done := [] |}.

Definition init_state (h0 : heap) (work : list (list (list N))) : state :=
  {| st_heap := h0; st_reqs := map new_request work; st_log := [] |}.

(* request i takes its next step; [copy] = true is NewHandler as written (With()), false the variant that
   hands out the base logger's header unchanged (used only for the negative lemma) *)
Definition req_step (copy : bool) (grow : nat -> nat -> nat) (base : option slice) (s : state) (i : nat) : state :=
  match nth_error (st_reqs s) i with
  | None => s
  | Some r =>
      match rq_logger r with
      | None =>
          if copy then
            let '(h1, l1, ws) := logger_with grow (st_heap s) base in
            {| st_heap := h1;
               st_reqs := upd (st_reqs s) i {| rq_logger := Some l1; rq_todo := rq_todo r; rq_done := rq_done r |};
               st_log := map (fun a => (i, a)) ws ++ st_log s |}
          else
            match base with
            | Some b => {| st_heap := st_heap s;
                           st_reqs := upd (st_reqs s) i {| rq_logger := Some b; rq_todo := rq_todo r; rq_done := rq_done r |};
                           st_log := st_log s |}
            | None => s
            end
      | Some l =>
          match rq_todo r with
          | [] => s
          | c :: rest =>
              let '(h1, l1, ws) := update_context grow (st_heap s) l c in
              {| st_heap := h1;
                 st_reqs := upd (st_reqs s) i {| rq_logger := Some l1; rq_todo := rest; rq_done := rq_done r ++ [c] |};
                 st_log := map (fun a => (i, a)) ws ++ st_log s |}
          end
      end
  end.

Definition run_sched (copy : bool) (grow : nat -> nat -> nat) (base : option slice) (s : state) (sched : list nat) : state :=
  fold_left (req_step copy grow base) sched s.

Definition base_bytes (h0 : heap) (base : option slice) : list N :=
  match base with Some b => view h0 b | None => begin_marker end.

(* the context bytes request i's events carry (newEvent copies l.context into the event) *)
Definition request_context (s : state) (i : nat) : option (list N) :=
  match nth_error (st_reqs s) i with
  | Some r => match rq_logger r with Some l => Some (view (st_heap s) l) | None => None end
  | None => None
  end.
