(* Record type of the lock-discipline table written by harness/cmd/lockgen
   (Gen/LockShapes.v), and the check over it. *)
From Coq Require Import String List Bool Arith.
Import ListNotations.
Local Open Scope string_scope.

Record lock_method := {
  lm_type : string;          (* the struct type with the mutex field *)
  lm_name : string;
  lm_exported : bool;
  lm_bracket : bool;         (* body begins with recv.mu.Lock(); defer recv.mu.Unlock() *)
  lm_extra_ops : nat;        (* any other Lock/Unlock/TryLock on that mutex in the body *)
  lm_touches : bool;         (* uses a field of the receiver other than the mutex *)
  lm_go : bool;              (* contains a go statement *)
  lm_callers : list string   (* unexported methods: who calls it ("T.m", or "ext:..." from elsewhere) *)
}.

Definition full_name (m : lock_method) : string := lm_type m ++ "." ++ lm_name m.

(* holds the mutex for its whole body, on its own *)
Definition bracketed (m : lock_method) : bool :=
  lm_bracket m && (Nat.eqb (lm_extra_ops m) 0) && negb (lm_go m).

Definition is_bracketed_name (all : list lock_method) (n : string) : bool :=
  existsb (fun m => String.eqb (full_name m) n && bracketed m) all.

(* every method that uses guarded state does so under the mutex: either it
   brackets its own body, or it is unexported, does not touch the mutex, starts
   no goroutine, is called from somewhere, and every caller is a bracketed
   method of the table *)
Definition method_ok (all : list lock_method) (m : lock_method) : bool :=
  bracketed m ||
  negb (lm_touches m) && (Nat.eqb (lm_extra_ops m) 0) ||
  (negb (lm_exported m) && (Nat.eqb (lm_extra_ops m) 0) && negb (lm_go m) &&
   negb (match lm_callers m with [] => true | _ => false end) &&
   forallb (is_bracketed_name all) (lm_callers m)).

Definition table_ok (all : list lock_method) : bool := forallb (method_ok all) all.

Definition has_bracketed (all : list lock_method) (t n : string) : bool :=
  is_bracketed_name all (t ++ "." ++ n).
