(* The level gate around an event's life (log.go: level methods, WithLevel,
   newEvent's done handling; event.go: write's Disabled test, Discard, msg's
   deferred done).  Field encoding is not modelled here (Api/Exec.v does
   that); this file is about whether and at which level an event is written,
   and when the Panic/Fatal callbacks fire. *)
From Verif Require Import Base.Prelude Misc.Level Lts.Sampler.
Open Scope Z_scope.

Inductive done_kind := DNone | DPanic | DFatal.

Inductive entry :=
| ETrace | EDebug | EInfo | EWarn | EError | EFatal | EPanic | ELog
| EWithLevel (l : level).

(* which newEvent(level, done) call an entry point makes; None: WithLevel(Disabled) returns nil at once *)
Definition dispatch (e : entry) : option (level * done_kind) :=
  match e with
  | ETrace => Some (TraceLevel, DNone) | EDebug => Some (DebugLevel, DNone) | EInfo => Some (InfoLevel, DNone)
  | EWarn => Some (WarnLevel, DNone) | EError => Some (ErrorLevel, DNone)
  | EFatal => Some (FatalLevel, DFatal) | EPanic => Some (PanicLevel, DPanic) | ELog => Some (NoLevel, DNone)
  | EWithLevel l => if l =? Disabled then None else Some (l, DNone)
  end.

Inductive effect :=
| EffWrite (lvl : level)              (* one WriteLevel(lvl, buf) call *)
| EffDone (k : done_kind) (with_msg : bool).  (* the done callback: panic(msg) / Close+os.Exit(1); with_msg = false: called with "" *)

Definition done_eff (k : done_kind) (with_msg : bool) : list effect :=
  match k with DNone => [] | _ => [EffDone k with_msg] end.

(* one complete logging call: entry point, then Msg/Send; [discard] = some
   hook or the caller invoked Discard() on the event before it was finalized *)
Definition log_call (g : gate) (now : Z) (e : entry) (discard : bool) : list effect * gate :=
  match dispatch e with
  | None => ([], g)
  | Some (lvl, dk) =>
      let '(enabled, g') := should g now lvl in
      if enabled then
        let lvl' := if discard then Disabled else lvl in
        ((if lvl' =? Disabled then [] else [EffWrite lvl']) ++ done_eff dk true, g')
      else (done_eff dk false, g')
  end.

Definition writes (effs : list effect) : list level :=
  flat_map (fun x => match x with EffWrite l => [l] | _ => [] end) effs.
Definition dones (effs : list effect) : list done_kind :=
  flat_map (fun x => match x with EffDone k _ => [k] | _ => [] end) effs.

Fixpoint run_calls (g : gate) (cs : list (Z * entry * bool)) : list (list effect) * gate :=
  match cs with
  | [] => ([], g)
  | (now, e, d) :: t =>
      let '(effs, g') := log_call g now e d in
      let '(r, g'') := run_calls g' t in (effs :: r, g'')
  end.
