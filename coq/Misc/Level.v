(* Levels (log.go): Level is an int8; its text forms; ParseLevel.
   Level names are the default values of the Level*Value globals; the
   constants themselves are cross-checked against Gen/Consts.v (regenerated
   from the source) in Proofs/LevelP.v. *)
From Verif Require Import Base.Prelude Base.Decimal.
Open Scope Z_scope.

Definition level := Z.
Definition level_ok (l : level) : Prop := -128 <= l <= 127.

Definition DebugLevel : level := 0.
Definition InfoLevel  : level := 1.
Definition WarnLevel  : level := 2.
Definition ErrorLevel : level := 3.
Definition FatalLevel : level := 4.
Definition PanicLevel : level := 5.
Definition NoLevel    : level := 6.
Definition Disabled   : level := 7.
Definition TraceLevel : level := -1.

(* "trace" "debug" "info" "warn" "error" "fatal" "panic" "disabled" *)
Definition s_trace : list N := [116;114;97;99;101]%N.
Definition s_debug : list N := [100;101;98;117;103]%N.
Definition s_info  : list N := [105;110;102;111]%N.
Definition s_warn  : list N := [119;97;114;110]%N.
Definition s_error : list N := [101;114;114;111;114]%N.
Definition s_fatal : list N := [102;97;116;97;108]%N.
Definition s_panic : list N := [112;97;110;105;99]%N.
Definition s_disabled : list N := [100;105;115;97;98;108;101;100]%N.

(* Level.String *)
Definition level_string (l : level) : list N :=
  if l =? -1 then s_trace else if l =? 0 then s_debug else if l =? 1 then s_info
  else if l =? 2 then s_warn else if l =? 3 then s_error else if l =? 4 then s_fatal
  else if l =? 5 then s_panic else if l =? 7 then s_disabled else if l =? 6 then []
  else print_Z l.

(* strings.EqualFold restricted to ASCII text (every level text is ASCII;
   non-ASCII simple folding such as U+212A is outside the model and outside
   the correspondence alphabet). *)
Definition lower (b : N) : N := if ((65 <=? b) && (b <=? 90))%N then (b + 32)%N else b.
Definition equal_fold (a b : list N) : bool := list_eqb N.eqb (map lower a) (map lower b).

Inductive parse_result := POk (l : level) | PErrUnknown | PErrRange.

(* ParseLevel with the default LevelFieldMarshalFunc (= Level.String) *)
Definition parse_level (s : list N) : parse_result :=
  if equal_fold s (level_string TraceLevel) then POk TraceLevel
  else if equal_fold s (level_string DebugLevel) then POk DebugLevel
  else if equal_fold s (level_string InfoLevel) then POk InfoLevel
  else if equal_fold s (level_string WarnLevel) then POk WarnLevel
  else if equal_fold s (level_string ErrorLevel) then POk ErrorLevel
  else if equal_fold s (level_string FatalLevel) then POk FatalLevel
  else if equal_fold s (level_string PanicLevel) then POk PanicLevel
  else if equal_fold s (level_string Disabled) then POk Disabled
  else if equal_fold s (level_string NoLevel) then POk NoLevel
  else match parse_Z s with
       | None => PErrUnknown
       | Some i =>
           (* Atoi itself fails outside int64: the "unknown" error path *)
           if (i >? 9223372036854775807) || (i <? -9223372036854775808) then PErrUnknown
           else if (i >? 127) || (i <? -128) then PErrRange else POk i
       end.

(* MarshalText = String (as bytes); UnmarshalText = ParseLevel *)
Definition marshal_text := level_string.
Definition unmarshal_text := parse_level.

Definition all_levels : list level := map (fun n => Z.of_nat n - 128) (seq 0 256).
