(* Caller reporting (event.go caller/Caller/CallerSkipFrame, context.go callerHook,
   log.go Print*/Write, log/log.go) over a LOGICAL call stack.

   A stack is a list of frames, innermost first.  Every zerolog function on a
   path pushes one frame; runtime.Caller(k) reads the k-th frame counted from
   the function that calls it.  Which functions lie between the user's call and
   runtime.Caller, and what is passed to runtime.Caller, is NOT written here: it
   is read from Gen/CallChains.v, the table that harness/cmd/c19gen extracts
   from the repository's working tree before every build.  This file only says
   how a table row is executed and how the user's statement drives the rows.

   Not modelled (trusted, and the reason the correspondence run exists): the Go
   runtime's own frame accounting - inlined calls are reported as if they were
   not inlined, compiler-generated wrapper frames (value-receiver methods called
   through an interface: callerHook.Run in the hook loop, Logger.Write behind an
   io.Writer) are hidden from runtime.Caller since go1.12. *)
From Verif Require Import Base.Prelude Misc.CallerTypes Gen.CallChains.
From Coq Require Import String.
Open Scope string_scope.
Open Scope list_scope.
Open Scope Z_scope.

(* ---- stacks ---- *)
Inductive frame :=
| FUser (i : N)        (* a frame of the user's program: the call site with id i *)
| FZ (fn : string)     (* a zerolog function *)
| FOuter.              (* whatever lies outside (main, runtime) *)
Definition stack := list frame.

(* runtime.Caller(k) called by the function whose frame is the head of st *)
Definition runtime_Caller (st : stack) (k : Z) : option frame :=
  if k <? 0 then None else nth_error st (Z.to_nat k).

(* ---- what a skip expression can read ---- *)
Record regs := {
  r_global : Z;          (* zerolog.CallerSkipFrameCount at this moment *)
  r_arg : option Z;      (* the optional argument of Event.Caller(skip ...int) *)
  r_field : Z;           (* callerHook.callerSkipFrameCount of the hook being run *)
  r_sf : Z               (* Event.skipFrame *)
}.

Definition atom_val (r : regs) (a : atom) : option Z :=
  match a with
  | ALit z => Some z
  | AConst _ z => Some z
  | AVar n _ => if String.eqb n "CallerSkipFrameCount" then Some (r_global r) else None
  | AArg n i => if String.eqb n "skip" && (i =? 0) then r_arg r else None
  | AField n =>
      if String.eqb n "Event.skipFrame" then Some (r_sf r)
      else if String.eqb n "callerHook.callerSkipFrameCount" then Some (r_field r)
      else None
  end.

Fixpoint sum_atoms (r : regs) (l : list atom) : option Z :=
  match l with
  | [] => Some 0
  | a :: t => match atom_val r a, sum_atoms r t with
              | Some x, Some y => Some (x + y)
              | _, _ => None
              end
  end.

Definition is_some {A} (o : option A) : bool := match o with Some _ => true | None => false end.

Definition cond_holds (r : regs) (c : cond) : bool :=
  match c with
  | CArgLen p ne => String.eqb p "skip" && Bool.eqb (is_some (r_arg r)) ne
  | CFieldIs f _ v eq => String.eqb f "callerHook.callerSkipFrameCount" && Bool.eqb (r_field r =? v) eq
  end.

Definition sumZ (l : list Z) : Z := fold_right Z.add 0 l.

Definition with_sf (r : regs) (sf : Z) : regs :=
  {| r_global := r_global r; r_arg := r_arg r; r_field := r_field r; r_sf := sf |}.

(* executing one table row from the user's stack st: zerolog code first applies
   its own CallerSkipFrame calls, the chain's functions are pushed, the last one
   calls runtime.Caller with the value of the skip expression *)
Definition run_path (p : path) (r : regs) (st : stack) : option frame :=
  match sum_atoms (with_sf r (r_sf r + sumZ (p_sfdelta p))) (p_skip p) with
  | Some k => runtime_Caller (rev (map FZ (p_frames p)) ++ st) k
  | None => None
  end.

(* the row the code takes: Go is deterministic, exactly one row of a root has its conditions true *)
Definition path_matches (root : string) (r : regs) (p : path) : bool :=
  String.eqb (p_root p) root && forallb (cond_holds r) (p_conds p).

Definition select (root : string) (r : regs) : option path :=
  match filter (path_matches root r) cc_paths with
  | [p] => Some p
  | _ => None
  end.

(* the frame one caller report names; None: no caller field / nothing the model can name *)
Definition read (root : string) (r : regs) (st : stack) : option frame :=
  match select root r with
  | Some p => run_path p r st
  | None => None
  end.

(* ---- constants of the table ---- *)
Fixpoint lookup {A} (k : string) (l : list (string * A)) : option A :=
  match l with
  | [] => None
  | (k', v) :: t => if String.eqb k k' then Some v else lookup k t
  end.

Definition mem (k : string) (l : list string) : bool := existsb (String.eqb k) l.

Definition const_or (k : string) (d : Z) : Z := match lookup k cc_consts with Some v => v | None => d end.

(* initial value of the package variable CallerSkipFrameCount *)
Definition global_default : Z := const_or "CallerSkipFrameCount" 0.
(* the flag value meaning "use the global" inside a callerHook *)
Definition flag_value : Z := const_or "useGlobalSkipFrameCount" 0.

(* ---- loggers, events, statements ---- *)
Inductive hook :=
| HCaller (field : Z)     (* the caller hook, with its callerSkipFrameCount *)
| HOther (adds : Z).      (* any other hook; adds = what it passes to e.CallerSkipFrame (0 if it does not call it) *)

(* Context.Caller() / Context.CallerWithSkipFrameCount(n): the hook appended to the logger *)
Definition ctx_hook (ctor : string) (n : Z) : option hook :=
  match lookup ctor cc_hook_ctors with
  | Some (HFConst _ v) => Some (HCaller v)
  | Some HFParam => Some (HCaller n)
  | None => None
  end.

Record world := {
  w_global : Z;            (* zerolog.CallerSkipFrameCount *)
  w_stale : Z;             (* skipFrame left behind in the pooled Event that newEvent hands out *)
  w_hooks : list hook      (* Logger.hooks in order *)
}.

(* newEvent (event.go) *)
Definition new_skipFrame (w : world) : Z := if cc_newEvent_resets_skipFrame then 0 else w_stale w.

Inductive evop :=
| OSkipFrame (k : Z)              (* .CallerSkipFrame(k) *)
| OCaller (arg : option Z).       (* .Caller() / .Caller(k) *)

Inductive stmt :=
| SLog (entry : string) (ops : list evop) (fin : string)   (* l.<entry>(..) <ops> .<fin>(..) on one line *)
| STerminal (name : string).                               (* l.Print(..), log.Printf(..), l.Write(p) ... *)

(* methods called on the event by the user, left to right *)
Fixpoint run_ops (g : Z) (st : stack) (sf : Z) (ops : list evop) : Z * list (option frame) :=
  match ops with
  | [] => (sf, [])
  | OSkipFrame k :: t => run_ops g st (sf + k) t
  | OCaller a :: t =>
      let x := read "Event.Caller" {| r_global := g; r_arg := a; r_field := 0; r_sf := sf |} st in
      let '(sf', xs) := run_ops g st sf t in (sf', x :: xs)
  end.

(* the hook loop of Event.msg, entered through the function [root] the user called *)
Fixpoint run_hooks (root : string) (g : Z) (st : stack) (sf : Z) (hs : list hook) : list (option frame) :=
  match hs with
  | [] => []
  | HOther a :: t => run_hooks root g st (sf + a) t
  | HCaller f :: t =>
      read root {| r_global := g; r_arg := None; r_field := f; r_sf := sf |} st :: run_hooks root g st sf t
  end.

(* one user statement executed with the user's stack st (head = the frame of the
   function containing the statement): the frames named by the caller fields of
   the event, in the order the fields are written.  None: the statement uses a
   function that is not in the table. *)
Definition run_stmt (w : world) (st : stack) (s : stmt) : option (list (option frame)) :=
  match s with
  | SLog en ops fin =>
      match lookup en cc_entries with
      | None => None
      | Some lits =>
          if mem fin cc_finalizers then
            let '(sf, xs) := run_ops (w_global w) st (new_skipFrame w + sumZ lits) ops in
            Some (xs ++ run_hooks fin (w_global w) st sf (w_hooks w))
          else None
      end
  | STerminal t =>
      if mem t cc_terminals then Some (run_hooks t (w_global w) st (new_skipFrame w) (w_hooks w))
      else None
  end.

(* ---- the user's side of the stack: the statement sits in a function called
   through d wrapper functions: frames FUser 0 (the statement), FUser 1 (the
   call of that function in its caller) ... FUser d, then the rest ---- *)
Fixpoint useq (i : N) (n : nat) : list frame :=
  match n with
  | O => []
  | S m => FUser i :: useq (i + 1) m
  end.
Definition ustack (d : nat) (rest : stack) : stack := useq 0 (S d) ++ rest.

(* ---- the declarative reading of the property: how far up the stack each
   caller report lands ---- *)
Definition frame_at (st : stack) (off : Z) : option frame := runtime_Caller st off.

Definition arg_or0 (a : option Z) : Z := match a with Some x => x | None => 0 end.

Fixpoint spec_ops (g sf : Z) (ops : list evop) : Z * list Z :=
  match ops with
  | [] => (sf, [])
  | OSkipFrame k :: t => spec_ops g (sf + k) t
  | OCaller a :: t => let '(sf', xs) := spec_ops g sf t in (sf', (sf + (g - global_default) + arg_or0 a) :: xs)
  end.

Fixpoint spec_hooks (g sf : Z) (hs : list hook) : list Z :=
  match hs with
  | [] => []
  | HOther a :: t => spec_hooks g (sf + a) t
  | HCaller f :: t =>
      (sf + (if f =? flag_value then g - global_default else f - global_default)) :: spec_hooks g sf t
  end.

Definition spec_stmt (w : world) (s : stmt) : list Z :=
  match s with
  | SLog _ ops _ => let '(sf, xs) := spec_ops (w_global w) 0 ops in xs ++ spec_hooks (w_global w) sf (w_hooks w)
  | STerminal _ => spec_hooks (w_global w) 0 (w_hooks w)
  end.
