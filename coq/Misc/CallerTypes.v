(* Vocabulary of the generated table coq/Gen/CallChains.v (written by
   harness/cmd/c19gen from the repository's working tree).  Types only. *)
From Coq Require Import List ZArith String.

(* one summand of the argument of runtime.Caller *)
Inductive atom :=
| ALit (z : Z)                         (* integer literal *)
| AConst (name : string) (z : Z)       (* package constant with its value *)
| AVar (name : string) (init : Z)      (* package variable (the user may assign it) with its initial value *)
| AArg (name : string) (idx : Z)       (* name[idx] for a variadic parameter of the function the user calls *)
| AField (name : string).              (* Type.field read from the receiver or a parameter *)

(* a condition that selects a path *)
Inductive cond :=
| CArgLen (param : string) (nonempty : bool)              (* len(param) > 0 is [nonempty] *)
| CFieldIs (field const : string) (v : Z) (eq : bool).    (* field == const (value v) is [eq] *)

(* what a Context method stores in callerHook.callerSkipFrameCount *)
Inductive hookfield :=
| HFConst (name : string) (v : Z)
| HFParam.

(* one static call chain from a function the user calls to runtime.Caller *)
Record path := {
  p_root : string;            (* the function the user calls: "Event.Caller", "Event.Msg", "Logger.Print", "log.Printf" ... *)
  p_frames : list string;     (* zerolog functions on the stack, outermost first; the last one calls runtime.Caller *)
  p_via_hook : bool;          (* the chain passes through the hook loop of Event.msg *)
  p_conds : list cond;
  p_skip : list atom;         (* the argument of runtime.Caller, as a sum *)
  p_sfdelta : list Z          (* arguments of Event.CallerSkipFrame executed by zerolog code on the way *)
}.
