(* Stacked AccessHandlers: the http.ResponseWriter an AccessHandler is given is
   itself the proxy of another AccessHandler further out, and calls may be made
   between the two (a middleware that sends a prefix or the status before it
   calls the next handler, or something after it returned).

   hlog.AccessHandler calls mutil.WrapWriter(w) on whatever it is given; WrapWriter
   looks only at the optional interfaces of w and ALWAYS builds a new proxy with
   its own wroteHeader / code / bytes.  The proxy types themselves implement:
   basicWriter nothing, flushWriter http.Flusher, fancyWriter all four
   ([kind_caps]) - so a proxy wrapped again gives a proxy of the same kind.

   A nested run is a list of (d, op) in execution order: the handler behaviour
   [op] (Misc/Hlog.v) is executed on the ResponseWriter handed down by the d-th
   AccessHandler counted from the outside, i.e. the call passes through d proxies
   (levels d, d-1, ..., 1) before it reaches the underlying writer.  Each level
   is the state machine [step] of Misc/Hlog.v; the calls it makes on the writer
   below it are the ops the next level receives.  The answer of the underlying
   writer (accepted count, error) travels back up unchanged through every level
   (each proxy returns the n and err it got), so it is carried with the op. *)
From Verif Require Import Base.Prelude Misc.Hlog.
Open Scope Z_scope.

(* the optional interfaces of the proxy types (what WrapWriter sees when it is given a proxy) *)
Definition kind_caps (k : kind) : caps :=
  match k with
  | KFancy => {| c_closenotifier := true; c_flusher := true; c_hijacker := true; c_readerfrom := true |}
  | KFlush => {| c_closenotifier := false; c_flusher := true; c_hijacker := false; c_readerfrom := false |}
  | KBasic => {| c_closenotifier := false; c_flusher := false; c_hijacker := false; c_readerfrom := false |}
  end.

(* the proxy built by the lvl-th AccessHandler from the outside (level 1 wraps the underlying writer [c]) *)
Fixpoint kind_at (c : caps) (lvl : nat) : kind :=
  match lvl with
  | S (S _ as l') => wrap_writer (kind_caps (kind_at c l'))
  | _ => wrap_writer c
  end.

Definition op_outcome (x : op) : outcome :=
  match x with
  | OWrite _ o | OReadFrom _ o => o
  | _ => {| o_n := 0; o_err := false |}
  end.

(* a call a proxy makes on the writer below it, as the op that writer receives *)
Definition fwd (o : outcome) (u : ucall) : op :=
  match u with
  | UWriteHeader c => OWriteHeader c
  | UWrite len _ => OWrite len o
  | UReadFrom len _ => OReadFrom len o
  | UFlush => OFlush
  end.

(* what the recording writer at the bottom notes for an op that reaches it *)
Definition core_call (x : op) : ucall :=
  match x with
  | OWriteHeader c => UWriteHeader c
  | OWrite len o => UWrite len (o_n o)
  | OReadFrom len o => UReadFrom len (o_n o)
  | OFlush => UFlush
  end.

(* level [lvl] sees the ops that pass through at least lvl proxies; the others go by *)
Fixpoint level_run (k : kind) (lvl : nat) (p : proxy) (xs : list (nat * op)) : proxy * list (nat * op) :=
  match xs with
  | [] => (p, [])
  | (d, x) :: t =>
      if (lvl <=? d)%nat then
        let '(p1, cs) := step k p x in
        let '(p2, r) := level_run k lvl p1 t in
        (p2, map (fun u => (d, fwd (op_outcome x) u)) cs ++ r)
      else
        let '(p2, r) := level_run k lvl p t in (p2, (d, x) :: r)
  end.

(* levels lvl, lvl-1, ..., 1 in turn; the reports (Status(), BytesWritten()) innermost first *)
Fixpoint nest_levels (c : caps) (lvl : nat) (xs : list (nat * op)) : list (Z * Z) * list (nat * op) :=
  match lvl with
  | O => ([], xs)
  | S l =>
      let '(p, ys) := level_run (kind_at c lvl) lvl proxy0 xs in
      let '(reps, zs) := nest_levels c l ys in
      ((p_code p, p_bytes p) :: reps, zs)
  end.

(* [levels] stacked AccessHandlers on an underlying writer with capability set [c]: what each passes to its
   callback (outermost first) and the calls the underlying writer received *)
Definition nest_report (c : caps) (levels : nat) (xs : list (nat * op)) : list (Z * Z) * list ucall :=
  let '(reps, zs) := nest_levels c levels xs in
  (rev reps, map (fun dx => core_call (snd dx)) zs).

(* ---- the property's reading for a stack ---- *)
(* the handler behaviour executed inside the j-th AccessHandler from the outside: every op that passes through
   at least j proxies, in order *)
Definition ops_from (j : nat) (xs : list (nat * op)) : list op :=
  map snd (filter (fun dx => (j <=? fst dx)%nat) xs).
