(* ConsoleWriter (console.go): Write, writePart, writeFields, orderFields,
   needsQuote and the default formatters, for NoColor = true and no custom
   formatter / FormatPrepare / FormatExtra, default build (decodeIfBinaryToBytes
   is the identity).  Field names are the defaults of globals.go.

   Input of the model: the event as encoding/json decodes it with UseNumber
   into a map[string]interface{} -- an association list with distinct keys
   (last duplicate wins is already applied) listed in the order in which the
   Go map happens to be iterated.  Everything the code obtains from the Go
   standard library is an oracle (record [oracles]); the model never looks
   inside those answers.

   No proofs here (Proofs/ConsoleP.v). *)
From Coq Require Import String Ascii Permutation.
From Verif Require Import Base.Prelude.

Definition bytes := list N.

(* readable constants: [bs "level"] is the byte list of the ASCII text *)
Definition bs (s : string) : bytes := map N_of_ascii (list_ascii_of_string s).

Definition beq : bytes -> bytes -> bool := list_eqb N.eqb.

(* Go's [a < b] on strings: byte-wise lexicographic, a proper prefix is smaller *)
Fixpoint blt (a b : bytes) : bool :=
  match a, b with
  | _, [] => false
  | [], _ :: _ => true
  | x :: a', y :: b' => if (x <? y)%N then true else if (y <? x)%N then false else blt a' b'
  end.

Definition mem (k : bytes) (l : list bytes) : bool := existsb (beq k) l.

(* ---- decoded JSON values (what the type switches of console.go see) ---- *)
Inductive cval :=
| CStr (s : bytes)       (* string: the decoded text *)
| CNum (txt : bytes)     (* json.Number: the literal of the input *)
| CBool (b : bool)
| CNull                  (* nil; also what evt[p] yields for an absent key *)
| COther (json : bytes). (* map[string]interface{} / []interface{}, carried as its compact re-marshalling
                            (InterfaceMarshalFunc = json.Encoder with SetEscapeHTML(false); oracle) *)

Definition cval_eqb (a b : cval) : bool :=
  match a, b with
  | CStr x, CStr y => beq x y
  | CNum x, CNum y => beq x y
  | CBool x, CBool y => Bool.eqb x y
  | CNull, CNull => true
  | COther x, COther y => beq x y
  | _, _ => false
  end.

Definition event := list (bytes * cval).

(* evt[k] *)
Definition lookup (evt : event) (k : bytes) : cval :=
  match find (fun kv => beq (fst kv) k) evt with
  | Some kv => snd kv
  | None => CNull
  end.

(* ---- globals.go ---- *)
Definition n_level : bytes := Eval compute in bs "level".
Definition n_time : bytes := Eval compute in bs "time".
Definition n_message : bytes := Eval compute in bs "message".
Definition n_caller : bytes := Eval compute in bs "caller".
Definition n_error : bytes := Eval compute in bs "error".

(* Level values: log.go *)
Definition TraceLevel : Z := -1.
Definition NoLevel : Z := 6.
(* Level.String() for the nine named levels, in the order ParseLevel tries them *)
Definition level_names : list (bytes * Z) := Eval compute in
  [ (bs "trace", -1); (bs "debug", 0); (bs "info", 1); (bs "warn", 2); (bs "error", 3);
    (bs "fatal", 4); (bs "panic", 5); (bs "disabled", 7); (bs "", 6) ]%Z.

(* FormattedLevels *)
Definition formatted_level (l : Z) : option bytes :=
  if (l =? -1)%Z then Some (bs "TRC") else if (l =? 0)%Z then Some (bs "DBG")
  else if (l =? 1)%Z then Some (bs "INF") else if (l =? 2)%Z then Some (bs "WRN")
  else if (l =? 3)%Z then Some (bs "ERR") else if (l =? 4)%Z then Some (bs "FTL")
  else if (l =? 5)%Z then Some (bs "PNC") else None.

(* ---- configuration (the fields of ConsoleWriter that matter with NoColor) ---- *)
Inductive tunit := TUSec | TUMs | TUMicro | TUNano.  (* which of the UNIX* names TimeFieldFormat equals, TUSec otherwise *)

Record copts := {
  co_parts_order : option (list bytes);   (* None = nil: consoleDefaultPartsOrder() *)
  co_parts_exclude : list bytes;
  co_fields_order : list bytes;
  co_fields_exclude : list bytes;
  co_time_unit : tunit
  (* TimeFormat, TimeLocation and the layout in TimeFieldFormat only reach the time package: oracles *)
}.

(* ---- what is taken from the Go standard library ---- *)
Record oracles := {
  o_quote : bytes -> bytes;             (* strconv.Quote *)
  o_sprint : cval -> bytes;             (* fmt.Sprintf("%s", v) for a v that is neither string nor json.Number *)
  o_upper : bytes -> bytes;             (* strings.ToUpper *)
  o_fold : bytes -> bytes -> bool;      (* strings.EqualFold *)
  o_atoi : bytes -> option Z;           (* strconv.Atoi; None = error *)
  o_int64 : bytes -> option Z;          (* json.Number.Int64; None = error *)
  o_time_str : bytes -> option bytes;   (* time.ParseInLocation(TimeFieldFormat, s, loc); None = error,
                                           else ts.In(loc).Format(TimeFormat) *)
  o_time_unix : Z -> Z -> bytes;        (* time.Unix(sec, nsec).In(loc).Format(TimeFormat) *)
  o_rel : bytes -> option bytes         (* filepath.Rel(cwd, c); None = error *)
}.

(* sort.Search(n, f) *)
Fixpoint search_loop (fuel : nat) (f : nat -> bool) (i j : nat) : nat :=
  match fuel with
  | O => i
  | S fu =>
      if (i <? j)%nat then
        let h := Nat.div2 (i + j) in
        if f h then search_loop fu f i h else search_loop fu f (h + 1) j
      else i
  end.
Definition search (n : nat) (f : nat -> bool) : nat := search_loop n f 0 n.

(* sort.IsSorted / sort.SliceIsSorted: the postcondition of sort.Strings and
   sort.Slice.  The sorting algorithm itself (pdqsort, not stable) is not
   modelled: any permutation that satisfies the postcondition is allowed. *)
Fixpoint go_sorted {A} (less : A -> A -> bool) (l : list A) : Prop :=
  match l with
  | a :: (b :: _) as t => less b a = false /\ go_sorted less t
  | _ => True
  end.
Definition sort_result {A} (less : A -> A -> bool) (input output : list A) : Prop :=
  Permutation input output /\ go_sorted less output.

(* the executable stand-in used to run the model *)
Fixpoint insert {A} (less : A -> A -> bool) (x : A) (l : list A) : list A :=
  match l with
  | [] => [x]
  | y :: t => if less x y then x :: l else y :: insert less x t
  end.
Fixpoint isort {A} (less : A -> A -> bool) (l : list A) : list A :=
  match l with [] => [] | x :: t => insert less x (isort less t) end.

(* ---- orderFields ---- *)
(* w.fieldIsOrdered: for i, name := range FieldsOrder { m[name] = i } *)
Fixpoint last_index_from (i : nat) (fo : list bytes) (k : bytes) (acc : option nat) : option nat :=
  match fo with
  | [] => acc
  | x :: t => last_index_from (S i) t k (if beq x k then Some i else acc)
  end.
Definition field_index (fo : list bytes) (k : bytes) : option nat := last_index_from 0 fo k None.

(* the comparator handed to sort.Slice *)
Definition order_less (fo : list bytes) (a b : bytes) : bool :=
  match field_index fo a, field_index fo b with
  | Some i, Some j => (i <? j)%nat
  | Some _, None => true
  | None, Some _ => false
  | None, None => blt a b
  end.

(* len(w.FieldsOrder) > 0 ? orderFields : sort.Strings *)
Definition less_of (o : copts) : bytes -> bytes -> bool :=
  match co_fields_order o with [] => blt | fo => order_less fo end.

(* ---- writeFields, first loop: which names are collected (in map order) ---- *)
Definition reserved (k : bytes) : bool :=
  beq k n_level || beq k n_time || beq k n_message || beq k n_caller.
Definition collect (o : copts) (keys : list bytes) : list bytes :=
  filter (fun k => negb (mem k (co_fields_exclude o)) && negb (reserved k)) keys.

(* move the "error" field to the front (as the code is after fix 2538a27) *)
Definition move_error_front (fs : list bytes) : list bytes :=
  let ei := search (length fs) (fun i => negb (blt (nth i fs []) n_error)) in
  if (ei <? length fs)%nat && beq (nth ei fs []) n_error
  then n_error :: firstn ei fs ++ skipn (S ei) fs
  else fs.

(* needsQuote *)
Definition quote_byte (c : N) : bool :=
  ((c <? 32) || (126 <? c) || (c =? 32) || (c =? 92) || (c =? 34))%N.
Definition needs_quote (s : bytes) : bool := existsb quote_byte s.

Fixpoint join_sp (l : list bytes) : bytes :=
  match l with
  | [] => []
  | [x] => x
  | x :: t => x ++ [32%N] ++ join_sp t
  end.

Record result := { r_out : bytes; r_n : N; r_err : bool }.

Section Model.
  Variable O : oracles.
  Variable o : copts.
  Variable get : bytes -> cval.   (* evt[.] *)

  (* fmt.Sprintf("%s", i): the identity on strings and json.Number, oracle otherwise *)
  Definition sprint_s (v : cval) : bytes :=
    match v with CStr s => s | CNum t => t | _ => o_sprint O v end.

  (* the type switch on evt[field] in writeFields; fv = Sprintf("%s", .) of a string / []byte *)
  Definition value_text (v : cval) : bytes :=
    match v with
    | CStr s => if needs_quote s then o_quote O s else s
    | CNum t => t
    | CBool true => bs "true"
    | CBool false => bs "false"
    | CNull => bs "null"
    | COther j => j
    end.

  (* consoleDefaultFormatFieldName / consoleDefaultFormatErrFieldName with NoColor *)
  Definition fmt_field_name (k : bytes) : bytes := k ++ [61%N].
  Definition fmt_err_field_name (k : bytes) : bytes := k ++ [61%N].

  Definition field_text (k : bytes) : bytes :=
    (if beq k n_error then fmt_err_field_name k else fmt_field_name k) ++ value_text (get k).

  (* the rendering loop: a space after every field but the last *)
  Fixpoint render_fields (fs : list bytes) : bytes :=
    match fs with
    | [] => []
    | f :: t => field_text f ++ (match t with [] => [] | _ => [32%N] end) ++ render_fields t
    end.

  (* ---- default part formatters ---- *)
  (* ParseLevel, error ignored by the caller: NoLevel on failure *)
  Definition parse_level (s : bytes) : Z :=
    match find (fun nl => o_fold O s (fst nl)) level_names with
    | Some nl => snd nl
    | None =>
        match o_atoi O s with
        | None => NoLevel
        | Some i => if (i >? 127)%Z || (i <? -128)%Z then NoLevel else i
        end
    end.

  Definition strip_level (ll : bytes) : bytes :=
    match ll with
    | [] => bs "???"
    | _ => o_upper O (firstn 3 ll)
    end.

  Definition fmt_level (v : cval) : bytes :=
    match v with
    | CStr ll =>
        match formatted_level (parse_level ll) with
        | Some fl => fl
        | None => strip_level ll
        end
    | CNull => bs "???"
    | _ => strip_level (sprint_s v)
    end.

  Definition fmt_timestamp (v : cval) : bytes :=
    match v with
    | CStr ts => match o_time_str O ts with Some t => t | None => ts end
    | CNum tn =>
        match o_int64 O tn with
        | None => tn
        | Some i =>
            let '(sec, nsec) :=
              match co_time_unit o with
              | TUNano => (0, i)
              | TUMicro => (0, wrap64 (i * 1000))
              | TUMs => (0, wrap64 (i * 1000000))
              | TUSec => (i, 0)
              end%Z in
            o_time_unix O sec nsec
        end
    | _ => bs "<nil>"
    end.

  Definition fmt_message (v : cval) : bytes :=
    match v with
    | CNull => []
    | CStr [] => []
    | _ => sprint_s v
    end.

  Definition fmt_caller (v : cval) : bytes :=
    match v with
    | CStr ((_ :: _) as c) => (match o_rel O c with Some r => r | None => c end) ++ bs " >"
    | _ => []
    end.

  (* the formatter selection of writePart applied to evt[p] *)
  Definition part_text (p : bytes) : bytes :=
    if beq p n_level then fmt_level (get p)
    else if beq p n_time then fmt_timestamp (get p)
    else if beq p n_message then fmt_message (get p)
    else if beq p n_caller then fmt_caller (get p)
    else sprint_s (get p).

  Definition write_part (buf : bytes) (p : bytes) : bytes :=
    if mem p (co_parts_exclude o) then buf
    else
      let s := part_text p in
      match s with
      | [] => buf
      | _ => (match buf with [] => [] | _ => buf ++ [32%N] end) ++ s
      end.

  Definition default_parts : list bytes := [n_time; n_level; n_caller; n_message].
  Definition parts_order : list bytes :=
    match co_parts_order o with None => default_parts | Some po => po end.

  Definition write_parts : bytes := fold_left write_part parts_order [].

  (* writeFields from the sorted slice on *)
  Definition write_fields (buf : bytes) (sorted : list bytes) : bytes :=
    let buf1 := match buf, sorted with _ :: _, _ :: _ => buf ++ [32%N] | _, _ => buf end in
    buf1 ++ render_fields (move_error_front sorted).

  (* the rest of Write after decoding; Out accepts the bytes *)
  Definition finish (inlen : N) (sorted : list bytes) : result :=
    {| r_out := write_fields write_parts sorted ++ [10%N]; r_n := inlen; r_err := false |}.
End Model.

(* Write on an input that decodes to [evt] (listed in map iteration order):
   every outcome of the sort is allowed *)
Definition console_writes (O : oracles) (o : copts) (evt : event) (inlen : N) (names : list bytes) (r : result) : Prop :=
  exists sorted,
    sort_result (less_of o) (collect o (map fst evt)) sorted /\
    names = move_error_front sorted /\
    r = finish O o (lookup evt) inlen sorted.

(* executable: insertion sort stands in for sort.Strings / sort.Slice *)
Definition console_names (o : copts) (evt : event) : list bytes :=
  move_error_front (isort (less_of o) (collect o (map fst evt))).

Definition console_write (O : oracles) (o : copts) (dec : option event) (inlen : N) : result :=
  match dec with
  | None => {| r_out := []; r_n := 0; r_err := true |}   (* "cannot decode event": nothing is written *)
  | Some evt => finish O o (lookup evt) inlen (isort (less_of o) (collect o (map fst evt)))
  end.

(* ---- the declarative side of the property ---- *)
(* every key other than the four reserved names that is not in FieldsExclude *)
Definition wanted (o : copts) (evt : event) : list bytes := collect o (map fst evt).

(* the bytes the property text names: space, quote, backslash, control (C0 and DEL), non-ASCII *)
Definition special_byte (c : N) : Prop :=
  (c = 32 \/ c = 34 \/ c = 92 \/ c < 32 \/ c = 127 \/ 128 <= c)%N.
