(* Pool accounting of an event chain (event.go eventPool / array.go arrayPool):
   which API calls take a pooled object (Get) and which give it back (Put), in
   code order, for an enabled event and for a filtered (nil) one.  The trace
   is what decides whether a warm pool ever has to allocate. *)
From Verif Require Import Base.Prelude Enc.JsonEnc Api.Exec.

Inductive pev := GetE | PutE | GetA | PutA.

Section Trace.
  (* [tr o] = pool trace of op o executed on a live (non-nil) event *)
  Variable tr : op -> list pev.

  Definition tr_list (l : list op) : list pev := flat_map tr l.

  (* a marshaler fragment run on a helper event taken from the pool and returned *)
  Definition helper (fs : list op) : list pev := [GetE] ++ tr_list fs ++ [PutE].

  Definition errv_tr (x : errv (list op)) : list pev := match x with EObj fs => helper fs | _ => [] end.

  (* an Array method *)
  Definition arr_tr (o : op) : list pev :=
    match o with
    | AObj fs => helper fs          (* e := Dict(); ...; putEvent(e) *)
    | ADict fs => helper fs         (* d := Dict()...; a.Dict(d) returns it *)
    | AErr x => errv_tr x
    | _ => []
    end.

  Definition field_tr (kv : option bytes * fieldval (list op)) : list pev :=
    match kv with
    | (None, _) => []
    | (Some _, FVPrim _) => []
    | (Some _, FVObj fs) => helper fs
    | (Some _, FVErr x _) => errv_tr x
    | (Some _, FVErrs es) => flat_map errv_tr es
    end.

  Definition same_event (x : errv (list op)) : list pev := match x with EObj fs => tr_list fs | _ => [] end.

  Definition tr_body (o : op) : list pev :=
    match o with
    | ODict _ fs => helper fs                                   (* Dict() ... e.Dict(key, d): putEvent(d) *)
    | OArray _ es => [GetA] ++ flat_map arr_tr es ++ [PutA]      (* Arr() ... e.Array: a.write: putArray *)
    | OObject _ (Some fs) | OEmbed (Some fs) | OFunc fs => tr_list fs
    | OFields kvs => flat_map field_tr kvs
    | OAnErr _ x => same_event x
    | OErr x stk => same_event stk ++ same_event x
    | OErrs _ es => [GetA] ++ flat_map errv_tr es ++ [PutA]
    | _ => []
    end.

  (* the same call chain on a FILTERED event: only the arguments the caller
     builds (zerolog.Dict()..., zerolog.Arr()...) touch the pools; the nil
     event's Dict / Array hand them back *)
  Definition tr_nil (o : op) : list pev :=
    match o with
    | ODict _ fs => helper fs
    | OArray _ es => [GetA] ++ flat_map arr_tr es ++ [PutA]
    | _ => []
    end.
End Trace.

Fixpoint tr_n (n : nat) (o : op) : list pev :=
  match n with O => [] | S n' => tr_body (tr_n n') o end.

(* a whole chain: newEvent ... ops ... hooks ... write *)
Definition chain_trace (n : nat) (ops : list op) (hooks : list (list op)) : list pev :=
  [GetE] ++ tr_list (tr_n n) ops ++ flat_map (tr_list (tr_n n)) hooks ++ [PutE].
Definition nil_chain_trace (n : nat) (ops : list op) : list pev := flat_map (tr_nil (tr_n n)) ops.

(* running a trace against pool levels (events, arrays): None if a Get finds its pool empty (a miss = an allocation) *)
Fixpoint run_pool (t : list pev) (lv : N * N) : option (N * N) :=
  match t with
  | [] => Some lv
  | GetE :: r => if (fst lv =? 0)%N then None else run_pool r ((fst lv - 1)%N, snd lv)
  | PutE :: r => run_pool r ((fst lv + 1)%N, snd lv)
  | GetA :: r => if (snd lv =? 0)%N then None else run_pool r (fst lv, (snd lv - 1)%N)
  | PutA :: r => run_pool r (fst lv, (snd lv + 1)%N)
  end.

(* the deepest simultaneous demand of a trace on each pool *)
Fixpoint demand (t : list pev) (cur mx : Z * Z) : Z * Z :=
  match t with
  | [] => mx
  | GetE :: r => let c := (fst cur + 1, snd cur)%Z in demand r c (Z.max (fst mx) (fst c), snd mx)
  | PutE :: r => demand r (fst cur - 1, snd cur)%Z mx
  | GetA :: r => let c := (fst cur, snd cur + 1)%Z in demand r c (fst mx, Z.max (snd mx) (snd c))
  | PutA :: r => demand r (fst cur, snd cur - 1)%Z mx
  end.
