(* Logger derivation over Go slice semantics (log.go With / Output / Level /
   Sample / Hook / UpdateContext, context.go).  Backing arrays, slice headers
   and Go's append (in place iff it fits, else a fresh array of ANY sufficient
   capacity - the growth policy is a parameter) come from Misc/HlogHeap.v.
   Context.Reset() (context.go) replaces the Context value's buffer by a fresh
   500-byte array holding only the begin marker, alone or inside the function
   given to UpdateContext.
   A Logger value is a slice header (its context) - hooks are rebuilt into a
   fresh exact-capacity slice by every Hook() and are therefore immutable
   values, handled by the pure model (Api/Exec.v).
   Programs are in SSA form: statement k defines variable k.  The pure
   semantics (what each variable's context SHOULD be) runs alongside. *)
From Verif Require Import Base.Prelude Misc.HlogHeap.
Open Scope nat_scope.

Definition bytes := list N.
Definition var := nat.

(* one context method called on a Context value: it appends d to the buffer
   (Str, Int, ... - which bytes is C01-C03's subject) or it is Reset() *)
Inductive cop :=
| CApp (d : bytes)
| CReset.

Inductive hstmt :=
| HRoot                          (* l := zerolog.New(w): nil context *)
| HWith (l : var)                (* c := l.With() *)
| HOp (c : var) (d : bytes)      (* c' := c.Str(...) etc: one context method appending d *)
| HLogger (c : var)              (* l := c.Logger() *)
| HCopy (l : var)                (* l' := l.Level(..) / Sample(..) / Hook(..): the header is copied *)
| HOutput (l : var)              (* l' := l.Output(w): make(len, cap) + copy *)
| HUpdate (l : var) (ops : list cop)  (* l.UpdateContext(f), f calling the context methods ops in turn: through the pointer, defines no variable *)
| HEmit (l : var)                (* an event is emitted through l: its context is read *)
| HReset (c : var).              (* c' := c.Reset(): enc.AppendBeginMarker(make([]byte, 0, 500)) *)

(* a variable: its context header (None = nil slice), whether it is still
   usable (a Context value is consumed by the call that uses it), and whether
   it is the one value allowed to append in place to its array *)
Record hval := { v_ctx : option slice; v_live : bool; v_own : bool }.

Record hstate := { hs_heap : heap; hs_env : list hval; hs_obs : list bytes (* contexts read by HEmit, in order *) }.

Definition get (env : list hval) (x : var) : hval := nth x env {| v_ctx := None; v_live := false; v_own := false |}.
Definition hview (h : heap) (v : hval) : bytes := match v_ctx v with Some s => view h s | None => [] end.

Definition kill (env : list hval) (x : var) : list hval :=
  upd env x {| v_ctx := v_ctx (get env x); v_live := false; v_own := false |}.
Definition disown (env : list hval) (x : var) : list hval := env.

(* Context.Reset: make([]byte, 0, 500) followed by AppendBeginMarker - the allocation With() does for a
   logger without context (logger_with on None) *)
Definition ctx_reset (grow : nat -> nat -> nat) (h : heap) : heap * slice :=
  let '(h', s', _) := logger_with grow h None in (h', s').

Fixpoint apply_ops (grow : nat -> nat -> nat) (h : heap) (s : slice) (ops : list cop) : heap * slice :=
  match ops with
  | [] => (h, s)
  | CApp d :: t => let '(h', s', _) := append grow h s d in apply_ops grow h' s' t
  | CReset :: t => let '(h', s') := ctx_reset grow h in apply_ops grow h' s' t
  end.

Definition hstep (grow : nat -> nat -> nat) (st : hstate) (c : hstmt) : hstate :=
  let h := hs_heap st in let env := hs_env st in
  match c with
  | HRoot => {| hs_heap := h; hs_env := env ++ [{| v_ctx := None; v_live := true; v_own := false |}]; hs_obs := hs_obs st |}
  | HWith l =>
      let '(h', s', _) := logger_with grow h (v_ctx (get env l)) in
      {| hs_heap := h'; hs_env := env ++ [{| v_ctx := Some s'; v_live := true; v_own := true |}]; hs_obs := hs_obs st |}
  | HOp c d =>
      match v_ctx (get env c) with
      | Some s =>
          let '(h', s', _) := append grow h s d in
          {| hs_heap := h'; hs_env := kill env c ++ [{| v_ctx := Some s'; v_live := true; v_own := v_own (get env c) |}]; hs_obs := hs_obs st |}
      | None => st
      end
  | HLogger c =>
      {| hs_heap := h; hs_env := kill env c ++ [{| v_ctx := v_ctx (get env c); v_live := true; v_own := v_own (get env c) |}]; hs_obs := hs_obs st |}
  | HCopy l =>
      {| hs_heap := h; hs_env := env ++ [{| v_ctx := v_ctx (get env l); v_live := true; v_own := false |}]; hs_obs := hs_obs st |}
  | HOutput l =>
      match v_ctx (get env l) with
      | Some s =>
          (* l2.context = make([]byte, len, cap); copy *)
          let data := view h s ++ repeat 0%N (cap s - len s) in
          {| hs_heap := h ++ [data];
             hs_env := env ++ [{| v_ctx := Some {| arr := length h; off := 0; len := len s; cap := cap s |}; v_live := true; v_own := true |}];
             hs_obs := hs_obs st |}
      | None => {| hs_heap := h; hs_env := env ++ [{| v_ctx := None; v_live := true; v_own := false |}]; hs_obs := hs_obs st |}
      end
  | HUpdate l ops =>
      match v_ctx (get env l) with
      | Some s =>
          let '(h', s') := apply_ops grow h s ops in
          {| hs_heap := h'; hs_env := upd env l {| v_ctx := Some s'; v_live := true; v_own := v_own (get env l) |}; hs_obs := hs_obs st |}
      | None => st   (* UpdateContext on a logger without context allocates first; not used on such loggers here *)
      end
  | HEmit l => {| hs_heap := h; hs_env := env; hs_obs := hs_obs st ++ [hview h (get env l)] |}
  | HReset c =>
      let '(h', s') := ctx_reset grow h in
      {| hs_heap := h'; hs_env := kill env c ++ [{| v_ctx := Some s'; v_live := true; v_own := v_own (get env c) |}]; hs_obs := hs_obs st |}
  end.

Definition hinit : hstate := {| hs_heap := []; hs_env := []; hs_obs := [] |}.
Definition hrun (grow : nat -> nat -> nat) (p : list hstmt) : hstate := fold_left (hstep grow) p hinit.

(* ---- the pure semantics: every variable's context as a plain byte string ---- *)
Record pstate := { ps_env : list bytes; ps_obs : list bytes }.
Definition pget (env : list bytes) (x : var) : bytes := nth x env [].

Definition pop (p : bytes) (o : cop) : bytes := match o with CApp d => p ++ d | CReset => begin_marker end.

Definition pstep (st : pstate) (c : hstmt) : pstate :=
  let env := ps_env st in
  match c with
  | HRoot => {| ps_env := env ++ [[]]; ps_obs := ps_obs st |}
  | HWith l => {| ps_env := env ++ [match pget env l with [] => begin_marker | b => b end]; ps_obs := ps_obs st |}
  | HOp c d => {| ps_env := env ++ [pget env c ++ d]; ps_obs := ps_obs st |}
  | HLogger c | HCopy c | HOutput c => {| ps_env := env ++ [pget env c]; ps_obs := ps_obs st |}
  | HUpdate l ops => {| ps_env := upd env l (fold_left pop ops (pget env l)); ps_obs := ps_obs st |}
  | HEmit l => {| ps_env := env; ps_obs := ps_obs st ++ [pget env l] |}
  | HReset c => {| ps_env := env ++ [begin_marker]; ps_obs := ps_obs st |}
  end.
Definition prun (p : list hstmt) : pstate := fold_left pstep p {| ps_env := []; ps_obs := [] |}.

(* ---- the property's language: which programs are claimed ---- *)
(* checked on an abstract environment: kind of each variable (Context value /
   Logger), live?, owner? *)
Record aval := { a_isctx : bool; a_live : bool; a_own : bool; a_nil : bool }.
Definition aget (env : list aval) (x : var) : aval := nth x env {| a_isctx := false; a_live := false; a_own := false; a_nil := true |}.

Definition acheck (env : list aval) (c : hstmt) : option (list aval) :=
  match c with
  | HRoot => Some (env ++ [{| a_isctx := false; a_live := true; a_own := false; a_nil := true |}])
  | HWith l =>
      if a_live (aget env l) && negb (a_isctx (aget env l)) && (l <? length env)
      then Some (env ++ [{| a_isctx := true; a_live := true; a_own := true; a_nil := false |}]) else None
  | HOp c _ | HReset c =>
      if a_live (aget env c) && a_isctx (aget env c) && a_own (aget env c) && (c <? length env)
      then Some (upd env c {| a_isctx := true; a_live := false; a_own := false; a_nil := false |} ++
                 [{| a_isctx := true; a_live := true; a_own := true; a_nil := false |}]) else None
  | HLogger c =>
      if a_live (aget env c) && a_isctx (aget env c) && a_own (aget env c) && (c <? length env)
      then Some (upd env c {| a_isctx := true; a_live := false; a_own := false; a_nil := false |} ++
                 [{| a_isctx := false; a_live := true; a_own := true; a_nil := false |}]) else None
  | HCopy l =>
      if a_live (aget env l) && negb (a_isctx (aget env l)) && (l <? length env)
      then Some (env ++ [{| a_isctx := false; a_live := true; a_own := false; a_nil := a_nil (aget env l) |}]) else None
  | HOutput l =>
      if a_live (aget env l) && negb (a_isctx (aget env l)) && (l <? length env)
      then Some (env ++ [{| a_isctx := false; a_live := true; a_own := negb (a_nil (aget env l)); a_nil := a_nil (aget env l) |}]) else None
  | HUpdate l ops =>
      (* only on a logger that was itself produced by With()...Logger() (or Output): the owner of its array *)
      if a_live (aget env l) && negb (a_isctx (aget env l)) && a_own (aget env l) && (l <? length env) then Some env else None
  | HEmit l =>
      if a_live (aget env l) && negb (a_isctx (aget env l)) && (l <? length env) then Some env else None
  end.

Fixpoint acheck_all (env : list aval) (p : list hstmt) : bool :=
  match p with
  | [] => true
  | c :: t => match acheck env c with Some env' => acheck_all env' t | None => false end
  end.
Definition in_language (p : list hstmt) : bool := acheck_all [] p.
