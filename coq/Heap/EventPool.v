(* What a pooled Event carries over from its previous use (event.go newEvent,
   log.go Logger.newEvent).  sync.Pool.Get returns an ARBITRARY earlier event:
   every field holds stale data unless newEvent reassigns it.  The list of
   reassigned fields is not written here: it is the table go2coq regenerates
   from the current source (Gen/Structs.v). *)
From Coq Require Import String List Bool.
Import ListNotations.
Local Open Scope string_scope.

(* an event as a finite map from field name to an abstract value id (0 = the zero value a reset assigns) *)
Definition fields := list (string * nat).
Fixpoint lookup (f : fields) (x : string) : nat :=
  match f with [] => 0 | (y, v) :: t => if String.eqb x y then v else lookup t x end.

(* newEvent on a pooled event [stale]: fields in [resets] get the value newEvent assigns, the others stay *)
Definition new_event (names resets : list string) (assigned : string -> nat) (stale : fields) : fields :=
  map (fun x => (x, if existsb (String.eqb x) resets then assigned x else lookup stale x)) names.

(* Event.GetCtx: nil context reads as context.Background (value 0) *)
Definition get_ctx (e : fields) : nat := lookup e "ctx".

Definition covers (names resets : list string) : bool := forallb (fun x => existsb (String.eqb x) resets) names.
