(* Shared correspondence glue of C10/C11/C12: the driver ships the executions of
   the instrumented real code as a prefix tree; an edge carries the scheduled
   thread and the observed (operation kind, value); a node carries the observed
   set of enabled threads and, where the driver took one, a snapshot of the
   observables.  [dcheck]/[wcheck] run the model along the tree and count every
   node/edge where model and implementation differ (expected: 0). *)
From Verif Require Import Base.Prelude Lts.Diode Lts.Waiter.
Open Scope N_scope.

Inductive fobs := Ob (del al ret : list N) (ri cl col flags : N).

Inductive tree := Nd (en : N) (obs : list fobs) (kids : list edge)
with edge := Ed (t k v : N) (sub : tree).

Definition oN (o : option N) : N := match o with None => 0 | Some x => x + 1 end.
Definition bN (b : bool) : N := if b then 1 else 0.

Definition lbl_code (l : lbl) : N * N :=
  match l with
  | LAdd wi => (1, wi)
  | LLoad o => (2, oN o)
  | LCas ok => (3, bN ok)
  | LSwap o => (4, oN o)
  end.

Definition wlbl_code (l : wlbl) : N * N :=
  match l with
  | WRing r => lbl_code r
  | WBcast k => (5, k)
  | WLock => (6, 0) | WUnlock => (7, 0) | WWait => (8, 0) | WWake => (9, 0)
  | WIsDone => (10, 0) | WSleep => (11, 0)
  | WWrite m => (12, m)
  | WAwait => (13, 0) | WClose => (14, 0)
  end.

Definition lists_eqb := list_eqb N.eqb.
Definition fobs_eqb (a b : fobs) : bool :=
  match a, b with
  | Ob d1 a1 r1 i1 c1 k1 f1, Ob d2 a2 r2 i2 c2 k2 f2 =>
      lists_eqb d1 d2 && lists_eqb a1 a2 && lists_eqb r1 r2 && (i1 =? i2) && (c1 =? c2) && (k1 =? k2) && (f1 =? f2)
  end.

(* ---- ring level: thread 0 = consumer, 3+p = producer p ---- *)
Definition dact (t : N) : act := if t =? 0 then C else P (N.to_nat (t - 3)).

Fixpoint prod_mask (l : list pstate) (bit : N) : N :=
  match l with
  | [] => 0
  | x :: r => (if pdone x then 0 else bit) + prod_mask r (2 * bit)
  end.
Definition den (s : st) : N := 1 + prod_mask (prods s) 8.

Definition dobs (s : st) : fobs :=
  Ob (map snd (delivered s)) (alerts s) (map snd (returned s)) (ri s) (claims s mod two64)
     (g_casfail s + g_newer s) (8 * bN (producers_done s)).

Definition count_bad (mine : fobs) (l : list fobs) : N :=
  fold_right (fun o acc => (if fobs_eqb mine o then 0 else 1) + acc) 0 l.

Fixpoint dcheck (s : st) (t : tree) : N :=
  match t with
  | Nd en obs kids =>
      (if en =? den s then 0 else 1) + count_bad (dobs s) obs +
      (fix go (l : list edge) : N :=
         match l with
         | [] => 0
         | Ed th k v sub :: r =>
             match step s (dact th) with
             | Some (lb, s') => let '(k', v') := lbl_code lb in
                                if (k =? k') && (v =? v') then dcheck s' sub else 1
             | None => 1
             end + go r
         end) kids
  end.

Definition diode_run (c : nat * list (list N) * tree) : N :=
  let '(n, ps, t) := c in dcheck (init n ps) t.

(* ---- writer level: 0 consumer, 1 cancel goroutine, 2 closer, 3+p producer p ---- *)
Definition wthr (t : N) : thr :=
  if t =? 0 then TCons else if t =? 1 then TCancel else if t =? 2 then TCloser else TProd (N.to_nat (t - 3)).

Fixpoint wprod_mask (w : wst) (k : nat) (p : nat) (bit : N) : N :=
  match k with
  | O => 0
  | S k' => (if enabled w (TProd p) then bit else 0) + wprod_mask w k' (S p) (2 * bit)
  end.
Definition wen (w : wst) : N :=
  bN (enabled w TCons) + 2 * bN (enabled w TCancel) + 4 * bN (enabled w TCloser)
  + wprod_mask w (length (prods (d w))) 0 8.

Definition cparked (w : wst) : bool :=
  match cons w with CParked sig => negb (sig && negb (mu w)) | _ => false end.
Definition cdone (w : wst) : bool := match cons w with CDone => true | _ => false end.
Definition kdone (w : wst) : bool := match closer w with KDone => true | _ => false end.

Definition wobs (w : wst) : fobs :=
  Ob (wdelivered w) (alerts (d w)) (wreturned w) (ri (d w)) (claims (d w) mod two64)
     (g_casfail (d w) + g_newer (d w))
     (bN (kdone w) + 2 * bN (cdone w) + 4 * bN (cparked w) + 8 * bN (all_written w)).

Fixpoint wcheck (w : wst) (t : tree) : N :=
  match t with
  | Nd en obs kids =>
      (if en =? wen w then 0 else 1) + count_bad (wobs w) obs +
      (fix go (l : list edge) : N :=
         match l with
         | [] => 0
         | Ed th k v sub :: r =>
             match wstep w (wthr th) with
             | Some (lb, w') => let '(k', v') := wlbl_code lb in
                                if (k =? k') && (v =? v') then wcheck w' sub else 1
             | None => 1
             end + go r
         end) kids
  end.

Definition writer_run (c : bool * bool * nat * list (list N) * tree) : N :=
  let '(wt, gt, n, ps, t) := c in wcheck (winit wt gt n ps) t.

(* one case type for both levels *)
Inductive dcase :=
| DRing (n : nat) (ps : list (list N)) (t : tree)
| DWriter (wt gt : bool) (n : nat) (ps : list (list N)) (t : tree).

Definition dcase_run (c : dcase) : N :=
  match c with
  | DRing n ps t => dcheck (init n ps) t
  | DWriter wt gt n ps t => wcheck (winit wt gt n ps) t
  end.
