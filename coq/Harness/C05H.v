(* correspondence glue for C05: the heap model (doubling growth) must predict what the real code emits, also on
   programs OUTSIDE the property's language (that is what validates the aliasing model) *)
From Verif Require Import Base.Prelude Misc.HlogHeap Heap.LoggerHeap.
Definition c05_run (p : list hstmt) : list (list N) :=
  map (fun v => match v with [] => [123%N] | _ => v end) (hs_obs (hrun (fun c n => (2 * c)%nat) p)).
Definition c05_eqb : list (list N) -> list (list N) -> bool := list_eqb (list_eqb N.eqb).
