(* correspondence glue for C08.  Three kinds of shards:
   - the binary build's bytes of a program: Harness/C09H.v c09_run_event;
   - the real decoder's text on those bytes: Harness/C17H.v c17_run (EMany);
   - the JSON build's bytes of the same program: [c08_run_json] below, the
     model Enc/JsonEv.v with the oracle texts the driver computed with the Go
     standard library (strconv 'f'/'e' texts per float, the time layout text,
     net.IP / HardwareAddr / IPNet texts, base64). *)
From Verif Require Import Base.Prelude Enc.CborEnc Harness.C09H.
From Verif Require Import Enc.JsonEnc Enc.JsonEv.
Open Scope N_scope.

Record jtables := mkJT {
  jt_f32 : list (N * (list N * list N));
  jt_f64 : list (N * (list N * list N));
  jt_time : list (Z * N * list N);
  jt_ip : list (list N * list N);
  jt_mac : list (list N * list N);
  jt_pfx : list (list N * list N * list N);
  jt_b64 : list (list N * list N) }.

Definition beq := list_eqb N.eqb.

Fixpoint lookN {V} (t : list (N * V)) (k : N) : option V :=
  match t with [] => None | (k', v) :: r => if k' =? k then Some v else lookN r k end.
Fixpoint lookB {V} (t : list (list N * V)) (k : list N) : option V :=
  match t with [] => None | (k', v) :: r => if beq k' k then Some v else lookB r k end.
Fixpoint lookT (t : list (Z * N * list N)) (s : Z) (n : N) : list N :=
  match t with [] => [] | (s', n', v) :: r => if (s' =? s)%Z && (n' =? n) then v else lookT r s n end.
Fixpoint lookP (t : list (list N * list N * list N)) (ip mask : list N) : list N :=
  match t with [] => [] | (i, m, v) :: r => if beq i ip && beq m mask then v else lookP r ip mask end.

Definition fval_of (t : list (N * (list N * list N))) (b : N) : fval :=
  match lookN t b with
  | Some (tf, te) => {| f_bits := b; f_txt_f := tf; f_txt_e := te |}
  | None => {| f_bits := b; f_txt_f := []; f_txt_e := [] |}
  end.

Definition joracle_of (t : jtables) : joracle :=
  mkjoracle (fval_of (jt_f32 t)) (fval_of (jt_f64 t))
            (fun sn => lookT (jt_time t) (fst sn) (snd sn))
            (fun ip => match lookB (jt_ip t) ip with Some v => v | None => [] end)
            (fun ha => match lookB (jt_mac t) ha with Some v => v | None => [] end)
            (lookP (jt_pfx t))
            (fun b => match lookB (jt_b64 t) b with Some v => v | None => [] end).

(* the JSON build's line for (pre, ctx, ev); FloatingPointPrecision = -1 *)
Definition c08_run_json
  (c : (jtables * tables) * (list (list N * cval) * list (list N * cval) * list (list N * cval))) : list N :=
  let '(jt, tb) := fst c in
  let '(pre, ctx, ev) := snd c in
  json_event_ctx (joracle_of jt) (-1)%Z (lookup_dur (snd tb)) pre ctx ev.
