(* correspondence glue for C06: the bytes each concurrently emitted event must carry = the model's line for its program *)
From Verif Require Import Base.Prelude Base.Decimal Enc.JsonEnc Misc.Level Api.Exec Harness.C01H.
Definition c06_run (c : c01_case) : option bytes := fst (c01_run c).
Definition c06_eqb (a b : option bytes) : bool :=
  match a, b with Some x, Some y => list_eqb N.eqb x y | None, None => true | _, _ => false end.
