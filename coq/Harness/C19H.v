(* correspondence glue for C19: what the shards evaluate.
   A case is (value of zerolog.CallerSkipFrameCount, the logger's hooks, wrapper
   depth d, the user's statement); the model runs it on the stack
   FUser 0 .. FUser d, FUser (d+1) (the runner), FOuter and the prediction is the
   list of user-frame indices named by the caller fields of the event, in
   order (None: not a frame of the user's chain). *)
From Verif Require Import Base.Prelude Misc.CallerTypes Gen.CallChains Misc.Caller.
From Coq Require Import String.

Definition c19_case : Type := Z * list hook * nat * stmt.

Definition c19_index (f : option frame) : option N :=
  match f with Some (FUser i) => Some i | _ => None end.

Definition c19_run (c : c19_case) : option (list (option N)) :=
  let '(g, hs, d, s) := c in
  match run_stmt {| w_global := g; w_stale := 0; w_hooks := hs |} (ustack (S d) [FOuter]) s with
  | Some xs => Some (map c19_index xs)
  | None => None
  end.

Definition optN_eqb (a b : option N) : bool :=
  match a, b with
  | Some x, Some y => N.eqb x y
  | None, None => true
  | _, _ => false
  end.

Definition c19_eqb (a b : option (list (option N))) : bool :=
  match a, b with
  | Some x, Some y => list_eqb optN_eqb x y
  | None, None => true
  | _, _ => false
  end.
