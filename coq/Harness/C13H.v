(* correspondence glue for C13: what the shards evaluate *)
From Verif Require Import Base.Prelude Misc.Level Lts.Sampler.
Definition c13_run (c : gate * list (Z * Z)) : list bool := fst (run_gate (fst c) (snd c)).
Definition c13_eqb : list bool -> list bool -> bool := list_eqb Bool.eqb.
(* Sample called on a sampler tree itself (no logger, no gate): the all-levels sweep *)
Definition c13s_run (c : sampler * list (Z * Z)) : list bool := fst (run_sampler (fst c) (snd c)).
