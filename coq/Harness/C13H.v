(* correspondence glue for C13: what the shards evaluate *)
From Verif Require Import Base.Prelude Misc.Level Lts.Sampler.
Definition c13_run (c : gate * list (Z * Z)) : list bool := fst (run_gate (fst c) (snd c)).
Definition c13_eqb : list bool -> list bool -> bool := list_eqb Bool.eqb.
