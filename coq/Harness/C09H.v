(* correspondence glue for C09: what the shards evaluate.
   A primitive case is (oracle tables, dst, call) with the bytes the real
   method returned; an event case is (oracle tables, fields) with the bytes
   the real logger wrote under -tags binary_log.  The oracle tables carry the
   float conversions of the time / duration values that occur in the case,
   computed by the driver with Go's own float arithmetic. *)
From Verif Require Import Base.Prelude Base.CborSpec Enc.CborEnc Proofs.CborEncP.
From Verif Require Base.GoSem Gen.CborSrc.
Open Scope N_scope.

Inductive call :=
| KPrefix (major number : N)
| KString (s : list N) | KStrings (l : list (list N))
| KStringer (o : option (list N)) | KStringers (l : list (option (list N)))
| KBytes (s : list N) | KHex (s : list N) | KJSON (s : list N) | KCBOR (s : list N)
| KBool (b : bool) | KBools (l : list bool)
| KInt (z : Z) | KInt8 (z : Z) | KInt16 (z : Z) | KInt32 (z : Z) | KInt64 (z : Z)
| KInts (l : list Z) | KInts8 (l : list Z) | KInts16 (l : list Z) | KInts32 (l : list Z) | KInts64 (l : list Z)
| KUint (n : N) | KUint8 (n : N) | KUint16 (n : N) | KUint32 (n : N) | KUint64 (n : N)
| KUints (l : list N) | KUints8 (l : list N) | KUints16 (l : list N) | KUints32 (l : list N) | KUints64 (l : list N)
| KF32 (b : N) | KFs32 (l : list N) | KF64 (b : N) | KFs64 (l : list N)
| KTime (t : Z * N) | KTimes (l : list (Z * N))
| KDur (unit : Z) (useInt : bool) (d : Z) | KDurs (unit : Z) (useInt : bool) (l : list Z)
| KIface (m : list N + list N) | KType (t : option (list N))
| KIP (s : list N) | KMAC (s : list N) | KIPPrefix (ip mask : list N) | KNil
| KBegin | KEnd | KArrStart | KArrEnd | KArrDelim | KLineBreak
| KObjectData (o : list N) | KKey (k : list N).

(* compact descriptions of the long inputs / outputs of the boundary cases
   (65535, 65536, ... elements): the driver checks on the Go side that the real
   bytes equal these patterns and prints the pattern instead of a literal *)
Definition pat_iter {A} (n : N) (f : N -> list A) : list A :=
  snd (N.iter n (fun p => let i := fst p - 1 in (i, f i ++ snd p)) (n, [])).
(* 'a' + i mod 26 *)
Definition pat (n : N) : list N := pat_iter n (fun i => [97 + i mod 26]).
Definition patb (n : N) : list bool := pat_iter n (fun i => [i mod 3 =? 0]).
Definition patb_out (n : N) : list N := pat_iter n (fun i => [if i mod 3 =? 0 then 245 else 244]).
(* strings "" and "a" alternating, and their encodings 60 / 61 61 *)
Definition pats (n : N) : list (list N) := pat_iter n (fun i => [if i mod 2 =? 0 then [] else [97]]).
Definition pats_out (n : N) : list N := pat_iter n (fun i => if i mod 2 =? 0 then [96] else [97; 97]).

Definition tables : Type := list (Z * N * N) * list (Z * Z * N).

Fixpoint lookup_time (tbl : list (Z * N * N)) (s : Z) (n : N) : N :=
  match tbl with
  | [] => 0
  | (s', n', b) :: t => if (s' =? s)%Z && (n' =? n) then b else lookup_time t s n
  end.

Fixpoint lookup_dur (tbl : list (Z * Z * N)) (d u : Z) : N :=
  match tbl with
  | [] => 0
  | (d', u', b) :: t => if (d' =? d)%Z && (u' =? u)%Z then b else lookup_dur t d u
  end.

Definition run_call (tb : tables) (dst : list N) (c : call) : list N :=
  let ft := lookup_time (fst tb) in
  let fd := lookup_dur (snd tb) in
  match c with
  | KPrefix m n => appendCborTypePrefix dst m n
  (* the _fast forms are equal to cbor_AppendStrings / cbor_AppendBools for all
     inputs (Proofs/CborEncP.v cbor_AppendStrings_fast_eq, cbor_AppendBools_fast_eq) *)
  | KString s => cbor_AppendString dst s | KStrings l => cbor_AppendStrings_fast dst l
  | KStringer o => cbor_AppendStringer dst o | KStringers l => cbor_AppendStringers dst l
  | KBytes s => cbor_AppendBytes dst s | KHex s => cbor_AppendHex dst s
  | KJSON s => cbor_AppendEmbeddedJSON dst s | KCBOR s => cbor_AppendEmbeddedCBOR dst s
  | KBool b => cbor_AppendBool dst b | KBools l => cbor_AppendBools_fast dst l
  | KInt z => cbor_AppendInt dst z | KInt8 z => cbor_AppendInt8 dst z | KInt16 z => cbor_AppendInt16 dst z
  | KInt32 z => cbor_AppendInt32 dst z | KInt64 z => cbor_AppendInt64 dst z
  | KInts l => cbor_AppendInts dst l | KInts8 l => cbor_AppendInts8 dst l | KInts16 l => cbor_AppendInts16 dst l
  | KInts32 l => cbor_AppendInts32 dst l | KInts64 l => cbor_AppendInts64 dst l
  | KUint n => cbor_AppendUint dst n | KUint8 n => cbor_AppendUint8 dst n | KUint16 n => cbor_AppendUint16 dst n
  | KUint32 n => cbor_AppendUint32 dst n | KUint64 n => cbor_AppendUint64 dst n
  | KUints l => cbor_AppendUints dst l | KUints8 l => cbor_AppendUints8 dst l | KUints16 l => cbor_AppendUints16 dst l
  | KUints32 l => cbor_AppendUints32 dst l | KUints64 l => cbor_AppendUints64 dst l
  | KF32 b => cbor_AppendFloat32 dst b | KFs32 l => cbor_AppendFloats32 dst l
  | KF64 b => cbor_AppendFloat64 dst b | KFs64 l => cbor_AppendFloats64 dst l
  | KTime t => cbor_AppendTime ft dst t | KTimes l => cbor_AppendTimes ft dst l
  | KDur u i d => cbor_AppendDuration fd u i dst d | KDurs u i l => cbor_AppendDurations fd u i dst l
  | KIface m => cbor_AppendInterface dst m | KType t => cbor_AppendType dst t
  | KIP s => cbor_AppendIPAddr dst s | KMAC s => cbor_AppendMACAddr dst s
  | KIPPrefix ip mask => cbor_AppendIPPrefix dst ip mask | KNil => cbor_AppendNil dst
  | KBegin => cbor_AppendBeginMarker dst | KEnd => cbor_AppendEndMarker dst
  | KArrStart => cbor_AppendArrayStart dst | KArrEnd => cbor_AppendArrayEnd dst
  | KArrDelim => cbor_AppendArrayDelim dst | KLineBreak => cbor_AppendLineBreak dst
  | KObjectData o => cbor_AppendObjectData dst o | KKey k => cbor_AppendKey dst k
  end.

(* the translation of the current source (Gen/CborSrc.v) evaluated on the same call: for the functions srcgen
   translates, the shard also requires translation = model on this input (for most of them that is a theorem,
   Proofs/SrcCborP.v; for the float functions and the forwarding integer widths it is this run that ties the
   translation to the model and, through the observed bytes, to the compiled code) *)
Definition mk32 (b : N) : GoSem.gofl := {| GoSem.fl32 := true; GoSem.flbits := b |}.
Definition mk64 (b : N) : GoSem.gofl := {| GoSem.fl32 := false; GoSem.flbits := b |}.
Definition src_call (dst : list N) (c : call) : option (GoSem.res (list N)) :=
  match c with
  | KPrefix m n => Some (CborSrc.appendCborTypePrefix dst m n)
  | KString s => Some (CborSrc.AppendString dst s) | KStrings l => Some (CborSrc.AppendStrings dst l)
  | KBytes s => Some (CborSrc.AppendBytes dst s) | KHex s => Some (CborSrc.AppendHex dst s)
  | KJSON s => Some (CborSrc.AppendEmbeddedJSON dst s) | KCBOR s => Some (CborSrc.AppendEmbeddedCBOR dst s)
  | KBool b => Some (CborSrc.AppendBool dst b) | KBools l => Some (CborSrc.AppendBools dst l)
  | KInt z => Some (CborSrc.AppendInt dst z) | KInt8 z => Some (CborSrc.AppendInt8 dst z) | KInt16 z => Some (CborSrc.AppendInt16 dst z)
  | KInt32 z => Some (CborSrc.AppendInt32 dst z) | KInt64 z => Some (CborSrc.AppendInt64 dst z)
  | KInts l => Some (CborSrc.AppendInts dst l) | KInts8 l => Some (CborSrc.AppendInts8 dst l) | KInts16 l => Some (CborSrc.AppendInts16 dst l)
  | KInts32 l => Some (CborSrc.AppendInts32 dst l) | KInts64 l => Some (CborSrc.AppendInts64 dst l)
  | KUint n => Some (CborSrc.AppendUint dst n) | KUint8 n => Some (CborSrc.AppendUint8 dst n) | KUint16 n => Some (CborSrc.AppendUint16 dst n)
  | KUint32 n => Some (CborSrc.AppendUint32 dst n) | KUint64 n => Some (CborSrc.AppendUint64 dst n)
  | KUints l => Some (CborSrc.AppendUints dst l) | KUints8 l => Some (CborSrc.AppendUints8 dst l) | KUints16 l => Some (CborSrc.AppendUints16 dst l)
  | KUints32 l => Some (CborSrc.AppendUints32 dst l) | KUints64 l => Some (CborSrc.AppendUints64 dst l)
  | KF32 b => Some (CborSrc.AppendFloat32 dst (mk32 b) 0%Z) | KFs32 l => Some (CborSrc.AppendFloats32 dst (map mk32 l) 0%Z)
  | KF64 b => Some (CborSrc.AppendFloat64 dst (mk64 b) 0%Z) | KFs64 l => Some (CborSrc.AppendFloats64 dst (map mk64 l) 0%Z)
  | KIP s => Some (CborSrc.AppendIPAddr dst s) | KMAC s => Some (CborSrc.AppendMACAddr dst s)
  | KNil => Some (CborSrc.AppendNil dst) | KBegin => Some (CborSrc.AppendBeginMarker dst) | KEnd => Some (CborSrc.AppendEndMarker dst)
  | KArrStart => Some (CborSrc.AppendArrayStart dst) | KArrEnd => Some (CborSrc.AppendArrayEnd dst)
  | KArrDelim => Some (CborSrc.AppendArrayDelim dst) | KLineBreak => Some (CborSrc.AppendLineBreak dst)
  | KObjectData o => Some (CborSrc.AppendObjectData dst o) | KKey k => Some (CborSrc.AppendKey dst k)
  | _ => None
  end.

(* the translation appends element by element (dst ++ [x]): quadratic under vm_compute, so the boundary cases with
   65535/65536 elements are left to the model (which is proved equal to the translation for all inputs anyway) *)
Definition call_size (c : call) : nat :=
  match c with
  | KString s | KBytes s | KHex s | KJSON s | KCBOR s | KIP s | KMAC s | KObjectData s | KKey s => length s
  | KStrings l => length l | KBools l => length l
  | KInts l | KInts8 l | KInts16 l | KInts32 l | KInts64 l => length l
  | KUints l | KUints8 l | KUints16 l | KUints32 l | KUints64 l => length l
  | KFs32 l | KFs64 l => length l
  | _ => 0%nat
  end.

(* 999 is not a byte: a case on which the translated source and the model disagree can match no observation *)
Definition c09_run (c : tables * (list N * call)) : list N :=
  let m := run_call (fst c) (fst (snd c)) (snd (snd c)) in
  match (if (call_size (snd (snd c)) <=? 2000)%nat then src_call (fst (snd c)) (snd (snd c)) else None) with
  | None => m
  | Some (GoSem.Ok b) => if list_eqb N.eqb b m then m else [999]
  | Some _ => [999]
  end.

Definition c09_eqb : list N -> list N -> bool := list_eqb N.eqb.

(* whole events (log.go newEvent, event.go write): begin marker, the fields
   added before the context splice (the level), the logger context spliced
   with AppendObjectData when it holds more than its begin marker, the fields
   of the event (incl. message), end marker *)
Definition c09_run_event
  (c : tables * (list (list N * cval) * list (list N * cval) * list (list N * cval))) : list N :=
  let ft := lookup_time (fst (fst c)) in
  let fd := lookup_dur (snd (fst c)) in
  let '(pre, ctx, ev) := snd c in
  let buf := cbor_AppendBeginMarker [] in
  let buf := enc_fields ft fd buf pre in
  let context := enc_context ft fd ctx in
  let buf := if 1 <? len context then cbor_AppendObjectData buf context else buf in
  cbor_AppendLineBreak (cbor_AppendEndMarker (enc_fields ft fd buf ev)).
