(* correspondence glue for C15: what the shards evaluate.
   A case is (thresholds and destination kind, destination failure script,
   history of WriteLevel/Trigger/Close); the observation is, per operation, the
   destination calls made during it (level if the destination is a LevelWriter,
   bytes) and the operation's result. *)
From Verif Require Import Base.Prelude Misc.Level Lts.Trigger.
Open Scope Z_scope.

Definition c15_run (c : tcfg * script * list op) : list (list dcall * mret) :=
  let '(cf, sc, h) := c in fst (run cf (init sc) h).

Definition olevel_eqb (a b : option level) : bool :=
  match a, b with
  | None, None => true
  | Some x, Some y => x =? y
  | _, _ => false
  end.
Definition dcall_eqb (a b : dcall) : bool := olevel_eqb (fst a) (fst b) && list_eqb N.eqb (snd a) (snd b).
Definition mret_eqb (a b : mret) : bool :=
  match a, b with
  | ROk n, ROk m => n =? m
  | RErr n e, RErr m f => (n =? m) && (e =? f)%N
  | RPanic, RPanic => true
  | _, _ => false
  end.
Definition c15_eqb : list (list dcall * mret) -> list (list dcall * mret) -> bool :=
  list_eqb (fun a b => list_eqb dcall_eqb (fst a) (fst b) && mret_eqb (snd a) (snd b)).

(* shorthands used by the shards; bytes are written as Z literals so that no scope annotation is needed *)
Definition zb (p : list Z) : bytes := map Z.to_N p.
Definition W (l : Z) (p : list Z) : op := OWrite l (zb p).
Definition T := OTrigger.
Definition C := OClose.
Definition L (l : Z) (p : list Z) : dcall := (Some l, zb p).
Definition P (p : list Z) : dcall := (None, zb p).

(* second form of observation (concurrent runs): only the destination log as a whole *)
Definition c15_log (c : tcfg * script * list op) : list dcall :=
  let '(cf, sc, h) := c in concat (map fst (fst (run cf (init sc) h))).
Definition c15_log_eqb : list dcall -> list dcall -> bool := list_eqb dcall_eqb.
