(* correspondence glue for C11: what the shards evaluate (see Harness/DiodeH.v) *)
From Verif Require Import Base.Prelude Lts.Diode Lts.Waiter Harness.DiodeH.
Definition c11_run : dcase -> N := dcase_run.
Definition c11_eqb : N -> N -> bool := N.eqb.
