(* correspondence glue for C16: what the shards evaluate.
   A case carries the configuration, the decoded event (as encoding/json
   decodes it, in the iteration order the driver happened to see), the input
   length, and the answers of the Go standard library for exactly the
   questions this event can raise (computed by the driver from the inputs,
   never from ConsoleWriter's output).  A question that is not in the tables
   is answered with a marker text, so that a model that asks something else
   than the driver anticipated shows up as a mismatch. *)
From Verif Require Import Base.Prelude Misc.Console.

Record tables := T {
  t_quote : list (bytes * bytes);
  t_sprint : list (cval * bytes);
  t_upper : list (bytes * bytes);
  t_fold : list (bytes * bytes * bool);
  t_atoi : list (bytes * option Z);
  t_int64 : list (bytes * option Z);
  t_time_str : list (bytes * option bytes);
  t_time_unix : list (Z * Z * bytes);
  t_rel : list (bytes * option bytes)
}.

(* "<oracle?>" *)
Definition missing : bytes := [60;111;114;97;99;108;101;63;62]%N.

Fixpoint assoc {K V} (eqb : K -> K -> bool) (k : K) (l : list (K * V)) (d : V) : V :=
  match l with
  | [] => d
  | (k', v) :: t => if eqb k k' then v else assoc eqb k t d
  end.

Definition pair_eqb {A B} (ea : A -> A -> bool) (eb : B -> B -> bool) (x y : A * B) : bool :=
  ea (fst x) (fst y) && eb (snd x) (snd y).

Definition oracles_of (t : tables) : oracles :=
  {| o_quote := fun s => assoc beq s (t_quote t) missing;
     o_sprint := fun v => assoc cval_eqb v (t_sprint t) missing;
     o_upper := fun s => assoc beq s (t_upper t) missing;
     o_fold := fun a b => assoc (pair_eqb beq beq) (a, b) (t_fold t) false;
     o_atoi := fun s => assoc beq s (t_atoi t) None;
     o_int64 := fun s => assoc beq s (t_int64 t) None;
     o_time_str := fun s => assoc beq s (t_time_str t) (Some missing);
     o_time_unix := fun sec nsec => assoc (pair_eqb Z.eqb Z.eqb) (sec, nsec) (t_time_unix t) missing;
     o_rel := fun s => assoc beq s (t_rel t) (Some missing) |}.

(* short constructor for the configuration *)
Definition mko (po : option (list bytes)) (pe fo fe : list bytes) (tu : tunit) : copts :=
  {| co_parts_order := po; co_parts_exclude := pe; co_fields_order := fo; co_fields_exclude := fe; co_time_unit := tu |}.

Definition c16_case : Type := copts * option event * N * tables.
Definition c16_obs : Type := bytes * N * bool.

Definition c16_run (c : c16_case) : c16_obs :=
  let '(o, dec, inlen, t) := c in
  let r := console_write (oracles_of t) o dec inlen in
  (r_out r, r_n r, r_err r).

Definition c16_eqb (a b : c16_obs) : bool :=
  let '(o1, n1, e1) := a in
  let '(o2, n2, e2) := b in
  beq o1 o2 && (n1 =? n2)%N && Bool.eqb e1 e2.
