(* correspondence glue for C10: what the shards evaluate (see Harness/DiodeH.v) *)
From Verif Require Import Base.Prelude Lts.Diode Lts.Waiter Harness.DiodeH.
Definition c10_run : dcase -> N := dcase_run.
Definition c10_eqb : N -> N -> bool := N.eqb.
