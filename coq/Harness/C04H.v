(* correspondence glue for C04 *)
From Coq Require Import String.
From Verif Require Import Base.Prelude Base.Decimal Misc.Level Misc.LevelNames Lts.Sampler Misc.Gate Misc.GenTypes Gen.EventMethods.

(* a case is a sum: gate rows, level-text queries, the reflected method set *)
Inductive c04_case :=
| CGate (g : gate) (calls : list (Z * entry * bool))
| CParse (s : list N)
| CParseNamed (n : naming) (s : list N)   (* ParseLevel under customised level names *)
| CString (l : Z)
| CMethods.

Inductive c04_obs :=
| OGate (r : list (list Z * list N))     (* per call: levels written, done kinds (0 none,1 panic,2 fatal) *)
| OParse (r : option Z) (errkind : N)    (* Some l / None + 1 unknown, 2 range *)
| OString (s : list N)
| OMethods (names : list string).

Definition dk_code (k : done_kind) : N := match k with DNone => 0 | DPanic => 1 | DFatal => 2 end%N.

Definition c04_run (c : c04_case) : c04_obs :=
  match c with
  | CGate g calls => OGate (map (fun effs => (writes effs, map dk_code (dones effs))) (fst (run_calls g calls)))
  | CParse s => match parse_level s with POk l => OParse (Some l) 0 | PErrUnknown => OParse None 1 | PErrRange => OParse None 2 end
  | CParseNamed n s => match parse_level_with (naming_mf n) s with POk l => OParse (Some l) 0 | PErrUnknown => OParse None 1 | PErrRange => OParse None 2 end
  | CString l => OString (level_string l)
  | CMethods => OMethods (map m_name (filter exported event_methods))
  end.

Definition c04_eqb (a b : c04_obs) : bool :=
  match a, b with
  | OGate x, OGate y => list_eqb (fun p q => list_eqb Z.eqb (fst p) (fst q) && list_eqb N.eqb (snd p) (snd q)) x y
  | OParse x kx, OParse y ky =>
      match x, y with Some a, Some b => Z.eqb a b | None, None => N.eqb kx ky | _, _ => false end
  | OString x, OString y => list_eqb N.eqb x y
  | OMethods x, OMethods y => list_eqb String.eqb x y
  | _, _ => false
  end.
