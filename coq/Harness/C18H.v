(* correspondence glue for C18: what the shards evaluate.
   CProxy: capability set + handler behaviour -> (status, size) passed to the AccessHandler callback
           and the calls the fake underlying ResponseWriter recorded.
   CNest:  capability set + number of stacked AccessHandlers + the calls in execution order, each with the number
           of proxies it passes through -> the (status, size) every AccessHandler reported (outermost first)
           and the calls the fake underlying ResponseWriter recorded.
   CIso:   base logger's context bytes (None: nil context), per-request chunk lists, a schedule ->
           every request's final context bytes. *)
From Verif Require Import Base.Prelude Misc.Hlog Misc.HlogNest Misc.HlogHeap.

Inductive c18_case :=
| CProxy (c : caps) (ops : list op)
| CNest (c : caps) (levels : nat) (xs : list (nat * op))
| CIso (base : option (list N)) (work : list (list (list N))) (sched : list nat).

Inductive c18_obs :=
| OProxy (status bytes : Z) (calls : list ucall)
| ONest (reports : list (Z * Z)) (calls : list ucall)
| OIso (contexts : list (option (list N))).

Definition iso_heap (base : option (list N)) : heap * option slice :=
  match base with
  | Some bs => ([bs ++ repeat 0%N (500 - length bs)], Some {| arr := 0; off := 0; len := length bs; cap := 500 |})
  | None => ([], None)
  end.

Definition c18_run (c : c18_case) : c18_obs :=
  match c with
  | CProxy cp ops => let '(st, by_, calls) := report cp ops in OProxy st by_ calls
  | CNest cp levels xs => let '(reps, calls) := nest_report cp levels xs in ONest reps calls
  | CIso base work sched =>
      let '(h0, b) := iso_heap base in
      let s := run_sched true (fun c n => 2 * c) b (init_state h0 work) sched in
      OIso (map (request_context s) (seq 0 (length work)))
  end.

Definition ucall_eqb (a b : ucall) : bool :=
  match a, b with
  | UWriteHeader x, UWriteHeader y => Z.eqb x y
  | UWrite l n, UWrite l' n' => Z.eqb l l' && Z.eqb n n'
  | UReadFrom l n, UReadFrom l' n' => Z.eqb l l' && Z.eqb n n'
  | UFlush, UFlush => true
  | _, _ => false
  end.

Definition optbytes_eqb (a b : option (list N)) : bool :=
  match a, b with
  | Some x, Some y => list_eqb N.eqb x y
  | None, None => true
  | _, _ => false
  end.

Definition c18_eqb (a b : c18_obs) : bool :=
  match a, b with
  | OProxy s n c, OProxy s' n' c' => Z.eqb s s' && Z.eqb n n' && list_eqb ucall_eqb c c'
  | ONest r c, ONest r' c' => list_eqb (fun a b => Z.eqb (fst a) (fst b) && Z.eqb (snd a) (snd b)) r r' && list_eqb ucall_eqb c c'
  | OIso x, OIso y => list_eqb optbytes_eqb x y
  | _, _ => false
  end.
