(* correspondence glue for C12: what the shards evaluate (see Harness/DiodeH.v) *)
From Verif Require Import Base.Prelude Lts.Diode Lts.Waiter Harness.DiodeH.
Definition c12_run : dcase -> N := dcase_run.
Definition c12_eqb : N -> N -> bool := N.eqb.
