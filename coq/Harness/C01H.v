(* correspondence glue for C01 / C02 / C03: the exact line and the mark trace *)
From Verif Require Import Base.Prelude Base.Decimal Enc.JsonEnc Misc.Level Api.Exec.
(* hook.go LevelHook (a Hook of the library, "applies a different hook for each level"): Run(e, level, msg) hands the
   event to the hook held for [level] - fields TraceHook(-1) DebugHook InfoHook WarnHook ErrorHook FatalHook PanicHook
   NoLevelHook(6), given here in that order, None = nil - and to none for any other level value.  The level it is
   handed is e.level at the time the hook list is walked, which is Disabled once an earlier hook has discarded the
   event: exactly the test OFunc makes.  The drivers print Hook(LevelHook{...}) as [CHook (level_hook hs lvl)] with the
   level of the case's event, so the dispatch is evaluated here, not in the Go printer. *)
Definition level_hook (hs : list (option (list op))) (lvl : Z) : list op :=
  [OFunc (if (TraceLevel <=? lvl)%Z && (lvl <=? NoLevel)%Z
          then match nth (Z.to_nat (lvl - TraceLevel)%Z) hs None with Some h => h | None => [] end
          else [])].
Definition c01_case := (settings * list (bool * list cop) * Z * list op * bytes)%type.
Definition c01_obs := (option bytes * list N)%type.
(* Logger.WithLevel(Disabled) returns the nil event: nothing is written and no hook, callback or marshaler
   of the program runs ([run_chain] models admitted events only; every other level of a case is admitted,
   the drivers log through loggers and a global level of -128 without a sampler). *)
Definition c01_run (c : c01_case) : c01_obs :=
  let '(st, chain, lvl, ops, msg) := c in
  if (lvl =? Disabled)%Z then (None, []) else run_chain st chain lvl ops msg.
Definition c01_eqb (a b : c01_obs) : bool :=
  match fst a, fst b with
  | Some x, Some y => list_eqb N.eqb x y
  | None, None => true
  | _, _ => false
  end && list_eqb N.eqb (snd a) (snd b).
