(* correspondence glue for C01 / C02 / C03: the exact line and the mark trace *)
From Verif Require Import Base.Prelude Base.Decimal Enc.JsonEnc Misc.Level Api.Exec.
Definition c01_case := (settings * list (bool * list cop) * Z * list op * bytes)%type.
Definition c01_obs := (option bytes * list N)%type.
(* Logger.WithLevel(Disabled) returns the nil event: nothing is written and no hook, callback or marshaler
   of the program runs ([run_chain] models admitted events only; every other level of a case is admitted,
   the drivers log through loggers and a global level of -128 without a sampler). *)
Definition c01_run (c : c01_case) : c01_obs :=
  let '(st, chain, lvl, ops, msg) := c in
  if (lvl =? Disabled)%Z then (None, []) else run_chain st chain lvl ops msg.
Definition c01_eqb (a b : c01_obs) : bool :=
  match fst a, fst b with
  | Some x, Some y => list_eqb N.eqb x y
  | None, None => true
  | _, _ => false
  end && list_eqb N.eqb (snd a) (snd b).
