(* correspondence glue for C17: what the shards evaluate.
   A case is (oracle tables, entry point, input bytes) with what the real
   decoder did: the bytes it wrote and nil / error class / runtime panic.
   The oracle tables carry, for every float32/float64/timestamp payload that
   occurs anywhere in the input, the text Go's strconv / time produce
   (computed by the driver independently of the decoder). *)
From Verif Require Import Base.Prelude Enc.CborEnc Enc.CborDec.
Open Scope N_scope.

Definition tables : Type :=
  list (N * list N) * list (N * list N) * list (Z * list N) * list (bool * N * list N).

Definition mkT (a b : list (N * list N)) (c : list (Z * list N)) (d : list (bool * N * list N)) : tables := (a, b, c, d).
Definition T0 : tables := mkT [] [] [] [].

Fixpoint lookupN {V} (t : list (N * V)) (k : N) : option V :=
  match t with [] => None | (k', v) :: r => if k' =? k then Some v else lookupN r k end.
Fixpoint lookupZ {V} (t : list (Z * V)) (k : Z) : option V :=
  match t with [] => None | (k', v) :: r => if (k' =? k)%Z then Some v else lookupZ r k end.
Fixpoint lookupW {V} (t : list (bool * N * V)) (w : bool) (k : N) : option V :=
  match t with [] => None | (w', k', v) :: r => if Bool.eqb w' w && (k' =? k) then Some v else lookupW r w k end.

Definition oracle_of (t : tables) : oracle :=
  let '(f32, f64, tsi, tsf) := t in
  mkoracle (lookupN f32) (lookupN f64) (lookupZ tsi)
           (fun w b => lookupW tsf (match w with W32 => true | W64 => false end) b).

(* n copies of b (compact form of the deep-nesting input / output) *)
Definition repN (n b : N) : list N := N.iter n (cons b) [].

Inductive entry := EMany | EIfBinary | EObject.

Definition c17_run (c : tables * (entry * list N)) : list N * final :=
  let o := oracle_of (fst c) in
  let bs := snd (snd c) in
  match fst (snd c) with
  | EMany => let '(out, f, _) := cbor2json o bs in (out, f)
  | EIfBinary => decodeIfBinaryToBytes o bs
  | EObject => decodeObjectToStr o bs
  end.

Definition ekind_code (k : ekind) : N :=
  match k with
  | EEofRead1 => 1 | EEofReadN => 2 | EEofPeek => 3 | EInvalidLength => 4 | EBadAdditional => 5
  | EBadMajor => 6 | EFloat16 => 7 | EUnsupportedTag => 8 | EUnsupportedTagAdditional => 9
  | EUnsupportedEmbedded => 10 | EBadNetAddrLen => 11 | EBadPrefixShape => 12 | ETSFormat => 13
  | EFloatPrecision => 14 | EOracleMissing => 15
  end.
Definition final_code (f : final) : N :=
  match f with
  | FOk => 0 | FErr k => ekind_code k
  | FRuntimePanic PMakeSliceNeg => 100 | FRuntimePanic PIndexRange => 101 | FOutOfFuel => 200
  end.

Definition c17_eqb (a b : list N * final) : bool :=
  list_eqb N.eqb (fst a) (fst b) && (final_code (snd a) =? final_code (snd b)).

(* exhaustive enumeration of short inputs: the model is evaluated on all 256
   continuations of a prefix and only digests are compared *)
Definition digest (o : list N * final) : N :=
  fold_left (fun h b => (h * 257 + b + 1) mod 4294967291) (fst o) (final_code (snd o) + 1).

Definition bytes256 : list N := map N.of_nat (seq 0 256).

(* digests of EMany on prefix ++ [b] for b = 0..255 *)
Definition c17_run_exh (c : tables * list N) : list N :=
  let o := oracle_of (fst c) in
  map (fun b => digest (let '(out, f, _) := cbor2json o (snd c ++ [b]) in (out, f))) bytes256.

(* one digest over all 256 continuations *)
Definition c17_run_exh1 (c : tables * list N) : N :=
  fold_left (fun h d => (h * 1000003 + d) mod 4294967291) (c17_run_exh c) 7.

Definition c17_eqb_exh : list N -> list N -> bool := list_eqb N.eqb.
