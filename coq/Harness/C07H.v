(* correspondence glue for C07: on a freshly emptied pool the first run of a chain must allocate exactly the
   peak simultaneous demand the model's pool trace predicts, per pool *)
From Verif Require Import Base.Prelude Enc.JsonEnc Misc.Level Api.Exec Heap.Pool.
Definition c07_case := (bool * list op * list (list op))%type.   (* enabled?, ops, hooks *)
Definition c07_run (c : c07_case) : Z * Z :=
  let '(enabled, ops, hooks) := c in
  let n := S (Nat.max (depth_list ops) (fold_right (fun h d => Nat.max (depth_list h) d) O hooks)) in
  demand (if enabled then chain_trace n ops hooks else nil_chain_trace n ops) (0, 0)%Z (0, 0)%Z.
Definition c07_eqb (a b : Z * Z) : bool := Z.eqb (fst a) (fst b) && Z.eqb (snd a) (snd b).
