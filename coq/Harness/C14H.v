(* correspondence glue for C14: what the shards evaluate.
   A case is (configuration, events, outcome matrix); the observation is, per
   logging call, the observable actions in the order they happened
   (destination calls, ErrorHandler / stderr reports, the panic of done). *)
From Verif Require Import Base.Prelude Misc.Level Lts.Writers.
Open Scope Z_scope.

Definition om_of (m : list (list outcome)) : nat -> nat -> outcome :=
  fun k d => nth d (nth k m []) OOk.

Definition c14_run (c : cfg * list event * list (list outcome)) : list (list action) :=
  let '(cf, evs, m) := c in map (filter observable) (run cf (om_of m) evs).

Definition mode_eqb (a b : mode) : bool :=
  match a, b with
  | MWrite, MWrite => true
  | MLevel x, MLevel y => x =? y
  | _, _ => false
  end.
Definition err_eqb (a b : err) : bool :=
  match a, b with
  | EDest x, EDest y => (x =? y)%N
  | EShortWrite, EShortWrite => true
  | _, _ => false
  end.
Definition action_eqb (a b : action) : bool :=
  match a, b with
  | ACall i m p, ACall j n q => Nat.eqb i j && mode_eqb m n && list_eqb N.eqb p q
  | APut, APut => true
  | AHandler x, AHandler y => err_eqb x y
  | AStderr x, AStderr y => err_eqb x y
  | ADone, ADone => true
  | _, _ => false
  end.
Definition c14_eqb : list (list action) -> list (list action) -> bool := list_eqb (list_eqb action_eqb).
