(* Proofs for Misc/HlogNest.v: stacked AccessHandlers.  Every level reports the
   calls made inside it, whatever was sent on the outer levels before, between or
   after; the underlying writer sees what the outermost level forwards. *)
From Verif Require Import Base.Prelude Misc.Hlog Misc.HlogNest Misc.HlogHeap Proofs.HlogP.
Open Scope Z_scope.

(* a proxy wrapped again gives a proxy of the same kind *)
Lemma wrap_kind_caps k : wrap_writer (kind_caps k) = k.
Proof. destruct k; reflexivity. Qed.

Lemma kind_at_const c : forall lvl, kind_at c lvl = wrap_writer c.
Proof.
  induction lvl as [|l IH]; [reflexivity|].
  destruct l as [|l']; [reflexivity|].
  change (kind_at c (S (S l'))) with (wrap_writer (kind_caps (kind_at c (S l')))).
  rewrite IH. apply wrap_kind_caps.
Qed.

Lemma run_app k : forall a b p,
  run k p (a ++ b) = let '(p1, c1) := run k p a in let '(p2, c2) := run k p1 b in (p2, c1 ++ c2).
Proof.
  induction a as [|x t IH]; intros b p; cbn [app run].
  - destruct (run k p b) as [p2 c2]. reflexivity.
  - destruct (step k p x) as [p1 c1]. rewrite IH.
    destruct (run k p1 t) as [p2 c2]. destruct (run k p2 b) as [p3 c3].
    rewrite app_assoc. reflexivity.
Qed.

Lemma step_tee k p x : p_tee p = false -> p_tee (fst (step k p x)) = false.
Proof. intros T. exact (sf_tee _ _ _ _ _ (step_ok k p x T)). Qed.

Lemma step_wrote k p x : p_tee p = false -> p_wroteHeader p = true -> p_wroteHeader (fst (step k p x)) = true.
Proof. intros T W. exact (proj1 (sf_written _ _ _ _ _ (step_ok k p x T) W)). Qed.

(* One op through two levels.  [p] is the inner proxy, [q] an outer one; whenever the inner one has sent the
   header the outer one has too (every call of the inner one went through the outer one).  Then the calls the
   inner proxy forwards have exactly the effect on the outer proxy that the handler's op itself would have:
   same new state, same calls further down. *)
Lemma fwd_transparent k p q x : p_tee p = false -> p_tee q = false ->
  (p_wroteHeader p = true -> p_wroteHeader q = true) ->
  run k q (map (fwd (op_outcome x)) (snd (step k p x))) = step k q x /\
  (p_wroteHeader (fst (step k p x)) = true -> p_wroteHeader (fst (step k q x)) = true).
Proof.
  intros Tp Tq I.
  destruct p as [whp cp bp tp]. destruct q as [whq cq bq tq]. cbn in Tp, Tq, I. subst tp tq.
  destruct whp; [rewrite (I eq_refl)|destruct whq];
    destruct x as [c|len o|len o|]; destruct k;
      cbn [step write write_header maybe_write_header read_from_fancy add_bytes fst snd
           p_wroteHeader p_code p_bytes p_tee map fwd op_outcome run app];
      try (destruct (len =? 0) eqn:E);
      cbn [step write write_header maybe_write_header read_from_fancy add_bytes fst snd
           p_wroteHeader p_code p_bytes p_tee map fwd op_outcome run app];
      try rewrite E;
      cbn [step write write_header maybe_write_header read_from_fancy add_bytes fst snd
           p_wroteHeader p_code p_bytes p_tee map fwd op_outcome run app];
      split; auto.
Qed.

(* what reaches the recording writer is what the last proxy forwarded *)
Lemma core_call_fwd k p x :
  map (fun u => core_call (fwd (op_outcome x) u)) (snd (step k p x)) = snd (step k p x).
Proof.
  destruct p as [wh cd b t]. destruct x as [c|len o|len o|]; destruct k; destruct wh; destruct t;
    cbn [step write write_header maybe_write_header read_from_fancy add_bytes fst snd
         p_wroteHeader p_code p_bytes p_tee map fwd op_outcome core_call app];
    try (destruct (len =? 0) eqn:E);
    cbn [step write write_header maybe_write_header read_from_fancy add_bytes fst snd
         p_wroteHeader p_code p_bytes p_tee map fwd op_outcome core_call app];
    reflexivity.
Qed.

Lemma ops_from_app j a b : ops_from j (a ++ b) = ops_from j a ++ ops_from j b.
Proof. unfold ops_from. rewrite filter_app, map_app. reflexivity. Qed.

Lemma ops_from_fwd j d (f : ucall -> op) cs : (j <= d)%nat ->
  ops_from j (map (fun u => (d, f u)) cs) = map f cs.
Proof.
  intros H. unfold ops_from. induction cs as [|u t IH]; cbn [map filter fst]; [reflexivity|].
  replace (j <=? d)%nat with true by (symmetry; apply Nat.leb_le; exact H).
  cbn [map snd]. rewrite IH. reflexivity.
Qed.

Lemma ops_from_cons j d x t :
  ops_from j ((d, x) :: t) = if (j <=? d)%nat then x :: ops_from j t else ops_from j t.
Proof. unfold ops_from. cbn [filter fst]. destruct (j <=? d)%nat; reflexivity. Qed.

(* a level's own state is the proxy machine run on the ops that pass through it *)
Lemma level_run_fst k lvl : forall xs p, fst (level_run k lvl p xs) = fst (run k p (ops_from lvl xs)).
Proof.
  induction xs as [|[d x] t IH]; intros p; [reflexivity|].
  cbn [level_run]. rewrite ops_from_cons. destruct (lvl <=? d)%nat.
  - cbn [run]. destruct (step k p x) as [p1 c1]. specialize (IH p1).
    destruct (level_run k lvl p1 t) as [p2 r]. destruct (run k p1 (ops_from lvl t)) as [p3 c3]. exact IH.
  - specialize (IH p). destruct (level_run k lvl p t) as [p2 r]. exact IH.
Qed.

Lemma level_run_tags k lvl (P : nat -> Prop) : forall xs p, Forall (fun dx => P (fst dx)) xs ->
  Forall (fun dx => P (fst dx)) (snd (level_run k lvl p xs)).
Proof.
  induction xs as [|[d x] t IH]; intros p H; [constructor|].
  inversion H as [|? ? Hd Ht]; subst. cbn [level_run]. destruct (lvl <=? d)%nat.
  - destruct (step k p x) as [p1 c1]. specialize (IH p1 Ht). destruct (level_run k lvl p1 t) as [p2 r].
    cbn [snd] in *. apply Forall_app. split; [|exact IH].
    apply Forall_forall. intros dx Hin. apply in_map_iff in Hin. destruct Hin as [u [<- _]]. exact Hd.
  - specialize (IH p Ht). destruct (level_run k lvl p t) as [p2 r]. cbn [snd] in *. constructor; assumption.
Qed.

(* an inner level is transparent for every level further out: what level j (and everything below it) does on the
   stream that left level lvl >= j is what it would do on the original stream *)
Lemma level_run_transparent k lvl j : (j <= lvl)%nat -> forall xs p q, p_tee p = false -> p_tee q = false ->
  (p_wroteHeader p = true -> p_wroteHeader q = true) ->
  run k q (ops_from j (snd (level_run k lvl p xs))) = run k q (ops_from j xs).
Proof.
  intros Hj. induction xs as [|[d x] t IH]; intros p q Tp Tq I; [reflexivity|].
  cbn [level_run]. rewrite (ops_from_cons j d x t). destruct (lvl <=? d)%nat eqn:Ed.
  - apply Nat.leb_le in Ed. assert (Hjd : (j <= d)%nat) by lia.
    replace (j <=? d)%nat with true by (symmetry; apply Nat.leb_le; exact Hjd).
    destruct (fwd_transparent k p q x Tp Tq I) as [F1 F2].
    pose proof (step_tee k p x Tp) as Tp1. pose proof (step_tee k q x Tq) as Tq1.
    destruct (step k p x) as [p1 c1]. cbn [fst snd] in *.
    specialize (IH p1). destruct (level_run k lvl p1 t) as [p2 r]. cbn [snd] in *.
    rewrite ops_from_app, (ops_from_fwd j d (fwd (op_outcome x)) c1 Hjd), run_app, F1.
    cbn [run]. destruct (step k q x) as [q1 d1]. cbn [fst] in *.
    rewrite (IH q1 Tp1 Tq1 F2). reflexivity.
  - specialize (IH p). destruct (level_run k lvl p t) as [p2 r]. cbn [snd] in *.
    rewrite (ops_from_cons j d x r). destruct (j <=? d)%nat.
    + cbn [run]. pose proof (step_tee k q x Tq) as Tq1.
      assert (I1 : p_wroteHeader p = true -> p_wroteHeader (fst (step k q x)) = true).
      { intros W. apply step_wrote; auto. }
      destruct (step k q x) as [q1 d1]. cbn [fst] in *. rewrite (IH q1 Tp Tq1 I1). reflexivity.
    + apply IH; assumption.
Qed.

(* what one AccessHandler of the stack passes to its callback, as the plain proxy machine run on the ops made inside it *)
Definition level_report (k : kind) (j : nat) (xs : list (nat * op)) : Z * Z :=
  let p := fst (run k proxy0 (ops_from j xs)) in (p_code p, p_bytes p).

Lemma nest_levels_fst c : forall lvl xs,
  fst (nest_levels c lvl xs) = map (fun j => level_report (wrap_writer c) j xs) (rev (seq 1 lvl)).
Proof.
  induction lvl as [|l IH]; intros xs; [reflexivity|].
  cbn [nest_levels]. rewrite kind_at_const.
  pose proof (level_run_fst (wrap_writer c) (S l) xs proxy0) as Hf.
  assert (Ht : forall j, (j <= S l)%nat ->
            run (wrap_writer c) proxy0 (ops_from j (snd (level_run (wrap_writer c) (S l) proxy0 xs))) =
            run (wrap_writer c) proxy0 (ops_from j xs)).
  { intros j Hj. apply level_run_transparent; auto. }
  destruct (level_run (wrap_writer c) (S l) proxy0 xs) as [p ys]. cbn [fst snd] in *.
  specialize (IH ys). destruct (nest_levels c l ys) as [reps zs]. cbn [fst] in *.
  rewrite seq_S, rev_app_distr. cbn [rev app map plus].
  f_equal.
  - unfold level_report. rewrite Hf. reflexivity.
  - rewrite IH. apply map_ext_in. intros j Hin. apply in_rev, in_seq in Hin.
    unfold level_report. rewrite Ht by lia. reflexivity.
Qed.

Lemma ops_from_1_all xs : Forall (fun dx => (1 <= fst dx)%nat) xs -> ops_from 1 xs = map snd xs.
Proof.
  unfold ops_from. induction 1 as [|[d x] t Hd Ht IH]; [reflexivity|].
  cbn [filter fst] in *. replace (1 <=? d)%nat with true by (symmetry; apply Nat.leb_le; exact Hd).
  cbn [map]. rewrite IH. reflexivity.
Qed.

Lemma level1_calls k : forall xs p, Forall (fun dx => (1 <= fst dx)%nat) xs ->
  map (fun dx => core_call (snd dx)) (snd (level_run k 1 p xs)) = snd (run k p (map snd xs)).
Proof.
  induction xs as [|[d x] t IH]; intros p H; [reflexivity|].
  inversion H as [|? ? Hd Ht]; subst. cbn [fst] in Hd. cbn [level_run map snd run].
  replace (1 <=? d)%nat with true by (symmetry; apply Nat.leb_le; exact Hd).
  pose proof (core_call_fwd k p x) as Hc.
  destruct (step k p x) as [p1 c1]. cbn [snd] in Hc. specialize (IH p1 Ht).
  destruct (level_run k 1 p1 t) as [p2 r]. destruct (run k p1 (map snd t)) as [p3 c3]. cbn [snd] in *.
  rewrite map_app, map_map. cbn [snd]. rewrite Hc, IH. reflexivity.
Qed.

Lemma nest_levels_calls c : forall lvl xs, (1 <= lvl)%nat -> Forall (fun dx => (1 <= fst dx)%nat) xs ->
  map (fun dx => core_call (snd dx)) (snd (nest_levels c lvl xs)) = snd (run (wrap_writer c) proxy0 (ops_from 1 xs)).
Proof.
  induction lvl as [|l IH]; intros xs Hl Hx; [lia|].
  cbn [nest_levels]. rewrite kind_at_const.
  destruct l as [|l'].
  - pose proof (level1_calls (wrap_writer c) xs proxy0 Hx) as H1.
    destruct (level_run (wrap_writer c) 1 proxy0 xs) as [p ys]. cbn [nest_levels snd] in *.
    rewrite H1, ops_from_1_all by exact Hx. reflexivity.
  - pose proof (level_run_tags (wrap_writer c) (S (S l')) (fun d => (1 <= d)%nat) xs proxy0 Hx) as Hy.
    assert (Ht : run (wrap_writer c) proxy0 (ops_from 1 (snd (level_run (wrap_writer c) (S (S l')) proxy0 xs))) =
                 run (wrap_writer c) proxy0 (ops_from 1 xs)).
    { apply level_run_transparent; auto; lia. }
    destruct (level_run (wrap_writer c) (S (S l')) proxy0 xs) as [p ys]. cbn [snd] in *.
    assert (Hl' : (1 <= S l')%nat) by lia.
    specialize (IH ys Hl' Hy). destruct (nest_levels c (S l') ys) as [reps zs]. cbn [snd] in *.
    rewrite IH, Ht. reflexivity.
Qed.

(* The report of every AccessHandler of a stack, for every capability set of the underlying writer, every number of
   levels, every placement of the calls and every answer of the underlying writer. *)
Lemma nested_status_bytes c levels xs :
  let '(reps, calls) := nest_report c levels xs in
  let k := wrap_writer c in
  reps = map (fun j => (spec_status k (ops_from j xs), wsum 0 (accepted_list k (ops_from j xs)))) (seq 1 levels) /\
  ((1 <= levels)%nat -> Forall (fun dx => (1 <= fst dx)%nat) xs ->
   first_header calls = spec_status k (ops_from 1 xs) /\ accepted_calls calls = accepted_list k (ops_from 1 xs)).
Proof.
  unfold nest_report.
  pose proof (nest_levels_fst c levels xs) as Hf. pose proof (nest_levels_calls c levels xs) as Hc.
  destruct (nest_levels c levels xs) as [reps zs]. cbn [fst snd] in *. cbn zeta. split.
  - rewrite Hf, <- map_rev, rev_involutive. apply map_ext. intros j. unfold level_report.
    pose proof (run_fresh (wrap_writer c) (ops_from j xs) proxy0 eq_refl eq_refl eq_refl) as R.
    destruct (run (wrap_writer c) proxy0 (ops_from j xs)) as [p calls]. cbn [fst].
    destruct R as [_ [C [_ [B _]]]]. cbn [p_bytes proxy0] in B. rewrite C, B. reflexivity.
  - intros Hl Hx. rewrite (Hc Hl Hx).
    pose proof (run_fresh (wrap_writer c) (ops_from 1 xs) proxy0 eq_refl eq_refl eq_refl) as R.
    destruct (run (wrap_writer c) proxy0 (ops_from 1 xs)) as [p calls]. cbn [snd].
    destruct R as [_ [_ [H [_ A]]]]. auto.
Qed.

(* the situation the stack is about: the middleware between two AccessHandlers sends 202 and a 6-byte prefix, the
   inner handler writes 7 bytes; the inner one reports (200, 7), the outer one (202, 13) *)
Lemma nested_example :
  nest_report {| c_closenotifier := false; c_flusher := false; c_hijacker := false; c_readerfrom := false |} 2
    [(1%nat, OWriteHeader 202); (1%nat, OWrite 6 {| o_n := 6; o_err := false |}); (2%nat, OWrite 7 {| o_n := 7; o_err := false |})]
  = ([(202, 13); (200, 7)], [UWriteHeader 202; UWrite 6 6; UWrite 7 7]).
Proof. vm_compute. reflexivity. Qed.

(* the route sends nothing: the inner AccessHandler reports status 0 although the response went out with 202 *)
Lemma nested_example_silent :
  nest_report {| c_closenotifier := true; c_flusher := true; c_hijacker := true; c_readerfrom := true |} 2
    [(1%nat, OWriteHeader 202)] = ([(202, 0); (0, 0)], [UWriteHeader 202]).
Proof. vm_compute. reflexivity. Qed.
