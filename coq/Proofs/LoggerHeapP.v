(* Derived loggers are independent values: for every program of the property's
   language (Heap/LoggerHeap.v in_language) and EVERY growth policy of append,
   the contexts read by emitted events are exactly those of the pure semantics. *)
From Verif Require Import Base.Prelude Misc.HlogHeap Proofs.HlogP Heap.LoggerHeap.
Open Scope nat_scope.

(* ---- effect of one append on the other slices ---- *)
Lemma firstn_write_at l i bs n : n <= i -> i <= length l -> firstn n (write_at l i bs) = firstn n l.
Proof.
  intros H1 H2. unfold write_at. rewrite firstn_app, firstn_firstn.
  rewrite firstn_length. replace (Nat.min n i) with n by lia.
  replace (n - Nat.min i (length l)) with 0 by lia. cbn [firstn]. rewrite app_nil_r. reflexivity.
Qed.

Lemma append_off0 grow h s bs : off s = 0 -> off (snd (fst (append grow h s bs))) = 0.
Proof. intros H. unfold append. destruct (len s + length bs <=? cap s); cbn; auto. Qed.

Lemma append_len grow h s bs : len (snd (fst (append grow h s bs))) = len s + length bs.
Proof. unfold append. destruct (len s + length bs <=? cap s); cbn; auto. Qed.

Lemma append_arr grow h s bs : wf h s ->
  let s' := snd (fst (append grow h s bs)) in
  (arr s' = arr s) \/ (arr s' = length h).
Proof. intros W. unfold append. destruct (len s + length bs <=? cap s); cbn; auto. Qed.

Lemma append_other grow h s bs s2 : wf h s -> off s = 0 -> wf h s2 -> off s2 = 0 ->
  (arr s2 <> arr s \/ len s2 <= len s) ->
  let h' := fst (fst (append grow h s bs)) in
  view h' s2 = view h s2 /\ wf h' s2.
Proof.
  intros W O W2 O2 Hd. pose proof W as [W1 [Wl Wc]]. pose proof W2 as [V1 [Vl Vc]].
  unfold append. destruct (Nat.leb_spec (len s + length bs) (cap s)) as [L|L]; cbn [fst snd].
  - (* in place *)
    destruct (Nat.eq_dec (arr s2) (arr s)) as [E|E].
    + assert (Ls : len s2 <= len s) by (destruct Hd; [contradiction|auto]).
      assert (LW : length (write_at (array h (arr s)) (off s + len s) bs) = length (array h (arr s)))
        by (apply write_at_length; lia).
      split.
      * unfold view. rewrite O2, E. cbn [skipn]. unfold array at 1. rewrite nth_upd_same by exact W1.
        fold (array h (arr s)). rewrite O. cbn [Nat.add]. apply firstn_write_at; lia.
      * unfold wf. rewrite upd_length. split; [exact V1|]. split; [|exact Vc].
        rewrite E. unfold array. rewrite nth_upd_same by exact W1. fold (array h (arr s)). rewrite LW. rewrite <- E. exact Vl.
    + split.
      * unfold view, array. rewrite nth_upd_other by congruence. reflexivity.
      * unfold wf. rewrite upd_length. split; [exact V1|]. split; [|exact Vc].
        unfold array. rewrite nth_upd_other by congruence. exact Vl.
  - (* fresh array: nothing old changes *)
    split.
    + unfold view. rewrite array_app_old by exact V1. reflexivity.
    + unfold wf. rewrite app_length. cbn [length]. split; [lia|]. split; [|exact Vc].
      rewrite array_app_old by exact V1. exact Vl.
Qed.

Lemma append_self grow h s bs : wf h s ->
  let '(h', s', _) := append grow h s bs in view h' s' = view h s ++ bs /\ wf h' s' /\ length h <= length h'.
Proof.
  intros W. pose proof (append_ok grow h s bs W) as A. destruct (append grow h s bs) as [[h' s'] a].
  destruct A as [Av Aw Al _ _ _ _]. auto.
Qed.

(* ---- the invariant ---- *)
Definition slice_ok (h : heap) (v : hval) (p : bytes) : Prop :=
  match v_ctx v with
  | Some s => wf h s /\ off s = 0 /\ 1 <= len s /\ view h s = p
  | None => p = []
  end.

Definition compat (v w : hval) : Prop :=
  match v_ctx v, v_ctx w with
  | Some sv, Some sw => arr sv = arr sw -> ~ (v_own v = true /\ v_own w = true) /\ (v_own v = true -> len sw <= len sv)
  | _, _ => True
  end.

Record HInv (h : heap) (env : list hval) (penv : list bytes) (aenv : list aval) : Prop := {
  hi_len1 : length penv = length env;
  hi_len2 : length aenv = length env;
  hi_abs : forall x, x < length env -> v_live (get env x) = a_live (aget aenv x) /\
                                       (v_live (get env x) = true -> v_own (get env x) = a_own (aget aenv x) /\
                                          (a_nil (aget aenv x) = true <-> v_ctx (get env x) = None));
  hi_view : forall x, x < length env -> v_live (get env x) = true -> slice_ok h (get env x) (pget penv x);
  hi_compat : forall x y, x < length env -> y < length env -> x <> y ->
                v_live (get env x) = true -> v_live (get env y) = true -> compat (get env x) (get env y);
  hi_own_nonnil : forall x, x < length env -> v_live (get env x) = true -> v_own (get env x) = true -> v_ctx (get env x) <> None
}.

Lemma get_app_old env v x : x < length env -> get (env ++ [v]) x = get env x.
Proof. intros H. unfold get. apply app_nth1. exact H. Qed.
Lemma get_app_new env v : get (env ++ [v]) (length env) = v.
Proof. unfold get. rewrite app_nth2 by lia. rewrite Nat.sub_diag. reflexivity. Qed.
Lemma pget_app_old env v x : x < length env -> pget (env ++ [v]) x = pget env x.
Proof. intros H. unfold pget. apply app_nth1. exact H. Qed.
Lemma pget_app_new env v : pget (env ++ [v]) (length env) = v.
Proof. unfold pget. rewrite app_nth2 by lia. rewrite Nat.sub_diag. reflexivity. Qed.
Lemma aget_app_old env v x : x < length env -> aget (env ++ [v]) x = aget env x.
Proof. intros H. unfold aget. apply app_nth1. exact H. Qed.
Lemma aget_app_new env v : aget (env ++ [v]) (length env) = v.
Proof. unfold aget. rewrite app_nth2 by lia. rewrite Nat.sub_diag. reflexivity. Qed.

Lemma get_upd_same env x v : x < length env -> get (upd env x v) x = v.
Proof. intros H. unfold get. apply nth_upd_same. exact H. Qed.
Lemma get_upd_other env x y v : x <> y -> get (upd env x v) y = get env y.
Proof. intros H. unfold get. apply nth_upd_other. exact H. Qed.
Lemma aget_upd_same env x v : x < length env -> aget (upd env x v) x = v.
Proof. intros H. unfold aget. apply nth_upd_same. exact H. Qed.
Lemma aget_upd_other env x y v : x <> y -> aget (upd env x v) y = aget env y.
Proof. intros H. unfold aget. apply nth_upd_other. exact H. Qed.
Lemma pget_upd_same env x v : x < length env -> pget (upd env x v) x = v.
Proof. intros H. unfold pget. apply nth_upd_same. exact H. Qed.
Lemma pget_upd_other env x y v : x <> y -> pget (upd env x v) y = pget env y.
Proof. intros H. unfold pget. apply nth_upd_other. exact H. Qed.

(* a heap change that preserves every live slice *)
Definition preserves (h h' : heap) (env : list hval) : Prop :=
  forall x s, x < length env -> v_live (get env x) = true -> v_ctx (get env x) = Some s -> wf h s ->
    view h' s = view h s /\ wf h' s.

Lemma slice_ok_preserved h h' env penv x :
  preserves h h' env -> x < length env -> v_live (get env x) = true ->
  slice_ok h (get env x) (pget penv x) -> slice_ok h' (get env x) (pget penv x).
Proof.
  intros P Hx Hl S. unfold slice_ok in *. destruct (v_ctx (get env x)) as [s|] eqn:E; auto.
  destruct S as (W & O & L & V). destruct (P x s Hx Hl E W) as [V' W']. split; [exact W'|split; [exact O|split; [exact L|rewrite V'; exact V]]].
Qed.

Lemma HInv_extend h h' env penv aenv v p a :
  HInv h env penv aenv -> preserves h h' env ->
  v_live v = a_live a ->
  (v_live v = true -> v_own v = a_own a /\ (a_nil a = true <-> v_ctx v = None)) ->
  (v_live v = true -> slice_ok h' v p) ->
  (forall y, y < length env -> v_live (get env y) = true -> v_live v = true -> compat v (get env y) /\ compat (get env y) v) ->
  (v_live v = true -> v_own v = true -> v_ctx v <> None) ->
  HInv h' (env ++ [v]) (penv ++ [p]) (aenv ++ [a]).
Proof.
  intros [L1 L2 Ha Hv Hc Ho] P El Eo Es Ec En.
  constructor.
  - rewrite !app_length. cbn. lia.
  - rewrite !app_length. cbn. lia.
  - intros x Hx. rewrite app_length in Hx. cbn in Hx.
    destruct (Nat.eq_dec x (length env)) as [->|N].
    + rewrite get_app_new. rewrite <- L2 at 1 2 3. rewrite aget_app_new. auto.
    + rewrite get_app_old, aget_app_old by lia. apply Ha. lia.
  - intros x Hx Hl. rewrite app_length in Hx. cbn in Hx.
    destruct (Nat.eq_dec x (length env)) as [->|N].
    + rewrite get_app_new in *. rewrite <- L1. rewrite pget_app_new. auto.
    + rewrite get_app_old in * by lia. rewrite pget_app_old by lia.
      eapply slice_ok_preserved; eauto; try lia. apply Hv; auto; lia.
  - intros x y Hx Hy Nxy Lx Ly. rewrite app_length in Hx, Hy. cbn in Hx, Hy.
    destruct (Nat.eq_dec x (length env)) as [->|Nx]; destruct (Nat.eq_dec y (length env)) as [->|Ny]; try lia.
    + rewrite get_app_new in *. rewrite get_app_old in * by lia. apply Ec; auto; lia.
    + rewrite get_app_new in *. rewrite get_app_old in * by lia. apply Ec; auto; lia.
    + rewrite !get_app_old in * by lia. apply Hc; auto; lia.
  - intros x Hx Hl Hown. rewrite app_length in Hx. cbn in Hx.
    destruct (Nat.eq_dec x (length env)) as [->|N].
    + rewrite get_app_new in *. auto.
    + rewrite get_app_old in * by lia. apply Ho; auto; lia.
Qed.

Definition dead_a : aval := {| a_isctx := true; a_live := false; a_own := false; a_nil := false |}.

Lemma kill_length env x : length (kill env x) = length env.
Proof. unfold kill. apply upd_length. Qed.

Lemma HInv_kill h env penv aenv x : HInv h env penv aenv -> x < length env ->
  HInv h (kill env x) penv (upd aenv x dead_a).
Proof.
  intros [L1 L2 Ha Hv Hc Ho] Hx. unfold kill.
  assert (G : forall y, y <> x -> get (upd env x {| v_ctx := v_ctx (get env x); v_live := false; v_own := false |}) y = get env y)
    by (intros; apply get_upd_other; auto).
  assert (Gx : get (upd env x {| v_ctx := v_ctx (get env x); v_live := false; v_own := false |}) x = {| v_ctx := v_ctx (get env x); v_live := false; v_own := false |})
    by (apply get_upd_same; auto).
  constructor; rewrite ?upd_length; auto.
  - intros y Hy. destruct (Nat.eq_dec y x) as [->|N].
    + rewrite Gx, aget_upd_same by lia. cbn. split; auto. discriminate.
    + rewrite G, aget_upd_other by auto. apply Ha; auto.
  - intros y Hy Hl. destruct (Nat.eq_dec y x) as [->|N].
    + rewrite Gx in Hl. discriminate.
    + rewrite G in * by auto. apply Hv; auto.
  - intros y z Hy Hz Nyz Ly Lz.
    destruct (Nat.eq_dec y x) as [->|N1]; [rewrite Gx in Ly; discriminate|].
    destruct (Nat.eq_dec z x) as [->|N2]; [rewrite Gx in Lz; discriminate|].
    rewrite !G in * by auto. apply Hc; auto.
  - intros y Hy Hl Hown. destruct (Nat.eq_dec y x) as [->|N].
    + rewrite Gx in Hl. discriminate.
    + rewrite G in * by auto. apply Ho; auto.
Qed.

Lemma preserves_refl h env : preserves h h env.
Proof. intros x s _ _ _ W. auto. Qed.

Lemma preserves_kill h h' env x : preserves h h' env -> preserves h h' (kill env x).
Proof.
  intros P y s Hy Hl E W. rewrite kill_length in Hy. unfold kill in *.
  destruct (Nat.eq_dec y x) as [->|N].
  - rewrite get_upd_same in Hl by auto. discriminate.
  - rewrite get_upd_other in * by auto. eapply P; eauto.
Qed.

Lemma view_length h s : wf h s -> length (view h s) = len s.
Proof. intros [W1 [W2 W3]]. unfold view. rewrite firstn_length, skipn_length. lia. Qed.

Lemma slice_ok_nonempty h v p s : slice_ok h v p -> v_ctx v = Some s -> p <> [].
Proof.
  unfold slice_ok. intros H E. rewrite E in H. destruct H as (W & _ & L & V).
  intros C. subst p. pose proof (view_length h s W) as VL. rewrite C in VL. cbn in VL. lia.
Qed.

(* ---- With ---- *)
Lemma logger_with_off grow h base : (match base with Some b => off b = 0 | None => True end) ->
  off (snd (fst (logger_with grow h base))) = 0.
Proof.
  intros _. unfold logger_with, make.
  match goal with |- context [append grow ?H ?S ?B] => pose proof (append_off0 grow H S B eq_refl) as A; destruct (append grow H S B) as [[h2 s2] a] end.
  exact A.
Qed.

Lemma logger_with_len grow h base :
  len (snd (fst (logger_with grow h base))) = length (match base with Some b => view h b | None => begin_marker end).
Proof.
  unfold logger_with, make.
  match goal with |- context [append grow ?H ?S ?B] => pose proof (append_len grow H S B) as A; destruct (append grow H S B) as [[h2 s2] a] end.
  cbn [fst snd len] in *. rewrite A. reflexivity.
Qed.

Lemma with_step grow h env penv aenv l aenv' :
  HInv h env penv aenv -> acheck aenv (HWith l) = Some aenv' ->
  let st' := hstep grow {| hs_heap := h; hs_env := env; hs_obs := [] |} (HWith l) in
  HInv (hs_heap st') (hs_env st') (ps_env (pstep {| ps_env := penv; ps_obs := [] |} (HWith l))) aenv'.
Proof.
  intros I C. pose proof I as [L1 L2 Ha Hv Hc Ho].
  cbn [acheck] in C. destruct (a_live (aget aenv l) && negb (a_isctx (aget aenv l)) && (l <? length aenv)) eqn:G; [|discriminate].
  injection C as <-. apply andb_true_iff in G as [G Gl]. apply andb_true_iff in G as [Glive Gctx].
  apply Nat.ltb_lt in Gl. rewrite L2 in Gl.
  destruct (Ha l Gl) as [Al An]. rewrite <- Al in Glive. specialize (An Glive). specialize (Hv l Gl Glive).
  cbn [hstep pstep hs_heap hs_env ps_env].
  pose proof Hv as Hv0.
  remember (v_ctx (get env l)) as base eqn:Ebase.
  unfold slice_ok in Hv. rewrite <- Ebase in Hv.
  assert (Eb : (match pget penv l with [] => begin_marker | b => b end) = match base with Some b => view h b | None => begin_marker end).
  { destruct base as [b|].
    - pose proof (slice_ok_nonempty h (get env l) (pget penv l) b Hv0 (eq_sym Ebase)) as NE.
      destruct Hv as (_ & _ & _ & V). rewrite V. destruct (pget penv l); [congruence|reflexivity].
    - rewrite Hv. reflexivity. }
  pose proof (logger_with_ok grow h _ base eq_refl) as LW.
  pose proof (logger_with_off grow h base) as LO. pose proof (logger_with_len grow h base) as LL.
  destruct (logger_with grow h base) as [[h' s'] ws]. cbn [fst snd] in *.
  destruct LW as [Fv Fw Fl Fin Fws Ffr].
  assert (Hfresh : length h <= arr s').
  { destruct (Fws _ Fin) as [_ [C|C]]; [discriminate|exact C]. }
  assert (P : preserves h h' env).
  { intros x s Hx Hl E W. assert (A : array h' (arr s) = array h (arr s)).
    { apply Ffr; [apply W|]. intros Hin. destruct (Fws _ Hin) as [_ [C|C]]; [discriminate|]. destruct W as [W1 _]. lia. }
    split; [apply view_frame; [apply W|exact A]|].
    destruct W as [W1 [W2 W3]]. unfold wf. rewrite A. repeat split; auto; lia. }
  rewrite Eb.
  refine (HInv_extend h h' env penv aenv _ _ _ I P _ _ _ _ _).
  - reflexivity.
  - intros _. cbn. split; auto. split; discriminate.
  - intros _. unfold slice_ok. cbn [v_ctx]. split; [exact Fw|]. split.
    + apply LO. destruct base; auto. destruct Hv as (_ & O & _). exact O.
    + split; [|exact Fv]. rewrite LL. destruct base as [b|].
      * destruct Hv as (W & _ & Lb & _). rewrite (view_length h b W). exact Lb.
      * cbn. lia.
  - intros y Hy Ly _. unfold compat. cbn [v_ctx v_own]. destruct (v_ctx (get env y)) as [sy|] eqn:Ey; auto.
    specialize (Hv). pose proof (hi_view _ _ _ _ I y Hy Ly) as Sy. unfold slice_ok in Sy. rewrite Ey in Sy.
    destruct Sy as ([Wy _] & _). split; intros E; exfalso; lia.
  - intros _ _. cbn. discriminate.
Qed.

(* ---- generic: the owner appends d ---- *)
Lemma owner_append grow h env penv aenv c s d :
  HInv h env penv aenv -> c < length env -> v_live (get env c) = true -> v_own (get env c) = true ->
  v_ctx (get env c) = Some s ->
  let '(h', s', _) := append grow h s d in
  (forall y sy, y < length env -> y <> c -> v_live (get env y) = true -> v_ctx (get env y) = Some sy -> wf h sy ->
      view h' sy = view h sy /\ wf h' sy) /\
  slice_ok h' {| v_ctx := Some s'; v_live := true; v_own := true |} (pget penv c ++ d) /\
  (forall y, y < length env -> y <> c -> v_live (get env y) = true ->
      compat {| v_ctx := Some s'; v_live := true; v_own := true |} (get env y) /\
      compat (get env y) {| v_ctx := Some s'; v_live := true; v_own := true |}).
Proof.
  intros I Hc Lc Oc Ec. pose proof I as [L1 L2 Ha Hv Hcm Ho].
  pose proof (Hv c Hc Lc) as Sc. unfold slice_ok in Sc. rewrite Ec in Sc. destruct Sc as (W & O & Ln & V).
  pose proof (append_self grow h s d W) as AS. pose proof (append_off0 grow h s d O) as AO.
  pose proof (append_len grow h s d) as AL. pose proof (append_arr grow h s d W) as AA.
  assert (AOth : forall s2, wf h s2 -> off s2 = 0 -> (arr s2 <> arr s \/ len s2 <= len s) ->
             view (fst (fst (append grow h s d))) s2 = view h s2 /\ wf (fst (fst (append grow h s d))) s2)
    by (intros; apply append_other; auto).
  destruct (append grow h s d) as [[h' s'] a]. cbn [fst snd] in *. destruct AS as (V' & W' & Lh).
  split; [|split].
  - intros y sy Hy Ny Ly Ey Wy.
    pose proof (Hv y Hy Ly) as Sy. unfold slice_ok in Sy. rewrite Ey in Sy. destruct Sy as (_ & Oy & _ & _).
    apply AOth; auto.
    pose proof (Hcm c y Hc Hy ltac:(auto) Lc Ly) as CM. unfold compat in CM. rewrite Ec, Ey in CM.
    destruct (Nat.eq_dec (arr sy) (arr s)) as [E|E]; [right|left; auto].
    destruct (CM (eq_sym E)) as [_ CL]. auto.
  - unfold slice_ok. cbn [v_ctx]. split; [exact W'|]. split; [exact AO|]. split; [lia|]. rewrite V', V. reflexivity.
  - intros y Hy Ny Ly. unfold compat. cbn [v_ctx v_own].
    destruct (v_ctx (get env y)) as [sy|] eqn:Ey; [|split; auto].
    pose proof (Hv y Hy Ly) as Sy. unfold slice_ok in Sy. rewrite Ey in Sy. destruct Sy as ([Wy1 _] & _ & _ & _).
    pose proof (Hcm c y Hc Hy ltac:(auto) Lc Ly) as CM. unfold compat in CM. rewrite Ec, Ey in CM.
    destruct AA as [AA|AA].
    + split; intros E; rewrite AA in *.
      * destruct (CM E) as [C1 C2]. split; [intros [_ Q]; apply C1; auto|]. intros _. specialize (C2 Oc). lia.
      * destruct (CM (eq_sym E)) as [C1 C2]. split; [intros [Q _]; apply C1; auto|].
        intros Q. exfalso. apply C1. auto.
    + split; intros E; exfalso; lia.
Qed.

Lemma op_step grow h env penv aenv c d aenv' :
  HInv h env penv aenv -> acheck aenv (HOp c d) = Some aenv' ->
  let st' := hstep grow {| hs_heap := h; hs_env := env; hs_obs := [] |} (HOp c d) in
  HInv (hs_heap st') (hs_env st') (ps_env (pstep {| ps_env := penv; ps_obs := [] |} (HOp c d))) aenv'.
Proof.
  intros I C. pose proof I as [L1 L2 Ha Hv Hc Ho].
  cbn [acheck] in C. destruct (a_live (aget aenv c) && a_isctx (aget aenv c) && a_own (aget aenv c) && (c <? length aenv)) eqn:G; [|discriminate].
  injection C as <-. apply andb_true_iff in G as [G Gl]. apply andb_true_iff in G as [G Gown]. apply andb_true_iff in G as [Glive Gctx].
  apply Nat.ltb_lt in Gl. rewrite L2 in Gl.
  destruct (Ha c Gl) as [Al An]. rewrite <- Al in Glive. destruct (An Glive) as [Aown Anil]. rewrite <- Aown in Gown.
  pose proof (Ho c Gl Glive Gown) as NN. destruct (v_ctx (get env c)) as [s|] eqn:Ec; [|congruence].
  cbn [hstep pstep hs_heap hs_env ps_env]. rewrite Ec.
  pose proof (owner_append grow h env penv aenv c s d I Gl Glive Gown Ec) as OA.
  destruct (append grow h s d) as [[h' s'] a]. destruct OA as (P & S & CM). cbn [hs_heap hs_env]. rewrite Gown.
  pose proof (HInv_kill h env penv aenv c I Gl) as IK.
  refine (HInv_extend h h' (kill env c) penv (upd aenv c dead_a) _ _ _ IK _ _ _ _ _ _).
  - intros y sy Hy Ly Ey Wy. rewrite kill_length in Hy. unfold kill in *.
    destruct (Nat.eq_dec y c) as [->|N]; [rewrite get_upd_same in Ly by auto; discriminate|].
    rewrite get_upd_other in * by auto. eapply P; eauto.
  - reflexivity.
  - intros _. cbn. split; auto. split; discriminate.
  - intros _. exact S.
  - intros y Hy Ly _. rewrite kill_length in Hy. unfold kill in *.
    destruct (Nat.eq_dec y c) as [->|N]; [rewrite get_upd_same in Ly by auto; discriminate|].
    rewrite get_upd_other in * by auto. apply CM; auto.
  - intros _ _. cbn. discriminate.
Qed.

(* ---- Reset: a fresh array holding the begin marker; nothing live can share it ---- *)
Lemma reset_facts grow h env penv aenv :
  HInv h env penv aenv ->
  let '(h', s') := ctx_reset grow h in
  preserves h h' env /\
  slice_ok h' {| v_ctx := Some s'; v_live := true; v_own := true |} begin_marker /\
  (forall y, y < length env -> v_live (get env y) = true ->
      compat {| v_ctx := Some s'; v_live := true; v_own := true |} (get env y) /\
      compat (get env y) {| v_ctx := Some s'; v_live := true; v_own := true |}).
Proof.
  intros I. unfold ctx_reset.
  pose proof (logger_with_ok grow h _ None eq_refl) as LW.
  pose proof (logger_with_off grow h None Logic.I) as LO. pose proof (logger_with_len grow h None) as LL.
  destruct (logger_with grow h None) as [[h' s'] ws]. cbn [fst snd] in *.
  destruct LW as [Fv Fw Fl Fin Fws Ffr].
  assert (Hfresh : length h <= arr s').
  { destruct (Fws _ Fin) as [_ [C|C]]; [discriminate|exact C]. }
  split; [|split].
  - intros x s Hx Hl E W. assert (A : array h' (arr s) = array h (arr s)).
    { apply Ffr; [apply W|]. intros Hin. destruct (Fws _ Hin) as [_ [C|C]]; [discriminate|]. destruct W as [W1 _]. lia. }
    split; [apply view_frame; [apply W|exact A]|].
    destruct W as [W1 [W2 W3]]. unfold wf. rewrite A. repeat split; auto; lia.
  - unfold slice_ok. cbn [v_ctx]. split; [exact Fw|]. split; [exact LO|]. split; [|exact Fv]. rewrite LL. cbn. lia.
  - intros y Hy Ly. unfold compat. cbn [v_ctx v_own]. destruct (v_ctx (get env y)) as [sy|] eqn:Ey; auto.
    pose proof (hi_view _ _ _ _ I y Hy Ly) as Sy. unfold slice_ok in Sy. rewrite Ey in Sy.
    destruct Sy as ([Wy _] & _). split; intros E; exfalso; lia.
Qed.

Lemma reset_step grow h env penv aenv c aenv' :
  HInv h env penv aenv -> acheck aenv (HReset c) = Some aenv' ->
  let st' := hstep grow {| hs_heap := h; hs_env := env; hs_obs := [] |} (HReset c) in
  HInv (hs_heap st') (hs_env st') (ps_env (pstep {| ps_env := penv; ps_obs := [] |} (HReset c))) aenv'.
Proof.
  intros I C. pose proof I as [L1 L2 Ha Hv Hc Ho].
  cbn [acheck] in C. destruct (a_live (aget aenv c) && a_isctx (aget aenv c) && a_own (aget aenv c) && (c <? length aenv)) eqn:G; [|discriminate].
  injection C as <-. apply andb_true_iff in G as [G Gl]. apply andb_true_iff in G as [G Gown]. apply andb_true_iff in G as [Glive Gctx].
  apply Nat.ltb_lt in Gl. rewrite L2 in Gl.
  destruct (Ha c Gl) as [Al An]. rewrite <- Al in Glive. destruct (An Glive) as [Aown Anil]. rewrite <- Aown in Gown.
  cbn [hstep pstep hs_heap hs_env ps_env].
  pose proof (reset_facts grow h env penv aenv I) as RF.
  destruct (ctx_reset grow h) as [h' s']. destruct RF as (P & S & CM). cbn [hs_heap hs_env]. rewrite Gown.
  pose proof (HInv_kill h env penv aenv c I Gl) as IK.
  refine (HInv_extend h h' (kill env c) penv (upd aenv c dead_a) _ _ _ IK (preserves_kill _ _ _ _ P) _ _ _ _ _).
  - reflexivity.
  - intros _. cbn. split; auto. split; discriminate.
  - intros _. exact S.
  - intros y Hy Ly _. rewrite kill_length in Hy. unfold kill in *.
    destruct (Nat.eq_dec y c) as [->|N]; [rewrite get_upd_same in Ly by auto; discriminate|].
    rewrite get_upd_other in * by auto. apply CM; auto.
  - intros _ _. cbn. discriminate.
Qed.

Lemma logger_step grow h env penv aenv c aenv' :
  HInv h env penv aenv -> acheck aenv (HLogger c) = Some aenv' ->
  let st' := hstep grow {| hs_heap := h; hs_env := env; hs_obs := [] |} (HLogger c) in
  HInv (hs_heap st') (hs_env st') (ps_env (pstep {| ps_env := penv; ps_obs := [] |} (HLogger c))) aenv'.
Proof.
  intros I C. pose proof I as [L1 L2 Ha Hv Hc Ho].
  cbn [acheck] in C. destruct (a_live (aget aenv c) && a_isctx (aget aenv c) && a_own (aget aenv c) && (c <? length aenv)) eqn:G; [|discriminate].
  injection C as <-. apply andb_true_iff in G as [G Gl]. apply andb_true_iff in G as [G Gown]. apply andb_true_iff in G as [Glive Gctx].
  apply Nat.ltb_lt in Gl. rewrite L2 in Gl.
  destruct (Ha c Gl) as [Al An]. rewrite <- Al in Glive. destruct (An Glive) as [Aown Anil]. rewrite <- Aown in Gown.
  pose proof (Ho c Gl Glive Gown) as NN.
  cbn [hstep pstep hs_heap hs_env ps_env]. rewrite Gown.
  pose proof (HInv_kill h env penv aenv c I Gl) as IK.
  refine (HInv_extend h h (kill env c) penv (upd aenv c dead_a) _ _ _ IK (preserves_refl _ _) _ _ _ _ _).
  - reflexivity.
  - intros _. cbn. split; auto. split; [discriminate|]. intros E. congruence.
  - intros _. pose proof (Hv c Gl Glive) as S. unfold slice_ok in *. cbn [v_ctx]. exact S.
  - intros y Hy Ly _. rewrite kill_length in Hy. unfold kill in *.
    destruct (Nat.eq_dec y c) as [->|N]; [rewrite get_upd_same in Ly by auto; discriminate|].
    rewrite get_upd_other in * by auto.
    pose proof (Hc c y Gl Hy ltac:(auto) Glive Ly) as C1. pose proof (Hc y c Hy Gl ltac:(auto) Ly Glive) as C2.
    unfold compat in *. cbn [v_ctx v_own]. rewrite Gown in *. split; assumption.
  - intros _ _. cbn. exact NN.
Qed.

Lemma copy_step grow h env penv aenv l aenv' :
  HInv h env penv aenv -> acheck aenv (HCopy l) = Some aenv' ->
  let st' := hstep grow {| hs_heap := h; hs_env := env; hs_obs := [] |} (HCopy l) in
  HInv (hs_heap st') (hs_env st') (ps_env (pstep {| ps_env := penv; ps_obs := [] |} (HCopy l))) aenv'.
Proof.
  intros I C. pose proof I as [L1 L2 Ha Hv Hc Ho].
  cbn [acheck] in C. destruct (a_live (aget aenv l) && negb (a_isctx (aget aenv l)) && (l <? length aenv)) eqn:G; [|discriminate].
  injection C as <-. apply andb_true_iff in G as [G Gl]. apply andb_true_iff in G as [Glive Gctx].
  apply Nat.ltb_lt in Gl. rewrite L2 in Gl.
  destruct (Ha l Gl) as [Al An]. rewrite <- Al in Glive. destruct (An Glive) as [Aown Anil].
  cbn [hstep pstep hs_heap hs_env ps_env].
  refine (HInv_extend h h env penv aenv _ _ _ I (preserves_refl _ _) _ _ _ _ _).
  - reflexivity.
  - intros _. cbn. split; auto.
  - intros _. pose proof (Hv l Gl Glive) as S. unfold slice_ok in *. cbn [v_ctx]. exact S.
  - intros y Hy Ly _. unfold compat. cbn [v_ctx v_own].
    destruct (v_ctx (get env l)) as [s|] eqn:El; [|split; auto; destruct (v_ctx (get env y)); auto].
    destruct (v_ctx (get env y)) as [sy|] eqn:Ey; [|split; auto].
    split; intros E.
    + split; [intros [Q _]; discriminate|intros Q; discriminate].
    + split; [intros [_ Q]; discriminate|]. intros Oy.
      destruct (Nat.eq_dec y l) as [->|N].
      * rewrite El in Ey. injection Ey as <-. lia.
      * pose proof (Hc y l Hy Gl N Ly Glive) as CM. unfold compat in CM. rewrite Ey, El in CM.
        destruct (CM E) as [_ C2]. auto.
  - intros _ Q. cbn in Q. discriminate.
Qed.

Lemma root_step grow h env penv aenv aenv' :
  HInv h env penv aenv -> acheck aenv HRoot = Some aenv' ->
  let st' := hstep grow {| hs_heap := h; hs_env := env; hs_obs := [] |} HRoot in
  HInv (hs_heap st') (hs_env st') (ps_env (pstep {| ps_env := penv; ps_obs := [] |} HRoot)) aenv'.
Proof.
  intros I C. cbn [acheck] in C. injection C as <-. cbn [hstep pstep hs_heap hs_env ps_env].
  refine (HInv_extend h h env penv aenv _ _ _ I (preserves_refl _ _) _ _ _ _ _).
  - reflexivity.
  - intros _. cbn. split; auto. split; auto.
  - intros _. reflexivity.
  - intros y _ _ _. unfold compat. cbn. split; auto. destruct (v_ctx (get env y)); auto.
  - intros _ Q. discriminate.
Qed.

Lemma output_step grow h env penv aenv l aenv' :
  HInv h env penv aenv -> acheck aenv (HOutput l) = Some aenv' ->
  let st' := hstep grow {| hs_heap := h; hs_env := env; hs_obs := [] |} (HOutput l) in
  HInv (hs_heap st') (hs_env st') (ps_env (pstep {| ps_env := penv; ps_obs := [] |} (HOutput l))) aenv'.
Proof.
  intros I C. pose proof I as [L1 L2 Ha Hv Hc Ho].
  cbn [acheck] in C. destruct (a_live (aget aenv l) && negb (a_isctx (aget aenv l)) && (l <? length aenv)) eqn:G; [|discriminate].
  injection C as <-. apply andb_true_iff in G as [G Gl]. apply andb_true_iff in G as [Glive Gctx].
  apply Nat.ltb_lt in Gl. rewrite L2 in Gl.
  destruct (Ha l Gl) as [Al An]. rewrite <- Al in Glive. destruct (An Glive) as [Aown Anil].
  pose proof (Hv l Gl Glive) as S. unfold slice_ok in S.
  cbn [hstep pstep hs_heap hs_env ps_env].
  destruct (v_ctx (get env l)) as [s|] eqn:El.
  - destruct S as (W & O & Ln & V). pose proof W as [W1 [W2 W3]].
    assert (Nn : a_nil (aget aenv l) = false).
    { destruct (a_nil (aget aenv l)) eqn:Q; auto. destruct Anil as [A _]. specialize (A eq_refl). discriminate. }
    rewrite Nn. cbn [negb hs_heap hs_env].
    set (data := view h s ++ repeat 0%N (cap s - len s)).
    assert (P : preserves h (h ++ [data]) env).
    { intros x sx Hx Lx Ex Wx. destruct Wx as [X1 [X2 X3]]. split.
      - unfold view. rewrite array_app_old by exact X1. reflexivity.
      - unfold wf. rewrite app_length. cbn [length]. rewrite array_app_old by exact X1. repeat split; auto; lia. }
    refine (HInv_extend h (h ++ [data]) env penv aenv _ _ _ I P _ _ _ _ _).
    + reflexivity.
    + intros _. cbn. split; auto. split; discriminate.
    + intros _. unfold slice_ok. cbn [v_ctx]. split; [|split; [reflexivity|split; [exact Ln|]]].
      * unfold wf. cbn [arr off len cap]. rewrite app_length. cbn [length]. rewrite array_app_new.
        unfold data. rewrite app_length, repeat_length, (view_length h s W). repeat split; lia.
      * unfold view at 1. cbn [arr off len cap]. rewrite array_app_new. cbn [skipn]. unfold data.
        rewrite firstn_app. rewrite (view_length h s W), Nat.sub_diag. cbn [firstn]. rewrite app_nil_r.
        rewrite firstn_all2 by (rewrite (view_length h s W); lia). exact V.
    + intros y Hy Ly _. unfold compat. cbn [v_ctx v_own arr].
      destruct (v_ctx (get env y)) as [sy|] eqn:Ey; [|split; auto].
      pose proof (Hv y Hy Ly) as Sy. unfold slice_ok in Sy. rewrite Ey in Sy. destruct Sy as ([Y1 _] & _).
      split; intros E; exfalso; lia.
    + intros _ _. cbn. discriminate.
  - assert (Nn : a_nil (aget aenv l) = true) by (apply Anil; reflexivity).
    rewrite Nn. cbn [negb hs_heap hs_env].
    refine (HInv_extend h h env penv aenv _ _ _ I (preserves_refl _ _) _ _ _ _ _).
    + reflexivity.
    + intros _. cbn. split; auto. split; auto.
    + intros _. unfold slice_ok. cbn [v_ctx]. exact S.
    + intros y _ _ _. unfold compat. cbn. split; auto. destruct (v_ctx (get env y)); auto.
    + intros _ Q. discriminate.
Qed.

(* replacing the header of the owner l after it appended *)
Lemma HInv_replace h h' env penv aenv l s' p :
  HInv h env penv aenv -> l < length env -> v_live (get env l) = true -> v_own (get env l) = true ->
  (forall y sy, y < length env -> y <> l -> v_live (get env y) = true -> v_ctx (get env y) = Some sy -> wf h sy ->
      view h' sy = view h sy /\ wf h' sy) ->
  slice_ok h' {| v_ctx := Some s'; v_live := true; v_own := true |} p ->
  (forall y, y < length env -> y <> l -> v_live (get env y) = true ->
      compat {| v_ctx := Some s'; v_live := true; v_own := true |} (get env y) /\
      compat (get env y) {| v_ctx := Some s'; v_live := true; v_own := true |}) ->
  HInv h' (upd env l {| v_ctx := Some s'; v_live := true; v_own := true |}) (upd penv l p) aenv.
Proof.
  intros [L1 L2 Ha Hv Hc Ho] Hl Ll Ol P S CM.
  set (v := {| v_ctx := Some s'; v_live := true; v_own := true |}) in *.
  constructor; rewrite ?upd_length; auto.
  - intros x Hx. destruct (Nat.eq_dec x l) as [->|N].
    + rewrite get_upd_same by auto. destruct (Ha l Hl) as [A1 A2]. rewrite Ll in A1. specialize (A2 Ll). destruct A2 as [A2 A3].
      cbn. split; auto. intros _. split; [congruence|]. split; [|discriminate].
      intros Q. apply A3 in Q. exfalso. apply (Ho l Hl Ll Ol). exact Q.
    + rewrite get_upd_other by auto. apply Ha; auto.
  - intros x Hx Lx. destruct (Nat.eq_dec x l) as [->|N].
    + rewrite get_upd_same, pget_upd_same by (auto; lia). exact S.
    + rewrite get_upd_other in * by auto. rewrite pget_upd_other by auto.
      pose proof (Hv x Hx Lx) as Sx. unfold slice_ok in *. destruct (v_ctx (get env x)) as [sx|] eqn:Ex; auto.
      destruct Sx as (W & O & Ln & V). destruct (P x sx Hx N Lx Ex W) as [V' W'].
      split; [exact W'|split; [exact O|split; [exact Ln|rewrite V'; exact V]]].
  - intros x y Hx Hy Nxy Lx Ly.
    destruct (Nat.eq_dec x l) as [->|Nx]; destruct (Nat.eq_dec y l) as [->|Ny]; try congruence.
    + rewrite get_upd_same by auto. rewrite get_upd_other in * by auto. apply CM; auto.
    + rewrite get_upd_same by auto. rewrite get_upd_other in * by auto. apply CM; auto.
    + rewrite !get_upd_other in * by auto. apply Hc; auto.
  - intros x Hx Lx Ox. destruct (Nat.eq_dec x l) as [->|N].
    + rewrite get_upd_same by auto. cbn. discriminate.
    + rewrite get_upd_other in * by auto. apply Ho; auto.
Qed.

Lemma upd_upd {A} (l : list A) i a b : upd (upd l i a) i b = upd l i b.
Proof. revert i. induction l as [|x l IH]; intros [|i]; cbn; auto. rewrite IH. reflexivity. Qed.

Lemma ops_inv grow ops : forall h env penv aenv l s,
  HInv h env penv aenv -> l < length env -> v_live (get env l) = true -> v_own (get env l) = true ->
  v_ctx (get env l) = Some s ->
  let '(h', s') := apply_ops grow h s ops in
  HInv h' (upd env l {| v_ctx := Some s'; v_live := true; v_own := true |}) (upd penv l (fold_left pop ops (pget penv l))) aenv.
Proof.
  induction ops as [|o ops IH]; intros h env penv aenv l s I Hl Ll Ol El; cbn [apply_ops fold_left].
  - assert (E1 : upd env l {| v_ctx := Some s; v_live := true; v_own := true |} = env).
    { clear -Hl Ll Ol El. unfold get in *. revert l Hl Ll Ol El. induction env as [|x env IH]; intros [|l] Hl Ll Ol El; cbn in *; try lia.
      - destruct x; cbn in *. subst. reflexivity.
      - f_equal. apply IH; auto; lia. }
    assert (E2 : upd penv l (pget penv l) = penv).
    { pose proof (hi_len1 _ _ _ _ I) as L1. rewrite <- L1 in Hl. clear -Hl. unfold pget. revert l Hl.
      induction penv as [|x penv IH]; intros [|l] Hl; cbn in *; try lia; auto. f_equal. apply IH. lia. }
    rewrite E1, E2. exact I.
  - assert (STEP : forall h1 s1,
        (forall y sy, y < length env -> y <> l -> v_live (get env y) = true -> v_ctx (get env y) = Some sy -> wf h sy ->
            view h1 sy = view h sy /\ wf h1 sy) ->
        slice_ok h1 {| v_ctx := Some s1; v_live := true; v_own := true |} (pop (pget penv l) o) ->
        (forall y, y < length env -> y <> l -> v_live (get env y) = true ->
            compat {| v_ctx := Some s1; v_live := true; v_own := true |} (get env y) /\
            compat (get env y) {| v_ctx := Some s1; v_live := true; v_own := true |}) ->
        let '(h', s') := apply_ops grow h1 s1 ops in
        HInv h' (upd env l {| v_ctx := Some s'; v_live := true; v_own := true |})
             (upd penv l (fold_left pop ops (pop (pget penv l) o))) aenv).
    { intros h1 s1 P S CM.
      pose proof (HInv_replace h h1 env penv aenv l s1 (pop (pget penv l) o) I Hl Ll Ol P S CM) as I1.
      set (env1 := upd env l {| v_ctx := Some s1; v_live := true; v_own := true |}) in *.
      set (penv1 := upd penv l (pop (pget penv l) o)) in *.
      assert (Hl1 : l < length env1) by (unfold env1; rewrite upd_length; auto).
      assert (G1 : get env1 l = {| v_ctx := Some s1; v_live := true; v_own := true |}) by (unfold env1; apply get_upd_same; auto).
      specialize (IH h1 env1 penv1 aenv l s1 I1 Hl1).
      rewrite G1 in IH. specialize (IH eq_refl eq_refl eq_refl).
      destruct (apply_ops grow h1 s1 ops) as [h' s'].
      unfold env1, penv1 in IH. rewrite !upd_upd in IH.
      assert (Ep : pget (upd penv l (pop (pget penv l) o)) l = pop (pget penv l) o).
      { apply pget_upd_same. rewrite (hi_len1 _ _ _ _ I). auto. }
      rewrite Ep in IH. exact IH. }
    destruct o as [d|].
    + pose proof (owner_append grow h env penv aenv l s d I Hl Ll Ol El) as OA.
      destruct (append grow h s d) as [[h1 s1] a]. destruct OA as (P & S & CM).
      apply (STEP h1 s1 P S CM).
    + pose proof (reset_facts grow h env penv aenv I) as RF.
      destruct (ctx_reset grow h) as [h1 s1]. destruct RF as (P & S & CM).
      apply (STEP h1 s1).
      * intros y sy Hy _ Ly Ey Wy. apply (P y sy Hy Ly Ey Wy).
      * exact S.
      * intros y Hy _ Ly. apply CM; auto.
Qed.

Lemma update_step grow h env penv aenv l ops aenv' :
  HInv h env penv aenv -> acheck aenv (HUpdate l ops) = Some aenv' ->
  let st' := hstep grow {| hs_heap := h; hs_env := env; hs_obs := [] |} (HUpdate l ops) in
  HInv (hs_heap st') (hs_env st') (ps_env (pstep {| ps_env := penv; ps_obs := [] |} (HUpdate l ops))) aenv'.
Proof.
  intros I C. pose proof I as [L1 L2 Ha Hv Hc Ho].
  cbn [acheck] in C. destruct (a_live (aget aenv l) && negb (a_isctx (aget aenv l)) && a_own (aget aenv l) && (l <? length aenv)) eqn:G; [|discriminate].
  injection C as <-. apply andb_true_iff in G as [G Gl]. apply andb_true_iff in G as [G Gown]. apply andb_true_iff in G as [Glive Gctx].
  apply Nat.ltb_lt in Gl. rewrite L2 in Gl.
  destruct (Ha l Gl) as [Al An]. rewrite <- Al in Glive. destruct (An Glive) as [Aown Anil]. rewrite <- Aown in Gown.
  pose proof (Ho l Gl Glive Gown) as NN. destruct (v_ctx (get env l)) as [s|] eqn:El; [|congruence].
  cbn [hstep pstep hs_heap hs_env ps_env]. rewrite El.
  pose proof (ops_inv grow ops h env penv aenv l s I Gl Glive Gown El) as A.
  destruct (apply_ops grow h s ops) as [h' s']. cbn [hs_heap hs_env]. rewrite Gown. exact A.
Qed.

(* ---- one statement: invariant + observations ---- *)
Lemma step_sim grow st pst aenv c aenv' :
  HInv (hs_heap st) (hs_env st) (ps_env pst) aenv -> hs_obs st = ps_obs pst ->
  acheck aenv c = Some aenv' ->
  HInv (hs_heap (hstep grow st c)) (hs_env (hstep grow st c)) (ps_env (pstep pst c)) aenv' /\
  hs_obs (hstep grow st c) = ps_obs (pstep pst c).
Proof.
  intros I Eo C. destruct st as [h env ob]. destruct pst as [penv pob]. cbn [hs_heap hs_env hs_obs ps_env ps_obs] in *. subst pob.
  destruct c.
  - split; [exact (root_step grow h env penv aenv aenv' I C)|reflexivity].
  - pose proof (with_step grow h env penv aenv l aenv' I C) as R. cbn [hstep pstep hs_heap hs_env ps_env ps_obs hs_obs] in *.
    destruct (logger_with grow h (v_ctx (get env l))) as [[h' s'] ws]. split; [exact R|reflexivity].
  - pose proof (op_step grow h env penv aenv c d aenv' I C) as R. cbn [hstep pstep hs_heap hs_env ps_env ps_obs hs_obs] in *.
    destruct (v_ctx (get env c)) as [s|]; [destruct (append grow h s d) as [[h' s'] a]|]; split; try exact R; reflexivity.
  - split; [exact (logger_step grow h env penv aenv c aenv' I C)|reflexivity].
  - split; [exact (copy_step grow h env penv aenv l aenv' I C)|reflexivity].
  - pose proof (output_step grow h env penv aenv l aenv' I C) as R. cbn [hstep pstep hs_heap hs_env ps_env ps_obs hs_obs] in *.
    destruct (v_ctx (get env l)) as [s|]; split; try exact R; reflexivity.
  - pose proof (update_step grow h env penv aenv l ops aenv' I C) as R. cbn [hstep pstep hs_heap hs_env ps_env ps_obs hs_obs] in *.
    destruct (v_ctx (get env l)) as [s|]; [destruct (apply_ops grow h s ops) as [h' s']|]; split; try exact R; reflexivity.
  - (* Emit *)
    cbn [acheck] in C. destruct (a_live (aget aenv l) && negb (a_isctx (aget aenv l)) && (l <? length aenv)) eqn:G; [|discriminate].
    injection C as <-. apply andb_true_iff in G as [G Gl]. apply andb_true_iff in G as [Glive Gctx].
    pose proof I as [L1 L2 Ha Hv Hc Ho]. apply Nat.ltb_lt in Gl. rewrite L2 in Gl.
    destruct (Ha l Gl) as [Al An]. rewrite <- Al in Glive.
    cbn [hstep pstep hs_heap hs_env ps_env ps_obs hs_obs]. split; [exact I|]. f_equal. f_equal.
    pose proof (Hv l Gl Glive) as S. unfold slice_ok, hview in *. destruct (v_ctx (get env l)); [destruct S as (_ & _ & _ & V); exact V|auto].
  - pose proof (reset_step grow h env penv aenv c aenv' I C) as R. cbn [hstep pstep hs_heap hs_env ps_env ps_obs hs_obs] in *.
    destruct (ctx_reset grow h) as [h' s']. split; [exact R|reflexivity].
Qed.

(* THE theorem: for every program of the property's language and every growth
   policy of append, every emitted event reads exactly the context of its own
   derivation path *)
Theorem independent grow p : in_language p = true -> hs_obs (hrun grow p) = ps_obs (prun p).
Proof.
  unfold in_language, hrun, prun.
  set (p0 := {| ps_env := []; ps_obs := [] |}).
  assert (I0 : HInv (hs_heap hinit) (hs_env hinit) (ps_env p0) []).
  { constructor; cbn; auto; intros; lia. }
  assert (E0 : hs_obs hinit = ps_obs p0) by reflexivity.
  revert I0 E0. generalize hinit. generalize p0. generalize (@nil aval).
  induction p as [|c p IH]; intros aenv pst st I E H; cbn [fold_left acheck_all] in *; auto.
  destruct (acheck aenv c) as [aenv'|] eqn:C; [|discriminate].
  destruct (step_sim grow st pst aenv c aenv' I E C) as [I' E'].
  apply (IH aenv' _ _ I' E' H).
Qed.

(* K1: outside the language (a Context value used twice) the first branch sees the second branch's bytes *)
Definition k1_prog : list hstmt :=
  [HRoot; HWith 0; HOp 1 [98;97]%N; HOp 2 [65;65;65;65]%N; HLogger 3; HOp 2 [66;66;66;66]%N; HLogger 5; HEmit 4; HEmit 6].
Lemma k1_refuted :
  in_language k1_prog = false /\
  hs_obs (hrun (fun c n => 2 * c) k1_prog) = [[123;98;97;66;66;66;66]%N; [123;98;97;66;66;66;66]%N] /\
  ps_obs (prun k1_prog) = [[123;98;97;65;65;65;65]%N; [123;98;97;66;66;66;66]%N].
Proof. vm_compute. auto. Qed.
