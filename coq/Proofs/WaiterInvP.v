(* Lemmas about Lts/Waiter.v, part 1: the ring inside the writer machine, and the
   mutex/cancellation invariant (finite case analysis, slow to check; kept in a file of its own). *)
From Verif Require Import Base.Prelude Lts.Diode Lts.Waiter Proofs.DiodeP.
From Coq Require Import Permutation Sorted.
Open Scope N_scope.

(* ------------------------------------------------------------------ *)
(* the ring inside the writer machine is a run of the ring LTS          *)
(* ------------------------------------------------------------------ *)
Lemma wstep_ring w t : d (wexec1 w t) = d w \/ exists a, d (wexec1 w t) = exec1 (d w) a.
Proof.
  unfold wexec1, wstep. destruct t as [| | |p].
  - unfold cons_step. destruct (cons w); cbn; auto.
    + destruct (mu w); cbn; auto.
    + right. exists C. unfold exec1, step. destruct (cstep (d w)) as [[l d'] [b|]]; cbn; auto.
    + destruct (cancelled w), (waiter w); cbn; auto.
    + destruct (sig && negb (mu w)); cbn; auto.
    + right. exists C. unfold exec1, step. destruct (cstep (d w)) as [[l d'] [b|]]; cbn; auto. destruct (waiter w); cbn; auto.
  - unfold cancel_step. destruct (cg w); cbn; auto.
    + destruct (cancelled w); cbn; auto.
    + destruct (mu w); cbn; auto.
    + destruct (wake (cons w)); cbn; auto.
  - unfold closer_step. destruct (closer w); cbn; auto.
    + destruct (gated w && negb (all_written w)); cbn; auto.
    + destruct (cons w); cbn; auto.
  - unfold prod_step. destruct (nth p (pb w) None).
    + destruct (wake (cons w)); cbn; auto.
    + right. exists (P p). unfold exec1, step. destruct (pstep (d w) p) as [[l d']|]; cbn; auto.
      destruct l as [| |[|]|]; cbn; auto. destruct (waiter w); cbn; auto.
Qed.

Lemma wexec_app w a b : wexec w (a ++ b) = wexec (wexec w a) b.
Proof. unfold wexec. apply fold_left_app. Qed.

Lemma wrun_ring wt gt n ps sched : exists sched', d (wrun wt gt n ps sched) = run n ps sched'.
Proof.
  unfold wrun. induction sched as [|t r IH] using rev_ind.
  - exists []. reflexivity.
  - destruct IH as (s' & E). rewrite wexec_app. cbn [wexec fold_left].
    destruct (wstep_ring (wexec (winit wt gt n ps) r) t) as [H|(a & H)]; rewrite H, E.
    + eauto.
    + exists (s' ++ [a]). unfold run. rewrite exec_app. reflexivity.
Qed.

(* ------------------------------------------------------------------ *)
(* mutex / cancellation invariant                                       *)
(* ------------------------------------------------------------------ *)
Definition holds_c (c : cpc) : bool :=
  match c with CTry | CIsDone | CWait | CUnlockD _ | CUnlockNil | CTryLast => true | _ => false end.
Definition holds_g (g : gpc) : bool := match g with GBcast | GUnlock => true | _ => false end.
Definition after_bcast (g : gpc) : bool := match g with GUnlock | GDone => true | _ => false end.
Definition unsignalled (c : cpc) : bool := match c with CWait | CParked false => true | _ => false end.
Definition poller_pc (c : cpc) : bool :=
  match c with CTry | CIsDone | CSleep | CWrite _ | CDone | CTryLast => true | _ => false end.

Definition is_gawait (g : gpc) : bool := match g with GAwait => true | _ => false end.
Definition is_gdone (g : gpc) : bool := match g with GDone => true | _ => false end.
Definition is_kidle (k : kpc) : bool := match k with KIdle => true | _ => false end.
Definition is_csleep (c : cpc) : bool := match c with CSleep => true | _ => false end.

(* the invariant as a boolean function of the control state: every preservation
   proof is then a finite case analysis closed by computation *)
Definition winv_b (w : wst) : bool :=
  implb (waiter w) (Bool.eqb (mu w) (holds_c (cons w) || holds_g (cg w)))
  && implb (waiter w) (negb (holds_c (cons w) && holds_g (cg w)))
  && implb (waiter w && negb (is_gawait (cg w))) (cancelled w)
  && implb (waiter w && after_bcast (cg w)) (negb (unsignalled (cons w)))
  && implb (negb (waiter w)) (poller_pc (cons w) && is_gdone (cg w) && negb (mu w))
  && implb (negb (is_kidle (closer w))) (cancelled w)
  && implb (waiter w) (negb (is_csleep (cons w))).

Definition WInv (w : wst) : Prop := winv_b w = true.

Lemma winit_inv wt gt n ps : WInv (winit wt gt n ps).
Proof. unfold WInv, winv_b. destruct wt; reflexivity. Qed.

Ltac wcrush :=
  repeat (match goal with |- context [match ?x with _ => _ end] =>
            lazymatch x with
            | context [match _ with _ => _ end] => fail
            | _ => destruct x eqn:?
            end
          end; cbn in * ); auto.

Lemma waiter_exec1 w t : waiter (wexec1 w t) = waiter w.
Proof.
  unfold wexec1, wstep, cons_step, cancel_step, closer_step, prod_step. unfold wake. destruct t; wcrush.
Qed.

Lemma wstep_inv w t : WInv w -> WInv (wexec1 w t).
Proof.
  unfold WInv, winv_b. destruct w as [d0 wt gt m c g k ca pb0 wr wd lo].
  unfold wexec1, wstep, cons_step, cancel_step, closer_step, prod_step, wake, set_cons, set_d, set_mu_cons, set_mu_cg.
  cbn [d waiter gated mu cons cg closer cancelled pb wreturned wdelivered g_lost].
  intros H.
  destruct t as [| | |p]; destruct c as [| | | |[|]| |b| |b| |], g, k, m, ca, wt; cbn in H; try discriminate H; clear H; cbn; wcrush.
Qed.

Lemma wexec_inv w sched : WInv w -> WInv (wexec w sched).
Proof. revert w; induction sched as [|t r IH]; intros w H; cbn; auto. apply IH, wstep_inv, H. Qed.

Lemma wrun_inv wt gt n ps sched : WInv (wrun wt gt n ps sched).
Proof. apply wexec_inv, winit_inv. Qed.

Lemma waiter_wexec w sched : waiter (wexec w sched) = waiter w.
Proof. revert w; induction sched as [|t r IH]; intros w; [reflexivity|]. change (wexec w (t :: r)) with (wexec (wexec1 w t) r). rewrite IH. apply waiter_exec1. Qed.

