(* Proofs for Misc/Caller.v over the generated table Gen/CallChains.v.

   Structure: (1) a skip expression is a linear form in (global, argument,
   hook field, skipFrame) - [lin], [lin_sum]; (2) the finite table check, by
   computation: for every root and every truth value of the two path
   conditions exactly one row applies and its linear form is the one that
   makes the frame arithmetic come out - [direct_rows_ok], [hook_rows_ok] and
   the small facts [entries_apply_no_skip], [newEvent_resets], ...; a change of
   a constant, of a CallerSkipFrame literal or of a call chain in the
   repository changes the table and makes one of these named lemmas fail;
   (3) from the check, for ALL register values and stacks, one caller report
   reads the frame [offset] levels up - [read_direct], [read_hook];
   (4) statements: [run_stmt_spec]; (5) the mechanisms of the property. *)
From Verif Require Import Base.Prelude Misc.CallerTypes Gen.CallChains Misc.Caller.
From Coq Require Import String.
Open Scope string_scope.
Open Scope list_scope.
Open Scope Z_scope.

(* ------------------------------------------------------------------ 1. linear forms *)
Record lform := { l0 : Z; lg : Z; la : Z; lf : Z; ls : Z }.

Definition ladd (x y : lform) : lform :=
  {| l0 := l0 x + l0 y; lg := lg x + lg y; la := la x + la y; lf := lf x + lf y; ls := ls x + ls y |}.

Definition atom_lin (a : atom) : option lform :=
  match a with
  | ALit z => Some {| l0 := z; lg := 0; la := 0; lf := 0; ls := 0 |}
  | AConst _ z => Some {| l0 := z; lg := 0; la := 0; lf := 0; ls := 0 |}
  | AVar n _ => if String.eqb n "CallerSkipFrameCount" then Some {| l0 := 0; lg := 1; la := 0; lf := 0; ls := 0 |} else None
  | AArg n i => if String.eqb n "skip" && (i =? 0) then Some {| l0 := 0; lg := 0; la := 1; lf := 0; ls := 0 |} else None
  | AField n =>
      if String.eqb n "Event.skipFrame" then Some {| l0 := 0; lg := 0; la := 0; lf := 0; ls := 1 |}
      else if String.eqb n "callerHook.callerSkipFrameCount" then Some {| l0 := 0; lg := 0; la := 0; lf := 1; ls := 0 |}
      else None
  end.

Fixpoint lin (l : list atom) : option lform :=
  match l with
  | [] => Some {| l0 := 0; lg := 0; la := 0; lf := 0; ls := 0 |}
  | a :: t => match atom_lin a, lin t with
              | Some x, Some y => Some (ladd x y)
              | _, _ => None
              end
  end.

Definition lval (L : lform) (g a f s : Z) : Z := l0 L + lg L * g + la L * a + lf L * f + ls L * s.

Definition rval (L : lform) (r : regs) : Z := lval L (r_global r) (arg_or0 (r_arg r)) (r_field r) (r_sf r).

Lemma atom_lin_nonneg a L : atom_lin a = Some L -> 0 <= la L.
Proof.
  destruct a; cbn; intros H;
    repeat match type of H with context [if ?c then _ else _] => destruct c end;
    inversion H; subst; cbn.
  all: lia.
Qed.

Lemma atom_lin_val a L r : atom_lin a = Some L -> (la L = 0 \/ is_some (r_arg r) = true) ->
  atom_val r a = Some (rval L r).
Proof.
  unfold rval, lval.
  destruct a; cbn; intros H Hc;
    repeat match type of H with context [if ?c then _ else _] => destruct c end;
    inversion H; subst; cbn [l0 lg la lf ls] in *; try (f_equal; lia).
  destruct Hc as [Hc|Hc]; [lia|]. destruct (r_arg r); cbn [is_some arg_or0] in *; [f_equal; lia|discriminate].
Qed.

Lemma lin_nonneg l : forall L, lin l = Some L -> 0 <= la L.
Proof.
  induction l as [|a t IH]; cbn; intros L H.
  - inversion H; cbn; lia.
  - destruct (atom_lin a) as [x|] eqn:Ea; [|discriminate]. destruct (lin t) as [y|] eqn:Et; [|discriminate].
    inversion H; subst; cbn. pose proof (atom_lin_nonneg _ _ Ea). pose proof (IH _ eq_refl). lia.
Qed.

(* skip-arithmetic lemma: a skip expression evaluates to its linear form *)
Lemma lin_sum l : forall L r, lin l = Some L -> (la L = 0 \/ is_some (r_arg r) = true) ->
  sum_atoms r l = Some (rval L r).
Proof.
  induction l as [|a t IH]; cbn; intros L r H Hc.
  - inversion H; subst. unfold rval, lval; cbn [l0 lg la lf ls]. reflexivity.
  - destruct (atom_lin a) as [x|] eqn:Ea; [|discriminate]. destruct (lin t) as [y|] eqn:Et; [|discriminate].
    inversion H; subst; clear H. cbn [ladd la] in Hc.
    pose proof (atom_lin_nonneg _ _ Ea) as Hx. pose proof (lin_nonneg _ _ Et) as Hy.
    rewrite (atom_lin_val a x r Ea) by (destruct Hc; [left; lia|right; assumption]).
    rewrite (IH y r eq_refl) by (destruct Hc; [left; lia|right; assumption]).
    f_equal. unfold rval, lval; cbn [ladd l0 lg la lf ls]. lia.
Qed.

(* ------------------------------------------------------------------ 2. the table check *)
Definition cond_holds_b (argp ff : bool) (c : cond) : bool :=
  match c with
  | CArgLen p ne => String.eqb p "skip" && Bool.eqb argp ne
  | CFieldIs f _ _ eq => String.eqb f "callerHook.callerSkipFrameCount" && Bool.eqb ff eq
  end.

(* every switch on the hook field compares with the same constant the Context methods store *)
Definition cond_flag_ok (c : cond) : bool :=
  match c with CFieldIs _ _ v _ => v =? flag_value | _ => true end.

Definition flags_ok : bool := forallb (fun p => forallb cond_flag_ok (p_conds p)) cc_paths.

Definition path_matches_b (root : string) (argp ff : bool) (p : path) : bool :=
  String.eqb (p_root p) root && forallb (cond_holds_b argp ff) (p_conds p).

Definition select_b (root : string) (argp ff : bool) : option path :=
  match filter (path_matches_b root argp ff) cc_paths with
  | [p] => Some p
  | _ => None
  end.

(* the linear form a row must have so that the frame read is the user's:
   length of the chain = constant part + default global + zerolog's own CallerSkipFrame calls *)
Definition expect (direct argp ff : bool) (p : path) : lform :=
  {| l0 := Z.of_nat (List.length (p_frames p)) - global_default - sumZ (p_sfdelta p);
     lg := if direct then 1 else if ff then 1 else 0;
     la := if direct && argp then 1 else 0;
     lf := if direct then 0 else if ff then 0 else 1;
     ls := 1 |}.

Definition lform_eqb (x y : lform) : bool :=
  (l0 x =? l0 y) && (lg x =? lg y) && (la x =? la y) && (lf x =? lf y) && (ls x =? ls y).

Lemma lform_eqb_eq x y : lform_eqb x y = true -> x = y.
Proof.
  unfold lform_eqb. destruct x, y; cbn. rewrite !andb_true_iff, !Z.eqb_eq.
  intros [[[[-> ->] ->] ->] ->]. reflexivity.
Qed.

Definition row_check (direct argp ff : bool) (o : option path) : bool :=
  match o with
  | Some p => match lin (p_skip p) with
              | Some L => lform_eqb L (expect direct argp ff p)
              | None => false
              end
  | None => false
  end.

Definition bools := [true; false].

Definition direct_ok : bool :=
  forallb (fun root => forallb (fun argp => forallb (fun ff => row_check true argp ff (select_b root argp ff)) bools) bools) cc_direct.

Definition hooks_ok : bool :=
  forallb (fun root => forallb (fun ff => row_check false false ff (select_b root false ff)) bools) (cc_finalizers ++ cc_terminals).

Definition entries_ok : bool := forallb (fun e => sumZ (snd e) =? 0) cc_entries.

Definition hook_ctors_ok : bool :=
  match lookup "Context.Caller" cc_hook_ctors, lookup "Context.CallerWithSkipFrameCount" cc_hook_ctors with
  | Some (HFConst _ v), Some HFParam => v =? flag_value
  | _, _ => false
  end.

(* the functions the property names are all in the table (the quantifiers below are not vacuous) *)
Definition required_entries : list string :=
  ["Logger.Trace"; "Logger.Debug"; "Logger.Info"; "Logger.Warn"; "Logger.Error"; "Logger.Fatal"; "Logger.Panic";
   "Logger.WithLevel"; "Logger.Err"; "Logger.Log";
   "log.Trace"; "log.Debug"; "log.Info"; "log.Warn"; "log.Error"; "log.Fatal"; "log.Panic";
   "log.WithLevel"; "log.Err"; "log.Log"].
Definition required_finalizers : list string := ["Event.Msg"; "Event.Msgf"; "Event.MsgFunc"; "Event.Send"].
Definition required_terminals : list string :=
  ["Logger.Print"; "Logger.Printf"; "Logger.Println"; "Logger.Write"; "log.Print"; "log.Printf"].

Definition covers_ok : bool :=
  forallb (fun n => mem n (map fst cc_entries)) required_entries &&
  forallb (fun n => mem n cc_finalizers) required_finalizers &&
  forallb (fun n => mem n cc_terminals) required_terminals &&
  mem "Event.Caller" cc_direct.

(* --- the named obligations over the generated table (each fails when the repository changes the thing it names) --- *)
Lemma flags_consistent : flags_ok = true.
Proof. vm_compute. reflexivity. Qed.

(* Event.Caller -> caller -> runtime.Caller(CallerSkipFrameCount [+ skip[0]] + e.skipFrame) *)
Lemma direct_rows_ok : direct_ok = true.
Proof. vm_compute. reflexivity. Qed.

(* finalizers / Print* / Write / log.Print* -> ... -> msg -> callerHook.Run -> caller:
   chain length = contextCallerSkipFrameCount + CallerSkipFrameCount(default) + the CallerSkipFrame literals *)
Lemma hook_rows_ok : hooks_ok = true.
Proof. vm_compute. reflexivity. Qed.

Lemma entries_apply_no_skip : entries_ok = true.
Proof. vm_compute. reflexivity. Qed.

Lemma newEvent_resets : cc_newEvent_resets_skipFrame = true.
Proof. vm_compute. reflexivity. Qed.

Lemma hook_ctors_as_documented : hook_ctors_ok = true.
Proof. vm_compute. reflexivity. Qed.

Lemma table_covers_api : covers_ok = true.
Proof. vm_compute. reflexivity. Qed.

(* "CallerWithSkipFrameCount(2+k)" in the property text: 2 is the default of CallerSkipFrameCount *)
Lemma global_default_is_2 : global_default = 2.
Proof. vm_compute. reflexivity. Qed.

(* ------------------------------------------------------------------ 3. one caller report *)
Lemma cond_holds_abs r c : cond_flag_ok c = true ->
  cond_holds r c = cond_holds_b (is_some (r_arg r)) (r_field r =? flag_value) c.
Proof.
  destruct c as [p ne|f cn v e]; cbn; intros H; [reflexivity|].
  apply Z.eqb_eq in H. subst v. reflexivity.
Qed.

Lemma forallb_ext_in' {A} (f g : A -> bool) l : (forall x, In x l -> f x = g x) -> forallb f l = forallb g l.
Proof.
  induction l as [|a t IH]; cbn; intros H; [reflexivity|].
  rewrite H by (left; reflexivity). rewrite IH; [reflexivity|]. intros x Hx. apply H. right. exact Hx.
Qed.

Lemma select_abs root r :
  select root r = select_b root (is_some (r_arg r)) (r_field r =? flag_value).
Proof.
  unfold select, select_b.
  rewrite (filter_ext_in (path_matches root r) (path_matches_b root (is_some (r_arg r)) (r_field r =? flag_value))); [reflexivity|].
  intros p Hp. unfold path_matches, path_matches_b. f_equal.
  pose proof flags_consistent as F. unfold flags_ok in F. rewrite forallb_forall in F. specialize (F p Hp).
  rewrite forallb_forall in F.
  apply forallb_ext_in'. intros c Hc. apply cond_holds_abs. apply F. exact Hc.
Qed.

Definition offset (direct : bool) (r : regs) : Z :=
  r_sf r + (if direct then (r_global r - global_default) + arg_or0 (r_arg r)
            else if r_field r =? flag_value then r_global r - global_default
            else r_field r - global_default).

Lemma nth_error_skip_frames (fr : list string) (st : stack) (off : Z) : 0 <= off ->
  runtime_Caller (rev (map FZ fr) ++ st) (Z.of_nat (List.length fr) + off) = nth_error st (Z.to_nat off).
Proof.
  intros H. unfold runtime_Caller.
  destruct (Z.ltb_spec (Z.of_nat (List.length fr) + off) 0); [lia|].
  rewrite nth_error_app2; rewrite rev_length, map_length; [|lia].
  f_equal. lia.
Qed.

Lemma expect_rval direct (r : regs) p :
  (direct = false -> r_arg r = None) ->
  rval (expect direct (is_some (r_arg r)) (r_field r =? flag_value) p) (with_sf r (r_sf r + sumZ (p_sfdelta p)))
  = Z.of_nat (List.length (p_frames p)) + offset direct r.
Proof.
  intros Harg. unfold rval, lval, expect, offset, with_sf.
  cbn [l0 lg la lf ls r_global r_arg r_field r_sf].
  generalize global_default flag_value (Z.of_nat (List.length (p_frames p))) (sumZ (p_sfdelta p)).
  intros g0 fv n sd.
  destruct direct; cbn [andb].
  - destruct (r_arg r); cbn [is_some arg_or0]; lia.
  - rewrite (Harg eq_refl). cbn [arg_or0 is_some]. destruct (r_field r =? fv); lia.
Qed.

Lemma expect_la direct (r : regs) p sf :
  la (expect direct (is_some (r_arg r)) (r_field r =? flag_value) p) = 0 \/ is_some (r_arg (with_sf r sf)) = true.
Proof.
  unfold expect, with_sf. cbn [la r_arg]. destruct direct; cbn [andb]; [|left; reflexivity].
  destruct (is_some (r_arg r)); [right; reflexivity|left; reflexivity].
Qed.

Lemma row_read_aux direct r st (o : option path) :
  row_check direct (is_some (r_arg r)) (r_field r =? flag_value) o = true ->
  (direct = false -> r_arg r = None) ->
  0 <= offset direct r ->
  match o with Some p => run_path p r st | None => None end = nth_error st (Z.to_nat (offset direct r)).
Proof.
  intros Hrow Harg Hoff. destruct o as [p|]; [|discriminate]. unfold row_check in Hrow.
  destruct (lin (p_skip p)) as [L|] eqn:EL; [|discriminate].
  apply lform_eqb_eq in Hrow. subst L. unfold run_path.
  rewrite (lin_sum _ _ _ EL (expect_la direct r p _)).
  rewrite (expect_rval direct r p Harg).
  apply nth_error_skip_frames. exact Hoff.
Qed.

Lemma row_read direct root r st :
  row_check direct (is_some (r_arg r)) (r_field r =? flag_value)
            (select_b root (is_some (r_arg r)) (r_field r =? flag_value)) = true ->
  (direct = false -> r_arg r = None) ->
  0 <= offset direct r ->
  read root r st = nth_error st (Z.to_nat (offset direct r)).
Proof.
  intros Hrow Harg Hoff. unfold read. rewrite select_abs. revert Hrow.
  generalize (select_b root (is_some (r_arg r)) (r_field r =? flag_value)). intros o Hrow.
  exact (row_read_aux direct r st o Hrow Harg Hoff).
Qed.

Lemma in_bools b : In b bools.
Proof. destruct b; cbn; auto. Qed.

(* Event.Caller([k]) reads the frame CallerSkipFrame-total + (global - default) + k levels above the call *)
Lemma read_direct root r st : In root cc_direct -> 0 <= offset true r ->
  read root r st = nth_error st (Z.to_nat (offset true r)).
Proof.
  intros Hin Hoff. apply row_read; [|discriminate|exact Hoff].
  pose proof direct_rows_ok as D. unfold direct_ok in D. rewrite forallb_forall in D.
  specialize (D root Hin). cbv beta in D. rewrite forallb_forall in D.
  specialize (D _ (in_bools (is_some (r_arg r)))). cbv beta in D.
  rewrite forallb_forall in D. exact (D _ (in_bools _)).
Qed.

(* the caller hook reached through a finalizer / Print* / Write *)
Lemma read_hook root r st : In root (cc_finalizers ++ cc_terminals) -> r_arg r = None -> 0 <= offset false r ->
  read root r st = nth_error st (Z.to_nat (offset false r)).
Proof.
  intros Hin Harg Hoff. apply row_read; [|intros _; exact Harg|exact Hoff].
  pose proof hook_rows_ok as D. unfold hooks_ok in D. rewrite forallb_forall in D.
  specialize (D root Hin). cbv beta in D. rewrite forallb_forall in D. rewrite Harg. cbn [is_some].
  exact (D _ (in_bools _)).
Qed.

(* ------------------------------------------------------------------ 4. statements *)
Lemma frame_at_nonneg st off : 0 <= off -> frame_at st off = nth_error st (Z.to_nat off).
Proof. intros H. unfold frame_at, runtime_Caller. destruct (Z.ltb_spec off 0); [lia|reflexivity]. Qed.

Lemma mem_In k l : mem k l = true <-> In k l.
Proof.
  unfold mem. rewrite existsb_exists. split.
  - intros [x [Hx E]]. apply String.eqb_eq in E. subst. exact Hx.
  - intros H. exists k. split; [exact H|apply String.eqb_refl].
Qed.

Lemma event_caller_in_table : In "Event.Caller" cc_direct.
Proof.
  apply mem_In. pose proof table_covers_api as H. unfold covers_ok in H.
  rewrite !andb_true_iff in H. tauto.
Qed.

Lemma run_ops_spec g st ops : forall sf,
  Forall (fun o => 0 <= o) (snd (spec_ops g sf ops)) ->
  run_ops g st sf ops = (fst (spec_ops g sf ops), map (frame_at st) (snd (spec_ops g sf ops))).
Proof.
  induction ops as [|[k|a] t IH]; intros sf H; cbn [run_ops spec_ops] in *.
  - reflexivity.
  - apply IH. exact H.
  - destruct (spec_ops g sf t) as [sf' xs] eqn:E. cbn [fst snd] in *.
    inversion H as [|o os Ho Hos]; subst.
    rewrite IH by (rewrite E; exact Hos). rewrite E. cbn [fst snd map]. f_equal. f_equal.
    rewrite frame_at_nonneg by exact Ho.
    set (r := {| r_global := g; r_arg := a; r_field := 0; r_sf := sf |}).
    assert (Eo : offset true r = sf + (g - global_default) + arg_or0 a) by (unfold offset, r; cbn; lia).
    rewrite <- Eo. apply read_direct; [exact event_caller_in_table|]. rewrite Eo. exact Ho.
Qed.

Lemma run_hooks_spec root g st hs : In root (cc_finalizers ++ cc_terminals) -> forall sf,
  Forall (fun o => 0 <= o) (spec_hooks g sf hs) ->
  run_hooks root g st sf hs = map (frame_at st) (spec_hooks g sf hs).
Proof.
  intros Hin. induction hs as [|[f|a] t IH]; intros sf H; cbn [run_hooks spec_hooks map] in *.
  - reflexivity.
  - inversion H as [|o os Ho Hos]; subst. rewrite IH by exact Hos. f_equal.
    rewrite frame_at_nonneg by exact Ho.
    set (r := {| r_global := g; r_arg := None; r_field := f; r_sf := sf |}).
    assert (Eo : offset false r = sf + (if f =? flag_value then g - global_default else f - global_default))
      by (unfold offset, r; cbn; reflexivity).
    rewrite <- Eo. apply read_hook; [exact Hin|reflexivity|]. rewrite Eo. exact Ho.
  - apply IH. exact H.
Qed.

Definition stmt_in_table (s : stmt) : Prop :=
  match s with
  | SLog en _ fin => In en (map fst cc_entries) /\ In fin cc_finalizers
  | STerminal t => In t cc_terminals
  end.

Lemma lookup_in {A} k (l : list (string * A)) : In k (map fst l) -> exists v, lookup k l = Some v /\ In (k, v) l.
Proof.
  induction l as [|[k' v'] t IH]; cbn; [tauto|]. intros [E|H].
  - subst. rewrite String.eqb_refl. eauto.
  - destruct (String.eqb_spec k k') as [->|N]; [eauto|]. destruct (IH H) as [v [L I]]. eauto.
Qed.

Lemma new_skipFrame_0 w : new_skipFrame w = 0.
Proof. unfold new_skipFrame. rewrite newEvent_resets. reflexivity. Qed.

(* the model refines the declarative reading for every statement over the table, every world, every stack *)
Lemma run_stmt_spec w st s : stmt_in_table s ->
  Forall (fun o => 0 <= o) (spec_stmt w s) ->
  run_stmt w st s = Some (map (frame_at st) (spec_stmt w s)).
Proof.
  destruct s as [en ops fin|t]; cbn [stmt_in_table run_stmt spec_stmt].
  - intros [Hen Hfin] H.
    destruct (lookup_in en cc_entries Hen) as [lits [L I]]. rewrite L.
    apply mem_In in Hfin. rewrite Hfin.
    pose proof entries_apply_no_skip as E. unfold entries_ok in E. rewrite forallb_forall in E.
    specialize (E _ I). cbn [snd] in E. apply Z.eqb_eq in E. rewrite E, new_skipFrame_0. cbn [Z.add].
    destruct (spec_ops (w_global w) 0 ops) as [sf xs] eqn:Eo.
    apply Forall_app in H as [H1 H2].
    rewrite run_ops_spec by (rewrite Eo; exact H1). rewrite Eo. cbn [fst snd].
    rewrite run_hooks_spec; [rewrite map_app; reflexivity| |exact H2].
    apply in_or_app. left. apply mem_In. exact Hfin.
  - intros Ht H. pose proof Ht as Ht'. apply mem_In in Ht'. rewrite Ht'. rewrite new_skipFrame_0.
    rewrite run_hooks_spec; [reflexivity| |exact H]. apply in_or_app. right. exact Ht.
Qed.

(* ------------------------------------------------------------------ 5. user stacks and the mechanisms *)
Lemma useq_nth n : forall i k rest, (k < n)%nat ->
  nth_error (useq i n ++ rest) k = Some (FUser (i + N.of_nat k)).
Proof.
  induction n as [|n IH]; intros i k rest H; [lia|].
  destruct k as [|k]; cbn.
  - f_equal. f_equal. lia.
  - rewrite IH by lia. f_equal. f_equal. lia.
Qed.

Lemma ustack_frame d rest k : (k <= d)%nat ->
  frame_at (ustack d rest) (Z.of_nat k) = Some (FUser (N.of_nat k)).
Proof.
  intros H. rewrite frame_at_nonneg by lia. rewrite Nat2Z.id. unfold ustack.
  rewrite useq_nth by lia. reflexivity.
Qed.

(* hooks that never call CallerSkipFrame *)
Definition quiet (hs : list hook) : Prop := Forall (fun h => h = HOther 0) hs.

Lemma spec_hooks_quiet g hs : quiet hs -> forall sf, spec_hooks g sf hs = [].
Proof.
  induction 1 as [|h t Hh Ht IH]; intros sf; cbn; [reflexivity|]. subst h. rewrite Z.add_0_r. apply IH.
Qed.

Lemma spec_hooks_one g pre f post : quiet pre -> quiet post -> forall sf,
  spec_hooks g sf (pre ++ HCaller f :: post) =
  [sf + (if f =? flag_value then g - global_default else f - global_default)].
Proof.
  induction 1 as [|h t Hh Ht IH]; intros Hp sf; cbn.
  - rewrite spec_hooks_quiet by exact Hp. reflexivity.
  - subst h. rewrite Z.add_0_r. apply IH. exact Hp.
Qed.

(* other hooks that do call CallerSkipFrame: their arguments add up (event.go: "This includes those added via hooks") *)
Lemma spec_hooks_others g post : forall sf, spec_hooks g sf (map HOther post) = [].
Proof. induction post as [|b u IH]; intros sf; cbn [map spec_hooks]; auto. Qed.

Lemma spec_hooks_adds g pre f post : forall sf,
  spec_hooks g sf (map HOther pre ++ HCaller f :: map HOther post) =
  [sf + sumZ pre + (if f =? flag_value then g - global_default else f - global_default)].
Proof.
  induction pre as [|a t IH]; intros sf; cbn [map app spec_hooks].
  - rewrite spec_hooks_others. unfold sumZ; cbn [fold_right]. f_equal. lia.
  - rewrite IH. unfold sumZ; cbn [fold_right]. f_equal. lia.
Qed.

Lemma spec_ops_skip_caller g k a :
  spec_ops g 0 [OSkipFrame k; OCaller a] = (k, [k + (g - global_default) + arg_or0 a]).
Proof. cbn. reflexivity. Qed.

Lemma flag_not_small k : 0 <= k -> (global_default + k =? flag_value) = false.
Proof. intros H. apply Z.eqb_neq. assert (flag_value < 0) by (vm_compute; reflexivity). rewrite global_default_is_2. lia. Qed.

Lemma ctx_caller_hook : ctx_hook "Context.Caller" 0 = Some (HCaller flag_value).
Proof. vm_compute. reflexivity. Qed.

Lemma ctx_caller_skip_hook n : ctx_hook "Context.CallerWithSkipFrameCount" n = Some (HCaller n).
Proof. vm_compute. reflexivity. Qed.

Section Mechanisms.
  Variables (d k : nat) (rest : stack) (stale : Z) (pre post : list hook).
  Hypothesis Hk : (k <= d)%nat.
  Hypothesis Hpre : quiet pre.
  Hypothesis Hpost : quiet post.
  Let st := ustack d rest.
  Let K := Z.of_nat k.
  Let want := Some [Some (FUser (N.of_nat k))].
  Let g0 := global_default.

  Local Ltac finish E :=
    rewrite run_stmt_spec; [rewrite E; cbn [map]; unfold st, K, want; rewrite ustack_frame by exact Hk; reflexivity
                           | cbn [stmt_in_table]; auto
                           | rewrite E; repeat constructor; lia].

  Lemma quiet_app : quiet (pre ++ post).
  Proof. apply Forall_app; split; assumption. Qed.

  (* l.E().CallerSkipFrame(k).Caller().F(..) *)
  Lemma mech_event_skipframe en fin : In en (map fst cc_entries) -> In fin cc_finalizers ->
    run_stmt {| w_global := g0; w_stale := stale; w_hooks := pre ++ post |} st (SLog en [OSkipFrame K; OCaller None] fin) = want.
  Proof.
    intros Hen Hfin.
    assert (E : spec_stmt {| w_global := g0; w_stale := stale; w_hooks := pre ++ post |} (SLog en [OSkipFrame K; OCaller None] fin) = [K]).
    { cbn [spec_stmt w_global w_hooks]. rewrite spec_ops_skip_caller. rewrite spec_hooks_quiet by exact quiet_app.
      unfold g0. cbn [app arg_or0]. f_equal; lia. }
    finish E.
  Qed.

  (* l.E().Caller(k).F(..) *)
  Lemma mech_event_arg en fin : In en (map fst cc_entries) -> In fin cc_finalizers ->
    run_stmt {| w_global := g0; w_stale := stale; w_hooks := pre ++ post |} st (SLog en [OCaller (Some K)] fin) = want.
  Proof.
    intros Hen Hfin.
    assert (E : spec_stmt {| w_global := g0; w_stale := stale; w_hooks := pre ++ post |} (SLog en [OCaller (Some K)] fin) = [K]).
    { cbn [spec_stmt w_global w_hooks spec_ops]. rewrite spec_hooks_quiet by exact quiet_app.
      unfold g0. cbn [app arg_or0]. f_equal; lia. }
    finish E.
  Qed.

  (* zerolog.CallerSkipFrameCount = default + k; l.E().Caller().F(..) *)
  Lemma mech_event_global en fin : In en (map fst cc_entries) -> In fin cc_finalizers ->
    run_stmt {| w_global := g0 + K; w_stale := stale; w_hooks := pre ++ post |} st (SLog en [OCaller None] fin) = want.
  Proof.
    intros Hen Hfin.
    assert (E : spec_stmt {| w_global := g0 + K; w_stale := stale; w_hooks := pre ++ post |} (SLog en [OCaller None] fin) = [K]).
    { cbn [spec_stmt w_global w_hooks spec_ops]. rewrite spec_hooks_quiet by exact quiet_app.
      unfold g0. cbn [app arg_or0]. f_equal; lia. }
    finish E.
  Qed.

  (* logger built With().Caller(); l.E().CallerSkipFrame(k).F(..) *)
  Lemma mech_ctx_skipframe en fin : In en (map fst cc_entries) -> In fin cc_finalizers ->
    run_stmt {| w_global := g0; w_stale := stale; w_hooks := pre ++ HCaller flag_value :: post |} st (SLog en [OSkipFrame K] fin) = want.
  Proof.
    intros Hen Hfin.
    assert (E : spec_stmt {| w_global := g0; w_stale := stale; w_hooks := pre ++ HCaller flag_value :: post |} (SLog en [OSkipFrame K] fin) = [K]).
    { cbn [spec_stmt w_global w_hooks spec_ops]. rewrite spec_hooks_one by assumption.
      rewrite Z.eqb_refl. unfold g0. cbn [app]. f_equal; lia. }
    finish E.
  Qed.

  (* logger built With().CallerWithSkipFrameCount(2+k); l.E().F(..) *)
  Lemma mech_ctx_count en fin : In en (map fst cc_entries) -> In fin cc_finalizers ->
    run_stmt {| w_global := g0; w_stale := stale; w_hooks := pre ++ HCaller (2 + K) :: post |} st (SLog en [] fin) = want.
  Proof.
    intros Hen Hfin.
    assert (E : spec_stmt {| w_global := g0; w_stale := stale; w_hooks := pre ++ HCaller (2 + K) :: post |} (SLog en [] fin) = [K]).
    { cbn [spec_stmt w_global w_hooks spec_ops]. rewrite spec_hooks_one by assumption.
      rewrite <- global_default_is_2. rewrite flag_not_small by (unfold K; lia). cbn [app]. f_equal; lia. }
    finish E.
  Qed.

  (* zerolog.CallerSkipFrameCount = default + k; logger built With().Caller(); l.E().F(..) *)
  Lemma mech_ctx_global en fin : In en (map fst cc_entries) -> In fin cc_finalizers ->
    run_stmt {| w_global := g0 + K; w_stale := stale; w_hooks := pre ++ HCaller flag_value :: post |} st (SLog en [] fin) = want.
  Proof.
    intros Hen Hfin.
    assert (E : spec_stmt {| w_global := g0 + K; w_stale := stale; w_hooks := pre ++ HCaller flag_value :: post |} (SLog en [] fin) = [K]).
    { cbn [spec_stmt w_global w_hooks spec_ops]. rewrite spec_hooks_one by assumption.
      rewrite Z.eqb_refl. unfold g0. cbn [app]. f_equal; lia. }
    finish E.
  Qed.

  (* Print / Printf / Println / Write / log.Print / log.Printf *)
  Lemma mech_terminal_count t : In t cc_terminals ->
    run_stmt {| w_global := g0; w_stale := stale; w_hooks := pre ++ HCaller (2 + K) :: post |} st (STerminal t) = want.
  Proof.
    intros Ht.
    assert (E : spec_stmt {| w_global := g0; w_stale := stale; w_hooks := pre ++ HCaller (2 + K) :: post |} (STerminal t) = [K]).
    { cbn [spec_stmt w_global w_hooks]. rewrite spec_hooks_one by assumption.
      rewrite <- global_default_is_2. rewrite flag_not_small by (unfold K; lia). cbn [app]. f_equal; lia. }
    finish E.
  Qed.

  Lemma mech_terminal_global t : In t cc_terminals ->
    run_stmt {| w_global := g0 + K; w_stale := stale; w_hooks := pre ++ HCaller flag_value :: post |} st (STerminal t) = want.
  Proof.
    intros Ht.
    assert (E : spec_stmt {| w_global := g0 + K; w_stale := stale; w_hooks := pre ++ HCaller flag_value :: post |} (STerminal t) = [K]).
    { cbn [spec_stmt w_global w_hooks]. rewrite spec_hooks_one by assumption.
      rewrite Z.eqb_refl. unfold g0. cbn [app]. f_equal; lia. }
    finish E.
  Qed.
End Mechanisms.

(* the headline statement *)
Definition reports_user_frame_statement : Prop :=
  forall (d k : nat) (rest : stack) (stale : Z) (pre post : list hook),
    (k <= d)%nat -> quiet pre -> quiet post ->
    let st := ustack d rest in
    let K := Z.of_nat k in
    let want := Some [Some (FUser (N.of_nat k))] in
    let g0 := global_default in
    let W g hs := {| w_global := g; w_stale := stale; w_hooks := hs |} in
    (forall en fin, In en (map fst cc_entries) -> In fin cc_finalizers ->
       run_stmt (W g0 (pre ++ post)) st (SLog en [OSkipFrame K; OCaller None] fin) = want /\
       run_stmt (W g0 (pre ++ post)) st (SLog en [OCaller (Some K)] fin) = want /\
       run_stmt (W (g0 + K) (pre ++ post)) st (SLog en [OCaller None] fin) = want /\
       run_stmt (W g0 (pre ++ HCaller flag_value :: post)) st (SLog en [OSkipFrame K] fin) = want /\
       run_stmt (W g0 (pre ++ HCaller (2 + K) :: post)) st (SLog en [] fin) = want /\
       run_stmt (W (g0 + K) (pre ++ HCaller flag_value :: post)) st (SLog en [] fin) = want) /\
    (forall t, In t cc_terminals ->
       run_stmt (W g0 (pre ++ HCaller (2 + K) :: post)) st (STerminal t) = want /\
       run_stmt (W (g0 + K) (pre ++ HCaller flag_value :: post)) st (STerminal t) = want).

Lemma reports_user_frame : reports_user_frame_statement.
Proof.
  intros d k rest stale pre post Hk Hpre Hpost st K want g0 W. split.
  - intros en fin Hen Hfin. repeat split.
    + apply mech_event_skipframe; assumption.
    + apply mech_event_arg; assumption.
    + apply mech_event_global; assumption.
    + apply mech_ctx_skipframe; assumption.
    + apply mech_ctx_count; assumption.
    + apply mech_ctx_global; assumption.
  - intros t Ht. split.
    + apply mech_terminal_count; assumption.
    + apply mech_terminal_global; assumption.
Qed.

(* skips from several sources add up: any CallerSkipFrame on the event, any
   Caller argument, any global, any hook field, other hooks calling CallerSkipFrame *)
Lemma skips_add_up en fin g stale a b (pre post : list Z) f st :
  In en (map fst cc_entries) -> In fin cc_finalizers ->
  let off1 := a + (g - global_default) + arg_or0 b in
  let off2 := a + sumZ pre + (if f =? flag_value then g - global_default else f - global_default) in
  0 <= off1 -> 0 <= off2 ->
  run_stmt {| w_global := g; w_stale := stale; w_hooks := map HOther pre ++ HCaller f :: map HOther post |} st
           (SLog en [OSkipFrame a; OCaller b] fin)
  = Some [frame_at st off1; frame_at st off2].
Proof.
  intros Hen Hfin off1 off2 H1 H2.
  assert (E : spec_stmt {| w_global := g; w_stale := stale; w_hooks := map HOther pre ++ HCaller f :: map HOther post |}
                        (SLog en [OSkipFrame a; OCaller b] fin) = [off1; off2]).
  { cbn [spec_stmt w_global w_hooks]. rewrite spec_ops_skip_caller. rewrite spec_hooks_adds. reflexivity. }
  rewrite run_stmt_spec; [rewrite E; reflexivity|cbn; auto|rewrite E; repeat constructor; assumption].
Qed.
