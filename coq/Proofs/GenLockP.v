(* Obligations over the lock-discipline table regenerated from writer.go on
   every run (Gen/LockShapes.v, harness/cmd/lockgen).  They discharge, for the
   code as it is now, the premise of the C15 / C06 concurrency theorems that
   every exported method of TriggerLevelWriter / syncWriter is
   Lock; body; deferred Unlock, and that the unexported helper trigger() runs
   only inside such a bracket. *)
From Coq Require Import String List Bool Arith.
From Verif Require Import Misc.LockTypes Gen.LockShapes.
Import ListNotations.
Local Open Scope string_scope.

Lemma lock_table_ok : table_ok lock_methods = true.
Proof. vm_compute. reflexivity. Qed.

(* what the table check means, for any table *)
Lemma table_ok_spec : forall all m, table_ok all = true -> In m all -> lm_touches m = true ->
  bracketed m = true \/
  (lm_exported m = false /\ lm_go m = false /\ lm_extra_ops m = 0 /\ lm_callers m <> [] /\
   forall c, In c (lm_callers m) -> exists m', In m' all /\ full_name m' = c /\ bracketed m' = true).
Proof.
  intros all m Hall Hin Ht. unfold table_ok in Hall. rewrite forallb_forall in Hall.
  specialize (Hall m Hin). unfold method_ok in Hall.
  apply orb_true_iff in Hall as [Hall|Hall]; [apply orb_true_iff in Hall as [Hall|Hall]|].
  - left; exact Hall.
  - rewrite Ht in Hall. discriminate.
  - right. repeat (apply andb_true_iff in Hall as [Hall ?]).
    repeat split.
    + destruct (lm_exported m); [discriminate|reflexivity].
    + destruct (lm_go m); [discriminate|reflexivity].
    + apply Nat.eqb_eq; assumption.
    + destruct (lm_callers m); [discriminate|discriminate].
    + intros c Hc. match goal with H : forallb _ _ = true |- _ => rewrite forallb_forall in H; specialize (H c Hc) end.
      unfold is_bracketed_name in *. match goal with H : existsb _ _ = true |- _ => apply existsb_exists in H as (m' & Hm' & Hb) end.
      apply andb_true_iff in Hb as [Hn Hb]. apply String.eqb_eq in Hn. exists m'. auto.
Qed.

(* every method of a mutex-guarded type in the working tree that uses guarded state runs under the mutex *)
Theorem guarded_state_under_lock : forall m, In m lock_methods -> lm_touches m = true ->
  bracketed m = true \/
  (lm_exported m = false /\ lm_go m = false /\ lm_extra_ops m = 0 /\ lm_callers m <> [] /\
   forall c, In c (lm_callers m) -> exists m', In m' lock_methods /\ full_name m' = c /\ bracketed m' = true).
Proof. intros m. apply table_ok_spec. exact lock_table_ok. Qed.

(* the operations the models treat as atomic exist and are bracketed *)
Lemma trigger_writer_ops_bracketed :
  has_bracketed lock_methods "TriggerLevelWriter" "WriteLevel" = true /\
  has_bracketed lock_methods "TriggerLevelWriter" "Trigger" = true /\
  has_bracketed lock_methods "TriggerLevelWriter" "Close" = true.
Proof. vm_compute. repeat split. Qed.

Lemma sync_writer_ops_bracketed :
  has_bracketed lock_methods "syncWriter" "Write" = true /\
  has_bracketed lock_methods "syncWriter" "WriteLevel" = true /\
  has_bracketed lock_methods "syncWriter" "Close" = true.
Proof. vm_compute. repeat split. Qed.

(* no exported method of those types is left out of the bracket *)
Lemma exported_methods_bracketed : forall m, In m lock_methods -> lm_exported m = true -> lm_touches m = true -> bracketed m = true.
Proof.
  intros m Hin He Ht. destruct (guarded_state_under_lock m Hin Ht) as [H|(H & _)]; [exact H|].
  rewrite He in H. discriminate.
Qed.
