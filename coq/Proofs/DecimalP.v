(* Proofs about Base/Decimal.v: print/parse are inverse for ALL integers, the
   printed text is a canonical decimal numeral, hence a JSON number denoting
   exactly the integer. *)
From Coq Require Import QArith.
From Verif Require Import Base.Prelude Base.Decimal Base.Utf8 Base.JsonSpec.
Open Scope N_scope.

Definition dstep (a b : N) : N := a * 10 + (b - 48).

Lemma parse_digits_fold s : Forall digit s -> forall a, parse_digits a s = Some (fold_left dstep s a).
Proof.
  induction 1 as [|b s Hb Hs IH]; intros a; cbn [parse_digits fold_left]; [reflexivity|].
  apply is_digit_digit in Hb. rewrite Hb. apply IH.
Qed.

Lemma digits_val_fold l : digits_val l = fold_left dstep l 0.
Proof. reflexivity. Qed.

(* the loop of strconv's formatBits, with enough fuel *)
Definition dspec (n : N) (acc out : list N) : Prop :=
  exists ds, out = ds ++ acc /\ Forall digit ds /\
             (exists d0 t, ds = d0 :: t /\ (d0 = 48 -> n = 0 /\ t = [])) /\
             (forall a, fold_left dstep ds a = a * 10 ^ N.of_nat (length ds) + n).

Lemma dspec_small n acc : n < 10 -> dspec n acc ((48 + n mod 10) :: acc).
Proof.
  intros Hn. exists [48 + n mod 10]. assert (n mod 10 = n) by (apply N.mod_small; lia).
  split; [reflexivity|]. split; [repeat constructor; unfold digit; lia|]. split.
  - exists (48 + n mod 10), []. split; [reflexivity|]. intros. split; [lia|reflexivity].
  - intros a. cbn [fold_left length]. unfold dstep. change (10 ^ N.of_nat 1) with 10. lia.
Qed.

Lemma dspec_step n acc out : 10 <= n -> dspec (n / 10) ((48 + n mod 10) :: acc) out -> dspec n acc out.
Proof.
  intros Hn [ds [E1 [Hd [[d0 [t [Eds H0]]] Hv]]]].
  exists (ds ++ [48 + n mod 10]).
  pose proof (N.mod_lt n 10 ltac:(lia)) as Hm.
  split; [rewrite E1, <- app_assoc; reflexivity|].
  split; [apply Forall_app; split; auto; repeat constructor; unfold digit; lia|]. split.
  - exists d0, (t ++ [48 + n mod 10]). split; [rewrite Eds; reflexivity|].
    intros Hz. destruct (H0 Hz) as [Hq0 _].
    pose proof (N.div_mod' n 10). lia.
  - intros a. rewrite fold_left_app. cbn [fold_left]. rewrite Hv. unfold dstep.
    rewrite app_length. cbn [length]. rewrite Nat.add_1_r, Nat2N.inj_succ, N.pow_succ_r'.
    pose proof (N.div_mod' n 10).
    set (q := n / 10) in *. set (p := 10 ^ N.of_nat (length ds)) in *. set (m := n mod 10) in *. lia.
Qed.

Lemma digits_fuel_S f n acc :
  digits_fuel (S f) n acc =
  if n <? 10 then (48 + n mod 10) :: acc else digits_fuel f (n / 10) ((48 + n mod 10) :: acc).
Proof. reflexivity. Qed.

Lemma digits_fuel_spec f : forall n acc, n < 2 ^ N.of_nat (S f) -> dspec n acc (digits_fuel (S f) n acc).
Proof.
  induction f as [|f IH]; intros n acc Hn; rewrite digits_fuel_S; destruct (n <? 10) eqn:E.
  - apply dspec_small; lia.
  - change (2 ^ N.of_nat 1) with 2 in Hn. lia.
  - apply dspec_small; lia.
  - apply dspec_step; [lia|]. apply IH.
    rewrite Nat2N.inj_succ, N.pow_succ_r' in Hn.
    pose proof (N.div_mod' n 10). pose proof (N.mod_lt n 10 ltac:(lia)).
    set (q := n / 10) in *. set (p := 2 ^ N.of_nat (S f)) in *. lia.
Qed.

Lemma print_N_spec n :
  Forall digit (print_N n) /\
  (exists d0 t, print_N n = d0 :: t /\ (d0 = 48 -> n = 0 /\ t = [])) /\
  digits_val (print_N n) = n.
Proof.
  unfold print_N.
  assert (Hn : n < 2 ^ N.of_nat (S (N.to_nat (N.log2 n)))).
  { rewrite Nat2N.inj_succ, N2Nat.id. destruct n as [|p]; [cbn; lia|].
    apply N.log2_spec. lia. }
  destruct (digits_fuel_spec _ n [] Hn) as [ds [E [Hd [H0 Hv]]]].
  set (out := digits_fuel _ n []) in *. clearbody out.
  rewrite app_nil_r in E. rewrite E. repeat split; auto.
  rewrite digits_val_fold, Hv. lia.
Qed.

Lemma print_N_digits n : Forall digit (print_N n).
Proof. apply print_N_spec. Qed.

Lemma print_N_nonempty n : print_N n <> [].
Proof. destruct (print_N_spec n) as [_ [[d0 [t [E _]]] _]]. rewrite E. discriminate. Qed.

(* no leading zero unless the number is 0 (and then the text is exactly "0") *)
Lemma print_N_no_leading_zero n t : print_N n = 48 :: t -> n = 0 /\ t = [].
Proof.
  destruct (print_N_spec n) as [_ [[d0 [t' [E H0]]] _]]. rewrite E. intros H; inversion H; subst. auto.
Qed.

Lemma print_N_0 : print_N 0 = [48].
Proof. reflexivity. Qed.

Lemma digits_val_print_N n : digits_val (print_N n) = n.
Proof. apply print_N_spec. Qed.

Theorem parse_print_N n : parse_N (print_N n) = Some n.
Proof.
  unfold parse_N. pose proof (print_N_nonempty n). destruct (print_N n) as [|b t] eqn:E; [congruence|].
  rewrite <- E. rewrite (parse_digits_fold _ (print_N_digits n)).
  rewrite <- digits_val_fold, digits_val_print_N. reflexivity.
Qed.

Lemma print_N_JInt n : JInt (print_N n).
Proof.
  destruct (print_N_spec n) as [Hd [[d0 [t [E H0]]] _]]. rewrite E in *.
  inversion Hd; subst. destruct (N.eq_dec d0 48) as [->|Hne].
  - destruct (H0 eq_refl) as [_ ->]. constructor.
  - constructor; auto. unfold digit in *. lia.
Qed.

Lemma print_N_head_digit n : exists d t, print_N n = d :: t /\ digit d.
Proof.
  destruct (print_N_spec n) as [Hd [[d0 [t [E _]]] _]]. rewrite E in Hd. inversion Hd; subst. eauto.
Qed.

Lemma digit_cases d : digit d ->
  d = 48 \/ d = 49 \/ d = 50 \/ d = 51 \/ d = 52 \/ d = 53 \/ d = 54 \/ d = 55 \/ d = 56 \/ d = 57.
Proof. unfold digit. lia. Qed.

Theorem parse_print_Z z : parse_Z (print_Z z) = Some z.
Proof.
  unfold print_Z. destruct (z <? 0)%Z eqn:E.
  - cbn [parse_Z]. rewrite parse_print_N. f_equal. lia.
  - destruct (print_N_head_digit (Z.to_N z)) as [d [t [Ep Hd]]].
    assert (H : parse_Z (print_N (Z.to_N z)) =
                match parse_N (print_N (Z.to_N z)) with Some n => Some (Z.of_N n) | None => None end).
    { rewrite Ep. apply digit_cases in Hd.
      repeat (destruct Hd as [-> | Hd]; [reflexivity|]). subst d. reflexivity. }
    rewrite H, parse_print_N. f_equal. lia.
Qed.

(* ---------------- printed integers are JSON numbers ---------------- *)

Definition int_parts (neg : bool) (n : N) : numparts :=
  {| np_neg := neg; np_int := print_N n; np_frac := None; np_exp := None |}.

Lemma int_parts_wf neg n : np_wf (int_parts neg n).
Proof. unfold np_wf, int_parts; cbn. split; [apply print_N_JInt|auto]. Qed.

Lemma int_parts_text neg n : np_text (int_parts neg n) = (if neg then [45] else []) ++ print_N n.
Proof. unfold np_text, int_parts; cbn [np_neg np_int np_frac np_exp]. rewrite !app_nil_r. reflexivity. Qed.

Lemma print_Z_parts z : print_Z z = np_text (int_parts (z <? 0)%Z (Z.to_N (Z.abs z))).
Proof.
  rewrite int_parts_text. unfold print_Z. destruct (z <? 0)%Z eqn:E; cbn [app]; do 2 f_equal; lia.
Qed.

Theorem print_N_JNumber n : JNumber (print_N n).
Proof.
  apply JNumber_np. exists (int_parts false n). split; [apply int_parts_wf|apply int_parts_text].
Qed.

Theorem print_Z_JNumber z : JNumber (print_Z z).
Proof. apply JNumber_np. eexists. split; [apply int_parts_wf|symmetry; apply print_Z_parts]. Qed.

Theorem print_Z_Json z : Json (print_Z z) (JNum (print_Z z)).
Proof. apply Json_num, print_Z_JNumber. Qed.

Theorem print_N_Json n : Json (print_N n) (JNum (print_N n)).
Proof. apply Json_num, print_N_JNumber. Qed.

(* the denoted decimal is (z, 0), i.e. z * 10^0 *)
Theorem num_dec_print_Z z : num_dec (print_Z z) = Some (z, 0%Z).
Proof.
  rewrite print_Z_parts, (num_dec_np _ (int_parts_wf _ _)). f_equal.
  unfold np_dec, int_parts; cbn [np_neg np_int np_frac np_exp length]. rewrite app_nil_r, digits_val_print_N.
  destruct (z <? 0)%Z eqn:E; f_equal; lia.
Qed.

Theorem num_dec_print_N n : num_dec (print_N n) = Some (Z.of_N n, 0%Z).
Proof.
  replace (print_N n) with (print_Z (Z.of_N n)); [apply num_dec_print_Z|].
  unfold print_Z. replace (Z.of_N n <? 0)%Z with false by lia. rewrite N2Z.id. reflexivity.
Qed.

Theorem num_value_print_Z z : num_value (print_Z z) = Some (inject_Z z).
Proof.
  unfold num_value. rewrite num_dec_print_Z. cbn [option_map dec_to_Q Z.leb Z.compare].
  rewrite Z.pow_0_r, Z.mul_1_r. reflexivity.
Qed.

Theorem num_value_print_N n : num_value (print_N n) = Some (inject_Z (Z.of_N n)).
Proof.
  unfold num_value. rewrite num_dec_print_N. cbn [option_map dec_to_Q Z.leb Z.compare].
  rewrite Z.pow_0_r, Z.mul_1_r. reflexivity.
Qed.

Lemma is_json_number_print_Z z : is_json_number (print_Z z) = true.
Proof. apply is_json_number_correct, print_Z_JNumber. Qed.

(* printed integers are printable ASCII *)
Lemma print_N_ascii n : Forall (fun b => 32 <= b /\ b < 0x80) (print_N n).
Proof. eapply Forall_impl; [|apply print_N_digits]. unfold digit. intros; lia. Qed.

Lemma print_Z_ascii z : Forall (fun b => 32 <= b /\ b < 0x80) (print_Z z).
Proof. unfold print_Z. destruct (z <? 0)%Z; [constructor; [lia|]|]; apply print_N_ascii. Qed.
