(* The hand model of the CBOR decoder (Enc/CborDec.v) is equal to the
   translation of internal/cbor/decode_stream.go that srcgen regenerates on
   every run (Gen/DecSrc.v).

   Shape.  [interp] (Enc/DecStd.v) runs the hand model's reader programs on the
   translator's [world].  For every translated function f and its hand-written
   counterpart p:   sim (DecSrc.f args) (CborDec.p args)
   i.e. for every world whose remaining input fits in memory the two outcomes
   are the same: same value, same remaining input, same push-back byte, same
   output; an error outcome carries the same error KIND ([abs_err]: the source's
   fmt.Errorf format strings, read as the hand model's [ekind]).  For the
   recursive part (cbor2JsonOneObject / array2Json / map2Json) the statement is
   for every fuel of the hand model on which it does not run out and every
   larger fuel of the translation.  [interp_run] ties [interp] to the [run] the
   C17 / C08 theorems are stated with. *)
From Verif Require Import Base.Prelude Base.Decimal Base.FloatBits Base.GoSem Base.GoEff Enc.JsonEnc Enc.GoStd Enc.CborEnc Enc.CborDec Enc.DecStd Gen.DecSrc Proofs.CborDecP Proofs.SrcDecPureP.
Open Scope Z_scope.

(* ------------------------------------------------------------------ *)
(* errors: the source's format strings as the hand model's kinds        *)
(* ------------------------------------------------------------------ *)
Definition fmt_kinds : list (list N * ekind) := [
  (* Tried to Read %d Bytes.. But hit end of file *)
  ([84;114;105;101;100;32;116;111;32;82;101;97;100;32;37;100;32;66;121;116;101;115;46;46;32;66;117;116;32;104;105;116;32;101;110;100;32;111;102;32;102;105;108;101]%N, EEofReadN);
  (* Invalid length: %d *)
  ([73;110;118;97;108;105;100;32;108;101;110;103;116;104;58;32;37;100]%N, EInvalidLength);
  (* Tried to Read 1 Byte.. But hit end of file *)
  ([84;114;105;101;100;32;116;111;32;82;101;97;100;32;49;32;66;121;116;101;46;46;32;66;117;116;32;104;105;116;32;101;110;100;32;111;102;32;102;105;108;101]%N, EEofRead1);
  (* Invalid Additional Type: %d in decodeInteger (expected <28) *)
  ([73;110;118;97;108;105;100;32;65;100;100;105;116;105;111;110;97;108;32;84;121;112;101;58;32;37;100;32;105;110;32;100;101;99;111;100;101;73;110;116;101;103;101;114;32;40;101;120;112;101;99;116;101;100;32;60;50;56;41]%N, EBadAdditional);
  (* Major type is: %d in decodeInteger!! (expected 0 or 1) *)
  ([77;97;106;111;114;32;116;121;112;101;32;105;115;58;32;37;100;32;105;110;32;100;101;99;111;100;101;73;110;116;101;103;101;114;33;33;32;40;101;120;112;101;99;116;101;100;32;48;32;111;114;32;49;41]%N, EBadMajor);
  (* Incorrect Major type is: %d in decodeFloat *)
  ([73;110;99;111;114;114;101;99;116;32;77;97;106;111;114;32;116;121;112;101;32;105;115;58;32;37;100;32;105;110;32;100;101;99;111;100;101;70;108;111;97;116]%N, EBadMajor);
  (* float16 is not supported in decodeFloat *)
  ([102;108;111;97;116;49;54;32;105;115;32;110;111;116;32;115;117;112;112;111;114;116;101;100;32;105;110;32;100;101;99;111;100;101;70;108;111;97;116]%N, EFloat16);
  (* Invalid Additional Type: %d in decodeFloat *)
  ([73;110;118;97;108;105;100;32;65;100;100;105;116;105;111;110;97;108;32;84;121;112;101;58;32;37;100;32;105;110;32;100;101;99;111;100;101;70;108;111;97;116]%N, EBadAdditional);
  (* Major type is: %d in decodeString *)
  ([77;97;106;111;114;32;116;121;112;101;32;105;115;58;32;37;100;32;105;110;32;100;101;99;111;100;101;83;116;114;105;110;103]%N, EBadMajor);
  (* Major type is: %d in decodeUTF8String *)
  ([77;97;106;111;114;32;116;121;112;101;32;105;115;58;32;37;100;32;105;110;32;100;101;99;111;100;101;85;84;70;56;83;116;114;105;110;103]%N, EBadMajor);
  (* Major type is: %d in array2Json *)
  ([77;97;106;111;114;32;116;121;112;101;32;105;115;58;32;37;100;32;105;110;32;97;114;114;97;121;50;74;115;111;110]%N, EBadMajor);
  (* Major type is: %d in map2Json *)
  ([77;97;106;111;114;32;116;121;112;101;32;105;115;58;32;37;100;32;105;110;32;109;97;112;50;74;115;111;110]%N, EBadMajor);
  (* Major type is: %d in decodeTagData *)
  ([77;97;106;111;114;32;116;121;112;101;32;105;115;58;32;37;100;32;105;110;32;100;101;99;111;100;101;84;97;103;68;97;116;97]%N, EBadMajor);
  (* Unsupported embedded Type: %d in decodeEmbeddedCBOR *)
  ([85;110;115;117;112;112;111;114;116;101;100;32;101;109;98;101;100;100;101;100;32;84;121;112;101;58;32;37;100;32;105;110;32;100;101;99;111;100;101;69;109;98;101;100;100;101;100;67;66;79;82]%N, EUnsupportedEmbedded);
  (* Unsupported Additional Tag Type: %d in decodeTagData *)
  ([85;110;115;117;112;112;111;114;116;101;100;32;65;100;100;105;116;105;111;110;97;108;32;84;97;103;32;84;121;112;101;58;32;37;100;32;105;110;32;100;101;99;111;100;101;84;97;103;68;97;116;97]%N, EUnsupportedTag);
  (* Unsupported embedded Type: %d in decodeEmbeddedJSON *)
  ([85;110;115;117;112;112;111;114;116;101;100;32;101;109;98;101;100;100;101;100;32;84;121;112;101;58;32;37;100;32;105;110;32;100;101;99;111;100;101;69;109;98;101;100;100;101;100;74;83;79;78]%N, EUnsupportedEmbedded);
  (* Unexpected Network Address length: %d (expected 4,6,16) *)
  ([85;110;101;120;112;101;99;116;101;100;32;78;101;116;119;111;114;107;32;65;100;100;114;101;115;115;32;108;101;110;103;116;104;58;32;37;100;32;40;101;120;112;101;99;116;101;100;32;52;44;54;44;49;54;41]%N, EBadNetAddrLen);
  (* IP Prefix is NOT of MAP of 1 elements as expected *)
  ([73;80;32;80;114;101;102;105;120;32;105;115;32;78;79;84;32;111;102;32;77;65;80;32;111;102;32;49;32;101;108;101;109;101;110;116;115;32;97;115;32;101;120;112;101;99;116;101;100]%N, EBadPrefixShape);
  (* Unsupported Additional Type: %d in decodeTagData *)
  ([85;110;115;117;112;112;111;114;116;101;100;32;65;100;100;105;116;105;111;110;97;108;32;84;121;112;101;58;32;37;100;32;105;110;32;100;101;99;111;100;101;84;97;103;68;97;116;97]%N, EUnsupportedTagAdditional);
  (* TS format is neither int nor float: %d *)
  ([84;83;32;102;111;114;109;97;116;32;105;115;32;110;101;105;116;104;101;114;32;105;110;116;32;110;111;114;32;102;108;111;97;116;58;32;37;100]%N, ETSFormat);
  (* Major type is: %d in decodeSimpleFloat *)
  ([77;97;106;111;114;32;116;121;112;101;32;105;115;58;32;37;100;32;105;110;32;100;101;99;111;100;101;83;105;109;112;108;101;70;108;111;97;116]%N, EBadMajor);
  (* Invalid Float precision from decodeFloat: %d *)
  ([73;110;118;97;108;105;100;32;70;108;111;97;116;32;112;114;101;99;105;115;105;111;110;32;102;114;111;109;32;100;101;99;111;100;101;70;108;111;97;116;58;32;37;100]%N, EFloatPrecision);
  (* Invalid Additional Type: %d in decodeSimpleFloat *)
  ([73;110;118;97;108;105;100;32;65;100;100;105;116;105;111;110;97;108;32;84;121;112;101;58;32;37;100;32;105;110;32;100;101;99;111;100;101;83;105;109;112;108;101;70;108;111;97;116]%N, EBadAdditional)].

Fixpoint lookup_fmt (s : list N) (t : list (list N * ekind)) : option ekind :=
  match t with
  | [] => None
  | (f, k) :: t' => if list_eqb N.eqb s f then Some k else lookup_fmt s t'
  end.
Definition all_kinds : list ekind :=
  [EEofRead1; EEofReadN; EEofPeek; EInvalidLength; EBadAdditional; EBadMajor; EFloat16; EUnsupportedTag;
   EUnsupportedTagAdditional; EUnsupportedEmbedded; EBadNetAddrLen; EBadPrefixShape; ETSFormat; EFloatPrecision; EOracleMissing].
Definition abs_err (e : errv) : option ekind :=
  match e with
  | ErrEOF => Some EEofPeek
  | ErrFmt [c] => find (fun k => (kind_code k =? c)%N) all_kinds
  | ErrFmt s => lookup_fmt s fmt_kinds
  | ErrNamed _ => None
  end.
Lemma abs_conc k : abs_err (conc_err k) = Some k.
Proof. destruct k; reflexivity. Qed.

Inductive nres (A : Type) :=
| NOk (a : A) (w : world) | NErr (k : option ekind) (out : list N) | NPanic (out : list N) | NFuel | NUnsup.
Arguments NOk {A}. Arguments NErr {A}. Arguments NPanic {A}. Arguments NFuel {A}. Arguments NUnsup {A}.
Definition norm {A} (r : eres A) : nres A :=
  match r with
  | EOk a w => NOk a w | EErr e w => NErr (abs_err e) (w_out w) | EPanic w => NPanic (w_out w) | EFuel => NFuel | EUnsup => NUnsup
  end.
(* after an error or a run-time panic nothing reads the input again (the panic unwinds to the deferred recover
   of Cbor2JsonManyObjects, which returns): the outcome is the error kind and what has been written *)

Lemma norm_ok_inv {A} (r : eres A) a w : norm r = NOk a w -> r = EOk a w.
Proof. destruct r; cbn; intros H; inversion H; reflexivity. Qed.

(* ------------------------------------------------------------------ *)
(* interp: bind, the input only shrinks                                 *)
(* ------------------------------------------------------------------ *)
Lemma interp_pbind {A B} (p : prog A) (f : A -> prog B) : forall w,
  interp (pbind p f) w = ebind (interp p) (fun a => interp (f a)) w.
Proof.
  induction p as [a|k|k| |k IH|k IH|k IH|n k IH|n k IH|bs k IH]; intros w; cbn [pbind interp]; unfold ebind; cbn [interp]; auto.
  - destruct (s_rest (w_in w)); auto. apply IH.
  - destruct (s_rest (w_in w)); auto. apply IH.
  - destruct (s_rest (w_in w)); auto. apply IH.
  - destruct (n <=? 0); [apply IH|]. destruct (split_at (s_rest (w_in w)) (Z.to_N n) []) as [[bs r]|]; auto. apply IH.
  - apply IH.
  - apply IH.
Qed.

Definition restlen (w : world) : Z := lenZ (s_rest (w_in w)).
Definition bytes (l : list N) : Prop := Forall (fun b => (b < 256)%N) l.
(* the remaining input fits in memory and consists of bytes *)
Definition fitsw (w : world) : Prop := restlen w < 2 ^ 60 /\ bytes (s_rest (w_in w)).

Lemma interp_suffix {A} (p : prog A) : forall w a w', interp p w = EOk a w' -> exists pre, s_rest (w_in w) = pre ++ s_rest (w_in w').
Proof.
  induction p as [a|k|k| |k IH|k IH|k IH|n k IH|n k IH|bs k IH]; intros w a' w'; cbn [interp]; try discriminate.
  - intros H; inversion H; subst. exists []. reflexivity.
  - destruct (s_rest (w_in w)) as [|b t] eqn:E; [discriminate|]. intros H. apply IH in H. cbn [set_in w_in s_rest] in H.
    destruct H as [pre H]. exists (b :: pre). rewrite H. reflexivity.
  - destruct (s_rest (w_in w)) as [|b t] eqn:E; [discriminate|]. intros H. apply IH in H. cbn [set_in w_in s_rest] in H. exact H.
  - destruct (s_rest (w_in w)) as [|b t] eqn:E; [discriminate|]. intros H. apply IH in H. cbn [set_in w_in s_rest] in H. exact H.
  - destruct (n <=? 0); [apply IH|]. destruct (split_at (s_rest (w_in w)) (Z.to_N n) []) as [[bs r]|] eqn:E; [|discriminate].
    intros H. apply IH in H. cbn [set_in w_in s_rest] in H. apply split_at_some in E. destruct E as [E _]. destruct H as [pre H].
    exists (bs ++ pre). rewrite E, H, app_assoc. reflexivity.
  - apply IH.
  - intros H. apply IH in H. cbn [w_in] in H. exact H.
Qed.

Lemma bytes_app a b : bytes (a ++ b) <-> bytes a /\ bytes b.
Proof. unfold bytes. apply Forall_app. Qed.

Lemma interp_fits {A} (p : prog A) w a w' : fitsw w -> interp p w = EOk a w' -> fitsw w'.
Proof.
  unfold fitsw, restlen. intros [H1 H2] E. apply interp_suffix in E. destruct E as [pre E]. rewrite E in H1, H2.
  rewrite lenZ_app in H1. apply bytes_app in H2. pose proof (lenZ_nonneg pre). split; [lia|tauto].
Qed.

(* ------------------------------------------------------------------ *)
(* sim                                                                   *)
(* ------------------------------------------------------------------ *)
Definition sim {A} (m : M A) (p : prog A) : Prop := forall w, fitsw w -> norm (m w) = norm (interp p w).
Definition post {A} (p : prog A) (Q : A -> Prop) : Prop := forall w a w', fitsw w -> interp p w = EOk a w' -> Q a.

Lemma post_true {A} (p : prog A) : post p (fun _ => True).
Proof. intros w a w' _ _. exact I. Qed.

Lemma sim_bind {A B} (m : M A) (p : prog A) (Q : A -> Prop) (k : A -> M B) (k' : A -> prog B) :
  sim m p -> post p Q -> (forall a, Q a -> sim (k a) (k' a)) -> sim (ebind m k) (pbind p k').
Proof.
  intros Hm HQ Hk w Hw. rewrite interp_pbind. unfold ebind. specialize (Hm w Hw).
  destruct (interp p w) as [a w'|e w'|w'| |] eqn:E.
  - apply norm_ok_inv in Hm. rewrite Hm. apply Hk; [eapply HQ; eauto|eapply interp_fits; eauto].
  - destruct (m w); cbn in Hm |- *; inversion Hm; subst; reflexivity.
  - destruct (m w); cbn in Hm |- *; inversion Hm; subst; reflexivity.
  - destruct (m w); cbn in Hm |- *; inversion Hm; subst; reflexivity.
  - destruct (m w); cbn in Hm |- *; inversion Hm; subst; reflexivity.
Qed.

Lemma sim_bind0 {A B} (m : M A) (p : prog A) (k : A -> M B) (k' : A -> prog B) :
  sim m p -> (forall a, sim (k a) (k' a)) -> sim (ebind m k) (pbind p k').
Proof. intros Hm Hk. apply (sim_bind m p (fun _ => True)); auto using post_true. Qed.

Lemma sim_ret {A} (a : A) : sim (eret a) (PRet a).
Proof. intros w _. reflexivity. Qed.
Lemma sim_fail {A} s k : abs_err (ErrFmt s) = Some k -> sim (@epanic A (Some (ErrFmt s))) (PFail k).
Proof. intros H w _. cbn [epanic interp norm]. rewrite H, abs_conc. reflexivity. Qed.
Lemma sim_alloc {A} (m : M A) n (p : prog A) : sim m p -> sim m (PAlloc n p).
Proof. intros H w Hw. cbn [interp]. apply H; auto. Qed.

(* postconditions compose *)
Lemma post_bind {A B} (p : prog A) (k : A -> prog B) (Q : B -> Prop) :
  (forall a, post (k a) Q) -> post (pbind p k) Q.
Proof.
  intros Hk w b w' Hw. rewrite interp_pbind. unfold ebind.
  destruct (interp p w) as [a w1|e w1|w1| |] eqn:E; try discriminate.
  intros H. eapply Hk; [|exact H]. eapply interp_fits; eauto.
Qed.
Lemma post_bind2 {A B} (p : prog A) (P : A -> Prop) (k : A -> prog B) (Q : B -> Prop) :
  post p P -> (forall a, P a -> post (k a) Q) -> post (pbind p k) Q.
Proof.
  intros Hp Hk w b w' Hw. rewrite interp_pbind. unfold ebind.
  destruct (interp p w) as [a w1|e w1|w1| |] eqn:E; try discriminate.
  intros H. eapply Hk; [eapply Hp; eauto| |exact H]. eapply interp_fits; eauto.
Qed.

(* ------------------------------------------------------------------ *)
(* readByte, readNBytes                                                  *)
(* ------------------------------------------------------------------ *)
Lemma set_in_eta l last out : set_in (mkworld (mkstream l last) out) = fun s => mkworld s out.
Proof. reflexivity. Qed.

Lemma readByte_sim : sim DecSrc.readByte CborDec.readByte.
Proof.
  intros [[l last] out] _. unfold DecSrc.readByte, CborDec.readByte, ebind, bufio_ReadByte. cbn.
  destruct l as [|b t]; reflexivity.
Qed.

Definition fmtReadN : list N :=
  [84;114;105;101;100;32;116;111;32;82;101;97;100;32;37;100;32;66;121;116;101;115;46;46;32;66;117;116;32;104;105;116;32;101;110;100;32;111;102;32;102;105;108;101]%N.

Lemma last_byte_cons b bs : last_byte (b :: bs) = match bs with [] => Some b | _ => last_byte bs end.
Proof. destruct bs; reflexivity. Qed.

Lemma split_at_0 l acc : split_at l 0 acc = Some (rev' acc, l).
Proof. destruct l; reflexivity. Qed.

Lemma split_at_cons b t n : (0 < n)%N ->
  split_at (b :: t) n [] = match split_at t (n - 1) [] with Some (bs, r) => Some (b :: bs, r) | None => None end.
Proof.
  intros Hn. rewrite !split_at_spec. cbn [length].
  replace (N.of_nat (S (length t)) <? n)%N with (N.of_nat (length t) <? n - 1)%N by lia.
  destruct (N.of_nat (length t) <? n - 1)%N; [reflexivity|].
  replace (N.to_nat n) with (S (N.to_nat (n - 1))) by lia. reflexivity.
Qed.

Lemma readN_loop : forall fuel n ret i l last out,
  0 <= i <= n -> n < 2 ^ 63 -> (Z.to_nat (n - i) < fuel)%nat ->
  readNBytes_loop1 fuel n ret i (mkworld (mkstream l last) out) =
   match split_at l (Z.to_N (n - i)) [] with
   | Some (bs, r) => EOk (LExit (ret ++ bs, n)) (mkworld (mkstream r (if i <? n then last_byte bs else last)) out)
   | None => EErr (ErrFmt fmtReadN) (mkworld (mkstream [] None) out)
   end.
Proof.
  induction fuel as [|fuel IH]; intros n ret i l last out Hi Hn Hf; [lia|].
  cbn [readNBytes_loop1]. destruct (i <? n) eqn:Ei.
  2:{ assert (i = n) by lia. subst i. rewrite Z.sub_diag. change (Z.to_N 0) with 0%N. rewrite split_at_0.
      unfold eret. cbn. rewrite app_nil_r. reflexivity. }
  unfold ebind at 1. unfold bufio_ReadByte. cbn [w_in s_rest set_in w_out].
  destruct l as [|b t].
  - cbn [err_isnil negb]. unfold epanic. rewrite split_at_spec. cbn [length].
    replace (N.of_nat 0 <? Z.to_N (n - i))%N with true by lia. reflexivity.
  - cbn [err_isnil negb]. cbv zeta. unfold set_in. cbn [w_out]. rewrite wraps64_id by lia.
    rewrite IH by lia. rewrite split_at_cons by lia.
    replace (Z.to_N (n - i) - 1)%N with (Z.to_N (n - (i + 1))) by lia.
    destruct (split_at t (Z.to_N (n - (i + 1))) []) as [[bs r]|] eqn:E; [|reflexivity].
    rewrite <- app_assoc. cbn [app]. rewrite last_byte_cons.
    destruct (i + 1 <? n) eqn:E2.
    + apply split_at_some in E. destruct E as [_ E]. destruct bs as [|x bs]; [cbn in E; lia|]. reflexivity.
    + apply split_at_some in E. destruct E as [_ E]. destruct bs as [|x bs]; [reflexivity|cbn [length] in E; lia].
Qed.

Lemma readNBytes_sim n : n < 2 ^ 63 -> sim (DecSrc.readNBytes n) (CborDec.readNBytes n).
Proof.
  intros Hn [[l last] out] _. unfold DecSrc.readNBytes, CborDec.readNBytes, maxPrealloc.
  destruct (n <? 0) eqn:E0; [reflexivity|].
  assert (Hloop : forall pre, 0 <= pre ->
     norm (eguard ((0 <=? 0) && (0 <=? pre))
             (let ret := repeat 0%N (Z.to_nat 0) in let i := 0 in
              elbind (readNBytes_loop1 (S (Z.to_nat (n - i + 1))) n ret i) (fun '(ret, _) => eret ret))
             (mkworld (mkstream l last) out)) =
     norm (interp (PReadN n (fun bs => PRet bs)) (mkworld (mkstream l last) out))).
  { intros pre Hp. replace ((0 <=? 0) && (0 <=? pre)) with true by lia. cbn [eguard]. cbv zeta.
    unfold elbind, ebind. rewrite readN_loop by lia. cbn [repeat Z.to_nat app interp w_in s_rest set_in].
    rewrite Z.sub_0_r. destruct (n <=? 0) eqn:E1.
    - assert (n = 0) by lia. subst n. change (Z.to_N 0) with 0%N. rewrite split_at_0. reflexivity.
    - destruct (split_at l (Z.to_N n) []) as [[bs r]|]; [|reflexivity].
      replace (0 <? n) with true by lia. reflexivity. }
  destruct (4096 <? n) eqn:E1; cbv zeta.
  - replace (4096 <? 0) with false by reflexivity. cbn [interp]. apply Hloop. lia.
  - replace (n <? 0) with false by lia. cbn [interp]. apply Hloop. lia.
Qed.

Lemma readNBytes_post n : post (CborDec.readNBytes n) (fun bs => lenZ bs = Z.max 0 n /\ lenZ bs < 2 ^ 60 /\ bytes bs).
Proof.
  intros [[l last] out] bs w' [Hw Hb]. unfold CborDec.readNBytes, maxPrealloc. unfold restlen in Hw. cbn [w_in s_rest] in Hw, Hb.
  destruct (n <? 0) eqn:E0; [discriminate|].
  destruct ((if 4096 <? n then 4096 else n) <? 0); [discriminate|]. cbn [interp w_in s_rest].
  destruct (n <=? 0) eqn:E1.
  - intros H; inversion H; subst. unfold lenZ. cbn. repeat split; try lia. constructor.
  - destruct (split_at l (Z.to_N n) []) as [[bs' r]|] eqn:E; [|discriminate]. intros H; inversion H; subst.
    apply split_at_some in E. destruct E as [E1' E2]. subst l. rewrite lenZ_app in Hw. apply bytes_app in Hb.
    pose proof (lenZ_nonneg r). unfold lenZ in *. repeat split; try lia. tauto.
Qed.

(* ------------------------------------------------------------------ *)
(* decodeIntAdditionalType, decodeInteger                               *)
(* ------------------------------------------------------------------ *)
Lemma wraps64_eq z : wraps 64 z = wrap64 z.
Proof. reflexivity. Qed.

Lemma idx_skipn (pb : list N) i : 0 <= i < lenZ pb ->
  skipn (Z.to_nat i) pb = idx 0%N pb i :: skipn (Z.to_nat (i + 1)) pb.
Proof. intros H. apply skipn_idx. unfold GoSem.len, lenZ in *. lia. Qed.

Lemma intAT_loop : forall fuel k pb val i w,
  lenZ pb = k -> 0 <= i <= k -> k < 2 ^ 62 -> (Z.to_nat (k - i) < fuel)%nat ->
  decodeIntAdditionalType_loop1 fuel k pb val i w =
    EOk (LExit (fold_left (fun v b => wrap64 (wrap64 (v * 256) + Z.of_N b)) (skipn (Z.to_nat i) pb) val, k)) w.
Proof.
  induction fuel as [|fuel IH]; intros k pb val i w Hl Hi Hk Hf; [lia|].
  cbn [decodeIntAdditionalType_loop1]. destruct (i <? k) eqn:Ei.
  2:{ assert (i = k) by lia. subst i. rewrite <- Hl. unfold lenZ. rewrite Nat2Z.id, skipn_all. reflexivity. }
  cbv zeta. unfold inb. replace ((0 <=? i) && (i <? GoSem.len pb)) with true by (unfold GoSem.len, lenZ in *; lia).
  cbn [eguard]. rewrite (wraps64_id (i + 1)) by lia. rewrite IH by lia.
  rewrite (idx_skipn pb i) by lia. cbn [fold_left]. rewrite !wraps64_eq. reflexivity.
Qed.

Lemma firstn_all_lenZ {A} (l : list A) k : lenZ l = Z.of_nat k -> firstn k l = l.
Proof. intros H. apply firstn_all2. unfold lenZ in H. lia. Qed.

Lemma intAT_go_sim (k : nat) : (0 < k <= 8)%nat ->
  sim (ebind (DecSrc.readNBytes (Z.of_nat k)) (fun r2 => let pb := r2 in let i := 0 in
         elbind (decodeIntAdditionalType_loop1 (S (Z.to_nat (Z.of_nat k - i + 1))) (Z.of_nat k) pb 0 i) (fun '(val, _) => eret val)))
      (pb <- CborDec.readNBytes (Z.of_nat k) ;; if index_ok k pb then PRet (acc64 (firstn k pb)) else PCrash PIndexRange).
Proof.
  intros Hk. eapply sim_bind; [apply readNBytes_sim; lia|apply readNBytes_post|].
  intros pb [Hl _] w _. cbv zeta. unfold elbind, ebind. rewrite intAT_loop by lia.
  cbn [skipn Z.to_nat]. rewrite index_ok_true by lia. rewrite firstn_all_lenZ by lia. reflexivity.
Qed.

Lemma decodeIntAT_sim minor : sim (DecSrc.decodeIntAdditionalType minor) (CborDec.decodeIntAdditionalType minor).
Proof.
  unfold DecSrc.decodeIntAdditionalType, CborDec.decodeIntAdditionalType. cbv zeta.
  destruct (minor <=? 23)%N; [apply sim_ret|].
  change additionalTypeIntUint8 with 24%N. change additionalTypeIntUint16 with 25%N.
  change additionalTypeIntUint32 with 26%N. change additionalTypeIntUint64 with 27%N.
  destruct (minor =? 24)%N; [apply (intAT_go_sim 1); lia|].
  destruct (minor =? 25)%N; [apply (intAT_go_sim 2); lia|].
  destruct (minor =? 26)%N; [apply (intAT_go_sim 4); lia|].
  destruct (minor =? 27)%N; [apply (intAT_go_sim 8); lia|].
  apply sim_fail. reflexivity.
Qed.

Lemma decodeInteger_sim : sim DecSrc.decodeInteger CborDec.decodeInteger.
Proof.
  unfold DecSrc.decodeInteger, CborDec.decodeInteger. apply sim_bind0; [apply readByte_sim|]. intros pb. cbv zeta.
  unfold major_of, minor_of. change majorTypeUnsignedInt with 0%N. change majorTypeNegativeInt with 32%N.
  destruct (negb (N.land pb 224 =? 0)%N && negb (N.land pb 224 =? 32)%N); [apply sim_fail; reflexivity|].
  apply sim_bind0; [apply decodeIntAT_sim|]. intros val.
  destruct (N.land pb 224 =? 0)%N; [apply sim_ret|]. rewrite wraps64_eq. apply sim_ret.
Qed.

(* a hand-model function whose result the source carries in another representation *)
Lemma sim_bind_map {A A' B} (m : M A') (p : prog A) (g : A -> A') (Q : A -> Prop) (k : A' -> M B) (k' : A -> prog B) :
  sim m (a <- p ;; PRet (g a)) -> post p Q -> (forall a, Q a -> sim (k (g a)) (k' a)) -> sim (ebind m k) (pbind p k').
Proof.
  intros Hm HQ Hk w Hw. rewrite interp_pbind. unfold ebind. specialize (Hm w Hw). rewrite interp_pbind in Hm. unfold ebind in Hm.
  destruct (interp p w) as [a w'|e w'|w'| |] eqn:E.
  - cbn [interp] in Hm. apply norm_ok_inv in Hm. rewrite Hm. apply Hk; [eapply HQ; eauto|eapply interp_fits; eauto].
  - destruct (m w); cbn in Hm |- *; inversion Hm; subst; reflexivity.
  - destruct (m w); cbn in Hm |- *; inversion Hm; subst; reflexivity.
  - destruct (m w); cbn in Hm |- *; inversion Hm; subst; reflexivity.
  - destruct (m w); cbn in Hm |- *; inversion Hm; subst; reflexivity.
Qed.

(* ------------------------------------------------------------------ *)
(* decodeFloat                                                          *)
(* ------------------------------------------------------------------ *)
Definition fl_of (wb : fwidth * N) : gofl * Z :=
  match fst wb with
  | W32 => (fl_to64 {| fl32 := true; flbits := snd wb |}, 4)
  | W64 => ({| fl32 := false; flbits := snd wb |}, 8)
  end.

Lemma float_loop1 : forall fuel pb n i w,
  lenZ pb = 4 -> 0 <= i <= 4 -> (Z.to_nat (4 - i) < fuel)%nat ->
  decodeFloat_loop1 fuel pb n i w =
    EOk (LExit (fold_left (fun v b => ((v * 256 + b) mod 2 ^ 32)%N) (skipn (Z.to_nat i) pb) n, 4)) w.
Proof.
  induction fuel as [|fuel IH]; intros pb n i w Hl Hi Hf; [lia|].
  cbn [decodeFloat_loop1]. destruct (i <? 4) eqn:Ei.
  2:{ assert (i = 4) by lia. subst i. replace (Z.to_nat 4) with (length pb) by (unfold lenZ in Hl; lia). rewrite skipn_all. reflexivity. }
  cbv zeta. unfold inb. replace ((0 <=? i) && (i <? GoSem.len pb)) with true by (unfold GoSem.len, lenZ in *; lia).
  cbn [eguard]. rewrite (wraps64_id (i + 1)) by lia. rewrite IH by lia.
  rewrite (idx_skipn pb i) by lia. cbn [fold_left]. unfold wrapu. rewrite N.add_mod_idemp_l by (cbv; discriminate). reflexivity.
Qed.

Lemma float_loop2 : forall fuel pb n i w,
  lenZ pb = 8 -> 0 <= i <= 8 -> (Z.to_nat (8 - i) < fuel)%nat ->
  decodeFloat_loop2 fuel pb n i w =
    EOk (LExit (fold_left (fun v b => ((v * 256 + b) mod 2 ^ 64)%N) (skipn (Z.to_nat i) pb) n, 8)) w.
Proof.
  induction fuel as [|fuel IH]; intros pb n i w Hl Hi Hf; [lia|].
  cbn [decodeFloat_loop2]. destruct (i <? 8) eqn:Ei.
  2:{ assert (i = 8) by lia. subst i. replace (Z.to_nat 8) with (length pb) by (unfold lenZ in Hl; lia). rewrite skipn_all. reflexivity. }
  cbv zeta. unfold inb. replace ((0 <=? i) && (i <? GoSem.len pb)) with true by (unfold GoSem.len, lenZ in *; lia).
  cbn [eguard]. rewrite (wraps64_id (i + 1)) by lia. rewrite IH by lia.
  rewrite (idx_skipn pb i) by lia. cbn [fold_left]. unfold wrapu. rewrite N.add_mod_idemp_l by (cbv; discriminate). reflexivity.
Qed.

Lemma list_eqb_len_ne (a b : list N) : length a <> length b -> list_eqb N.eqb a b = false.
Proof.
  revert b; induction a as [|x a IH]; intros [|y b] H; cbn in *; try congruence.
  rewrite IH by lia. apply Bool.andb_false_r.
Qed.

Lemma interp_assoc {A B C} (p : prog A) (k1 : A -> prog B) (k2 : B -> prog C) w :
  interp (pbind (pbind p k1) k2) w = interp (pbind p (fun a => pbind (k1 a) k2)) w.
Proof.
  rewrite (interp_pbind (pbind p k1) k2). unfold ebind. rewrite (interp_pbind p k1), (interp_pbind p (fun a => pbind (k1 a) k2)). unfold ebind.
  destruct (interp p w); auto. rewrite interp_pbind. reflexivity.
Qed.
Lemma sim_assoc {A B C} (m : M C) (p : prog A) (k1 : A -> prog B) (k2 : B -> prog C) :
  sim m (pbind p (fun a => pbind (k1 a) k2)) -> sim m (pbind (pbind p k1) k2).
Proof. intros H w Hw. rewrite interp_assoc. apply H; auto. Qed.

Lemma decodeFloat_sim : sim DecSrc.decodeFloat (wb <- CborDec.decodeFloat ;; PRet (fl_of wb)).
Proof.
  unfold DecSrc.decodeFloat, CborDec.decodeFloat. apply sim_assoc. apply sim_bind0; [apply readByte_sim|]. intros pb. cbv zeta.
  unfold major_of, minor_of. change majorTypeSimpleAndFloat with 224%N. change additionalTypeFloat16 with 25%N.
  change additionalTypeFloat32 with 26%N. change additionalTypeFloat64 with 27%N.
  destruct (negb (N.land pb 224 =? 224)%N); [apply sim_fail; reflexivity|].
  destruct (N.land pb 31 =? 25)%N; [apply sim_fail; reflexivity|].
  destruct (N.land pb 31 =? 26)%N.
  { apply sim_assoc. eapply sim_bind; [apply readNBytes_sim; lia|apply readNBytes_post|].
    intros bs [Hl _] w _. cbv zeta.
    rewrite !list_eqb_len_ne by (unfold lenZ in Hl; cbn [length]; lia).
    unfold elbind, ebind. rewrite float_loop1 by lia. cbn [skipn Z.to_nat].
    rewrite index_ok_true by lia. rewrite firstn_all_lenZ by lia. reflexivity. }
  destruct (N.land pb 31 =? 27)%N.
  { apply sim_assoc. eapply sim_bind; [apply readNBytes_sim; lia|apply readNBytes_post|].
    intros bs [Hl _] w _. cbv zeta.
    rewrite !list_eqb_len_ne by (unfold lenZ in Hl; cbn [length]; lia).
    unfold elbind, ebind. rewrite float_loop2 by lia. cbn [skipn Z.to_nat].
    rewrite index_ok_true by lia. rewrite firstn_all_lenZ by lia. reflexivity. }
  apply sim_fail. reflexivity.
Qed.

(* ------------------------------------------------------------------ *)
(* strings                                                              *)
(* ------------------------------------------------------------------ *)
Lemma post_ret {A} (a : A) (Q : A -> Prop) : Q a -> post (PRet a) Q.
Proof. intros H w a' w' _ E. cbn in E. inversion E; subst. exact H. Qed.
Lemma post_fail {A} k (Q : A -> Prop) : post (PFail k) Q.
Proof. intros w a' w' _ E. discriminate. Qed.
Lemma post_crash {A} k (Q : A -> Prop) : post (PCrash k) Q.
Proof. intros w a' w' _ E. discriminate. Qed.
Lemma post_alloc {A} n (p : prog A) (Q : A -> Prop) : post p Q -> post (PAlloc n p) Q.
Proof. intros H w a' w' Hw E. cbn [interp] in E. eapply H; eauto. Qed.

Lemma decodeIntAT_post minor : post (CborDec.decodeIntAdditionalType minor) (fun v => - 2 ^ 63 <= v < 2 ^ 63).
Proof.
  unfold CborDec.decodeIntAdditionalType.
  destruct (minor <=? 23)%N eqn:E; [apply post_ret; cbv beta; lia|].
  assert (G : forall k, post (pb <- CborDec.readNBytes (Z.of_nat k) ;; if index_ok k pb then PRet (acc64 (firstn k pb)) else PCrash PIndexRange)
                             (fun v => - 2 ^ 63 <= v < 2 ^ 63)).
  { intros k. apply post_bind. intros pb. destruct (index_ok k pb); [|apply post_crash].
    apply post_ret. cbv beta. pose proof (acc64_range (firstn k pb)) as H. unfold two63Z in H. lia. }
  repeat match goal with |- post (if ?c then _ else _) _ => destruct c; [apply G|] end.
  apply post_fail.
Qed.

Lemma sim_lift_ok {A} (r : GoSem.res A) (a : A) : r = Ok a -> sim (lift r) (PRet a).
Proof. intros -> w _. reflexivity. Qed.

Lemma decodeString_sim nq : sim (DecSrc.decodeString nq) (CborDec.decodeString nq).
Proof.
  unfold DecSrc.decodeString, CborDec.decodeString. apply sim_bind0; [apply readByte_sim|]. intros pb. cbv zeta.
  unfold major_of, minor_of. change majorTypeByteString with 64%N.
  destruct (negb (N.land pb 224 =? 64)%N); [apply sim_fail; reflexivity|].
  assert (G : forall result, result = (if nq then [] else [34%N]) ->
    sim (ebind (DecSrc.decodeIntAdditionalType (N.land pb 31)) (fun r2 =>
           ebind (DecSrc.readNBytes r2) (fun r3 => if nq then eret (result ++ r3) else lift (DecSrc.appendQuotedJSON r3))))
        (ln <- CborDec.decodeIntAdditionalType (N.land pb 31) ;; pbs <- CborDec.readNBytes ln ;;
         (if nq then PAlloc (CborEnc.len pbs) (PRet pbs)
          else let q := CborDec.appendQuotedJSON pbs in PAlloc (CborEnc.len q) (PRet q)))).
  { intros result Hr. eapply sim_bind; [apply decodeIntAT_sim|apply decodeIntAT_post|]. intros ln Hln. cbv beta in Hln.
    eapply sim_bind; [apply readNBytes_sim; lia|apply readNBytes_post|]. intros pbs [_ [Hl _]].
    destruct nq.
    - subst result. apply sim_alloc. apply sim_ret.
    - cbv zeta. apply sim_alloc. apply sim_lift_ok. apply appendQuotedJSON_src. unfold GoSem.len, lenZ in *. lia. }
  destruct nq; cbn [negb]; cbv zeta; [apply (G []); reflexivity | apply (G ([] ++ [34%N])); reflexivity].
Qed.

Lemma decodeUTF8String_sim : sim DecSrc.decodeUTF8String CborDec.decodeUTF8String.
Proof.
  unfold DecSrc.decodeUTF8String, CborDec.decodeUTF8String. apply sim_bind0; [apply readByte_sim|]. intros pb. cbv zeta.
  unfold major_of, minor_of. change majorTypeUtf8String with 96%N.
  destruct (negb (N.land pb 224 =? 96)%N); [apply sim_fail; reflexivity|].
  eapply sim_bind; [apply decodeIntAT_sim|apply decodeIntAT_post|]. intros ln Hln. cbv beta in Hln.
  eapply sim_bind; [apply readNBytes_sim; lia|apply readNBytes_post|]. intros pbs [_ [Hl _]].
  apply sim_alloc. apply sim_lift_ok. apply appendQuotedJSON_src. unfold GoSem.len, lenZ in *. lia.
Qed.

(* ------------------------------------------------------------------ *)
(* decodeTagData                                                        *)
(* ------------------------------------------------------------------ *)
Lemma sim_interp {A} (p : prog A) : sim (interp p) p.
Proof. intros w _. reflexivity. Qed.

(* readByte, a test, UnreadByte: the hand model's PPeekRB *)
Lemma sim_peekrb {A} (c : N -> bool) s kd (X : M A) (P : prog A) : abs_err (ErrFmt s) = Some kd -> sim X P ->
  sim (ebind DecSrc.readByte (fun b => if c b then epanic (Some (ErrFmt s)) else ebind bufio_UnreadByte (fun _ => X)))
      (PPeekRB (fun b => if c b then PFail kd else P)).
Proof.
  intros He HX [[l last] out] [Hw Hb]. unfold DecSrc.readByte, ebind, bufio_ReadByte. cbn [w_in s_rest set_in w_out interp].
  destruct l as [|b t]; [reflexivity|]. cbn [err_isnil negb eret].
  destruct (c b).
  - cbn [epanic interp norm w_out]. rewrite He, abs_conc. reflexivity.
  - unfold bufio_UnreadByte. cbn [w_in s_last s_rest set_in w_out]. apply HX. split; assumption.
Qed.

Lemma len_eqb_nat {A} (l : list A) (k : nat) : (GoSem.len l =? Z.of_nat k) = (length l =? k)%nat.
Proof. unfold GoSem.len. destruct (Nat.eqb_spec (length l) k); lia. Qed.

Lemma hexdig_eq n : hexdig n = hex_digit n.
Proof. reflexivity. Qed.

Lemma hex_loop : forall l ss w, bytes l -> decodeTagData_loop1 l ss w = EOk (LExit (ss ++ hexString l)) w.
Proof.
  induction l as [|v l IH]; intros ss w Hb; cbn [decodeTagData_loop1 hexString flat_map].
  - rewrite app_nil_r. reflexivity.
  - inversion Hb as [|? ? Hv Hl]; subst.
    change [48%N; 49%N; 50%N; 51%N; 52%N; 53%N; 54%N; 55%N; 56%N; 57%N; 97%N; 98%N; 99%N; 100%N; 101%N; 102%N] with SrcJsonP.hex_str.
    rewrite !SrcJsonP.shr4, !SrcJsonP.land15.
    assert (H16a : (v / 16 < 16)%N) by (apply N.div_lt_upper_bound; lia).
    assert (H16b : (v mod 16 < 16)%N) by (apply N.mod_lt; lia).
    rewrite !(inb_true SrcJsonP.hex_str) by (change (GoSem.len SrcJsonP.hex_str) with 16; lia). cbn [eguard]. cbv zeta.
    rewrite !SrcJsonP.hex_idx by assumption. rewrite IH by assumption. rewrite <- app_assoc. reflexivity.
Qed.

Lemma ipnet_string_eq octets v :
  ipnet_string octets v =
  net_IPNet_String {| IPNet_IP := octets; IPNet_Mask := net_CIDRMask v (if (length octets =? 4)%nat then 32 else 128) |}.
Proof.
  unfold ipnet_string, net_IPNet_String, net_CIDRMask. cbn [IPNet_IP IPNet_Mask].
  destruct (CIDRMask v (if (length octets =? 4)%nat then 32 else 128)) as [m|]; [reflexivity|].
  destruct (to4 octets); [reflexivity|]. destruct (length octets =? 16)%nat; reflexivity.
Qed.

Lemma decodeString_post nq : post (CborDec.decodeString nq) (fun s => nq = true -> lenZ s < 2 ^ 60 /\ bytes s).
Proof.
  unfold CborDec.decodeString. apply post_bind. intros pb. cbv zeta.
  destruct (negb _); [apply post_fail|]. apply post_bind. intros ln.
  eapply post_bind2; [apply readNBytes_post|]. intros pbs [_ [Hl Hb]].
  destruct nq; apply post_alloc; apply post_ret; [tauto|discriminate].
Qed.

Lemma z2n8 v : z2n 8 v = Z.to_N (v mod 256).
Proof. reflexivity. Qed.
Lemma z2n16 v : z2n 16 v = Z.to_N (v mod 65536).
Proof. reflexivity. Qed.

Lemma decodeTagData_sim Orc : sim (DecSrc.decodeTagData Orc) (CborDec.decodeTagData Orc).
Proof.
  unfold DecSrc.decodeTagData, CborDec.decodeTagData. apply sim_bind0; [apply readByte_sim|]. intros pb. cbv zeta.
  unfold major_of, minor_of. change majorTypeTags with 192%N. change additionalTypeTimestamp with 1%N.
  change additionalTypeIntUint8 with 24%N. change additionalTypeIntUint16 with 25%N.
  change additionalTypeEmbeddedCBOR with 63%N. change additionalTypeEmbeddedJSON with 262%N.
  change additionalTypeTagNetworkAddr with 260%N. change additionalTypeTagNetworkPrefix with 261%N.
  change additionalTypeTagHexString with 263%N. change majorTypeByteString with 64%N. change (N.lor majorTypeMap 1) with 161%N.
  destruct (negb (N.land pb 224 =? 192)%N); [apply sim_fail; reflexivity|].
  destruct (N.land pb 31 =? 1)%N; [apply sim_interp|].
  destruct (N.land pb 31 =? 24)%N.
  { apply sim_bind0; [apply decodeIntAT_sim|]. intros val. rewrite z2n8.
    destruct (Z.to_N (val mod 256) =? 63)%N; [|apply sim_fail; reflexivity].
    apply (sim_peekrb (fun b => negb (N.land b 224 =? 64)%N)); [reflexivity|apply sim_interp]. }
  destruct (N.land pb 31 =? 25)%N; [|apply sim_fail; reflexivity].
  apply sim_bind0; [apply decodeIntAT_sim|]. intros val. rewrite z2n16.
  destruct (Z.to_N (val mod 65536) =? 262)%N.
  { apply (sim_peekrb (fun b => negb (N.land b 224 =? 64)%N)); [reflexivity|apply decodeString_sim]. }
  destruct (Z.to_N (val mod 65536) =? 260)%N.
  { apply sim_bind0; [apply decodeString_sim|]. intros octets.
    change 6 with (Z.of_nat 6). change 4 with (Z.of_nat 4). change 16 with (Z.of_nat 16). rewrite !len_eqb_nat.
    destruct (length octets =? 6)%nat; [apply sim_ret|].
    destruct ((length octets =? 4)%nat || (length octets =? 16)%nat); [apply sim_ret|apply sim_fail; reflexivity]. }
  destruct (Z.to_N (val mod 65536) =? 261)%N.
  { apply sim_bind0; [apply readByte_sim|]. intros pb3.
    destruct (negb (pb3 =? 161)%N); [apply sim_fail; reflexivity|].
    apply sim_bind0; [apply decodeString_sim|]. intros octets.
    apply sim_bind0; [apply decodeInteger_sim|]. intros v.
    rewrite ipnet_string_eq. change 4 with (Z.of_nat 4). rewrite len_eqb_nat.
    destruct (length octets =? 4)%nat; apply sim_ret. }
  destruct (Z.to_N (val mod 65536) =? 263)%N; [|apply sim_fail; reflexivity].
  eapply sim_bind; [apply decodeString_sim|apply decodeString_post|]. intros octets Ho. destruct (Ho eq_refl) as [_ Hb].
  intros w _. unfold elbind, ebind. rewrite hex_loop by assumption. reflexivity.
Qed.

(* ------------------------------------------------------------------ *)
(* decodeSimpleFloat                                                    *)
(* ------------------------------------------------------------------ *)
(* the float texts: the source calls strconv.AppendFloat (oracle fo of the translation), the hand model asks its
   oracle record; the two are the same function *)
Definition orc_agree (Orc : oracle) (fo : float_oracle) : Prop :=
  (forall bits, o_f32 Orc bits = Some (fo (fl_to64 {| fl32 := true; flbits := bits |}) 102%N (-1) 32)) /\
  (forall bits, o_f64 Orc bits = Some (fo {| fl32 := false; flbits := bits |} 102%N (-1) 64)).

Lemma sim_peek_general {A} (K : N -> M A) (K' : N -> prog A) :
  (forall b l last out, fitsw (mkworld (mkstream (b :: l) last) out) ->
     norm (K b (mkworld (mkstream l (Some b)) out)) = norm (interp (K' b) (mkworld (mkstream (b :: l) None) out))) ->
  sim (ebind DecSrc.readByte K) (PPeekRB K').
Proof.
  intros H [[l last] out] Hw. unfold DecSrc.readByte, ebind, bufio_ReadByte. cbn [w_in s_rest set_in w_out interp].
  destruct l as [|b t]; [reflexivity|]. cbn [err_isnil negb eret]. apply (H b t last out Hw).
Qed.

Lemma decodeFloat_post : post CborDec.decodeFloat (fun wb => match fst wb with W32 => (snd wb < 2 ^ 32)%N | W64 => (snd wb < 2 ^ 64)%N end).
Proof.
  unfold CborDec.decodeFloat. apply post_bind. intros pb. cbv zeta.
  assert (HU : forall bits l, (accU bits l < 2 ^ bits)%N).
  { intros bits l. unfold accU. assert (G : forall v, (v < 2 ^ bits)%N -> (fold_left (fun v b => ((v * 256 + b) mod 2 ^ bits)%N) l v < 2 ^ bits)%N).
    { induction l as [|x l IH]; intros v Hv; cbn [fold_left]; auto. apply IH. apply N.mod_lt. apply N.pow_nonzero. discriminate. }
    apply G. apply N.neq_0_lt_0. apply N.pow_nonzero. discriminate. }
  repeat match goal with
  | |- post (if ?c then _ else _) _ => destruct c
  | |- post (PFail _) _ => apply post_fail
  | |- post (PCrash _) _ => apply post_crash
  | |- post (pbind _ _) _ => apply post_bind; intros ?
  | |- post (PRet _) _ => apply post_ret; cbn [fst snd]; apply HU
  end.
Qed.

Lemma fl_isinf_pos bits : fl_isinf {| fl32 := false; flbits := bits |} 1 = (bits =? f64_pos_inf)%N.
Proof. unfold fl_isinf. cbn [fl32 flbits]. change (0 <=? 1) with true. change (1 <=? 0) with false. cbn [andb]. apply Bool.orb_false_r. Qed.
Lemma fl_isinf_neg bits : fl_isinf {| fl32 := false; flbits := bits |} (-1) = (bits =? f64_neg_inf)%N.
Proof. unfold fl_isinf. cbn [fl32 flbits]. change (0 <=? -1) with false. change (-1 <=? 0) with true. cbn [andb orb]. reflexivity. Qed.

Lemma simple_float_tail Orc fo : orc_agree Orc fo ->
  sim (ebind DecSrc.decodeFloat (fun '(v, bc) =>
         let ba : list N := [] in
         if fl_isnan v then eret [34;78;97;78;34]%N
         else if fl_isinf v 1 then eret [34;43;73;110;102;34]%N
         else if fl_isinf v (-1) then eret [34;45;73;110;102;34]%N
         else (let k1 := fun ba : list N => eret ba in
               if (bc =? 4)%Z then (let ba := strconv_AppendFloat fo ba v 102%N (-1) 32 in k1 ba)
               else (if (bc =? 8)%Z then (let ba := strconv_AppendFloat fo ba v 102%N (-1) 64 in k1 ba)
                     else epanic (Some (ErrFmt [73;110;118;97;108;105;100;32;70;108;111;97;116;32;112;114;101;99;105;115;105;111;110;32;102;114;111;109;32;100;101;99;111;100;101;70;108;111;97;116;58;32;37;100]%N))))))
      (wb <- CborDec.decodeFloat ;;
       match fst wb with
       | W32 => if f32_is_nan (snd wb) then PRet lit_NaN else if (snd wb =? f32_pos_inf)%N then PRet lit_pInf
                else if (snd wb =? f32_neg_inf)%N then PRet lit_nInf else ask (o_f32 Orc (snd wb))
       | W64 => if f64_is_nan (snd wb) then PRet lit_NaN else if (snd wb =? f64_pos_inf)%N then PRet lit_pInf
                else if (snd wb =? f64_neg_inf)%N then PRet lit_nInf else ask (o_f64 Orc (snd wb))
       end).
Proof.
  intros [Ho32 Ho64]. eapply sim_bind_map with (g := fl_of); [apply decodeFloat_sim|apply decodeFloat_post|].
  intros [[|] bits] Hb; unfold fl_of; cbn [fst snd] in *; cbv zeta.
  - (* float32 *)
    assert (Hb' : (bits < 4294967296)%N) by exact Hb.
    unfold fl_to64 at 1 2 3. cbn [fl32 flbits].
    change (fl_isnan {| fl32 := false; flbits := widen bits |}) with (isnan64 (widen bits)).
    rewrite widen_nan by assumption. change (isnan32 bits) with (f32_is_nan bits).
    rewrite fl_isinf_pos, fl_isinf_neg.
    change f64_pos_inf with (widen f32_pos_inf). change f64_neg_inf with (widen f32_neg_inf).
    rewrite !widen_eqb by (assumption || (cbv; reflexivity)).
    destruct (f32_is_nan bits); [apply sim_ret|].
    destruct (bits =? f32_pos_inf)%N; [apply sim_ret|].
    destruct (bits =? f32_neg_inf)%N; [apply sim_ret|].
    change (4 =? 4) with true. cbv iota. rewrite Ho32. unfold strconv_AppendFloat. cbn [app ask]. apply sim_ret.
  - (* float64 *)
    change (fl_isnan {| fl32 := false; flbits := bits |}) with (f64_is_nan bits).
    rewrite fl_isinf_pos, fl_isinf_neg.
    destruct (f64_is_nan bits); [apply sim_ret|].
    destruct (bits =? f64_pos_inf)%N; [apply sim_ret|].
    destruct (bits =? f64_neg_inf)%N; [apply sim_ret|].
    change (8 =? 4) with false. change (8 =? 8) with true. cbv iota. rewrite Ho64. unfold strconv_AppendFloat. cbn [app ask]. apply sim_ret.
Qed.

Lemma decodeSimpleFloat_sim Orc fo : orc_agree Orc fo -> sim (DecSrc.decodeSimpleFloat fo) (CborDec.decodeSimpleFloat Orc).
Proof.
  intros Ho. unfold DecSrc.decodeSimpleFloat, CborDec.decodeSimpleFloat. apply sim_peek_general.
  intros b l last out Hw. cbv zeta.
  unfold major_of, minor_of. change majorTypeSimpleAndFloat with 224%N. change additionalTypeBoolTrue with 21%N.
  change additionalTypeBoolFalse with 20%N. change additionalTypeNull with 22%N. change additionalTypeFloat16 with 25%N.
  change additionalTypeFloat32 with 26%N. change additionalTypeFloat64 with 27%N.
  destruct (negb (N.land b 224 =? 224)%N); [reflexivity|].
  destruct (N.land b 31 =? 21)%N; [reflexivity|].
  destruct (N.land b 31 =? 20)%N; [reflexivity|].
  destruct (N.land b 31 =? 22)%N; [reflexivity|].
  destruct ((N.land b 31 =? 25)%N || (N.land b 31 =? 26)%N || (N.land b 31 =? 27)%N); [|reflexivity].
  unfold ebind at 1. unfold bufio_UnreadByte. cbn [w_in s_last s_rest set_in w_out].
  apply (simple_float_tail Orc fo Ho). exact Hw.
Qed.

(* ------------------------------------------------------------------ *)
(* the recursive part: cbor2JsonOneObject, array2Json, map2Json          *)
(* ------------------------------------------------------------------ *)
Lemma ebind_assoc_w {A B C} (m : M A) (k : A -> M B) (g : B -> M C) w :
  ebind (ebind m k) g w = ebind m (fun a => ebind (k a) g) w.
Proof. unfold ebind. destruct (m w); reflexivity. Qed.

Lemma ebind_ret_tt (X : M unit) w : norm (ebind X (fun _ => eret tt) w) = norm (X w).
Proof. unfold ebind. destruct (X w) as [[] w'|e w'|w'| |]; reflexivity. Qed.

(* like sim, for the part of the hand model that runs on fuel: wherever the hand model does not run out *)
Definition simF {A} (m : M A) (p : prog A) : Prop :=
  forall w, fitsw w -> interp p w <> EFuel -> norm (m w) = norm (interp p w).

Lemma sim_simF {A} (m : M A) (p : prog A) : sim m p -> simF m p.
Proof. intros H w Hw _. apply H; auto. Qed.

Lemma bindF {A B} (m : M A) (p : prog A) (K : A -> M B) (K' : A -> prog B) w :
  fitsw w -> interp (pbind p K') w <> EFuel ->
  (interp p w <> EFuel -> norm (m w) = norm (interp p w)) ->
  (forall a w', fitsw w' -> interp p w = EOk a w' -> interp (K' a) w' <> EFuel -> norm (K a w') = norm (interp (K' a) w')) ->
  norm (ebind m K w) = norm (interp (pbind p K') w).
Proof.
  intros Hw Hnf Hm HK. rewrite interp_pbind in *. unfold ebind in *.
  destruct (interp p w) as [a w'|e w'|w'| |] eqn:E.
  - specialize (Hm ltac:(discriminate)). apply norm_ok_inv in Hm. rewrite Hm. apply HK; auto. eapply interp_fits; eauto.
  - specialize (Hm ltac:(discriminate)). destruct (m w); cbn in Hm |- *; inversion Hm; subst; reflexivity.
  - specialize (Hm ltac:(discriminate)). destruct (m w); cbn in Hm |- *; inversion Hm; subst; reflexivity.
  - exfalso. apply Hnf. reflexivity.
  - specialize (Hm ltac:(discriminate)). destruct (m w); cbn in Hm |- *; inversion Hm; subst; reflexivity.
Qed.

Lemma simF_bind {A B} (m : M A) (p : prog A) (Q : A -> Prop) (k : A -> M B) (k' : A -> prog B) :
  simF m p -> post p Q -> (forall a, Q a -> simF (k a) (k' a)) -> simF (ebind m k) (pbind p k').
Proof.
  intros Hm HQ Hk w Hw Hnf. apply bindF; [exact Hw|exact Hnf|intros Hp; apply Hm; auto|].
  intros a w' Hw' E Hnf'. apply Hk; auto. apply (HQ w a w' Hw E).
Qed.
Lemma simF_bind0 {A B} (m : M A) (p : prog A) (k : A -> M B) (k' : A -> prog B) :
  simF m p -> (forall a, simF (k a) (k' a)) -> simF (ebind m k) (pbind p k').
Proof. intros Hm Hk. apply (simF_bind m p (fun _ => True)); auto using post_true. Qed.

Lemma simF_write {A} bs (K : M A) (P : prog A) : simF K P -> simF (ebind (io_Write bs) (fun _ => K)) (PWrite bs P).
Proof.
  intros H [[l last] out] Hw Hnf. unfold ebind, io_Write. cbn [w_in w_out interp] in *. apply H; auto.
Qed.
Lemma simF_fail {A} s k : abs_err (ErrFmt s) = Some k -> simF (@epanic A (Some (ErrFmt s))) (PFail k).
Proof. intros H. apply sim_simF. apply sim_fail. exact H. Qed.
Lemma simF_unit_tail (X : M unit) (P : prog unit) : simF X P -> simF (ebind X (fun _ => eret tt)) P.
Proof. intros H w Hw Hnf. rewrite ebind_ret_tt. apply H; auto. Qed.

Lemma land224_cases b : In (N.land b 224) [0; 32; 64; 96; 128; 160; 192; 224]%N.
Proof.
  replace (N.land b 224) with (N.land (b mod 256) 224).
  2:{ change 256%N with (2 ^ 8)%N. rewrite <- N.land_ones. rewrite <- N.land_assoc. reflexivity. }
  assert (H : (b mod 256 < 256)%N) by (apply N.mod_lt; discriminate).
  assert (E : forallb (fun n => existsb (N.eqb (N.land (N.of_nat n) 224)) [0; 32; 64; 96; 128; 160; 192; 224]%N) (seq 0 256) = true) by (vm_compute; reflexivity).
  rewrite forallb_forall in E. specialize (E (N.to_nat (b mod 256))). rewrite N2Nat.id in E.
  assert (Hin : In (N.to_nat (b mod 256)) (seq 0 256)) by (apply in_seq; lia). specialize (E Hin).
  apply existsb_exists in E. destruct E as [x [Hx Ex]]. apply N.eqb_eq in Ex. rewrite Ex. exact Hx.
Qed.

Lemma leaf_write_sim (m : M (list N)) (p : prog (list N)) : sim m p ->
  sim (ebind m (fun s => ebind (io_Write s) (fun _ => eret tt))) (s <- p ;; PAlloc (CborEnc.len s) (PWrite s (PRet tt))).
Proof.
  intros H. apply sim_bind0; [exact H|]. intros s [[l last] out] _. reflexivity.
Qed.

Section Rec.
  Variable Orc : oracle.
  Variable fo : float_oracle.
  Hypothesis Hagree : orc_agree Orc fo.

  Notation one := (DecSrc.cbor2JsonOneObject Orc fo).
  Definition tailW (c : N) : Z -> M unit := fun _ => ebind (io_Write [c]) (fun _ => eret tt).

  Definition S_ (f : nat) : Prop := forall F, (f <= F)%nat -> simF (one F) (CborDec.cbor2JsonOneObject Orc f).
  Definition LA (f : nat) : Prop := forall Fl Fr u i ln, (f <= Fl)%nat -> (f <= Fr)%nat -> 0 <= i -> i + Z.of_nat f < 2 ^ 62 ->
    simF (elbind (array2Json_loop1 Fl (one Fr) ln u i) (tailW 93)) (array_loop Orc f u i ln).
  Definition LM (f : nat) : Prop := forall Fl Fr u i ln, (f <= Fl)%nat -> (f <= Fr)%nat -> 0 <= i -> i + Z.of_nat f < 2 ^ 62 ->
    simF (elbind (map2Json_loop1 Fl (one Fr) ln u i) (tailW 125)) (map_loop Orc f u i ln).

  Lemma tail_sim c : simF (tailW c 0) (PWrite [c] (PRet tt)).
  Proof. intros [[l last] out] _ _. reflexivity. Qed.

  (* the six leaf kinds of cbor2JsonOneObject *)
  Lemma leaf0_sim :
    sim (ebind DecSrc.readByte (fun r3 => let minor := N.land r3 31 in
           ebind (DecSrc.decodeIntAdditionalType minor) (fun r4 => let n := z2n 64 r4 in
           ebind (io_Write (strconv_AppendUint [] n)) (fun _ => eret tt))))
        (s <- leaf Orc 0 ;; PAlloc (CborEnc.len s) (PWrite s (PRet tt))).
  Proof.
    unfold leaf. change (0 =? majorTypeUnsignedInt)%N with true. cbv iota.
    apply sim_assoc. apply sim_bind0; [apply readByte_sim|]. intros b. cbv zeta.
    apply sim_assoc. apply sim_bind0; [apply decodeIntAT_sim|]. intros n.
    cbn [pbind]. intros [[l last] out] _. reflexivity.
  Qed.
  Lemma leaf32_sim :
    sim (ebind DecSrc.decodeInteger (fun r6 => let n_1 := r6 in ebind (io_Write (strconv_AppendInt [] n_1)) (fun _ => eret tt)))
        (s <- leaf Orc 32 ;; PAlloc (CborEnc.len s) (PWrite s (PRet tt))).
  Proof.
    unfold leaf. change (32 =? majorTypeUnsignedInt)%N with false. change (32 =? majorTypeNegativeInt)%N with true. cbv iota.
    apply sim_assoc. apply sim_bind0; [apply decodeInteger_sim|]. intros n.
    cbn [pbind]. intros [[l last] out] _. reflexivity.
  Qed.

  (* the unfolding equations of the hand model's mutual fixpoint, with the named constants *)
  Lemma one_unfold f : CborDec.cbor2JsonOneObject Orc (S f) =
    PPeek (fun pb =>
      let major := major_of pb in
      if (major =? majorTypeArray)%N then
        PWrite [91%N] (
          pb <- CborDec.readByte ;;
          if negb (major_of pb =? majorTypeArray)%N then PFail EBadMajor
          else h <- container_header (minor_of pb) ;; array_loop Orc f (fst h) 0%Z (snd h))
      else if (major =? majorTypeMap)%N then
        pb <- CborDec.readByte ;;
        if negb (major_of pb =? majorTypeMap)%N then PFail EBadMajor
        else h <- container_header (minor_of pb) ;; PWrite [123%N] (map_loop Orc f (fst h) 0%Z (snd h))
      else
        s <- leaf Orc major ;; PAlloc (CborEnc.len s) (PWrite s (PRet tt))).
  Proof. reflexivity. Qed.

  Lemma array_loop_unfold f u i ln : array_loop Orc (S f) u i ln =
    if u || (i <? ln)%Z then
      let body : prog unit :=
        _ <- CborDec.cbor2JsonOneObject Orc f ;;
        if u then
          PPeek (fun pb =>
            if is_break_byte pb then PReadByte (fun _ => PWrite [93%N] (PRet tt))
            else PWrite [44%N] (array_loop Orc f u (i + 1) ln))
        else if (i + 1 <? ln)%Z then PWrite [44%N] (array_loop Orc f u (i + 1) ln)
        else array_loop Orc f u (i + 1) ln in
      if u then
        PPeek (fun pb => if is_break_byte pb then PReadByte (fun _ => PWrite [93%N] (PRet tt)) else body)
      else body
    else PWrite [93%N] (PRet tt).
  Proof. reflexivity. Qed.

  Lemma map_loop_unfold f u i ln : map_loop Orc (S f) u i ln =
    if u || (i <? ln)%Z then
      let body : prog unit :=
        _ <- CborDec.cbor2JsonOneObject Orc f ;;
        if (i mod 2 =? 0)%Z then PWrite [58%N] (map_loop Orc f u (i + 1) ln)
        else if u then
          PPeek (fun pb =>
            if is_break_byte pb then PReadByte (fun _ => PWrite [125%N] (PRet tt))
            else PWrite [44%N] (map_loop Orc f u (i + 1) ln))
        else if (i + 1 <? ln)%Z then PWrite [44%N] (map_loop Orc f u (i + 1) ln)
        else map_loop Orc f u (i + 1) ln in
      if u then
        PPeek (fun pb => if is_break_byte pb then PReadByte (fun _ => PWrite [125%N] (PRet tt)) else body)
      else body
    else PWrite [125%N] (PRet tt).
  Proof. reflexivity. Qed.

  Lemma simF_assoc {A B C} (m : M C) (p : prog A) (k1 : A -> prog B) (k2 : B -> prog C) :
    simF m (pbind p (fun a => pbind (k1 a) k2)) -> simF m (pbind (pbind p k1) k2).
  Proof. intros H w Hw Hnf. rewrite interp_assoc in *. apply H; auto. Qed.

  Lemma simF_ext {A} (m m' : M A) (p : prog A) : (forall w, m w = m' w) -> simF m' p -> simF m p.
  Proof. intros E H w Hw Hnf. rewrite E. apply H; auto. Qed.

  Lemma simF_elbind_assoc {A R X} (m : M A) (k : A -> M (lres R X)) (t : X -> M R) (p : prog R) :
    simF (ebind m (fun a => elbind (k a) t)) p -> simF (elbind (ebind m k) t) p.
  Proof. apply simF_ext. intros w. unfold elbind. apply ebind_assoc_w. Qed.

  Lemma peek_simF {B} (K : list N * goerr -> M B) (P : N -> prog B) :
    (forall b, simF (K ([b], None)) (P b)) ->
    (forall w, norm (K ([], Some ErrEOF) w) = NErr (Some EEofPeek) (w_out w)) ->
    simF (ebind (bufio_Peek 1) K) (PPeek P).
  Proof.
    intros HK He [[l last] out] Hw Hnf. unfold ebind, bufio_Peek. cbn [Z.eqb Pos.eqb w_in s_rest set_in w_out interp] in *.
    destruct l as [|b t].
    - rewrite He. reflexivity.
    - apply HK; [exact Hw|exact Hnf].
  Qed.

  Lemma break_sim c i : simF (elbind (ebind DecSrc.readByte (fun _ => eret (LExit i))) (tailW c)) (PReadByte (fun _ => PWrite [c] (PRet tt))).
  Proof.
    intros [[l last] out] _ _. unfold elbind, ebind, DecSrc.readByte, bufio_ReadByte, tailW. cbn [w_in s_rest set_in w_out interp].
    destruct l as [|b t]; reflexivity.
  Qed.

  Lemma array_case f F : LA f -> (f <= F)%nat -> Z.of_nat f < 2 ^ 62 ->
    simF (ebind (array2Json (one F) F) (fun _ => eret tt))
         (PWrite [91%N] (pb <- CborDec.readByte ;;
            if negb (N.land pb 224 =? 128)%N then PFail EBadMajor
            else h <- container_header (minor_of pb) ;; array_loop Orc f (fst h) 0 (snd h))).
  Proof.
    intros IHA HF Hf. apply simF_unit_tail. unfold array2Json. apply simF_write.
    apply simF_bind0; [apply sim_simF, readByte_sim|]. intros pb. cbv zeta.
    destruct (negb (N.land pb 224 =? 128)%N); [apply simF_fail; reflexivity|].
    unfold container_header, minor_of. change additionalTypeInfiniteCount with 31%N.
    destruct (N.land pb 31 =? 31)%N.
    - cbn [pbind fst snd]. apply IHA; lia.
    - apply simF_assoc. apply simF_bind0; [apply sim_simF, decodeIntAT_sim|]. intros ln. cbn [pbind fst snd]. apply IHA; lia.
  Qed.

  Lemma map_case f F : LM f -> (f <= F)%nat -> Z.of_nat f < 2 ^ 62 ->
    simF (ebind (map2Json (one F) F) (fun _ => eret tt))
         (pb <- CborDec.readByte ;;
            if negb (N.land pb 224 =? 160)%N then PFail EBadMajor
            else h <- container_header (minor_of pb) ;; PWrite [123%N] (map_loop Orc f (fst h) 0 (snd h))).
  Proof.
    intros IHM HF Hf. apply simF_unit_tail. unfold map2Json.
    apply simF_bind0; [apply sim_simF, readByte_sim|]. intros pb. cbv zeta.
    destruct (negb (N.land pb 224 =? 160)%N); [apply simF_fail; reflexivity|].
    unfold container_header, minor_of. change additionalTypeInfiniteCount with 31%N.
    destruct (N.land pb 31 =? 31)%N.
    - cbn [pbind fst snd]. apply simF_write. apply IHM; lia.
    - apply simF_assoc. apply simF_bind0; [apply sim_simF, decodeIntAT_sim|]. intros ln. cbn [pbind fst snd]. apply simF_write. apply IHM; lia.
  Qed.

  Lemma rec_sim : forall f, Z.of_nat f < 2 ^ 62 -> S_ f /\ LA f /\ LM f.
  Proof.
    induction f as [|f IH]; intros Hf.
    { repeat split; intro; intros; intros w Hw Hnf; exfalso; apply Hnf; reflexivity. }
    destruct (IH ltac:(lia)) as (IHS & IHA & IHM). clear IH.
    split; [|split].
    - (* cbor2JsonOneObject *)
      intros F HF. destruct F as [|F]; [lia|]. assert (HF' : (f <= F)%nat) by lia.
      cbn [DecSrc.cbor2JsonOneObject]. rewrite one_unfold. unfold cbor2JsonOneObject_body.
      apply peek_simF; [|intros w; reflexivity]. intros b. cbn [err_isnil negb]. change (inb 0 [b]) with true. cbn [eguard]. cbv zeta.
      change (idx 0%N [b] 0) with b. unfold major_of.
      change majorTypeArray with 128%N. change majorTypeMap with 160%N.
      pose proof (land224_cases b) as Hc. cbn [In] in Hc.
      destruct Hc as [E|[E|[E|[E|[E|[E|[E|[E|[]]]]]]]]]; rewrite <- E; cbn [N.eqb Pos.eqb].
      + apply sim_simF. apply leaf0_sim.
      + apply sim_simF. apply leaf32_sim.
      + unfold leaf. cbn [N.eqb Pos.eqb]. apply sim_simF. apply (leaf_write_sim _ _ (decodeString_sim false)).
      + unfold leaf. cbn [N.eqb Pos.eqb]. apply sim_simF. apply (leaf_write_sim _ _ decodeUTF8String_sim).
      + apply array_case; auto. lia.
      + apply map_case; auto. lia.
      + unfold leaf. cbn [N.eqb Pos.eqb]. apply sim_simF. apply (leaf_write_sim _ _ (decodeTagData_sim Orc)).
      + unfold leaf. cbn [N.eqb Pos.eqb]. apply sim_simF. apply (leaf_write_sim _ _ (decodeSimpleFloat_sim Orc fo Hagree)).
    - (* the array loop *)
      intros Fl Fr u i ln HFl HFr Hi Hb. destruct Fl as [|Fl]; [lia|].
      cbn [array2Json_loop1]. rewrite array_loop_unfold.
      destruct (u || (i <? ln)) eqn:C; [|apply (tail_sim 93)].
      cbv zeta.
      assert (Hnext : simF (elbind (array2Json_loop1 Fl (one Fr) ln u (i + 1)) (tailW 93)) (array_loop Orc f u (i + 1) ln))
        by (apply IHA; lia).
      assert (Hbody : simF
        (elbind (ebind (one Fr) (fun _ =>
           if u then
             ebind (bufio_Peek 1) (fun r4 => let '(pb_1, e) := r4 in
               if negb (err_isnil e) then epanic e
               else eguard (inb 0 pb_1)
                 (if (idx 0%N pb_1 0 =? 255)%N then ebind DecSrc.readByte (fun _ => eret (LExit i))
                  else ebind (io_Write [44%N]) (fun _ => array2Json_loop1 Fl (one Fr) ln u (wraps 64 (i + 1)))))
           else if wraps 64 (i + 1) <? ln then ebind (io_Write [44%N]) (fun _ => array2Json_loop1 Fl (one Fr) ln u (wraps 64 (i + 1)))
                else array2Json_loop1 Fl (one Fr) ln u (wraps 64 (i + 1)))) (tailW 93))
        (_ <- CborDec.cbor2JsonOneObject Orc f ;;
         if u then
           PPeek (fun pb => if is_break_byte pb then PReadByte (fun _ => PWrite [93%N] (PRet tt))
                            else PWrite [44%N] (array_loop Orc f u (i + 1) ln))
         else if i + 1 <? ln then PWrite [44%N] (array_loop Orc f u (i + 1) ln)
         else array_loop Orc f u (i + 1) ln)).
      { rewrite (wraps64_id (i + 1)) by lia.
        apply simF_elbind_assoc. apply simF_bind0; [apply IHS; lia|]. intros _.
        destruct u.
        - apply simF_elbind_assoc. apply peek_simF; [|intros w; reflexivity]. intros b.
          cbn [err_isnil negb]. change (inb 0 [b]) with true. cbn [eguard]. change (idx 0%N [b] 0) with b.
          unfold is_break_byte. change (N.lor majorTypeSimpleAndFloat additionalTypeBreak) with 255%N.
          destruct (b =? 255)%N; [apply break_sim|].
          apply simF_elbind_assoc. apply simF_write. exact Hnext.
        - destruct (i + 1 <? ln); [|exact Hnext].
          apply simF_elbind_assoc. apply simF_write. exact Hnext. }
      destruct u; [|exact Hbody].
      apply simF_elbind_assoc. apply peek_simF; [|intros w; reflexivity]. intros b.
      cbn [err_isnil negb]. change (inb 0 [b]) with true. cbn [eguard]. change (idx 0%N [b] 0) with b.
      unfold is_break_byte. change (N.lor majorTypeSimpleAndFloat additionalTypeBreak) with 255%N.
      destruct (b =? 255)%N; [apply break_sim|]. exact Hbody.
    - (* the map loop *)
      intros Fl Fr u i ln HFl HFr Hi Hb. destruct Fl as [|Fl]; [lia|].
      cbn [map2Json_loop1]. rewrite map_loop_unfold.
      destruct (u || (i <? ln)) eqn:C; [|apply (tail_sim 125)].
      cbv zeta.
      assert (Hnext : simF (elbind (map2Json_loop1 Fl (one Fr) ln u (i + 1)) (tailW 125)) (map_loop Orc f u (i + 1) ln))
        by (apply IHM; lia).
      assert (Hbody : simF
        (elbind (ebind (one Fr) (fun _ =>
           eguard (negb (2 =? 0))
           (if (rem i 2 =? 0) then ebind (io_Write [58%N]) (fun _ => map2Json_loop1 Fl (one Fr) ln u (wraps 64 (i + 1)))
            else if u then
             ebind (bufio_Peek 1) (fun r4 => let '(pb_1, e) := r4 in
               if negb (err_isnil e) then epanic e
               else eguard (inb 0 pb_1)
                 (if (idx 0%N pb_1 0 =? 255)%N then ebind DecSrc.readByte (fun _ => eret (LExit i))
                  else ebind (io_Write [44%N]) (fun _ => map2Json_loop1 Fl (one Fr) ln u (wraps 64 (i + 1)))))
            else if wraps 64 (i + 1) <? ln then ebind (io_Write [44%N]) (fun _ => map2Json_loop1 Fl (one Fr) ln u (wraps 64 (i + 1)))
                 else map2Json_loop1 Fl (one Fr) ln u (wraps 64 (i + 1))))) (tailW 125))
        (_ <- CborDec.cbor2JsonOneObject Orc f ;;
         if (i mod 2 =? 0) then PWrite [58%N] (map_loop Orc f u (i + 1) ln)
         else if u then
           PPeek (fun pb => if is_break_byte pb then PReadByte (fun _ => PWrite [125%N] (PRet tt))
                            else PWrite [44%N] (map_loop Orc f u (i + 1) ln))
         else if i + 1 <? ln then PWrite [44%N] (map_loop Orc f u (i + 1) ln)
         else map_loop Orc f u (i + 1) ln)).
      { rewrite (wraps64_id (i + 1)) by lia. change (negb (2 =? 0)) with true. cbn [eguard].
        unfold rem. rewrite Z.rem_mod_nonneg by lia.
        apply simF_elbind_assoc. apply simF_bind0; [apply IHS; lia|]. intros _.
        destruct (i mod 2 =? 0).
        { apply simF_elbind_assoc. apply simF_write. exact Hnext. }
        destruct u.
        - apply simF_elbind_assoc. apply peek_simF; [|intros w; reflexivity]. intros b.
          cbn [err_isnil negb]. change (inb 0 [b]) with true. cbn [eguard]. change (idx 0%N [b] 0) with b.
          unfold is_break_byte. change (N.lor majorTypeSimpleAndFloat additionalTypeBreak) with 255%N.
          destruct (b =? 255)%N; [apply break_sim|].
          apply simF_elbind_assoc. apply simF_write. exact Hnext.
        - destruct (i + 1 <? ln); [|exact Hnext].
          apply simF_elbind_assoc. apply simF_write. exact Hnext. }
      destruct u; [|exact Hbody].
      apply simF_elbind_assoc. apply peek_simF; [|intros w; reflexivity]. intros b.
      cbn [err_isnil negb]. change (inb 0 [b]) with true. cbn [eguard]. change (idx 0%N [b] 0) with b.
      unfold is_break_byte. change (N.lor majorTypeSimpleAndFloat additionalTypeBreak) with 255%N.
      destruct (b =? 255)%N; [apply break_sim|]. exact Hbody.
  Qed.
End Rec.

(* ------------------------------------------------------------------ *)
(* interp and run                                                       *)
(* ------------------------------------------------------------------ *)
Definition st_of (w : world) (a : N) : st := mkst (s_rest (w_in w)) (w_out w) a.

Definition ir_rel {A} (r : eres A) (r' : CborDec.res A) : Prop :=
  match r, r' with
  | EOk x w', Ret y s' => x = y /\ s_rest (w_in w') = rest s' /\ w_out w' = outr s'
  | EErr e w', Fail k s' => e = conc_err k /\ w_out w' = outr s'
  | EPanic w', Crash _ s' => w_out w' = outr s'
  | EFuel, OOF => True
  | _, _ => False
  end.

Lemma interp_run {A} (p : prog A) : forall w a, ir_rel (interp p w) (run p (st_of w a)).
Proof.
  induction p as [x|k|k| |k IH|k IH|k IH|n k IH|n k IH|bs k IH]; intros w a; cbn [interp run st_of rest outr alloc]; unfold ir_rel.
  - auto.
  - auto.
  - auto.
  - auto.
  - destruct (s_rest (w_in w)) as [|b t] eqn:E; [auto|]. apply (IH b (set_in w (mkstream t (Some b))) a).
  - destruct (s_rest (w_in w)) as [|b t] eqn:E; [auto|].
    specialize (IH b (set_in w (mkstream (b :: t) None)) a). unfold st_of in *. cbn [set_in w_in w_out s_rest] in IH. rewrite <- E in IH at 1.
    destruct w as [[l last] out]. cbn [w_in w_out s_rest] in *. subst l. exact IH.
  - destruct (s_rest (w_in w)) as [|b t] eqn:E; [auto|].
    specialize (IH b (set_in w (mkstream (b :: t) None)) a). unfold st_of in *. cbn [set_in w_in w_out s_rest] in IH.
    destruct w as [[l last] out]. cbn [w_in w_out s_rest] in *. subst l. exact IH.
  - destruct (n <=? 0); [apply (IH [] w a)|].
    destruct (split_at (s_rest (w_in w)) (Z.to_N n) []) as [[bs r]|] eqn:E; [|auto].
    apply (IH bs (set_in w (mkstream r (last_byte bs))) (alloc (st_of w a) + Z.to_N n)%N).
  - apply (IH w (a + n)%N).
  - apply (IH (mkworld (w_in w) (rev_append bs (w_out w))) (a + N.of_nat (length bs))%N).
Qed.

(* ------------------------------------------------------------------ *)
(* Cbor2JsonManyObjects                                                 *)
(* ------------------------------------------------------------------ *)
Section Top.
  Variable Orc : oracle.
  Variable fo : float_oracle.
  Hypothesis Hagree : orc_agree Orc fo.

  Definition many_rel (r : eres (lres goerr unit)) (r' : CborDec.res unit) : Prop :=
    match r, r' with
    | EOk (LExit _) w', Ret _ s' => w_out w' = outr s'
    | EErr e w', Fail k s' => abs_err e = Some k /\ w_out w' = outr s'
    | EPanic w', Crash _ s' => w_out w' = outr s'
    | _, _ => False
    end.

  Lemma many_sim : forall f F w a, (f <= F)%nat -> Z.of_nat f < 2 ^ 62 -> fitsw w -> many Orc f (st_of w a) <> OOF ->
    many_rel (Cbor2JsonManyObjects_loop1 Orc fo F w) (many Orc f (st_of w a)).
  Proof.
    induction f as [|f IH]; intros F w a HF Hf Hw Hnf; [exfalso; apply Hnf; reflexivity|].
    destruct F as [|F]; [lia|]. cbn [Cbor2JsonManyObjects_loop1 many] in *.
    destruct w as [[l last] out]. unfold st_of in Hnf |- *. cbn [w_in w_out s_rest rest] in Hnf |- *.
    unfold ebind at 1. unfold moreBytesToRead, ebind, bufio_ReadByte. cbn [w_in s_rest set_in w_out].
    destruct l as [|b t]; [cbn; reflexivity|].
    cbn [err_isnil]. unfold bufio_UnreadByte. cbn [w_in s_last s_rest set_in w_out eret]. unfold set_in. cbn [w_out w_in s_rest].
    set (w1 := mkworld (mkstream (b :: t) None) out) in *.
    assert (Hw1 : fitsw w1) by exact Hw.
    pose proof (interp_run (CborDec.cbor2JsonOneObject Orc f) w1 a) as IR. unfold st_of in IR. cbn [w1 w_in w_out s_rest] in IR.
    destruct (rec_sim Orc fo Hagree f ltac:(lia)) as (HS & _ & _).
    specialize (HS F ltac:(lia) w1 Hw1).
    destruct (run (CborDec.cbor2JsonOneObject Orc f) (mkst (b :: t) out a)) as [[] s'|k s'|k s'|] eqn:ER.
    - (* the object was decoded *)
      destruct (interp (CborDec.cbor2JsonOneObject Orc f) w1) as [[] w1'|e w1'|w1'| |] eqn:EI; unfold ir_rel in IR; try contradiction.
      destruct IR as (_ & IR1 & IR2).
      specialize (HS ltac:(discriminate)). apply norm_ok_inv in HS. rewrite HS.
      unfold io_Write at 1. cbn [w_in w_out].
      assert (Hw1' : fitsw w1') by (eapply interp_fits; eauto).
      specialize (IH F (mkworld (w_in w1') (rev_append [10%N] (w_out w1'))) (alloc s' + 1)%N ltac:(lia) ltac:(lia) Hw1').
      assert (Est : st_of (mkworld (w_in w1') (rev_append [10%N] (w_out w1'))) (alloc s' + 1)%N = write_nl s').
      { unfold st_of, write_nl. cbn [w_in w_out rev_append]. rewrite IR1, IR2. reflexivity. }
      rewrite Est in IH. apply IH. exact Hnf.
    - (* an error value *)
      destruct (interp (CborDec.cbor2JsonOneObject Orc f) w1) as [[] w1'|e w1'|w1'| |] eqn:EI; unfold ir_rel in IR; try contradiction.
      destruct IR as (IR1 & IR2). specialize (HS ltac:(discriminate)).
      destruct (DecSrc.cbor2JsonOneObject Orc fo F w1) as [x w2|e2 w2|w2| |]; cbn [norm] in HS; inversion HS as [[HS1 HS2]].
      unfold many_rel. rewrite HS1, IR1, abs_conc. split; [reflexivity|]. rewrite HS2. exact IR2.
    - (* a run-time panic *)
      destruct (interp (CborDec.cbor2JsonOneObject Orc f) w1) as [[] w1'|e w1'|w1'| |] eqn:EI; unfold ir_rel in IR; try contradiction.
      specialize (HS ltac:(discriminate)).
      destruct (DecSrc.cbor2JsonOneObject Orc fo F w1) as [x w2|e2 w2|w2| |]; cbn [norm] in HS; inversion HS as [HS1].
      unfold many_rel. rewrite HS1. exact IR.
    - exfalso. apply Hnf. reflexivity.
  Qed.

  (* what a caller of Cbor2JsonManyObjects observes *)
  Definition src_outcome (r : eres goerr) : option (list N * final) :=
    match r with
    | EOk None w => Some (rev' (w_out w), FOk)
    | EOk (Some e) w => match abs_err e with Some k => Some (rev' (w_out w), FErr k) | None => None end
    | _ => None      (* a run-time panic, the translation out of fuel, or outside the modelled contract *)
    end.

  Theorem many_objects_refines : forall bs F, fits_memory bs -> bytes bs -> (fuel_for bs <= F)%nat ->
    src_outcome (DecSrc.Cbor2JsonManyObjects Orc fo F (mkworld (mkstream bs None) [])) =
    Some (fst (cbor2json Orc bs)).
  Proof.
    intros bs F Hm Hb HF.
    pose proof (decoder_total Orc bs Hm) as HT. unfold cbor2json in *.
    set (w0 := mkworld (mkstream bs None) []).
    assert (Hw0 : fitsw w0) by (split; [exact Hm|exact Hb]).
    assert (Hfl : Z.of_nat (fuel_for bs) < 2 ^ 62).
    { unfold fuel_for, fits_memory, lenZ in *. lia. }
    pose proof (many_sim (fuel_for bs) F w0 0%N HF Hfl Hw0) as MS. unfold st_of in MS. cbn [w0 w_in w_out s_rest] in MS.
    unfold DecSrc.Cbor2JsonManyObjects, recover_errors, elbind, ebind.
    destruct (many Orc (fuel_for bs) (mkst bs [] 0%N)) as [[] s'|k s'|k s'|] eqn:EM; try contradiction.
    - specialize (MS ltac:(discriminate)).
      destruct (Cbor2JsonManyObjects_loop1 Orc fo F w0) as [[r|[]] w'|e w'|w'| |]; unfold many_rel in MS; try contradiction.
      cbn [eret src_outcome fst]. rewrite MS. reflexivity.
    - specialize (MS ltac:(discriminate)).
      destruct (Cbor2JsonManyObjects_loop1 Orc fo F w0) as [[r|[]] w'|e w'|w'| |]; unfold many_rel in MS; try contradiction.
      destruct MS as [MS1 MS2]. cbn [src_outcome fst]. rewrite MS1, MS2. reflexivity.
  Qed.
End Top.

(* non-vacuity: an oracle pair that agrees *)
Definition fo_const : float_oracle := fun _ _ _ _ => [48%N].
Definition Orc_const : oracle := mkoracle (fun _ => Some [48%N]) (fun _ => Some [48%N]) (fun _ => None) (fun _ _ => None).
Lemma orc_agree_ex : orc_agree Orc_const fo_const.
Proof. split; intros; reflexivity. Qed.

Lemma dec_counts : length DecSrc.translated_functions = 17%nat /\ length DecSrc.skipped_functions = 4%nat /\ length DecSrc.stub_functions = 2%nat.
Proof. repeat split; reflexivity. Qed.

(* ------------------------------------------------------------------ *)
(* consequences for the source: totality, streams, torn streams           *)
(* ------------------------------------------------------------------ *)
Definition run_source (Orc : oracle) (fo : float_oracle) (F : nat) (bs : list N) : option (list N * final) :=
  src_outcome (DecSrc.Cbor2JsonManyObjects Orc fo F (mkworld (mkstream bs None) [])).

Theorem source_total Orc fo : orc_agree Orc fo -> forall bs F, fits_memory bs -> bytes bs -> (fuel_for bs <= F)%nat ->
  exists out fin, run_source Orc fo F bs = Some (out, fin) /\ (fin = FOk \/ exists k, fin = FErr k).
Proof.
  intros Ha bs F Hm Hb HF. unfold run_source. rewrite (many_objects_refines Orc fo Ha bs F Hm Hb HF).
  pose proof (decoder_total Orc bs Hm) as HT. destruct (cbor2json Orc bs) as [[out fin] a]. cbn [fst].
  exists out, fin. split; [reflexivity|]. destruct fin; try contradiction; eauto.
Qed.

Theorem source_stream_decodes Orc fo : orc_agree Orc fo -> forall es js F,
  Forall2 (decodes Orc) es js -> fits_memory (concat es) -> bytes (concat es) -> (fuel_for (concat es) <= F)%nat ->
  run_source Orc fo F (concat es) = Some (lines js, FOk).
Proof.
  intros Ha es js F Hd Hm Hb HF. unfold run_source. rewrite (many_objects_refines Orc fo Ha _ F Hm Hb HF).
  destruct (stream_decodes Orc es js Hd Hm) as [a E]. rewrite E. reflexivity.
Qed.

Theorem source_stream_torn Orc fo : orc_agree Orc fo -> forall es js e j p q F,
  Forall2 (decodes Orc) es js -> decodes Orc e j -> e = p ++ q -> p <> [] -> q <> [] ->
  fits_memory (concat es ++ e) -> bytes (concat es ++ e) -> (fuel_for (concat es ++ p) <= F)%nat ->
  exists part k, run_source Orc fo F (concat es ++ p) = Some (lines js ++ part, FErr k) /\ is_eof k = true.
Proof.
  intros Ha es js e j p q F Hd He Hpq Hp Hq Hm Hb HF.
  destruct (stream_torn Orc es js e j p q Hd He Hpq Hp Hq Hm) as (part & k & a & E & Hk).
  assert (Hm' : fits_memory (concat es ++ p)).
  { unfold fits_memory in *. subst e. rewrite !lenZ_app in *. pose proof (lenZ_nonneg q). lia. }
  assert (Hb' : bytes (concat es ++ p)).
  { subst e. apply bytes_app in Hb. destruct Hb as [Hb1 Hb2]. apply bytes_app in Hb2. apply bytes_app. tauto. }
  unfold run_source. rewrite (many_objects_refines Orc fo Ha _ F Hm' Hb' HF). rewrite E. exists part, k. split; [reflexivity|exact Hk].
Qed.

(* a concrete run of the TRANSLATED decoder (not of the hand model): an indefinite map with an array, a float, a tagged
   hex string; then a second, truncated object *)
Example source_run_example :
  run_source Orc_const fo_const 100
    [191; 97;97; 1; 97;98; 131; 1; 2; 97;120; 97;99; 250;63;192;0;0; 97;100; 217;1;7; 66; 171;205; 255; 161; 97]%N =
  Some ([123;34;97;34;58;49;44;34;98;34;58;91;49;44;50;44;34;120;34;93;44;34;99;34;58;48;44;34;100;34;58;34;97;98;99;100;34;125;10;123]%N,
        FErr EEofReadN).
Proof. vm_compute. reflexivity. Qed.
