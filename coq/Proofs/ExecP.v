(* The encoder refines the declarative specification: executing any program
   (Api/Exec.v) appends to the event buffer exactly the JSON members that
   Api/Spec.v says it denotes, as well-formed UTF-8 JSON text.  Everything is
   by induction on the execution fuel (= nesting depth), helpers being plain
   list inductions parametric in the executor. *)
From Verif Require Import Base.Prelude Base.Decimal Base.Utf8 Base.JsonSpec Enc.JsonEnc Misc.Level
     Proofs.DecimalP Proofs.JsonEncP Api.Exec Api.Spec.
Open Scope N_scope.

(* ------------------------------------------------------------------ *)
(* members text, glue                                                  *)
(* ------------------------------------------------------------------ *)
Definition Mem (d : bytes) (kvs : list member) : Prop :=
  match kvs with [] => d = [] | _ => JMembers d kvs /\ GoodTxt d end.

Definition glue (b d : bytes) : bytes :=
  match d with [] => b | _ => if last_byte b =? 0x7B then b ++ d else b ++ [0x2C] ++ d end.

Definition join (d1 d2 : bytes) : bytes :=
  match d1, d2 with [], _ => d2 | _, [] => d1 | _, _ => d1 ++ [0x2C] ++ d2 end.

Lemma JMembers_nonempty d kvs : JMembers d kvs -> d <> [] /\ kvs <> [] /\ last_byte d <> 0x7B.
Proof.
  induction 1 as [w1 kt w2 k vt v H1 K H2 J|w1 kt w2 k vt v r kvs H1 K H2 J HR IH].
  - destruct (Json_last _ _ J) as [Hne Hl]. repeat split; try discriminate.
    + intros E. apply app_eq_nil in E as [_ E]. apply app_eq_nil in E as [_ E]. apply app_eq_nil in E as [_ E].
      cbn in E. discriminate.
    + rewrite !app_assoc. rewrite last_byte_app; auto.
  - destruct IH as [Hne [_ Hl]]. repeat split; try discriminate.
    + intros E. apply app_eq_nil in E as [_ E]. apply app_eq_nil in E as [_ E]. apply app_eq_nil in E as [_ E].
      cbn in E. discriminate.
    + rewrite !app_assoc. rewrite last_byte_app; auto.
Qed.

Lemma Mem_nil_iff d kvs : Mem d kvs -> (d = [] <-> kvs = []).
Proof.
  destruct kvs as [|kv kvs]; cbn; intros H; [subst; tauto|].
  destruct H as [H _]. destruct (JMembers_nonempty _ _ H) as [Hne _]. split; intros; [contradiction|discriminate].
Qed.

Lemma Mem_last d kvs : Mem d kvs -> d <> [] -> last_byte d <> 0x7B.
Proof.
  destruct kvs as [|kv kvs]; cbn; intros H Hne; [contradiction|].
  destruct H as [H _]. apply (JMembers_nonempty _ _ H).
Qed.

Lemma GoodTxt_comma : GoodTxt [0x2C].
Proof. apply GoodTxt_ascii. repeat constructor; unfold printable; lia. Qed.

Lemma Mem_join d1 k1 d2 k2 : Mem d1 k1 -> Mem d2 k2 -> Mem (join d1 d2) (k1 ++ k2).
Proof.
  intros H1 H2. pose proof (Mem_nil_iff _ _ H1) as N1. pose proof (Mem_nil_iff _ _ H2) as N2.
  destruct k1 as [|a k1].
  - cbn in H1. subst d1. cbn. exact H2.
  - destruct k2 as [|b k2].
    + cbn in H2. subst d2. rewrite app_nil_r. unfold join. destruct d1; [|exact H1].
      destruct N1 as [N1 _]. specialize (N1 eq_refl). discriminate.
    + destruct H1 as [M1 G1]. destruct H2 as [M2 G2].
      assert (d1 <> []) by (intros E; apply N1 in E; discriminate).
      assert (d2 <> []) by (intros E; apply N2 in E; discriminate).
      unfold join. destruct d1 as [|x d1]; [congruence|]. destruct d2 as [|y d2]; [congruence|].
      change ((a :: k1) ++ b :: k2) with (a :: (k1 ++ b :: k2)). cbn [Mem]. split.
      * apply (JMembers_app _ _ _ _ M1 M2).
      * apply GoodTxt_app; auto. apply GoodTxt_app; auto. apply GoodTxt_comma.
Qed.

Lemma glue_nil b : glue b [] = b.
Proof. reflexivity. Qed.

Lemma last_byte_glue b d kvs : Mem d kvs -> d <> [] -> last_byte (glue b d) <> 0x7B.
Proof.
  intros M Hne. unfold glue. destruct d as [|x d']; [congruence|].
  pose proof (Mem_last _ _ M Hne) as L.
  destruct (last_byte b =? 0x7B).
  - rewrite last_byte_app; auto.
  - rewrite app_assoc. rewrite last_byte_app; auto.
Qed.

Lemma glue_glue b d1 k1 d2 : Mem d1 k1 -> glue (glue b d1) d2 = glue b (join d1 d2).
Proof.
  intros M1. destruct d1 as [|x d1].
  - reflexivity.
  - destruct d2 as [|y d2]; [reflexivity|].
    pose proof (last_byte_glue b (x :: d1) k1 M1 ltac:(discriminate)) as L.
    unfold glue at 1. replace (last_byte (glue b (x :: d1)) =? 0x7B) with false by lia.
    unfold glue, join. destruct (last_byte b =? 0x7B); rewrite <- ?app_assoc; reflexivity.
Qed.

(* ------------------------------------------------------------------ *)
(* primitives                                                          *)
(* ------------------------------------------------------------------ *)
Section P.
  Variable st : settings.

  Definition prim_txt (p : prim) : bytes := append_prim st [] p.

  Lemma raw_jv_ok raw : raw_ok raw -> GoodVal raw (raw_jv raw).
  Proof.
    intros [[v J] G]. split; auto. unfold raw_jv. rewrite (parse_json_complete _ _ J). exact J.
  Qed.

  Lemma iface_jv_ok r : iface_ok r -> iface_denotes r (iface_jv r).
  Proof. destruct r as [raw|msg]; cbn; intros H; [apply raw_jv_ok; auto|reflexivity]. Qed.

  Lemma iface_good dst r : iface_ok r -> AppendInterface dst r = dst ++ iface_txt r /\ GoodVal (iface_txt r) (iface_jv r).
  Proof. intros H. apply interface_good. apply iface_jv_ok; auto. Qed.

  Lemma prim_good dst p : prim_ok st p ->
    append_prim st dst p = dst ++ prim_txt p /\ GoodVal (prim_txt p) (prim_jv st p).
  Proof.
    unfold prim_txt. destruct p; cbn [append_prim prim_ok prim_jv]; intros H.
    - (* PStr *) rewrite !AppendString_shape. cbn [app]. split; auto. apply string_good.
    - rewrite !AppendBytes_shape. cbn [app]. split; auto. apply string_good.
    - destruct (hex_good dst s H) as [E [G _]]. destruct (hex_good [] s H) as [E0 _].
      rewrite E, E0. cbn [app]. auto.
    - destruct (strings_good dst l) as [E G]. destruct (strings_good [] l) as [E0 _]. rewrite E, E0. cbn [app]. auto.
    - (* PStringer *)
      rewrite !AppendStringer_shape. cbn [app]. split; auto.
      apply (stringer_good [] o nil_stringer_iface).
      destruct o as [s|]; cbn; [reflexivity|]. exact (proj2 (nil_good [])).
    - (* PStringers *)
      assert (H' : In None l -> iface_denotes nil_stringer_iface JNull) by (intros I; exact (proj2 (nil_good []))).
      destruct (stringers_good dst l _ _ H') as [E G]. destruct (stringers_good [] l _ _ H') as [E0 _].
      rewrite E, E0. cbn [app]. auto.
    - destruct (bool_good dst b) as [E G]. destruct (bool_good [] b) as [E0 _]. rewrite E, E0. cbn [app]. auto.
    - destruct (bools_good dst l) as [E G]. destruct (bools_good [] l) as [E0 _]. rewrite E, E0. cbn [app]. auto.
    - destruct (int_good dst z) as [E G]. destruct (int_good [] z) as [E0 _]. rewrite E, E0. cbn [app]. auto.
    - destruct (ints_good dst l) as [E G]. destruct (ints_good [] l) as [E0 _]. rewrite E, E0. cbn [app]. auto.
    - destruct (uint_good dst n) as [E G]. destruct (uint_good [] n) as [E0 _]. rewrite E, E0. cbn [app]. auto.
    - destruct (uints_good dst l) as [E G]. destruct (uints_good [] l) as [E0 _]. rewrite E, E0. cbn [app]. auto.
    - unfold AppendFloat32. rewrite !appendFloat_shape. cbn [app]. split; auto. apply float_good_txt; auto.
    - unfold AppendFloat64. rewrite !appendFloat_shape. cbn [app]. split; auto. apply float_good_txt; auto.
    - destruct (floats_good dst true l (s_prec st) H) as [E G]. destruct (floats_good [] true l (s_prec st) H) as [E0 _].
      unfold AppendFloats32. fold (AppendFloats32 dst l (s_prec st)). unfold AppendFloats32 in *. rewrite E, E0. cbn [app]. auto.
    - destruct (floats_good dst false l (s_prec st) H) as [E G]. destruct (floats_good [] false l (s_prec st) H) as [E0 _].
      unfold AppendFloats64 in *. rewrite E, E0. cbn [app]. auto.
    - rewrite !AppendTime_shape. cbn [app]. split; auto. apply time_good_txt. exact H.
    - assert (H' : s_timefmt st = TFLayout -> Forall (fun t => plain_text (t_fmt t)) l).
      { intros E. eapply Forall_impl; [|exact H]. intros t Ht. apply Ht; auto. }
      destruct (times_good dst l _ H') as [E G]. destruct (times_good [] l _ H') as [E0 _]. rewrite E, E0. cbn [app]. auto.
    - rewrite !AppendDuration_shape. cbn [app]. split; auto. apply duration_good_txt. exact (proj1 H).
    - assert (H' : s_dur_int st = false -> Forall (fun d => float_ok (d_quot d)) l).
      { intros E. eapply Forall_impl; [|exact H]. intros t Ht. apply (proj1 Ht); auto. }
      destruct (durations_good dst l (s_dur_unit st) _ (s_prec st) H') as [E G].
      destruct (durations_good [] l (s_dur_unit st) _ (s_prec st) H') as [E0 _]. rewrite E, E0. cbn [app]. auto.
    - destruct (iface_good dst r H) as [E G]. destruct (iface_good [] r H) as [E0 _]. rewrite E, E0. cbn [app]. auto.
    - unfold appendJSON. cbn [app]. split; auto. apply raw_jv_ok; auto.
    - destruct (rawcbor_good dst b64 H) as [E G]. destruct (rawcbor_good [] b64 H) as [E0 _]. rewrite E, E0. cbn [app]. auto.
    - destruct (nil_good dst) as [E G]. destruct (nil_good []) as [E0 _]. rewrite E, E0. cbn [app]. auto.
  Qed.

  (* one member appended through AppendKey *)
  Lemma key_member dst key t v : GoodVal t v ->
    AppendKey dst key ++ t = glue dst (json_string key ++ [0x3A] ++ t) /\
    Mem (json_string key ++ [0x3A] ++ t) [(go_runes key, v)].
  Proof.
    intros [J G]. split.
    - rewrite AppendKey_shape. unfold glue.
      assert (E : exists x r, json_string key ++ [0x3A] ++ t = x :: r) by (unfold json_string; cbn; eauto).
      destruct E as [x [r E]]. rewrite E. rewrite <- E.
      destruct (last_byte dst =? 0x7B); rewrite <- ?app_assoc; reflexivity.
    - destruct (key_good key) as [K GK]. cbn [Mem]. split.
      + apply JMembers_one; auto.
      + apply GoodTxt_app; auto. apply GoodTxt_app; auto. apply GoodTxt_ascii. repeat constructor; unfold printable; lia.
  Qed.

  Lemma key_prim_member dst key p : prim_ok st p ->
    append_prim st (AppendKey dst key) p = glue dst (json_string key ++ [0x3A] ++ prim_txt p) /\
    Mem (json_string key ++ [0x3A] ++ prim_txt p) [(go_runes key, prim_jv st p)].
  Proof.
    intros H. destruct (prim_good (AppendKey dst key) p H) as [E G]. rewrite E. apply key_member; auto.
  Qed.
End P.

(* ------------------------------------------------------------------ *)
(* one step                                                            *)
(* ------------------------------------------------------------------ *)
Definition Step (e e' : ev) (ms : list member) (s' : sstate) : Prop :=
  exists d, e_buf e' = glue (e_buf e) d /\ Mem d ms /\ e_stack e' = fst s' /\ e_discarded e' = snd s'.

Definition state_of (e : ev) : sstate := (e_stack e, e_discarded e).

Lemma Step_refl e : Step e e [] (state_of e).
Proof. exists []. cbn. auto. Qed.

Lemma Step_trans e1 e2 e3 m1 s2 m2 s3 : Step e1 e2 m1 s2 -> Step e2 e3 m2 s3 -> Step e1 e3 (m1 ++ m2) s3.
Proof.
  intros (d1 & B1 & M1 & _ & _) (d2 & B2 & M2 & S3 & D3).
  exists (join d1 d2). repeat split; auto.
  - rewrite B2, B1. eapply glue_glue; eauto.
  - apply Mem_join; auto.
Qed.

Definition Elems (d : bytes) (vs : list jv) : Prop :=
  match vs with [] => d = [] | _ => JElems d vs /\ GoodTxt d end.

Lemma JElems_nonempty d vs : JElems d vs -> d <> [].
Proof.
  induction 1 as [t v J|t v r l J HR IH].
  - apply (Json_last _ _ J).
  - destruct (Json_last _ _ J) as [Hne _]. intros E. apply app_eq_nil in E as [E _]. contradiction.
Qed.

Lemma Elems_snoc d vs t v : Elems d vs -> GoodVal t v -> Elems (AppendArrayDelim d ++ t) (vs ++ [v]).
Proof.
  intros H [J G]. destruct vs as [|a vs].
  - cbn in H. subst d. cbn. split; [apply JElems_one; auto|auto].
  - destruct H as [HE HG]. pose proof (JElems_nonempty _ _ HE) as Hne.
    unfold AppendArrayDelim. destruct d as [|x d]; [congruence|].
    change ((a :: vs) ++ [v]) with (a :: (vs ++ [v])). cbn [Elems]. split.
    + rewrite <- app_assoc. apply (JElems_snoc _ _ _ _ HE J).
    + apply GoodTxt_app; auto. apply GoodTxt_app; auto. apply GoodTxt_comma.
Qed.

Lemma Elems_array d vs : Elems d vs -> GoodVal ([0x5B] ++ d ++ [0x5D]) (JArr vs).
Proof.
  intros H. destruct vs as [|a vs].
  - cbn in H. subst d. split; [apply Json_arr_empty|]. apply GoodTxt_ascii. repeat constructor; unfold printable; lia.
  - destruct H as [HE HG]. split; [apply Json_arr_of_elems; auto|].
    apply GoodTxt_app; [apply GoodTxt_ascii; repeat constructor; unfold printable; lia|].
    apply GoodTxt_app; auto. apply GoodTxt_ascii; repeat constructor; unfold printable; lia.
Qed.

Lemma Mem_object d kvs : Mem d kvs -> GoodVal ([0x7B] ++ d ++ [0x7D]) (JObj kvs).
Proof.
  intros H. destruct kvs as [|a kvs].
  - cbn in H. subst d. split; [apply Json_obj_empty|]. apply GoodTxt_ascii. repeat constructor; unfold printable; lia.
  - destruct H as [HM HG]. split; [apply Json_obj_of_members; auto|].
    apply GoodTxt_app; [apply GoodTxt_ascii; repeat constructor; unfold printable; lia|].
    apply GoodTxt_app; auto. apply GoodTxt_ascii; repeat constructor; unfold printable; lia.
Qed.

Lemma glue_brace d : glue [0x7B] d = [0x7B] ++ d.
Proof. destruct d; reflexivity. Qed.

Lemma glue_after_brace b d : glue (b ++ [0x7B]) d = b ++ [0x7B] ++ d.
Proof.
  unfold glue. destruct d as [|x d]; [rewrite app_nil_r; reflexivity|].
  rewrite last_byte_snoc. cbn [N.eqb Pos.eqb]. rewrite <- app_assoc. reflexivity.
Qed.

Section Sound.
  Variable st : settings.
  Variable ex : op -> ev -> ev.
  Variable sp : op -> sstate -> list member * sstate.
  Variable okr : op -> Prop.
  Hypothesis Hex : forall o e, okr o -> Step e (ex o e) (fst (sp o (state_of e))) (snd (sp o (state_of e))).

  Lemma run_list_sound l : forall e, Forall okr l ->
    Step e (run_list ex l e) (fst (spec_list sp l (state_of e))) (snd (spec_list sp l (state_of e))).
  Proof.
    induction l as [|o l IH]; intros e H; cbn [run_list spec_list].
    - apply Step_refl.
    - inversion H as [|? ? Ho Hl]; subst.
      pose proof (Hex o e Ho) as S1.
      destruct (sp o (state_of e)) as [m1 s1] eqn:E1. cbn [fst snd] in S1.
      assert (Es : state_of (ex o e) = s1).
      { destruct S1 as (d & _ & _ & A & B). unfold state_of. rewrite A, B. destruct s1; reflexivity. }
      specialize (IH (ex o e) Hl). rewrite Es in IH.
      destruct (spec_list sp l s1) as [m2 s2]. cbn [fst snd] in *.
      eapply Step_trans; eauto.
  Qed.

  Lemma sub_object_sound fs marks : Forall okr fs ->
    exists t, fst (sub_object ex fs marks) = t /\ GoodVal t (obj_jv sp fs).
  Proof.
    intros H. unfold sub_object, obj_jv.
    pose proof (run_list_sound fs (fresh marks) H) as (d & B & M & _ & _).
    change (state_of (fresh marks)) with (false, false) in *.
    eexists. split; [reflexivity|]. cbn [fst]. rewrite B.
    unfold fresh, AppendBeginMarker, AppendEndMarker. cbn [e_buf app]. rewrite glue_brace.
    rewrite <- app_assoc. apply Mem_object; auto.
  Qed.

  Lemma errv_value_sound dst marks x : errv_ok st okr x ->
    exists t, fst (errv_value st ex dst marks x) = dst ++ t /\ GoodVal t (errv_jv st sp x).
  Proof.
    intros H. destruct x as [| |fs|s|r]; cbn [errv_value errv_jv errv_ok] in *.
    - destruct (iface_good dst _ H) as [E G]. eexists; split; [exact E|exact G].
    - destruct (nil_good dst) as [E G]. eexists; split; [exact E|exact G].
    - destruct (sub_object_sound fs marks H) as (t & E & G).
      destruct (sub_object ex fs marks) as [b m]. cbn [fst] in *. subst b. eexists; split; [reflexivity|exact G].
    - rewrite AppendString_shape. eexists; split; [reflexivity|apply string_good].
    - destruct (iface_good dst _ H) as [E G]. eexists; split; [exact E|exact G].
  Qed.

  Lemma arr_op_sound o buf marks vs : Elems buf vs -> arr_ok st okr o ->
    Elems (fst (arr_op st ex o (buf, marks))) (vs ++ arr_jv st sp o).
  Proof.
    intros HE Hok. destruct o; cbn [arr_op arr_jv arr_ok fst] in *; try (rewrite app_nil_r; exact HE).
    - (* AElem *) destruct (prim_good st (AppendArrayDelim buf) p Hok) as [E G]. rewrite E. apply Elems_snoc; auto.
    - destruct (sub_object_sound fs marks Hok) as (t & E & G).
      destruct (sub_object ex fs marks) as [b m]. cbn [fst] in *. subst b. apply Elems_snoc; auto.
    - destruct (sub_object_sound fs marks Hok) as (t & E & G).
      destruct (sub_object ex fs marks) as [b m]. cbn [fst] in *. subst b. apply Elems_snoc; auto.
    - destruct (errv_value_sound (AppendArrayDelim buf) marks e Hok) as (t & E & G). rewrite E. apply Elems_snoc; auto.
  Qed.

  Lemma arr_list_sound l : forall a vs, Elems (fst a) vs -> Forall (arr_ok st okr) l ->
    Elems (fst (arr_list st ex l a)) (vs ++ flat_map (arr_jv st sp) l).
  Proof.
    unfold arr_list. induction l as [|o l IH]; intros [buf marks] vs HE H; cbn [fold_left flat_map fst] in *.
    - rewrite app_nil_r. exact HE.
    - inversion H as [|? ? Ho Hl]; subst.
      pose proof (arr_op_sound o buf marks vs HE Ho) as S1.
      specialize (IH (arr_op st ex o (buf, marks)) _ S1 Hl). rewrite <- app_assoc in IH. exact IH.
  Qed.

  Lemma array_bytes_sound es marks : Forall (arr_ok st okr) es ->
    GoodVal (fst (array_bytes st ex es marks)) (JArr (flat_map (arr_jv st sp) es)).
  Proof.
    intros H. unfold array_bytes.
    match goal with |- context [arr_list st ex es ?a] =>
      pose proof (arr_list_sound es a [] eq_refl H) as S; destruct (arr_list st ex es a) as [b m] end.
    cbn [fst app] in *. unfold AppendArrayEnd, AppendArrayStart. cbn [app]. exact (Elems_array _ _ S).
  Qed.

  Lemma errs_fold_sound es : forall a vs, Elems (fst a) vs -> Forall (errv_ok st okr) es ->
    Elems (fst (fold_left (fun a x => errv_value st ex (AppendArrayDelim (fst a)) (snd a) x) es a))
          (vs ++ map (errv_jv st sp) es).
  Proof.
    induction es as [|x es IH]; intros [buf marks] vs HE H; cbn [fold_left map fst snd] in *.
    - rewrite app_nil_r. exact HE.
    - inversion H as [|? ? Hx Hl]; subst.
      destruct (errv_value_sound (AppendArrayDelim buf) marks x Hx) as (t & E & G).
      pose proof (Elems_snoc _ _ _ _ HE G) as S1. rewrite <- E in S1.
      specialize (IH _ _ S1 Hl). rewrite <- app_assoc in IH. exact IH.
  Qed.

  Lemma errs_bytes_sound es marks : Forall (errv_ok st okr) es ->
    GoodVal (fst (errs_bytes st ex es marks)) (JArr (map (errv_jv st sp) es)).
  Proof.
    intros H. unfold errs_bytes.
    match goal with |- context [fold_left ?f es ?a] =>
      pose proof (errs_fold_sound es a [] eq_refl H) as S; destruct (fold_left f es a) as [b m] end.
    cbn [fst app] in *. unfold AppendArrayEnd, AppendArrayStart. cbn [app]. exact (Elems_array _ _ S).
  Qed.

  (* the []error case of Fields: elements after "[" *)
  Lemma fields_errs_sound' es : forall pre body m vs (first : bool),
    Elems body vs -> (first = true <-> body = []) -> Forall (errv_ok st okr) es ->
    exists body', fst (fields_errs st ex es first (pre ++ [0x5B] ++ body) m) = pre ++ [0x5B] ++ body' /\
                  Elems body' (vs ++ map (errv_jv st sp) es).
  Proof.
    induction es as [|x es IH]; intros pre body m vs first HE Hf H; cbn [fields_errs map].
    - exists body. rewrite app_nil_r. auto.
    - inversion H as [|? ? Hx Hl]; subst.
      match goal with |- context [errv_value st ex ?D m x] => set (dst := D) end.
      assert (Ed : dst = pre ++ [0x5B] ++ AppendArrayDelim body).
      { unfold dst. destruct first.
        - destruct Hf as [Hf _]. rewrite (Hf eq_refl). reflexivity.
        - assert (body <> []) by (intros E; apply Hf in E; discriminate).
          unfold AppendArrayDelim. destruct body as [|b body']; [congruence|].
          destruct (pre ++ [0x5B] ++ b :: body') eqn:E'; [destruct pre; discriminate|].
          rewrite <- E'. rewrite <- !app_assoc. reflexivity. }
      destruct (errv_value_sound dst m x Hx) as (t & E & G).
      destruct (errv_value st ex dst m x) as [d1 m1]. cbn [fst] in E. subst d1.
      pose proof (Elems_snoc _ _ _ _ HE G) as S1.
      rewrite Ed. rewrite <- !app_assoc.
      replace (pre ++ [0x5B] ++ AppendArrayDelim body ++ t) with (pre ++ [0x5B] ++ (AppendArrayDelim body ++ t)) by reflexivity.
      assert (Hf' : false = true <-> AppendArrayDelim body ++ t = []).
      { split; [discriminate|]. intros E. apply app_eq_nil in E as [_ E]. destruct (GoodVal_last _ _ G) as [Hne _]. contradiction. }
      destruct (IH pre _ m1 _ false S1 Hf' Hl) as (body' & E' & S').
      exists body'. rewrite <- app_assoc in S'. auto.
  Qed.

  Lemma field_value_sound stack key dst marks v :
    (match v with
     | FVPrim p => prim_ok st p
     | FVObj fs => Forall okr fs
     | FVErr x stk => errv_ok st okr x /\ errv_ok st okr stk
     | FVErrs es => Forall (errv_ok st okr) es
     end) ->
    exists d, fst (field_value st ex stack (AppendKey dst key) marks v) = glue dst d /\
              Mem d (field_members st sp stack (Some key, v)).
  Proof.
    intros H. destruct v as [p|fs|x stk|es]; cbn [field_value field_members].
    - destruct (key_prim_member st dst key p H) as [E M]. eexists; split; [exact E|exact M].
    - destruct (sub_object_sound fs marks H) as (t & E & G).
      destruct (sub_object ex fs marks) as [b m]. cbn [fst] in *. subst b.
      destruct (key_member dst key t _ G) as [E M]. eexists; split; [exact E|exact M].
    - destruct H as [Hx Hs].
      destruct (errv_value_sound (AppendKey dst key) marks x Hx) as (t & E & G).
      destruct (errv_value st ex (AppendKey dst key) marks x) as [d1 m1]. cbn [fst] in E. subst d1.
      destruct (key_member dst key t _ G) as [E1 M1].
      unfold stack_members. destruct (stack && s_stack_marshaler st).
      2:{ cbn [fst]. rewrite ?app_nil_r in *. eexists; split; [exact E1|exact M1]. }
      destruct stk as [| |sfs|s|r]; cbn [fst]; try (eexists; split; [exact E1|exact M1]).
      + (* EText *)
        rewrite AppendString_shape. rewrite E1.
        destruct (key_member (glue dst (json_string key ++ [58] ++ t)) (s_stack_name st) _ _ (string_good s)) as [E2 M2].
        rewrite E2. rewrite (glue_glue _ _ _ _ M1). eexists; split; [reflexivity|].
        apply (Mem_join _ _ _ _ M1 M2).
      + cbn [errv_ok] in Hs. destruct (iface_good (AppendKey (AppendKey dst key ++ t) (s_stack_name st)) r Hs) as [E2 G2].
        rewrite E2. rewrite E1.
        destruct (key_member (glue dst (json_string key ++ [58] ++ t)) (s_stack_name st) _ _ G2) as [E3 M3].
        rewrite E3. rewrite (glue_glue _ _ _ _ M1). eexists; split; [reflexivity|].
        apply (Mem_join _ _ _ _ M1 M3).
    - unfold AppendArrayStart.
      assert (Hf : true = true <-> (@nil N) = []) by tauto.
      destruct (fields_errs_sound' es (AppendKey dst key) [] marks [] true eq_refl Hf H) as (body' & E & S).
      rewrite app_nil_r in E. cbn [app] in S.
      destruct (fields_errs st ex es true (AppendKey dst key ++ [91]) marks) as [d1 m1]. cbn [fst] in *. subst d1.
      unfold AppendArrayEnd. rewrite <- !app_assoc.
      destruct (key_member dst key _ _ (Elems_array _ _ S)) as [E1 M1].
      eexists; split; [exact E1|exact M1].
  Qed.

  Lemma fields_sound stack kvs : forall buf marks,
    Forall (fun kv => match snd kv with
                      | FVPrim p => prim_ok st p
                      | FVObj fs => Forall okr fs
                      | FVErr x stk => errv_ok st okr x /\ errv_ok st okr stk
                      | FVErrs es => Forall (errv_ok st okr) es
                      end) kvs ->
    exists d, fst (fields st ex stack kvs buf marks) = glue buf d /\ Mem d (flat_map (field_members st sp stack) kvs).
  Proof.
    induction kvs as [|[k v] kvs IH]; intros buf marks H; cbn [fields flat_map].
    - exists []. cbn. auto.
    - inversion H as [|? ? Hkv Hl]; subst. cbn [snd] in Hkv. destruct k as [key|].
      + destruct (field_value_sound stack key buf marks v Hkv) as (d1 & E1 & M1).
        destruct (field_value st ex stack (AppendKey buf key) marks v) as [b1 m1]. cbn [fst] in E1. subst b1.
        destruct (IH (glue buf d1) m1 Hl) as (d2 & E2 & M2).
        exists (join d1 d2). split; [rewrite E2; eapply glue_glue; eauto|apply Mem_join; auto].
      + cbn [field_members app]. apply IH; auto.
  Qed.

  Lemma set_buf_state e b : state_of (set_buf e b) = state_of e.
  Proof. reflexivity. Qed.

  Lemma object_on_sound e key fs : Forall okr fs ->
    Step e (object_on ex e key fs) (fst (object_members sp key fs (state_of e))) (snd (object_members sp key fs (state_of e))).
  Proof.
    intros H. unfold object_on, object_members.
    set (e0 := set_buf e (AppendBeginMarker (AppendKey (e_buf e) key))).
    pose proof (run_list_sound fs e0 H) as (d & B & M & S & D).
    change (state_of e0) with (state_of e) in *.
    destruct (spec_list sp fs (state_of e)) as [ms s']. cbn [fst snd] in *.
    assert (E0 : e_buf e0 = AppendKey (e_buf e) key ++ [0x7B]) by reflexivity.
    rewrite E0 in B. rewrite glue_after_brace in B.
    pose proof (Mem_object _ _ M) as G.
    destruct (key_member (e_buf e) key _ _ G) as [E1 M1].
    exists (json_string key ++ [58] ++ [123] ++ d ++ [125]). split; [|split; [exact M1|split; auto]].
    - unfold set_buf at 1. cbn [e_buf]. rewrite B. unfold AppendEndMarker. rewrite <- E1. rewrite <- !app_assoc. reflexivity.
  Qed.

  Lemma key_prim_step e key p : prim_ok st p ->
    Step e (key_prim st e key p) [(go_runes key, prim_jv st p)] (state_of e).
  Proof.
    intros H. destruct (key_prim_member st (e_buf e) key p H) as [E M].
    eexists. split; [exact E|split; [exact M|split; reflexivity]].
  Qed.

  Lemma an_err_sound e key x : errv_ok st okr x ->
    Step e (an_err st ex e key x) (fst (an_err_members sp key x (state_of e))) (snd (an_err_members sp key x (state_of e))).
  Proof.
    intros H. destruct x as [| |fs|s|r]; cbn [an_err an_err_members fst snd errv_ok] in *.
    - apply Step_refl.
    - apply Step_refl.
    - apply object_on_sound; auto.
    - apply (key_prim_step e key (PStr s)). exact I.
    - apply (key_prim_step e key (PIface r)). exact H.
  Qed.

  Lemma with_buf_step e b m d ms : b = glue (e_buf e) d -> Mem d ms -> Step e (with_buf_marks e (b, m)) ms (state_of e).
  Proof. intros E M. exists d. cbn. auto. Qed.

  Lemma exec_body_sound o e : ok_body st okr o ->
    Step e (exec_body st ex o e) (fst (spec_body st sp o (state_of e))) (snd (spec_body st sp o (state_of e))).
  Proof.
    intros H. destruct o as [key p|key fs|key es|key o|o|kvs|key x|x stk|key es| |fs|t|r|id| |p|fs|fs|x];
      cbn [exec_body spec_body ok_body] in *; try apply Step_refl.
    - apply key_prim_step; auto.
    - (* ODict *)
      destruct (sub_object_sound fs (e_marks e) H) as (t & E & G).
      destruct (sub_object ex fs (e_marks e)) as [b m]. cbn [fst] in E. subst b.
      destruct (key_member (e_buf e) key t _ G) as [E1 M1]. eapply with_buf_step; eauto.
    - (* OArray *)
      pose proof (array_bytes_sound es (e_marks e) H) as G.
      destruct (array_bytes st ex es (e_marks e)) as [b m]. cbn [fst] in G.
      destruct (key_member (e_buf e) key b _ G) as [E1 M1]. eapply with_buf_step; eauto.
    - (* OObject *)
      destruct o as [fs|].
      + apply object_on_sound; auto.
      + destruct (nil_good (AppendKey (e_buf e) key)) as [E G].
        destruct (key_member (e_buf e) key _ _ G) as [E1 M1].
        exists (json_string key ++ [58] ++ lit_null). cbn [set_buf e_buf]. rewrite E. split; [exact E1|split; [exact M1|split; reflexivity]].
    - (* OEmbed *)
      destruct o as [fs|]; [apply run_list_sound; auto|apply Step_refl].
    - (* OFields *)
      destruct (fields_sound (e_stack e) kvs (e_buf e) (e_marks e) H) as (d & E & M).
      destruct (fields st ex (e_stack e) kvs (e_buf e) (e_marks e)) as [b m]. cbn [fst] in E.
      cbn [fst state_of]. eapply with_buf_step; eauto.
    - apply an_err_sound; auto.
    - (* OErr *)
      destruct H as [Hx Hs].
      set (e1 := if e_stack e && s_stack_marshaler st then _ else e).
      assert (S1 : Step e e1
                (fst (if fst (state_of e) && s_stack_marshaler st
                      then match stk with
                           | ENil | ETypedNil => ([], state_of e)
                           | EObj fs => object_members sp (s_stack_name st) fs (state_of e)
                           | EText t => ([(go_runes (s_stack_name st), str_jv t)], state_of e)
                           | EIface r => ([(go_runes (s_stack_name st), iface_jv r)], state_of e)
                           end else ([], state_of e)))
                (snd (if fst (state_of e) && s_stack_marshaler st
                      then match stk with
                           | ENil | ETypedNil => ([], state_of e)
                           | EObj fs => object_members sp (s_stack_name st) fs (state_of e)
                           | EText t => ([(go_runes (s_stack_name st), str_jv t)], state_of e)
                           | EIface r => ([(go_runes (s_stack_name st), iface_jv r)], state_of e)
                           end else ([], state_of e)))).
      { unfold e1. cbn [state_of fst]. destruct (e_stack e && s_stack_marshaler st); [|apply Step_refl].
        destruct stk as [| |fs|s|r]; cbn [errv_ok] in Hs; try apply Step_refl.
        - apply object_on_sound; auto.
        - apply (key_prim_step e (s_stack_name st) (PStr s)). exact I.
        - apply (key_prim_step e (s_stack_name st) (PIface r)). exact Hs. }
      destruct (if fst (state_of e) && s_stack_marshaler st then _ else _) as [m1 s1] eqn:E1 in S1 |- *.
      cbn [fst snd] in S1.
      assert (Es : state_of e1 = s1).
      { destruct S1 as (d & _ & _ & A & B). unfold state_of. rewrite A, B. destruct s1; reflexivity. }
      pose proof (an_err_sound e1 (s_error_name st) x Hx) as S2. rewrite Es in S2.
      destruct (an_err_members sp (s_error_name st) x s1) as [m2 s2]. cbn [fst snd] in *.
      eapply Step_trans; eauto.
    - (* OErrs *)
      pose proof (errs_bytes_sound es (e_marks e) H) as G.
      destruct (errs_bytes st ex es (e_marks e)) as [b m]. cbn [fst] in G.
      destruct (key_member (e_buf e) key b _ G) as [E1 M1]. eapply with_buf_step; eauto.
    - (* OStack *) exists []. cbn. auto.
    - (* OFunc *)
      cbn [state_of snd]. destruct (e_discarded e) eqn:D.
      + exists []. cbn. rewrite D. auto.
      + exact (run_list_sound fs e H).
    - (* OTimestamp *) apply (key_prim_step e (s_timestamp_name st) (PTime t)). exact H.
    - (* OCaller *)
      destruct r as [txt|]; [|apply Step_refl]. apply (key_prim_step e (s_caller_name st) (PStr txt)). exact I.
    - (* OMark *) exists []. cbn. auto.
    - (* ODiscard *) exists []. cbn. auto.
  Qed.
End Sound.

(* ------------------------------------------------------------------ *)
(* tying the knot: every fuel                                          *)
(* ------------------------------------------------------------------ *)
Lemma exec_n_sound st n : forall o e, ok_n st n o ->
  Step e (exec_n st n o e) (fst (spec_n st n o (state_of e))) (snd (spec_n st n o (state_of e))).
Proof.
  induction n as [|n IH]; intros o e H; cbn [exec_n spec_n ok_n] in *.
  - apply Step_refl.
  - apply (exec_body_sound st (exec_n st n) (spec_n st n) (ok_n st n) IH); auto.
Qed.

Lemma exec_sound st o e : op_ok st o ->
  Step e (exec st o e) (fst (op_spec st o (state_of e))) (snd (op_spec st o (state_of e))).
Proof. apply exec_n_sound. Qed.

Lemma exec_list_sound st l e : ops_ok st l ->
  Step e (exec_list st l e) (fst (spec_ops st l (state_of e))) (snd (spec_ops st l (state_of e))).
Proof.
  intros H. unfold exec_list, spec_ops.
  apply (run_list_sound (exec_n st (depth_list l)) (spec_n st (depth_list l)) (ok_n st (depth_list l))); auto.
  intros o e0 Ho. apply exec_n_sound; auto.
Qed.

(* ------------------------------------------------------------------ *)
(* loggers                                                             *)
(* ------------------------------------------------------------------ *)
Lemma glue_obj d0 k0 d : Mem d0 k0 -> glue ([0x7B] ++ d0) d = [0x7B] ++ join d0 d.
Proof.
  intros M. destruct d0 as [|x d0].
  - cbn [app join]. apply glue_brace.
  - pose proof (Mem_last _ _ M ltac:(discriminate)) as L.
    destruct d as [|y d]; [reflexivity|].
    unfold glue. rewrite last_byte_app by discriminate.
    replace (last_byte (x :: d0) =? 0x7B) with false by lia.
    unfold join. rewrite <- !app_assoc. reflexivity.
Qed.

Lemma AppendObjectData_obj d0 k0 m : Mem d0 k0 -> m <> [] ->
  AppendObjectData ([0x7B] ++ d0) ([0x7B] ++ m) = [0x7B] ++ join d0 m.
Proof.
  intros M Hm. rewrite AppendObjectData_shape. cbn [app strip_brace].
  destruct d0 as [|x d0].
  - cbn. destruct m; [congruence|reflexivity].
  - cbn [length]. replace (2 <=? S (S (length d0)))%nat with true by (symmetry; apply Nat.leb_le; lia).
    unfold join. destruct m as [|y m]; [congruence|]. cbn [app]. rewrite <- !app_assoc. reflexivity.
Qed.

Section Loggers.
  Variable st : settings.

  (* the logger's context buffer holds exactly the members of its spec *)
  Definition LInv (l : logger) (ls : lspec) : Prop :=
    (exists d, l_context l = [0x7B] ++ d /\ Mem d (ls_kvs ls)) /\
    l_hooks l = ls_hooks ls /\ l_stack l = ls_stack ls.

  (* a root logger (no With yet): empty context *)
  Definition LInv0 (l : logger) (ls : lspec) : Prop :=
    ((l_context l = [] /\ ls_kvs ls = []) \/ exists d, l_context l = [0x7B] ++ d /\ Mem d (ls_kvs ls)) /\
    l_hooks l = ls_hooks ls /\ l_stack l = ls_stack ls.

  Lemma with_inv l ls : LInv0 l ls -> LInv (with_ l) ls.
  Proof.
    intros [[[E K]|(d & E & M)] [H S]]; unfold with_, LInv; cbn [l_context l_hooks l_stack]; rewrite E.
    - split; auto. exists []. rewrite K. split; reflexivity.
    - split; auto. exists d. destruct ([123] ++ d) eqn:E'; [discriminate|]. auto.
  Qed.

  Lemma LInv_weaken l ls : LInv l ls -> LInv0 l ls.
  Proof. intros [H R]. split; auto. Qed.

  (* an event op run on the context buffer *)
  Lemma ctx_event_step l ls e' ms s' :
    LInv l ls ->
    Step {| e_buf := l_context l; e_stack := l_stack l; e_discarded := false; e_marks := [] |} e' ms s' ->
    exists d, e_buf e' = [0x7B] ++ d /\ Mem d (ls_kvs ls ++ ms).
  Proof.
    intros [(d0 & E & M0) _] (d & B & M & _ & _). cbn [e_buf] in B. rewrite E in B.
    rewrite (glue_obj _ _ _ M0) in B. exists (join d0 d). split; auto. apply Mem_join; auto.
  Qed.

  (* a helper event spliced in with AppendObjectData *)
  Lemma ctx_splice l ls e' ms s' :
    LInv l ls -> Step (fresh []) e' ms s' ->
    exists d, (if (1 <? N.of_nat (length (e_buf e'))) then AppendObjectData (l_context l) (e_buf e') else l_context l) = [0x7B] ++ d /\
              Mem d (ls_kvs ls ++ ms).
  Proof.
    intros [(d0 & E & M0) _] (d & B & M & _ & _).
    unfold fresh, AppendBeginMarker in B. cbn [e_buf app] in B. rewrite glue_brace in B.
    rewrite B, E. destruct d as [|y d].
    - cbn [app length]. cbn. exists d0. pose proof (Mem_nil_iff _ _ M) as [N _]. rewrite (N eq_refl), app_nil_r. auto.
    - replace (1 <? N.of_nat (length ([123] ++ y :: d))) with true by (cbn [app length]; lia).
      rewrite (AppendObjectData_obj _ _ _ M0) by discriminate.
      exists (join d0 (y :: d)). split; auto. apply Mem_join; auto.
  Qed.

  Lemma ctx_object_inv l ls key o : LInv l ls -> op_ok st (OObject key o) ->
    LInv (ctx_object st l key o) {| ls_kvs := ls_kvs ls ++ fresh_members st (OObject key o); ls_hooks := ls_hooks ls; ls_stack := ls_stack ls |}.
  Proof.
    intros I H. pose proof (exec_sound st (OObject key o) (fresh []) H) as S.
    change (state_of (fresh [])) with (false, false) in S.
    destruct (ctx_splice l ls _ _ _ I S) as (d & E & M).
    assert (Hne : (1 <? N.of_nat (length (e_buf (exec st (OObject key o) (fresh []))))) = true).
    { destruct S as (d1 & B & M1 & _ & _). rewrite B. unfold fresh, AppendBeginMarker. cbn [e_buf app]. rewrite glue_brace.
      assert (d1 <> []).
      { intros E1. apply (Mem_nil_iff _ _ M1) in E1. unfold op_spec in E1.
        destruct (depth (OObject key o)) eqn:Dp; [destruct o; discriminate|].
        cbn [spec_n spec_body] in E1. destruct o; cbn in E1; [|discriminate].
        unfold object_members in E1. destruct (spec_list _ l0 _) in E1. discriminate. }
      destruct d1; [congruence|]. cbn [app length]. lia. }
    rewrite Hne in E. destruct I as [_ [Hh Hs]].
    unfold ctx_object, ctx_set, LInv. cbn [l_context l_hooks l_stack ls_kvs ls_hooks ls_stack].
    split; [exists d; auto|auto].
  Qed.

  Lemma ctx_key_prim_inv l ls key p : LInv l ls -> prim_ok st p ->
    LInv (ctx_key_prim st l key p) {| ls_kvs := ls_kvs ls ++ [(go_runes key, prim_jv st p)]; ls_hooks := ls_hooks ls; ls_stack := ls_stack ls |}.
  Proof.
    intros I H. destruct (key_prim_member st (l_context l) key p H) as [E M].
    destruct I as [(d0 & E0 & M0) [Hh Hs]].
    unfold ctx_key_prim, ctx_set, LInv. cbn [l_context l_hooks l_stack ls_kvs ls_hooks ls_stack].
    split; auto. rewrite E, E0, (glue_obj _ _ _ M0). eexists; split; [reflexivity|]. apply Mem_join; auto.
  Qed.

  Lemma LInv_ext l ls ls' : LInv l ls -> ls_kvs ls = ls_kvs ls' -> ls_hooks ls = ls_hooks ls' -> ls_stack ls = ls_stack ls' -> LInv l ls'.
  Proof. intros [A [B C]] E1 E2 E3. unfold LInv. rewrite <- E1, <- E2, <- E3. auto. Qed.

  Lemma op_ok_anerr_obj key fs : op_ok st (OAnErr key (EObj fs)) -> op_ok st (OObject key (Some fs)).
  Proof. unfold op_ok. cbn. auto. Qed.

  Lemma ctx_an_err_inv l ls key x : LInv l ls -> op_ok st (OAnErr key x) ->
    LInv (ctx_an_err st l key x) {| ls_kvs := ls_kvs ls ++ can_err_members st key x; ls_hooks := ls_hooks ls; ls_stack := ls_stack ls |}.
  Proof.
    intros I H. destruct x as [| |fs|s|r]; cbn [ctx_an_err can_err_members].
    - eapply LInv_ext; eauto. cbn. rewrite app_nil_r. reflexivity.
    - eapply LInv_ext; eauto. cbn. rewrite app_nil_r. reflexivity.
    - apply ctx_object_inv; [auto|apply op_ok_anerr_obj; auto].
    - apply (ctx_key_prim_inv l ls key (PStr s)); [auto|exact Logic.I].
    - apply (ctx_key_prim_inv l ls key (PIface r)); [auto|]. unfold op_ok in H. cbn in H. exact H.
  Qed.
End Loggers.

Section Loggers2.
  Variable st : settings.

  Lemma ctx_exec_inv c l ls : LInv l ls -> cop_ok st c -> LInv (ctx_exec st c l) (cop_spec st c ls).
  Proof.
    intros I H. destruct c as [o|key x|x stk|key es|key o|o|h|]; cbn [ctx_exec cop_spec cop_ok] in *.
    - (* COp *)
      set (e0 := {| e_buf := l_context l; e_stack := l_stack l; e_discarded := false; e_marks := [] |}).
      pose proof (exec_sound st o e0 H) as S.
      assert (Es : state_of e0 = (ls_stack ls, false)) by (destruct I as [_ [_ Hs]]; unfold state_of, e0; cbn; rewrite Hs; reflexivity).
      rewrite Es in S. destruct (op_spec st o (ls_stack ls, false)) as [ms s'] eqn:E. cbn [fst snd] in S.
      destruct (ctx_event_step l ls _ _ _ I S) as (d & Ed & M).
      destruct S as (_ & _ & _ & Hst & _). destruct I as [_ [Hh Hs]].
      unfold LInv. cbn [l_context l_hooks l_stack ls_kvs ls_hooks ls_stack]. split; [exists d; auto|auto].
    - apply ctx_an_err_inv; auto.
    - (* CErr *)
      destruct H as [Hx Hs].
      set (l1 := if l_stack l && s_stack_marshaler st then _ else l).
      assert (I1 : LInv l1 {| ls_kvs := ls_kvs ls ++ (if ls_stack ls && s_stack_marshaler st then can_err_members st (s_stack_name st) stk else []);
                              ls_hooks := ls_hooks ls; ls_stack := ls_stack ls |}).
      { unfold l1. destruct I as [A [B C]]. rewrite C. destruct (ls_stack ls && s_stack_marshaler st).
        - assert (I' : LInv l ls) by (split; auto).
          pose proof (ctx_an_err_inv st l ls (s_stack_name st) stk I' Hs) as R.
          destruct stk; exact R.
        - eapply LInv_ext; [split; eauto| | |]; cbn; rewrite ?app_nil_r; reflexivity. }
      pose proof (ctx_an_err_inv st l1 _ (s_error_name st) x I1 Hx) as R.
      eapply LInv_ext; [exact R| | |]; cbn; rewrite <- ?app_assoc; reflexivity.
    - (* CErrs *)
      set (es' := map _ es) in *.
      set (e0 := {| e_buf := l_context l; e_stack := l_stack l; e_discarded := false; e_marks := [] |}).
      pose proof (exec_sound st (OErrs key es') e0 H) as S.
      assert (Es : state_of e0 = (ls_stack ls, false)) by (destruct I as [_ [_ Hs]]; unfold state_of, e0; cbn; rewrite Hs; reflexivity).
      rewrite Es in S.
      destruct (ctx_event_step l ls _ _ _ I S) as (d & Ed & M). destruct I as [_ [Hh Hs]].
      unfold ctx_set, LInv. cbn [l_context l_hooks l_stack ls_kvs ls_hooks ls_stack]. split; [exists d; auto|auto].
    - apply ctx_object_inv; auto.
    - (* CEmbed *)
      pose proof (exec_sound st (OEmbed o) (fresh []) H) as S.
      change (state_of (fresh [])) with (false, false) in S.
      destruct (ctx_splice l ls _ _ _ I S) as (d & E & M). destruct I as [_ [Hh Hs]].
      unfold fresh_members. destruct (1 <? N.of_nat (length (e_buf (exec st (OEmbed o) (fresh []))))).
      + unfold LInv. cbn [l_context l_hooks l_stack ls_kvs ls_hooks ls_stack]. split; [exists d; auto|auto].
      + unfold LInv. cbn [l_context l_hooks l_stack ls_kvs ls_hooks ls_stack]. split; [exists d; auto|auto].
    - (* CHook *)
      destruct I as [A [Hh Hs]]. unfold LInv. cbn [l_context l_hooks l_stack ls_kvs ls_hooks ls_stack].
      split; auto. rewrite Hh. auto.
    - (* CReset *)
      destruct I as [A [Hh Hs]]. unfold LInv. cbn [l_context l_hooks l_stack ls_kvs ls_hooks ls_stack].
      split; auto. exists []. split; reflexivity.
  Qed.

  Lemma ctx_fold_inv cs : forall l ls, LInv l ls -> Forall (cop_ok st) cs ->
    LInv (fold_left (fun l c => ctx_exec st c l) cs l) (fold_left (fun l c => cop_spec st c l) cs ls).
  Proof.
    induction cs as [|c cs IH]; intros l ls I H; cbn [fold_left]; auto.
    inversion H; subst. apply IH; auto. apply ctx_exec_inv; auto.
  Qed.

  Lemma step_inv l ls s : LInv0 l ls -> Forall (cop_ok st) (snd s) -> LInv0 (step st l s) (step_spec st ls s).
  Proof.
    intros I H. unfold step, step_spec. pose proof (with_inv l ls I) as I1.
    pose proof (ctx_fold_inv (snd s) _ _ I1 H) as I2.
    destruct (fst s).
    - unfold update_ctx. destruct I2 as [A _]. destruct I as [_ [Hh Hs]].
      unfold LInv0. cbn [l_context l_hooks l_stack ls_kvs ls_hooks ls_stack]. split; auto.
    - unfold derive. apply LInv_weaken; auto.
  Qed.

  Lemma chain_inv chain : chain_ok st chain -> LInv0 (fold_left (step st) chain (root)) (chain_spec st chain).
  Proof.
    unfold chain_spec, chain_ok.
    assert (I0 : LInv0 root (lspec_root)) by (unfold LInv0, root, lspec_root; cbn; auto).
    revert I0. generalize root lspec_root.
    induction chain as [|s chain IH]; intros l ls I H; cbn [fold_left]; auto.
    inversion H; subst. apply IH; auto. apply step_inv; auto.
  Qed.

  (* ---------------- whole events ---------------- *)
  Lemma new_event_step l ls lvl marks : LInv0 l ls ->
    exists d, e_buf (new_event st l lvl marks) = [0x7B] ++ d /\ Mem d (level_members st lvl ++ ls_kvs ls) /\
              state_of (new_event st l lvl marks) = (ls_stack ls, false).
  Proof.
    intros [C [Hh Hs]]. unfold new_event, level_members.
    set (c := negb (lvl =? NoLevel)%Z && negb match s_level_name st with [] => true | _ :: _ => false end).
    assert (E1 : exists d1, e_buf (if c then key_prim st (fresh marks) (s_level_name st) (PStr (s_level_text st lvl)) else fresh marks) = [0x7B] ++ d1 /\
                            Mem d1 (if c then [(go_runes (s_level_name st), str_jv (s_level_text st lvl))] else [])).
    { destruct c.
      - destruct (key_prim_member st (e_buf (fresh marks)) (s_level_name st) (PStr (s_level_text st lvl)) Logic.I) as [E M].
        unfold key_prim. cbn [set_buf e_buf]. rewrite E. unfold fresh, AppendBeginMarker. cbn [e_buf app]. rewrite glue_brace.
        eexists; split; [reflexivity|exact M].
      - exists []. split; reflexivity. }
    destruct E1 as (d1 & E1 & M1).
    set (e1 := if c then _ else fresh marks) in *.
    unfold state_of. cbn [e_stack e_discarded]. rewrite Hs.
    destruct C as [[Ec Kc]|(dc & Ec & Mc)].
    - rewrite Ec. cbn [length]. cbn [N.of_nat N.ltb N.compare]. rewrite Kc, app_nil_r.
      exists d1. auto.
    - rewrite Ec. destruct dc as [|y dc].
      + cbn [app length]. cbn [N.of_nat]. replace (1 <? 1) with false by reflexivity.
        pose proof (Mem_nil_iff _ _ Mc) as [N _]. rewrite (N eq_refl), app_nil_r. exists d1. auto.
      + replace (1 <? N.of_nat (length ([123] ++ y :: dc))) with true by (cbn [app length]; lia).
        cbn [set_buf e_buf]. rewrite E1. rewrite (AppendObjectData_obj _ _ _ M1) by discriminate.
        exists (join d1 (y :: dc)). split; [reflexivity|]. split; [apply Mem_join; auto|reflexivity].
  Qed.

  Lemma hooks_sound hs : forall e, Forall (ops_ok st) hs ->
    Step e (fold_left (fun e h => exec_list st h e) hs e) (fst (hooks_spec st hs (state_of e))) (snd (hooks_spec st hs (state_of e))).
  Proof.
    induction hs as [|h hs IH]; intros e H; cbn [fold_left hooks_spec].
    - apply Step_refl.
    - inversion H as [|? ? Hh Hl]; subst.
      pose proof (exec_list_sound st h e Hh) as S1.
      destruct (spec_ops st h (state_of e)) as [m1 s1] eqn:E1. cbn [fst snd] in S1.
      assert (Es : state_of (exec_list st h e) = s1).
      { destruct S1 as (d & _ & _ & A & B). unfold state_of. rewrite A, B. destruct s1; reflexivity. }
      specialize (IH (exec_list st h e) Hl). rewrite Es in IH.
      destruct (hooks_spec st hs s1) as [m2 s2]. cbn [fst snd] in *. eapply Step_trans; eauto.
  Qed.

  Definition hooks_ok (chain : list (bool * list cop)) : Prop := Forall (ops_ok st) (ls_hooks (chain_spec st chain)).

  (* THE theorem: the line written for any program is the JSON object whose
     members are, in order, the level field, the context fields, the event's
     fields, the hook fields and the message; and it is written iff no hook or
     op discarded it *)
  Theorem run_chain_sound chain lvl ops msg :
    chain_ok st chain -> hooks_ok chain -> ops_ok st ops ->
    let '(kvs, written) := event_spec st chain lvl ops msg in
    match fst (run_chain st chain lvl ops msg) with
    | None => written = false
    | Some line => written = true /\
        exists body, line = body ++ [10] /\ Json body (JObj kvs) /\ GoodTxt body
    end.
  Proof.
    intros Hc Hh Ho. unfold event_spec, run_chain, run_event, finish.
    pose proof (chain_inv chain Hc) as I.
    set (l := fold_left (step st) chain root) in *. set (ls := chain_spec st chain) in *.
    destruct (new_event_step l ls lvl [] I) as (d0 & E0 & M0 & S0).
    set (e0 := new_event st l lvl []) in *.
    pose proof (exec_list_sound st ops e0 Ho) as S1. rewrite S0 in S1.
    destruct (spec_ops st ops (ls_stack ls, false)) as [me s1] eqn:E1. cbn [fst snd] in S1.
    set (e1 := exec_list st ops e0) in *.
    assert (Es1 : state_of e1 = s1).
    { destruct S1 as (d & _ & _ & A & B). unfold state_of. rewrite A, B. destruct s1; reflexivity. }
    assert (Hl : l_hooks l = ls_hooks ls) by (destruct I as [_ [A _]]; exact A).
    rewrite Hl. unfold hooks_ok in Hh. fold ls in Hh.
    pose proof (hooks_sound (ls_hooks ls) e1 Hh) as S2. rewrite Es1 in S2.
    destruct (hooks_spec st (ls_hooks ls) s1) as [mh s2] eqn:E2. cbn [fst snd] in S2.
    set (e2 := fold_left (fun e h => exec_list st h e) (ls_hooks ls) e1) in *.
    pose proof (Step_trans _ _ _ _ _ _ _ S1 S2) as S12.
    (* message *)
    assert (S3 : Step e2 (match msg with [] => e2 | _ => key_prim st e2 (s_message_name st) (PStr msg) end)
                      (msg_members st msg) (state_of e2)).
    { unfold msg_members. destruct msg; [apply Step_refl|]. apply (key_prim_step st e2 (s_message_name st) (PStr (n :: msg))). exact Logic.I. }
    pose proof (Step_trans _ _ _ _ _ _ _ S12 S3) as S.
    set (e3 := match msg with [] => e2 | _ => _ end) in *.
    destruct S as (d & B & M & _ & D).
    assert (Ed : e_discarded e3 = snd s2).
    { rewrite D. destruct S2 as (_ & _ & _ & _ & D2). unfold state_of. cbn [snd]. exact D2. }
    rewrite Ed. destruct (snd s2); cbn [fst negb]; [reflexivity|].
    split; [reflexivity|].
    rewrite E0 in B. rewrite (glue_obj _ _ _ M0) in B.
    exists ([0x7B] ++ join d0 d ++ [0x7D]). split.
    - unfold AppendLineBreak, AppendEndMarker. rewrite B. rewrite <- !app_assoc. reflexivity.
    - pose proof (Mem_join _ _ _ _ M0 M) as MJ.
      repeat rewrite <- app_assoc in MJ.
      exact (Mem_object _ _ MJ).
  Qed.
End Loggers2.

(* ------------------------------------------------------------------ *)
(* corollaries used by the property files                              *)
(* ------------------------------------------------------------------ *)
Section Corollaries.
  Variable st : settings.

  (* C01 *)
  Theorem event_line chain lvl ops msg line :
    chain_ok st chain -> hooks_ok st chain -> ops_ok st ops ->
    fst (run_chain st chain lvl ops msg) = Some line ->
    exists body kvs, line = body ++ [10] /\ Json body (JObj kvs) /\
      (exists cs, Utf8 body cs) /\ Forall (fun b => 32 <= b /\ b < 256) body.
  Proof.
    intros Hc Hh Ho E. pose proof (run_chain_sound st chain lvl ops msg Hc Hh Ho) as R.
    destruct (event_spec st chain lvl ops msg) as [kvs w]. rewrite E in R.
    destruct R as [_ (body & E1 & J & [U F])]. exists body, kvs. auto.
  Qed.

  (* C02 / C03: the members are exactly the specified ones, in the specified order *)
  Theorem event_members chain lvl ops msg line :
    chain_ok st chain -> hooks_ok st chain -> ops_ok st ops ->
    fst (run_chain st chain lvl ops msg) = Some line ->
    exists body, line = body ++ [10] /\ Json body (JObj (fst (event_spec st chain lvl ops msg))) /\
      forall v, Json body v -> v = JObj (fst (event_spec st chain lvl ops msg)).
  Proof.
    intros Hc Hh Ho E. pose proof (run_chain_sound st chain lvl ops msg Hc Hh Ho) as R.
    destruct (event_spec st chain lvl ops msg) as [kvs w]. rewrite E in R.
    destruct R as [_ (body & E1 & J & _)]. exists body. cbn [fst]. repeat split; auto.
    intros v Jv. eapply json_functional; eauto.
  Qed.

  Theorem event_layout chain lvl ops msg line :
    chain_ok st chain -> hooks_ok st chain -> ops_ok st ops ->
    fst (run_chain st chain lvl ops msg) = Some line ->
    exists body, line = body ++ [10] /\
      Json body (JObj (fst (event_spec st chain lvl ops msg))) /\
      fst (event_spec st chain lvl ops msg) =
        let l := chain_spec st chain in
        let me := spec_ops st ops (ls_stack l, false) in
        let mh := hooks_spec st (ls_hooks l) (snd me) in
        level_members st lvl ++ ls_kvs l ++ fst me ++ fst mh ++ msg_members st msg.
  Proof.
    intros Hc Hh Ho E.
    destruct (event_members chain lvl ops msg line Hc Hh Ho E) as (body & E1 & J & _).
    exists body. repeat split; auto.
    unfold event_spec. cbv zeta. destruct (spec_ops st ops _) as [me s1]. cbn [fst snd].
    destruct (hooks_spec st _ s1) as [mh s2]. reflexivity.
  Qed.

  Theorem event_written_iff chain lvl ops msg :
    chain_ok st chain -> hooks_ok st chain -> ops_ok st ops ->
    (fst (run_chain st chain lvl ops msg) = None <-> snd (event_spec st chain lvl ops msg) = false).
  Proof.
    intros Hc Hh Ho. pose proof (run_chain_sound st chain lvl ops msg Hc Hh Ho) as R.
    destruct (event_spec st chain lvl ops msg) as [kvs w]. cbn [snd].
    destruct (fst (run_chain st chain lvl ops msg)) as [line|].
    - destruct R as [R _]. subst w. split; discriminate.
    - subst w. tauto.
  Qed.

  (* the hooks of a logger are those registered along its derivation path,
     ancestors first, in registration order; UpdateContext registers none *)
  Definition hooks_in (cs : list cop) : list (list op) :=
    flat_map (fun c => match c with CHook h => [h] | _ => [] end) cs.
  Definition hooks_of_chain (chain : list (bool * list cop)) : list (list op) :=
    flat_map (fun s : bool * list cop => if fst s then [] else hooks_in (snd s)) chain.

  Lemma cop_spec_hooks c l : ls_hooks (cop_spec st c l) = ls_hooks l ++ match c with CHook h => [h] | _ => [] end.
  Proof.
    destruct c as [o|k x|x stk|k es|k o|o|h|]; cbn [cop_spec ls_hooks]; rewrite ?app_nil_r; auto.
    destruct (op_spec st o (ls_stack l, false)). cbn. rewrite ?app_nil_r. reflexivity.
  Qed.

  Lemma fold_cop_hooks cs : forall l, ls_hooks (fold_left (fun l c => cop_spec st c l) cs l) = ls_hooks l ++ hooks_in cs.
  Proof.
    induction cs as [|c cs IH]; intros l; cbn [fold_left hooks_in flat_map].
    - rewrite app_nil_r. reflexivity.
    - rewrite IH, cop_spec_hooks. rewrite <- app_assoc. reflexivity.
  Qed.

  Lemma chain_hooks_gen chain : forall l, ls_hooks (fold_left (step_spec st) chain l) = ls_hooks l ++ hooks_of_chain chain.
  Proof.
    induction chain as [|s chain IH]; intros l; cbn [fold_left hooks_of_chain flat_map].
    - rewrite app_nil_r. reflexivity.
    - rewrite IH. unfold step_spec. destruct (fst s); cbn [ls_hooks].
      + reflexivity.
      + rewrite fold_cop_hooks. rewrite <- app_assoc. reflexivity.
  Qed.

  Theorem chain_hooks chain : ls_hooks (chain_spec st chain) = hooks_of_chain chain.
  Proof. unfold chain_spec. rewrite chain_hooks_gen. reflexivity. Qed.

  Theorem logger_hooks chain : chain_ok st chain ->
    l_hooks (fold_left (step st) chain root) = hooks_of_chain chain.
  Proof.
    intros H. destruct (chain_inv st chain H) as [_ [Hh _]]. rewrite Hh. apply chain_hooks.
  Qed.

  (* every entry point appends the same value text for the same primitive *)
  Theorem entry_points_agree p : prim_ok st p ->
    (forall e key, e_buf (exec st (OKey key p) e) = AppendKey (e_buf e) key ++ prim_txt st p) /\
    (forall buf marks ex, fst (arr_op st ex (AElem p) (buf, marks)) = AppendArrayDelim buf ++ prim_txt st p) /\
    (forall ex stack dst marks, fst (field_value st ex stack dst marks (FVPrim p)) = dst ++ prim_txt st p) /\
    (forall l key, l_context (ctx_exec st (COp (OKey key p)) l) = AppendKey (l_context l) key ++ prim_txt st p).
  Proof.
    intros H. repeat split; intros.
    - cbn. apply (prim_good st _ p H).
    - cbn. apply (prim_good st _ p H).
    - cbn. apply (prim_good st _ p H).
    - cbn. apply (prim_good st _ p H).
  Qed.
End Corollaries.
