(* C10 program order: the ring positions at which one producer's Writes take effect increase
   in the order of its Writes; with C10_order (delivery in increasing position) each producer's
   messages therefore reach the wrapped writer in program order. *)
From Verif Require Import Base.Prelude Lts.Diode Proofs.DiodeP.
From Coq Require Import Permutation Sorted.
Open Scope N_scope.

Definition mem (m : N) (l : list N) : bool := existsb (N.eqb m) l.
Definition own (l : list N) (b : bucket) : bool := mem (snd b) l.
Definition mine (l : list N) (s : st) : list bucket := filter (own l) (returned s).

Lemma mem_In m l : mem m l = true <-> In m l.
Proof.
  unfold mem. rewrite existsb_exists. split.
  - intros (x & Hx & E). apply N.eqb_eq in E. subst; auto.
  - intros H. exists m. split; auto. apply N.eqb_refl.
Qed.

Definition bound (s : st) (x : pstate) : N := match pwi x with Some wi => wi | None => claims s end.

Definition POp (ps : list (list N)) (s : st) (p : nat) : Prop :=
  let l := nth p ps [] in
  exists pre, l = pre ++ pending (nth p (prods s) (PIdle [])) /\
              map snd (mine l s) = pre /\
              StronglySorted N.lt (map fst (mine l s)) /\
              Forall (fun b => fst b < bound s (nth p (prods s) (PIdle []))) (mine l s).

Definition PO (ps : list (list N)) (s : st) : Prop :=
  length (prods s) = length ps /\ forall p, (p < length ps)%nat -> POp ps s p.

Lemma init_po n ps : PO ps (init n ps).
Proof.
  split; [cbn; apply map_length|]. intros p Hp. exists []. cbn.
  repeat split; try constructor.
  change (PIdle []) with (PIdle (@nil N)). rewrite (map_nth PIdle). reflexivity.
Qed.

Lemma nodup_concat_disjoint (ps : list (list N)) p q m : NoDup (concat ps) -> p <> q ->
  In m (nth p ps []) -> In m (nth q ps []) -> False.
Proof.
  revert p q. induction ps as [|l ps IH]; intros p q Hn Hpq Hp Hq.
  - destruct p; cbn in Hp; tauto.
  - cbn in Hn. destruct p as [|p], q as [|q]; cbn in Hp, Hq; try congruence.
    + assert (In m (concat ps)).
      { apply in_concat. exists (nth q ps []). split; auto.
        destruct (nth_in_or_default q ps []) as [|E]; auto. rewrite E in Hq. destruct Hq. }
      revert Hn Hp H. clear. induction l as [|x l IHl]; cbn; intros Hn Hp H; [tauto|].
      inversion Hn; subst. destruct Hp as [->|Hp]; [apply H2; apply in_or_app; auto|auto].
    + assert (In m (concat ps)).
      { apply in_concat. exists (nth p ps []). split; auto.
        destruct (nth_in_or_default p ps []) as [|E]; auto. rewrite E in Hp. destruct Hp. }
      revert Hn Hq H. clear. induction l as [|x l IHl]; cbn; intros Hn Hq H; [tauto|].
      inversion Hn; subst. destruct Hq as [->|Hq]; [apply H2; apply in_or_app; auto|auto].
    + apply (IH p q); auto. revert Hn. clear. induction l; cbn; auto. intros H. inversion H; auto.
Qed.

Lemma filter_snoc {A} (f : A -> bool) l x : filter f (l ++ [x]) = filter f l ++ (if f x then [x] else []).
Proof. induction l as [|a l IH]; cbn; [destruct (f x); auto|]. rewrite IH. destruct (f a); auto. Qed.

Lemma po_step ps s a : NoDup (concat ps) -> Inv ps s -> PO ps s -> claims (exec1 s a) < two64 -> PO ps (exec1 s a).
Proof.
  intros Hnd I [Hlen HP].
  pose proof (pwi_nth _ _ match a with P p => p | C => O end (i_prods _ _ I)) as Hw. revert Hw.
  (* a generic way to re-establish POp for a producer whose own entry, the returned log and
     claims are as before, or only grow harmlessly *)
  assert (Keep : forall s' q, returned s' = returned s -> claims s <= claims s' ->
            pending (nth q (prods s') (PIdle [])) = pending (nth q (prods s) (PIdle [])) ->
            (forall b, In b (mine (nth q ps []) s) -> fst b < bound s (nth q (prods s) (PIdle [])) -> fst b < bound s' (nth q (prods s') (PIdle []))) ->
            POp ps s q -> POp ps s' q).
  { intros s' q Hr Hc Hpe Hb (pre & E1 & E2 & E3 & E4). exists pre. unfold mine in *. rewrite Hr, Hpe.
    repeat split; auto. apply Forall_forall. intros b Hin. apply Hb; auto. eapply Forall_forall in E4; eauto. }
  step_cases s a; cbn [claims]; intros Hw Hc; try (split; assumption);
    try (assert (Hr : (p < length (prods s))%nat) by (apply nth_default_range; rewrite Ep; discriminate)).
  - (* add *)
    assert (E : claims s mod two64 = claims s) by (apply N.mod_small; lia).
    split; [cbn; rewrite upd_length; auto|]. intros q Hq. apply (Keep _ q); cbn [returned claims prods]; auto; try lia.
    + rewrite nth_upd. destruct (Nat.eqb_spec p q) as [->|]; auto. destruct (Nat.ltb _ _); auto. rewrite Ep. reflexivity.
    + intros b _. unfold bound. cbn [claims prods]. rewrite nth_upd.
      destruct (Nat.eqb_spec p q) as [->|]; [|destruct (pwi _); lia].
      replace (Nat.ltb q (length (prods s))) with true by (symmetry; apply Nat.ltb_lt; auto).
      rewrite Ep. cbn. lia.
  - (* newer fires *)
    split; [cbn; rewrite upd_length; auto|]. intros q Hq. apply (Keep _ q); cbn [returned claims prods]; auto; try lia.
    + rewrite nth_upd. destruct (Nat.eqb_spec p q) as [->|]; auto. destruct (Nat.ltb _ _); auto. rewrite Ep. reflexivity.
    + intros b _. unfold bound. cbn [claims prods]. rewrite nth_upd.
      destruct (Nat.eqb_spec p q) as [->|]; auto.
      replace (Nat.ltb q (length (prods s))) with true by (symmetry; apply Nat.ltb_lt; auto).
      rewrite Ep. cbn in *. lia.
  - (* load *)
    split; [cbn; rewrite upd_length; auto|]. intros q Hq. apply (Keep _ q); cbn [returned claims prods set_prod]; auto; try lia.
    + rewrite nth_upd. destruct (Nat.eqb_spec p q) as [->|]; auto. destruct (Nat.ltb _ _); auto. rewrite Ep. reflexivity.
    + intros b _. unfold bound. cbn [claims prods set_prod]. rewrite nth_upd.
      destruct (Nat.eqb_spec p q) as [->|]; auto.
      replace (Nat.ltb q (length (prods s))) with true by (symmetry; apply Nat.ltb_lt; auto).
      rewrite Ep. cbn. auto.
  - (* cas succeeds *)
    cbn in Hw. destruct Hw as [Hwi _].
    split; [cbn; rewrite upd_length; auto|]. intros q Hq.
    destruct (HP q Hq) as (pre & E1 & E2 & E3 & E4).
    destruct (Nat.eq_dec p q) as [->|Hpq].
    + (* the producer itself: its new bucket goes to the end of its own log *)
      rewrite Ep in E1, E4. cbn [pending bound pwi] in E1, E4.
      assert (Hown : own (nth q ps []) (wi, m) = true).
      { unfold own. cbn. apply mem_In. rewrite E1. apply in_or_app. right. left. auto. }
      exists (pre ++ [m]). unfold mine in *. cbn [returned prods claims]. rewrite nth_upd_eq by auto. rewrite filter_snoc, Hown.
      cbn [pending]. unfold bucket in *. repeat split.
      * rewrite E1, <- app_assoc. reflexivity.
      * rewrite map_app, E2. reflexivity.
      * rewrite map_app. cbn. apply sorted_snoc; auto.
        apply Forall_forall. intros y Hy. apply in_map_iff in Hy as (b & <- & Hb). eapply Forall_forall in E4; eauto.
      * unfold bound. cbn. apply Forall_app; split.
        -- eapply Forall_impl; [|exact E4]. cbn. intros; lia.
        -- constructor; auto.
    + (* another producer: the new bucket is not its message *)
      assert (Hown : own (nth q ps []) (wi, m) = false).
      { unfold own. cbn. destruct (mem m (nth q ps [])) eqn:Em; auto. exfalso.
        apply mem_In in Em.
        destruct (HP p ltac:(lia)) as (prep & F1 & _). rewrite Ep in F1. cbn in F1.
        apply (nodup_concat_disjoint ps p q m Hnd Hpq); auto. rewrite F1. apply in_or_app. right. left. auto. }
      exists pre. unfold mine in *. cbn [returned prods claims]. rewrite nth_upd_neq by auto. rewrite filter_snoc, Hown, app_nil_r.
      repeat split; auto.
  - (* cas fails *)
    split; [cbn; rewrite upd_length; auto|]. intros q Hq. apply (Keep _ q); cbn [returned claims prods]; auto; try lia.
    + rewrite nth_upd. destruct (Nat.eqb_spec p q) as [->|]; auto. destruct (Nat.ltb _ _); auto. rewrite Ep. reflexivity.
    + intros b _. unfold bound. cbn [claims prods]. rewrite nth_upd.
      destruct (Nat.eqb_spec p q) as [->|]; auto.
      replace (Nat.ltb q (length (prods s))) with true by (symmetry; apply Nat.ltb_lt; auto).
      rewrite Ep. cbn in *. lia.
Qed.

Lemma po_run n ps sched : NoDup (concat ps) -> claims (run n ps sched) < two64 -> PO ps (run n ps sched).
Proof.
  intros Hnd. unfold run. induction sched as [|a t IH] using rev_ind; intros Hc; [apply init_po|].
  rewrite exec_app in *. cbn [exec fold_left] in *.
  assert (Hc' : claims (exec (init n ps) t) < two64) by (eapply N.le_lt_trans; [apply claims_mono1|exact Hc]).
  apply po_step; auto. apply exec_inv; auto. apply init_inv.
Qed.

Lemma sorted_app_lt l1 x l2 y l3 : StronglySorted N.lt (l1 ++ x :: l2 ++ y :: l3) -> x < y.
Proof.
  induction l1 as [|a l1 IH]; cbn; intros H; inversion H; subst; auto.
  eapply Forall_forall in H3; eauto. apply in_or_app. right. left. auto.
Qed.

Lemma prefix_contains (l3 x pre pend : list N) m2 : x ++ m2 :: l3 = pre ++ pend -> NoDup (pre ++ pend) -> In m2 pre ->
  exists c, pre = x ++ m2 :: c.
Proof.
  intros E Hn Hin. apply app_eq_app in E as (k & [[E1 E2]|[E1 E2]]).
  - exfalso. subst.
    assert (In m2 (k ++ m2 :: l3)) by (apply in_or_app; right; left; auto).
    clear - Hn Hin H. induction pre as [|a pre IH]; cbn in *; [tauto|].
    inversion Hn; subst. destruct Hin as [->|Hin]; auto. apply H2. apply in_or_app. right. subst; auto.
  - destruct k as [|a k]; cbn in E2.
    + exfalso. subst. rewrite app_nil_r in *.
      clear - Hn Hin. induction x as [|a x IH]; cbn in *; [tauto|].
      inversion Hn; subst. destruct Hin as [->|Hin]; auto. apply H1. apply in_or_app. right. left. auto.
    + inversion E2; subst. eauto.
Qed.

(* C10_program_order *)
Lemma program_order n ps sched p l1 m1 l2 m2 l3 s1 s2 : let s := run n ps sched in
  claims s < two64 -> NoDup (concat ps) -> (p < length ps)%nat ->
  nth p ps [] = l1 ++ m1 :: l2 ++ m2 :: l3 ->
  In (s1, m1) (returned s) -> In (s2, m2) (returned s) -> s1 < s2.
Proof.
  intros s Hc Hnd Hp El H1 H2.
  destruct (po_run n ps sched Hnd Hc) as [_ HP]. fold s in HP.
  destruct (HP p Hp) as (pre & E1 & E2 & E3 & _).
  set (l := nth p ps []) in *.
  assert (Hl : NoDup l).
  { clear - Hnd Hp. subst l. revert p Hp. induction ps as [|x ps IH]; intros [|p] Hp; cbn in *; try lia.
    - eapply nodup_app_l; eauto.
    - apply IH; [|lia]. clear - Hnd. induction x; cbn in *; auto. inversion Hnd; auto. }
  assert (M1 : In (s1, m1) (mine l s)).
  { apply filter_In. split; auto. unfold own. cbn. apply mem_In. rewrite El. apply in_or_app. right. left. auto. }
  assert (M2 : In (s2, m2) (mine l s)).
  { apply filter_In. split; auto. unfold own. cbn. apply mem_In. rewrite El. apply in_or_app. right. right. apply in_or_app. right. left. auto. }
  assert (P2 : In m2 pre) by (rewrite <- E2; apply (in_map snd) in M2; auto).
  assert (Hl' : NoDup (pre ++ pending (nth p (prods s) (PIdle [])))) by (rewrite <- E1; auto).
  replace (l1 ++ m1 :: l2 ++ m2 :: l3) with ((l1 ++ m1 :: l2) ++ m2 :: l3) in El by (rewrite <- app_assoc; reflexivity).
  rewrite E1 in El. symmetry in El.
  destruct (prefix_contains l3 (l1 ++ m1 :: l2) pre _ m2 El Hl' P2) as (c & Epre).
  rewrite <- app_assoc in Epre. cbn in Epre.
  (* split the producer's own log along pre *)
  rewrite Epre in E2.
  apply map_eq_app in E2 as (La & R1 & EL & Ea & E2). destruct R1 as [|x1 R1]; [discriminate|]. cbn in E2. inversion E2 as [[Ex1 E2']]; clear E2.
  apply map_eq_app in E2' as (Lb & R2 & ER & Eb & E2). destruct R2 as [|x2 Lc]; [discriminate|]. cbn in E2. inversion E2 as [[Ex2 Ec]]; clear E2.
  subst R1. 
  assert (Hnm : NoDup (map snd (mine l s))).
  { rewrite EL. rewrite map_app. cbn. rewrite map_app. cbn. rewrite Ea, Ex1, Eb, Ex2, Ec.
    eapply nodup_app_l. rewrite <- Epre. exact Hl'. }
  assert (X1 : x1 = (s1, m1)).
  { apply (nodup_map_inj snd (mine l s)); auto. rewrite EL. apply in_or_app. right. left. auto. }
  assert (X2 : x2 = (s2, m2)).
  { apply (nodup_map_inj snd (mine l s)); auto. rewrite EL. apply in_or_app. right. right. apply in_or_app. right. left. auto. }
  subst x1 x2. rewrite EL in E3. rewrite map_app in E3. cbn in E3. rewrite map_app in E3. cbn in E3.
  eapply sorted_app_lt; eauto.
Qed.
