(* Every primitive of Enc/JsonEnc.v appends one good JSON value text denoting
   the specified abstract value.

   [GoodTxt t]   : t is well-formed UTF-8 and has no byte < 0x20 (so no line
                   break) and every byte is < 256.
   [GoodVal t v] : t is a JSON text for v (Base/JsonSpec.v) and GoodTxt.

   Shape of the lemmas: for a primitive [AppendX dst x] there is a text
   function [x_txt x] with [AppendX dst x = dst ++ x_txt x] (the *_shape
   lemmas) and [GoodVal (x_txt x) (x_jv x)] (the *_good lemmas). *)
From Coq Require Import QArith.
From Verif Require Import Base.Prelude Base.Decimal Base.Utf8 Base.JsonSpec Enc.JsonEnc Proofs.DecimalP.
Open Scope N_scope.

Definition GoodTxt (t : list N) : Prop :=
  (exists cs, Utf8 t cs) /\ Forall (fun b => 32 <= b /\ b < 256) t.
Definition GoodVal (t : list N) (v : jv) : Prop := Json t v /\ GoodTxt t.

(* ================================================================== *)
(* GoodTxt: closure properties                                          *)

Lemma GoodTxt_nil : GoodTxt [].
Proof. split; [exists []; constructor|constructor]. Qed.

Lemma GoodTxt_app a b : GoodTxt a -> GoodTxt b -> GoodTxt (a ++ b).
Proof.
  intros [[ca Ha] Fa] [[cb Hb] Fb]. split; [exists (ca ++ cb); apply Utf8_app; auto|apply Forall_app; auto].
Qed.

Definition printable (b : N) : Prop := 32 <= b /\ b < 0x80.

Lemma GoodTxt_ascii t : Forall printable t -> GoodTxt t.
Proof.
  intros H. split.
  - exists t. apply Utf8_ascii. eapply Forall_impl; [|exact H]. unfold printable; intros; lia.
  - eapply Forall_impl; [|exact H]. unfold printable; intros; lia.
Qed.

Lemma GoodTxt_U8 enc c : U8 enc c -> 32 <= c -> GoodTxt enc.
Proof.
  intros HU Hc. split; [exists [c]; apply Utf8_one; auto|].
  pose proof (U8_bytes _ _ HU) as H1. pose proof (U8_bytes_ge _ _ 32 HU ltac:(lia) Hc) as H2.
  rewrite Forall_forall in *. intros b Hb. split; auto.
Qed.

Lemma GoodTxt_app_inv_bytes a b : GoodTxt (a ++ b) -> Forall (fun x => 32 <= x /\ x < 256) a /\ Forall (fun x => 32 <= x /\ x < 256) b.
Proof. intros [_ H]. apply Forall_app in H. exact H. Qed.

Ltac printable_list := repeat constructor; unfold printable; lia.

(* ---------------- strings and numbers are GoodTxt by construction ---------------- *)

Lemma hexv_range h v : hexv h = Some v -> printable h /\ v < 16.
Proof.
  unfold hexv, printable.
  destruct ((48 <=? h) && (h <=? 57)) eqn:E1; [intros H; inversion H; lia|].
  destruct ((97 <=? h) && (h <=? 102)) eqn:E2; [intros H; inversion H; lia|].
  destruct ((65 <=? h) && (h <=? 70)) eqn:E3; [intros H; inversion H; lia|discriminate].
Qed.

Lemma hex4_printable hs c : hex4 hs = Some c -> Forall printable hs /\ c < 65536.
Proof.
  destruct hs as [|h1 [|h2 [|h3 [|h4 [|x y]]]]]; cbn [hex4]; try discriminate.
  destruct (hexv h1) as [v1|] eqn:E1; destruct (hexv h2) as [v2|] eqn:E2;
    destruct (hexv h3) as [v3|] eqn:E3; destruct (hexv h4) as [v4|] eqn:E4; try discriminate.
  intros H; inversion H; subst c.
  destruct (hexv_range _ _ E1), (hexv_range _ _ E2), (hexv_range _ _ E3), (hexv_range _ _ E4).
  split; [repeat (constructor; [assumption|]); constructor|lia].
Qed.

Lemma esc2_table_printable e c : In (e, c) esc2_table -> printable e.
Proof.
  unfold esc2_table, printable. cbn [In]. intros H.
  repeat (destruct H as [H|H]; [inversion H; subst; lia|]). contradiction.
Qed.

Lemma JChars_GoodTxt body cs : JChars body cs -> GoodTxt body.
Proof.
  induction 1 as [|enc c r cs HU Hc _ _ _ IH|e c r cs Hin _ IH|hs c r cs Hx _ _ IH|hs1 hi hs2 lo r cs Hx1 _ Hx2 _ _ IH].
  - apply GoodTxt_nil.
  - apply GoodTxt_app; auto. eapply GoodTxt_U8; eauto.
  - change (0x5C :: e :: r) with ([0x5C; e] ++ r). apply GoodTxt_app; auto. apply GoodTxt_ascii.
    pose proof (esc2_table_printable _ _ Hin). constructor; [unfold printable; lia|]. constructor; [assumption|constructor].
  - rewrite app_assoc. apply GoodTxt_app; auto. apply GoodTxt_ascii.
    apply Forall_app; split; [printable_list|]. apply (hex4_printable _ _ Hx).
  - change (GoodTxt (([0x5C; 0x75] ++ hs1) ++ ([0x5C; 0x75] ++ hs2) ++ r)).
    apply GoodTxt_app; [|apply GoodTxt_app; auto]; apply GoodTxt_ascii;
      (apply Forall_app; split; [printable_list|]);
      [apply (hex4_printable _ _ Hx1)|apply (hex4_printable _ _ Hx2)].
Qed.

Lemma JString_GoodTxt t cs : JString t cs -> GoodTxt t.
Proof.
  destruct 1 as [body cs H]. apply GoodTxt_app; [apply GoodTxt_ascii; printable_list|].
  apply GoodTxt_app; [eapply JChars_GoodTxt; eauto|apply GoodTxt_ascii; printable_list].
Qed.

Lemma digits_printable ds : Forall digit ds -> Forall printable ds.
Proof. apply Forall_impl. unfold digit, printable. intros; lia. Qed.

Lemma JNumber_printable t : JNumber t -> Forall printable t.
Proof.
  destruct 1 as [sg i f e Hsg HI HF HE].
  repeat (apply Forall_app; split).
  - destruct Hsg as [-> | ->]; printable_list.
  - apply digits_printable. apply JInt_int_ok; auto.
  - destruct HF as [|ds [_ Hd]]; [constructor|]. constructor; [unfold printable; lia|apply digits_printable; auto].
  - destruct HE as [|e0 sg' ds He0 Hsg' [_ Hd]]; [constructor|].
    constructor; [unfold printable; lia|]. apply Forall_app; split; [|apply digits_printable; auto].
    destruct Hsg' as [-> | [-> | ->]]; printable_list.
Qed.

Lemma JNumber_GoodTxt t : JNumber t -> GoodTxt t.
Proof. intros; apply GoodTxt_ascii, JNumber_printable; auto. Qed.

Lemma GoodVal_str t cs : JString t cs -> GoodVal t (JStr cs).
Proof. intros H. split; [apply Json_str; auto|eapply JString_GoodTxt; eauto]. Qed.

Lemma GoodVal_num t : JNumber t -> GoodVal t (JNum t).
Proof. intros H. split; [apply Json_num; auto|apply JNumber_GoodTxt; auto]. Qed.

(* a text of plain characters (UTF-8, no quote, no backslash, nothing below
   0x20) between quotes is a JSON string of exactly its scalars *)
Definition plain_byte (b : N) : Prop := 0x20 <= b /\ b <> 0x22 /\ b <> 0x5C.
Definition plain_text (t : list N) : Prop := (exists cs, Utf8 t cs) /\ Forall plain_byte t.

Lemma plain_JChars t cs : Utf8 t cs -> Forall plain_byte t -> JChars t cs.
Proof.
  induction 1 as [|enc c r cs HU HR IH]; intros HF; [constructor|].
  apply Forall_app in HF. destruct HF as [He Hr].
  assert (Hc : 0x20 <= c /\ c <> 0x22 /\ c <> 0x5C).
  { destruct HU; inversion He; subst; unfold plain_byte, cont in *; lia. }
  apply JC_plain; tauto.
Qed.

Definition quoted (t : list N) : list N := [0x22] ++ t ++ [0x22].

Lemma plain_quoted_good t : plain_text t -> JString (quoted t) (go_runes t) /\ GoodTxt (quoted t).
Proof.
  intros [[cs HU] HF]. rewrite (go_runes_Utf8 _ _ HU).
  assert (J : JString (quoted t) cs) by (constructor; apply plain_JChars; auto).
  split; [exact J|eapply JString_GoodTxt; eauto].
Qed.

Lemma plain_ascii t : Forall (fun b => printable b /\ b <> 0x22 /\ b <> 0x5C) t -> plain_text t.
Proof.
  intros H. split.
  - exists t. apply Utf8_ascii. eapply Forall_impl; [|exact H]. unfold printable; intros; lia.
  - eapply Forall_impl; [|exact H]. unfold printable, plain_byte; intros; lia.
Qed.

(* ================================================================== *)
(* AppendString / AppendBytes                                           *)

Lemma hexv_hex_digit n : n < 16 -> hexv (hex_digit n) = Some n.
Proof.
  intros H. unfold hex_digit, hexv. destruct (n <? 10) eqn:E.
  - replace ((48 <=? 48 + n) && (48 + n <=? 57)) with true by lia. f_equal. lia.
  - replace ((48 <=? 87 + n) && (87 + n <=? 57)) with false by lia.
    replace ((97 <=? 87 + n) && (87 + n <=? 102)) with true by lia. f_equal. lia.
Qed.

(* lowercase hex digit *)
Definition lhex (c : N) : Prop := 48 <= c <= 57 \/ 97 <= c <= 102.
Lemma hex_digit_lhex n : n < 16 -> lhex (hex_digit n).
Proof. unfold lhex, hex_digit. intros. destruct (n <? 10) eqn:E; lia. Qed.

Lemma hex4_u00 b : b < 256 -> hex4 [48; 48; hex_digit (b / 16); hex_digit (b mod 16)] = Some b.
Proof.
  intros Hb. cbn [hex4]. change (hexv 48) with (Some 0).
  rewrite !hexv_hex_digit by lia. f_equal. lia.
Qed.

Lemma hex4_fffd : hex4 [0x66; 0x66; 0x66; 0x64] = Some 0xFFFD.
Proof. reflexivity. Qed.

(* THE STRING THEOREM: the escaped body is a JSON string body denoting Go's
   decoding of the input (each ill-formed byte reads as U+FFFD).  No premise
   on the bytes is needed: bytes >= 0x80 are only copied as part of a
   sequence the decoder accepted. *)
Theorem esc_body_JChars : forall f s, (length s <= f)%nat -> JChars (esc_body f s) (go_runes s).
Proof.
  induction f as [|f IH]; intros s Hl.
  - destruct s; [constructor|cbn in Hl; lia].
  - destruct s as [|b t]; [constructor|].
    cbn [esc_body]. cbn [length] in Hl.
    destruct (0x80 <=? b) eqn:E80.
    + destruct (go_decode_rune (b :: t)) as [[c n]|] eqn:D.
      * destruct (go_decode_rune_sound _ _ _ D) as [HU [Hn Hp]].
        replace (go_runes (b :: t)) with (c :: go_runes (skipn n (b :: t)))
          by (rewrite <- (go_runes_valid _ _ _ HU), firstn_skipn; reflexivity).
        assert (0x80 <= c).
        { destruct n; [lia|]. cbn [firstn] in HU. eapply U8_head_ge80; eauto. lia. }
        apply JC_plain; auto; try lia.
        apply IH. rewrite skipn_length. cbn [length] in *. lia.
      * rewrite (go_runes_invalid _ _ D).
        apply (JC_u [0x66; 0x66; 0x66; 0x64] 0xFFFD); [reflexivity|right; lia|]. apply IH; lia.
    + assert (Hb : b < 0x80) by lia. rewrite (go_runes_ascii_cons _ _ Hb).
      destruct (no_escape b) eqn:En.
      * change (b :: esc_body f t) with ([b] ++ esc_body f t). unfold no_escape in En.
        apply JC_plain; [constructor; lia|lia|lia|lia|]. apply IH; lia.
      * unfold esc_byte.
        destruct ((b =? 34) || (b =? 92)) eqn:Q.
        { cbn [app]. apply JC_esc2; [|apply IH; lia]. unfold esc2_table. cbn [In].
          destruct (b =? 34) eqn:Q1; [left|right; left]; f_equal; lia. }
        destruct (b =? 8) eqn:E8.
        { cbn [app]. apply JC_esc2; [|apply IH; lia]. unfold esc2_table. cbn [In]. do 3 right; left. f_equal; lia. }
        destruct (b =? 12) eqn:E12.
        { cbn [app]. apply JC_esc2; [|apply IH; lia]. unfold esc2_table. cbn [In]. do 4 right; left. f_equal; lia. }
        destruct (b =? 10) eqn:E10.
        { cbn [app]. apply JC_esc2; [|apply IH; lia]. unfold esc2_table. cbn [In]. do 5 right; left. f_equal; lia. }
        destruct (b =? 13) eqn:E13.
        { cbn [app]. apply JC_esc2; [|apply IH; lia]. unfold esc2_table. cbn [In]. do 6 right; left. f_equal; lia. }
        destruct (b =? 9) eqn:E9.
        { cbn [app]. apply JC_esc2; [|apply IH; lia]. unfold esc2_table. cbn [In]. do 7 right; left. f_equal; lia. }
        change ([0x5C; 0x75; 48; 48; hex_digit (b / 16); hex_digit (b mod 16)] ++ esc_body f t)
          with ([0x5C; 0x75] ++ [48; 48; hex_digit (b / 16); hex_digit (b mod 16)] ++ esc_body f t).
        apply JC_u; [apply hex4_u00; lia|left; lia|apply IH; lia].
Qed.

Theorem json_string_good_all s : JString (json_string s) (go_runes s) /\ GoodTxt (json_string s).
Proof.
  assert (J : JString (json_string s) (go_runes s)).
  { unfold json_string. constructor. apply esc_body_JChars. lia. }
  split; [exact J|eapply JString_GoodTxt; eauto].
Qed.

(* the interface form (the premise is not used) *)
Theorem json_string_good s :
  Forall (fun b => b < 256) s -> JString (json_string s) (go_runes s) /\ GoodTxt (json_string s).
Proof. intros _. apply json_string_good_all. Qed.

Corollary json_string_GoodVal s : GoodVal (json_string s) (JStr (go_runes s)).
Proof. apply GoodVal_str, json_string_good_all. Qed.

(* the body between the quotes: a JSON string body, every byte in 0x20..0xFF;
   a quote, a backslash or a control character of the input never appears
   raw (this is what JChars says: a backslash only starts an escape and a quote
   only follows a backslash) *)
Corollary esc_body_good s :
  JChars (esc_body (length s) s) (go_runes s) /\
  Forall (fun b => 32 <= b /\ b < 256) (esc_body (length s) s).
Proof.
  pose proof (esc_body_JChars (length s) s (le_n _)) as J. split; [exact J|].
  apply (JChars_GoodTxt _ _ J).
Qed.

(* on plain text the encoder is the identity between quotes *)
Lemma esc_body_plain : forall f s, (length s <= f)%nat -> Forall (fun b => no_escape b = true) s -> esc_body f s = s.
Proof.
  induction f as [|f IH]; intros s Hl HF; [destruct s; [reflexivity|cbn in Hl; lia]|].
  destruct s as [|b t]; [reflexivity|]. inversion HF; subst. cbn [esc_body length] in *.
  assert (b < 0x80) by (unfold no_escape in *; lia).
  replace (0x80 <=? b) with false by lia. rewrite H1. f_equal. apply IH; [lia|auto].
Qed.

Lemma json_string_plain s : Forall (fun b => no_escape b = true) s -> json_string s = quoted s.
Proof. intros H. unfold json_string, quoted. rewrite esc_body_plain; auto. Qed.

Lemma AppendString_shape dst s : AppendString dst s = dst ++ json_string s.
Proof. reflexivity. Qed.
Lemma AppendBytes_shape dst s : AppendBytes dst s = dst ++ json_string s.
Proof. reflexivity. Qed.

Theorem string_good s : GoodVal (json_string s) (JStr (go_runes s)).
Proof. apply json_string_GoodVal. Qed.

Theorem text_good dst s : AppendText dst s = dst ++ json_string s /\ GoodVal (json_string s) (JStr (go_runes s)).
Proof. split; [reflexivity|apply json_string_GoodVal]. Qed.

(* ================================================================== *)
(* AppendKey                                                            *)

Theorem AppendKey_shape dst key :
  AppendKey dst key = dst ++ (if last_byte dst =? 0x7B then [] else [0x2C]) ++ json_string key ++ [0x3A].
Proof.
  unfold AppendKey, AppendString. destruct (last_byte dst =? 0x7B); cbn [app]; rewrite <- ?app_assoc; reflexivity.
Qed.

Corollary AppendKey_first dst key :
  last_byte dst = 0x7B -> AppendKey dst key = dst ++ json_string key ++ [0x3A].
Proof. intros H. rewrite AppendKey_shape, H. reflexivity. Qed.

Corollary AppendKey_next dst key :
  last_byte dst <> 0x7B -> AppendKey dst key = dst ++ [0x2C] ++ json_string key ++ [0x3A].
Proof. intros H. rewrite AppendKey_shape. replace (last_byte dst =? 0x7B) with false by lia. reflexivity. Qed.

Lemma last_byte_snoc dst b : last_byte (dst ++ [b]) = b.
Proof. unfold last_byte. apply last_last. Qed.

Lemma last_byte_app dst t : t <> [] -> last_byte (dst ++ t) = last_byte t.
Proof.
  intros H. destruct (exists_last H) as [t' [b ->]]. rewrite app_assoc, !last_byte_snoc. reflexivity.
Qed.

(* the key text is a JSON string for Go's decoding of the key *)
Lemma key_good key : JString (json_string key) (go_runes key) /\ GoodTxt (json_string key).
Proof. apply json_string_good_all. Qed.

(* ================================================================== *)
(* AppendHex                                                            *)

Definition hex_digits (s : bytes) : bytes := flat_map (fun v => [hex_digit (v / 16); hex_digit (v mod 16)]) s.
Definition hex_txt (s : bytes) : bytes := quoted (hex_digits s).

Lemma AppendHex_shape dst s : AppendHex dst s = dst ++ hex_txt s.
Proof. reflexivity. Qed.

Lemma hex_digits_lhex s : Forall (fun b => b < 256) s -> Forall lhex (hex_digits s).
Proof.
  induction 1 as [|v s Hv Hs IH]; [constructor|]. unfold hex_digits. cbn [flat_map app].
  constructor; [apply hex_digit_lhex; lia|]. constructor; [apply hex_digit_lhex; lia|]. exact IH.
Qed.

Lemma hex_digits_length s : length (hex_digits s) = (2 * length s)%nat.
Proof. induction s as [|v s IH]; [reflexivity|]. unfold hex_digits in *. cbn [flat_map app length]. rewrite IH. lia. Qed.

Theorem hex_good dst s : Forall (fun b => b < 256) s ->
  AppendHex dst s = dst ++ hex_txt s /\ GoodVal (hex_txt s) (JStr (hex_digits s)) /\ Forall lhex (hex_digits s).
Proof.
  intros H. pose proof (hex_digits_lhex _ H) as HL.
  split; [reflexivity|]. split; [|exact HL].
  assert (P : plain_text (hex_digits s)).
  { apply plain_ascii. eapply Forall_impl; [|exact HL]. unfold lhex, printable. intros; lia. }
  destruct (plain_quoted_good _ P) as [J G]. rewrite go_runes_ascii in J.
  - apply GoodVal_str; auto.
  - eapply Forall_impl; [|exact HL]. unfold lhex. intros; lia.
Qed.

(* ================================================================== *)
(* nil, bool, integers                                                  *)

Theorem nil_good dst : AppendNil dst = dst ++ lit_null /\ GoodVal lit_null JNull.
Proof. split; [reflexivity|]. split; [apply Json_null|apply GoodTxt_ascii; printable_list]. Qed.

Definition bool_txt (b : bool) : bytes := if b then s_true else s_false.

Theorem bool_good dst b : AppendBool dst b = dst ++ bool_txt b /\ GoodVal (bool_txt b) (JBool b).
Proof.
  split; [reflexivity|]. destruct b; (split; [|apply GoodTxt_ascii; printable_list]).
  - apply Json_true.
  - apply Json_false.
Qed.

Theorem int_good dst z : AppendInt dst z = dst ++ print_Z z /\ GoodVal (print_Z z) (JNum (print_Z z)).
Proof. split; [reflexivity|]. apply GoodVal_num, print_Z_JNumber. Qed.

Theorem uint_good dst n : AppendUint dst n = dst ++ print_N n /\ GoodVal (print_N n) (JNum (print_N n)).
Proof. split; [reflexivity|]. apply GoodVal_num, print_N_JNumber. Qed.

(* the numbers denoted *)
Corollary int_value z : num_value (print_Z z) = Some (inject_Z z).
Proof. apply num_value_print_Z. Qed.
Corollary uint_value n : num_value (print_N n) = Some (inject_Z (Z.of_N n)).
Proof. apply num_value_print_N. Qed.

(* ================================================================== *)
(* slices                                                               *)

Definition slice_txt {A} (g : A -> bytes) (l : list A) : bytes :=
  match l with
  | [] => [0x5B; 0x5D]
  | x :: r => [0x5B] ++ g x ++ flat_map (fun y => 0x2C :: g y) r ++ [0x5D]
  end.

Lemma fold_slice {A} (f : bytes -> A -> bytes) (g : A -> bytes) :
  (forall d x, f d x = d ++ g x) ->
  forall r acc, fold_left (fun d v => f (d ++ [0x2C]) v) r acc = acc ++ flat_map (fun y => 0x2C :: g y) r.
Proof.
  intros Hf. induction r as [|y r IH]; intros acc; cbn [fold_left flat_map]; [rewrite app_nil_r; reflexivity|].
  rewrite IH, Hf. rewrite <- !app_assoc. reflexivity.
Qed.

Lemma append_slice_shape {A} (f : bytes -> A -> bytes) (g : A -> bytes) :
  (forall d x, f d x = d ++ g x) -> forall dst l, append_slice f dst l = dst ++ slice_txt g l.
Proof.
  intros Hf dst [|x r]; [reflexivity|]. unfold append_slice, slice_txt.
  rewrite (fold_slice f g Hf), Hf. rewrite <- !app_assoc. reflexivity.
Qed.

Lemma elems_good {A} (g : A -> bytes) (val : A -> jv) : forall r x,
  (forall y, In y (x :: r) -> GoodVal (g y) (val y)) ->
  JElems (g x ++ flat_map (fun y => 0x2C :: g y) r) (map val (x :: r)) /\
  GoodTxt (g x ++ flat_map (fun y => 0x2C :: g y) r).
Proof.
  induction r as [|y r IH]; intros x H.
  - cbn [flat_map map]. rewrite app_nil_r. destruct (H x (or_introl eq_refl)) as [J G].
    split; [constructor; auto|auto].
  - destruct (IH y) as [JE GE]. { intros z Hz. apply H. right; auto. }
    destruct (H x (or_introl eq_refl)) as [J G].
    cbn [flat_map]. split.
    + change (map val (x :: y :: r)) with (val x :: map val (y :: r)).
      change ((0x2C :: g y) ++ flat_map (fun y0 => 0x2C :: g y0) r)
        with ([0x2C] ++ (g y ++ flat_map (fun y0 => 0x2C :: g y0) r)).
      constructor; auto.
    + apply GoodTxt_app; auto.
      change ((0x2C :: g y) ++ flat_map (fun y0 => 0x2C :: g y0) r)
        with ([0x2C] ++ (g y ++ flat_map (fun y0 => 0x2C :: g y0) r)).
      apply GoodTxt_app; auto. apply GoodTxt_ascii; printable_list.
Qed.

Lemma slice_txt_good {A} (g : A -> bytes) (val : A -> jv) l :
  (forall x, In x l -> GoodVal (g x) (val x)) -> GoodVal (slice_txt g l) (JArr (map val l)).
Proof.
  intros H. destruct l as [|x r].
  - split; [apply Json_arr_empty|apply GoodTxt_ascii; printable_list].
  - destruct (elems_good g val r x H) as [JE GE]. unfold slice_txt.
    replace (g x ++ flat_map (fun y => 0x2C :: g y) r ++ [0x5D])
      with ((g x ++ flat_map (fun y => 0x2C :: g y) r) ++ [0x5D]) by (rewrite <- app_assoc; reflexivity).
    split.
    + apply Json_arr_of_elems; auto.
    + apply GoodTxt_app; [apply GoodTxt_ascii; printable_list|].
      apply GoodTxt_app; auto. apply GoodTxt_ascii; printable_list.
Qed.

(* generic slice lemma *)
Theorem append_slice_good {A} (f : bytes -> A -> bytes) (g : A -> bytes) (val : A -> jv) dst l :
  (forall d x, f d x = d ++ g x) ->
  (forall x, In x l -> GoodVal (g x) (val x)) ->
  append_slice f dst l = dst ++ slice_txt g l /\ GoodVal (slice_txt g l) (JArr (map val l)).
Proof. intros Hf Hg. split; [apply append_slice_shape; auto|apply slice_txt_good; auto]. Qed.

(* the i-th element text of a slice is the text of the scalar primitive *)
Lemma slice_txt_cons {A} (g : A -> bytes) x r :
  slice_txt g (x :: r) = [0x5B] ++ g x ++ flat_map (fun y => 0x2C :: g y) r ++ [0x5D].
Proof. reflexivity. Qed.

Theorem bools_good dst l :
  AppendBools dst l = dst ++ slice_txt bool_txt l /\ GoodVal (slice_txt bool_txt l) (JArr (map JBool l)).
Proof. apply append_slice_good; [reflexivity|]. intros x _. apply (bool_good []). Qed.

Theorem ints_good dst l :
  AppendInts dst l = dst ++ slice_txt print_Z l /\
  GoodVal (slice_txt print_Z l) (JArr (map (fun z => JNum (print_Z z)) l)).
Proof. apply append_slice_good; [reflexivity|]. intros x _. apply (int_good []). Qed.

Theorem uints_good dst l :
  AppendUints dst l = dst ++ slice_txt print_N l /\
  GoodVal (slice_txt print_N l) (JArr (map (fun n => JNum (print_N n)) l)).
Proof. apply append_slice_good; [reflexivity|]. intros x _. apply (uint_good []). Qed.

Theorem strings_good dst l :
  AppendStrings dst l = dst ++ slice_txt json_string l /\
  GoodVal (slice_txt json_string l) (JArr (map (fun s => JStr (go_runes s)) l)).
Proof. apply append_slice_good; [reflexivity|]. intros x _. apply json_string_GoodVal. Qed.

(* ================================================================== *)
(* floats                                                               *)

(* a match on N literals falls to its default branch off the literal *)
Ltac off_path x :=
  destruct x as [|x]; [reflexivity|];
  repeat (destruct x as [x|x|]; try reflexivity); congruence.

Ltac norm_app_in H := repeat (progress (try rewrite <- !app_assoc in H; cbn [app] in H)).

(* what the clean-up does: "...e-0d" becomes "...e-d", anything else is untouched *)
Lemma cleanup_exp_cases t :
  (exists p d, t = p ++ [0x65; 0x2D; 0x30; d] /\ cleanup_exp t = p ++ [0x65; 0x2D; d]) \/
  cleanup_exp t = t.
Proof.
  unfold cleanup_exp. destruct (4 <=? length t)%nat eqn:E4; [|right; reflexivity].
  apply Nat.leb_le in E4.
  pose proof (firstn_skipn (length t - 4) t) as Esplit.
  assert (Hlen : length (skipn (length t - 4) t) = 4%nat) by (rewrite skipn_length; lia).
  assert (Hp : length (firstn (length t - 4) t) = (length t - 4)%nat) by (rewrite firstn_length; lia).
  destruct (skipn (length t - 4) t) as [|a [|b [|c [|d [|x y]]]]] eqn:Sk; cbn [length] in Hlen; try lia.
  destruct (N.eq_dec a 0x65) as [->|Ha]; [|right; off_path a].
  destruct (N.eq_dec b 0x2D) as [->|Hb]; [|right; off_path b].
  destruct (N.eq_dec c 0x30) as [->|Hc]; [|right; off_path c].
  left. exists (firstn (length t - 4) t), d. split; [symmetry; exact Esplit|].
  set (p := firstn (length t - 4) t) in *. clearbody p.
  rewrite <- Esplit at 2. rewrite firstn_app, firstn_all2 by lia.
  replace (length t - 2 - length p)%nat with 2%nat by lia. cbn [firstn]. rewrite <- app_assoc. reflexivity.
Qed.

Lemma rev_nil_inv {A} (l : list A) : rev l = [] -> l = [].
Proof. intros H. apply (f_equal (@rev A)) in H. rewrite rev_involutive in H. exact H. Qed.

(* a number text that ends in e-0d has exactly that exponent part *)
Lemma exp_suffix q p d : np_wf q -> np_text q = p ++ [101; 45; 48; d] ->
  np_exp q = Some (101, [45], [48; d]) /\
  p = (if np_neg q then [45] else []) ++ np_int q ++ (match np_frac q with Some x => 46 :: x | None => [] end) /\
  digit d.
Proof.
  destruct q as [neg i f e]. unfold np_wf, np_text; cbn [np_neg np_int np_frac np_exp].
  intros [HI [HF HE]] E.
  set (ft := match f with Some x => 46 :: x | None => [] end) in *.
  set (pre := (if neg then [45] else []) ++ i ++ ft).
  assert (E' : pre ++ (match e with Some (e0, sg, d0) => e0 :: sg ++ d0 | None => [] end) = p ++ [101; 45; 48; d]).
  { rewrite <- E. unfold pre. rewrite <- !app_assoc. reflexivity. }
  clear E.
  destruct e as [[[e0 sg] ds]|].
  - destruct HE as [He0 [Hsg [Hne Hds]]].
    apply (f_equal (@rev N)) in E'.
    repeat ((rewrite rev_app_distr in E') || (progress cbn [rev] in E')).
    norm_app_in E'.
    apply Forall_rev in Hds.
    destruct (rev ds) as [|x rd] eqn:Rd; [apply rev_nil_inv in Rd; congruence|].
    inversion Hds as [|? ? Hx Hrd]; subst. cbn [app] in E'. injection E' as -> E'.
    destruct rd as [|y rd].
    { exfalso. destruct Hsg as [-> | [-> | ->]]; cbn [rev app] in E'; injection E' as E0 _; lia. }
    inversion Hrd as [|? ? Hy Hrd']; subst. cbn [app] in E'. injection E' as -> E'.
    destruct rd as [|z rd].
    2:{ exfalso. inversion Hrd' as [|? ? Hz _]; subst. cbn [app] in E'. injection E' as E0 _. unfold digit in Hz. lia. }
    cbn [app] in E'.
    destruct Hsg as [-> | [-> | ->]]; cbn [rev app] in E'; injection E' as E0 E1; try lia.
    subst e0.
    assert (pre = p).
    { apply (f_equal (@rev N)) in E1. rewrite !rev_involutive in E1. exact E1. }
    assert (ds = [48; d]).
    { apply (f_equal (@rev N)) in Rd. rewrite rev_involutive in Rd. exact Rd. }
    subst ds. split; [reflexivity|]. split; [congruence|exact Hx].
  - exfalso. rewrite app_nil_r in E'.
    assert (Hin : In 101 pre) by (rewrite E'; apply in_or_app; right; left; reflexivity).
    assert (HF' : Forall (fun b => b <> 101) pre).
    { unfold pre. repeat (apply Forall_app; split).
      - destruct neg; repeat constructor; lia.
      - eapply Forall_impl; [|apply (JInt_int_ok _ HI)]. unfold digit; intros; lia.
      - subst ft. destruct f as [x|]; [|constructor]. destruct HF as [_ Hx].
        constructor; [lia|]. eapply Forall_impl; [|exact Hx]. unfold digit; intros; lia. }
    rewrite Forall_forall in HF'. apply (HF' _ Hin). reflexivity.
Qed.

(* the clean-up keeps a number a number and keeps the number it denotes *)
Theorem cleanup_exp_number t :
  JNumber t -> JNumber (cleanup_exp t) /\ num_dec (cleanup_exp t) = num_dec t.
Proof.
  intros HN. destruct (cleanup_exp_cases t) as [[p [d [Et Ec]]]| ->]; [|auto].
  apply JNumber_np in HN. destruct HN as [q [Hq Eq]].
  rewrite Et in Eq. destruct (exp_suffix q p d Hq Eq) as [Hexp [Hp Hd]].
  set (q' := {| np_neg := np_neg q; np_int := np_int q; np_frac := np_frac q;
                np_exp := Some (101, [45], [d]) |}).
  assert (Hq' : np_wf q').
  { destruct Hq as [HI [HF _]]. unfold np_wf, q'; cbn [np_int np_frac np_exp].
    repeat split; auto; try discriminate. }
  assert (Et' : np_text q' = cleanup_exp t).
  { rewrite Ec, Hp. unfold np_text, q'; cbn [np_neg np_int np_frac np_exp]. rewrite <- !app_assoc. reflexivity. }
  split.
  - apply JNumber_np. exists q'. auto.
  - rewrite <- Et', (num_dec_np _ Hq'). rewrite Et, <- Eq, (num_dec_np _ Hq). f_equal.
    unfold np_dec. rewrite Hexp. unfold q'; cbn [np_neg np_int np_frac np_exp].
    assert (Hv : digits_val [48; d] = digits_val [d]) by (unfold digits_val; cbn [fold_left]; lia).
    rewrite Hv. reflexivity.
Qed.

Corollary cleanup_exp_is_json_number t :
  is_json_number t = true -> is_json_number (cleanup_exp t) = true.
Proof. rewrite !is_json_number_correct. intros H. apply cleanup_exp_number; auto. Qed.

Corollary cleanup_exp_num_value t : is_json_number t = true -> num_value (cleanup_exp t) = num_value t.
Proof.
  rewrite is_json_number_correct. intros H. unfold num_value.
  rewrite (proj2 (cleanup_exp_number t H)). reflexivity.
Qed.

(* classification of the bit pattern, exactly as appendFloat computes it *)
Definition f_isnan (w32 : bool) (b : N) : bool :=
  if w32 then (f32_exp b =? 255) && negb (f32_man b =? 0) else (f64_exp b =? 2047) && negb (f64_man b =? 0).
Definition f_ispinf (w32 : bool) (b : N) : bool := if w32 then b =? 0x7f800000 else b =? 0x7ff0000000000000.
Definition f_isninf (w32 : bool) (b : N) : bool := if w32 then b =? 0xff800000 else b =? 0xfff0000000000000.
Definition f_use_e (w32 : bool) (b : N) (prec : Z) : bool :=
  if w32 then (prec =? -1)%Z && negb (f32_abs b =? 0) && ((f32_abs b <? f32_1em6) || (f32_1e21 <=? f32_abs b))
  else (prec =? -1)%Z && negb (f64_abs b =? 0) && ((f64_abs b <? f64_1em6) || (f64_1e21 <=? f64_abs b)).

Definition float_txt (w32 : bool) (f : fval) (prec : Z) : bytes :=
  if f_isnan w32 (f_bits f) then s_nan
  else if f_ispinf w32 (f_bits f) then s_pinf
  else if f_isninf w32 (f_bits f) then s_ninf
  else if f_use_e w32 (f_bits f) prec then cleanup_exp (f_txt_e f) else f_txt_f f.

Definition str_NaN : list N := [78; 97; 78].
Definition str_pInf : list N := [43; 73; 110; 102].
Definition str_nInf : list N := [45; 73; 110; 102].

Definition float_jv (w32 : bool) (f : fval) (prec : Z) : jv :=
  if f_isnan w32 (f_bits f) then JStr str_NaN
  else if f_ispinf w32 (f_bits f) then JStr str_pInf
  else if f_isninf w32 (f_bits f) then JStr str_nInf
  else JNum (float_txt w32 f prec).

(* the oracle hypothesis: both strconv answers are JSON numbers *)
Definition float_ok (f : fval) : Prop :=
  is_json_number (f_txt_f f) = true /\ is_json_number (f_txt_e f) = true.

Lemma appendFloat_shape dst w32 f prec : appendFloat dst w32 f prec = dst ++ float_txt w32 f prec.
Proof.
  unfold appendFloat, float_txt, f_isnan, f_ispinf, f_isninf, f_use_e.
  destruct w32; cbv beta iota zeta;
    repeat match goal with |- context [if ?c then _ else _] => destruct c end; reflexivity.
Qed.

(* for a finite value the text is one of the two oracle texts (the 'e' one cleaned up) *)
Lemma float_txt_finite w32 f prec :
  f_isnan w32 (f_bits f) = false -> f_ispinf w32 (f_bits f) = false -> f_isninf w32 (f_bits f) = false ->
  float_txt w32 f prec = (if f_use_e w32 (f_bits f) prec then cleanup_exp (f_txt_e f) else f_txt_f f) /\
  float_jv w32 f prec = JNum (float_txt w32 f prec).
Proof. intros H1 H2 H3. unfold float_jv, float_txt. rewrite H1, H2, H3. auto. Qed.

Lemma quoted_ascii_good t :
  Forall (fun b => printable b /\ b <> 0x22 /\ b <> 0x5C) t -> GoodVal (quoted t) (JStr t).
Proof.
  intros H. destruct (plain_quoted_good _ (plain_ascii _ H)) as [J G].
  rewrite go_runes_ascii in J; [apply GoodVal_str; auto|].
  eapply Forall_impl; [|exact H]. unfold printable; intros; lia.
Qed.

Ltac plain_list := repeat (constructor; [unfold printable; lia|]); constructor.

Theorem float_good_txt w32 f prec : float_ok f -> GoodVal (float_txt w32 f prec) (float_jv w32 f prec).
Proof.
  intros [Hf He]. unfold float_jv, float_txt.
  destruct (f_isnan w32 (f_bits f)); [apply (quoted_ascii_good str_NaN); plain_list|].
  destruct (f_ispinf w32 (f_bits f)); [apply (quoted_ascii_good str_pInf); plain_list|].
  destruct (f_isninf w32 (f_bits f)); [apply (quoted_ascii_good str_nInf); plain_list|].
  apply GoodVal_num. destruct (f_use_e w32 (f_bits f) prec).
  - apply is_json_number_correct, cleanup_exp_is_json_number; auto.
  - apply is_json_number_correct; auto.
Qed.

Theorem float_good dst w32 f prec :
  is_json_number (f_txt_f f) = true -> is_json_number (f_txt_e f) = true ->
  appendFloat dst w32 f prec = dst ++ float_txt w32 f prec /\
  GoodVal (float_txt w32 f prec) (float_jv w32 f prec).
Proof. intros H1 H2. split; [apply appendFloat_shape|apply float_good_txt; split; auto]. Qed.

Corollary float32_good dst f prec : float_ok f ->
  AppendFloat32 dst f prec = dst ++ float_txt true f prec /\ GoodVal (float_txt true f prec) (float_jv true f prec).
Proof. intros [H1 H2]. apply float_good; auto. Qed.
Corollary float64_good dst f prec : float_ok f ->
  AppendFloat64 dst f prec = dst ++ float_txt false f prec /\ GoodVal (float_txt false f prec) (float_jv false f prec).
Proof. intros [H1 H2]. apply float_good; auto. Qed.

(* the number denoted by a finite float text is the number denoted by the oracle text used *)
Corollary float_num_value w32 f prec : float_ok f ->
  num_value (if f_use_e w32 (f_bits f) prec then cleanup_exp (f_txt_e f) else f_txt_f f) =
  num_value (if f_use_e w32 (f_bits f) prec then f_txt_e f else f_txt_f f).
Proof. intros [H1 H2]. destruct (f_use_e w32 (f_bits f) prec); [apply cleanup_exp_num_value; auto|reflexivity]. Qed.

Theorem floats_good dst w32 l prec : Forall float_ok l ->
  append_slice (fun d f => appendFloat d w32 f prec) dst l = dst ++ slice_txt (fun f => float_txt w32 f prec) l /\
  GoodVal (slice_txt (fun f => float_txt w32 f prec) l) (JArr (map (fun f => float_jv w32 f prec) l)).
Proof.
  intros H. apply append_slice_good; [intros; apply appendFloat_shape|].
  intros x Hx. apply float_good_txt. rewrite Forall_forall in H. auto.
Qed.

Corollary floats32_good dst l prec : Forall float_ok l ->
  AppendFloats32 dst l prec = dst ++ slice_txt (fun f => float_txt true f prec) l /\
  GoodVal (slice_txt (fun f => float_txt true f prec) l) (JArr (map (fun f => float_jv true f prec) l)).
Proof. apply floats_good. Qed.
Corollary floats64_good dst l prec : Forall float_ok l ->
  AppendFloats64 dst l prec = dst ++ slice_txt (fun f => float_txt false f prec) l /\
  GoodVal (slice_txt (fun f => float_txt false f prec) l) (JArr (map (fun f => float_jv false f prec) l)).
Proof. apply floats_good. Qed.

(* ================================================================== *)
(* time, duration                                                       *)

Definition time_txt (t : tval) (f : timefmt) : bytes :=
  match f with
  | TFUnix => print_Z (t_unix t)
  | TFUnixMs => print_Z (Z.quot (t_unixnano t) 1000000)
  | TFUnixMicro => print_Z (Z.quot (t_unixnano t) 1000)
  | TFUnixNano => print_Z (t_unixnano t)
  | TFLayout => quoted (t_fmt t)
  end.

Definition time_jv (t : tval) (f : timefmt) : jv :=
  match f with
  | TFLayout => JStr (go_runes (t_fmt t))
  | _ => JNum (time_txt t f)
  end.

Lemma AppendTime_shape dst t f : AppendTime dst t f = dst ++ time_txt t f.
Proof. destruct f; reflexivity. Qed.

(* premise only for a layout format: the formatted text is UTF-8 without
   quote, backslash or control bytes *)
Theorem time_good_txt t f : (f = TFLayout -> plain_text (t_fmt t)) -> GoodVal (time_txt t f) (time_jv t f).
Proof.
  intros H. destruct f; cbn [time_txt time_jv]; try (apply GoodVal_num, print_Z_JNumber).
  apply GoodVal_str. apply plain_quoted_good. auto.
Qed.

Theorem time_good dst t f : (f = TFLayout -> plain_text (t_fmt t)) ->
  AppendTime dst t f = dst ++ time_txt t f /\ GoodVal (time_txt t f) (time_jv t f).
Proof. intros H. split; [apply AppendTime_shape|apply time_good_txt; auto]. Qed.

(* with the scalars named: the string denotes exactly the scalars of the formatted text *)
Corollary time_layout_good t cs :
  Utf8 (t_fmt t) cs -> Forall plain_byte (t_fmt t) -> GoodVal (quoted (t_fmt t)) (JStr cs).
Proof.
  intros HU HF. rewrite <- (go_runes_Utf8 _ _ HU).
  apply (time_good_txt t TFLayout). intros _. split; eauto.
Qed.

Theorem times_good dst l f : (f = TFLayout -> Forall (fun t => plain_text (t_fmt t)) l) ->
  AppendTimes dst l f = dst ++ slice_txt (fun t => time_txt t f) l /\
  GoodVal (slice_txt (fun t => time_txt t f) l) (JArr (map (fun t => time_jv t f) l)).
Proof.
  intros H. apply append_slice_good; [intros; apply AppendTime_shape|].
  intros x Hx. apply time_good_txt. intros Ef. specialize (H Ef). rewrite Forall_forall in H. auto.
Qed.

Definition duration_txt (d : dval) (unit : Z) (useInt : bool) (prec : Z) : bytes :=
  if useInt then print_Z (wrap64 (Z.quot (d_ns d) unit)) else float_txt false (d_quot d) prec.
Definition duration_jv (d : dval) (unit : Z) (useInt : bool) (prec : Z) : jv :=
  if useInt then JNum (print_Z (wrap64 (Z.quot (d_ns d) unit))) else float_jv false (d_quot d) prec.

Lemma quot_half x y : (0 <= x -> 2 <= y -> 0 <= Z.quot x y /\ 2 * Z.quot x y <= x)%Z.
Proof.
  intros Hx Hy. assert (H0 : (0 <= Z.quot x y)%Z) by (apply Z.quot_pos; lia). split; [exact H0|].
  pose proof (Z.mul_quot_le x y ltac:(lia) ltac:(lia)) as H. nia.
Qed.
Lemma quot_in_range a b : (- two63Z <= a < two63Z)%Z -> b <> 0%Z -> b <> (-1)%Z -> (- two63Z <= Z.quot a b < two63Z)%Z.
Proof.
  intros Ha Hb0 Hb1. unfold two63Z in *.
  destruct (Z.eq_dec b 1) as [->|Hb2]; [rewrite Z.quot_1_r; lia|].
  assert (Hq : (Z.abs (Z.quot a b) * 2 <= Z.abs a)%Z).
  { rewrite <- Z.quot_abs by exact Hb0. destruct (quot_half (Z.abs a) (Z.abs b)) as [H1 H2]; lia. }
  lia.
Qed.

Lemma duration_jv_exact d unit prec :
  (- two63Z <= d_ns d < two63Z)%Z -> unit <> 0%Z -> unit <> (-1)%Z ->
  duration_jv d unit true prec = JNum (print_Z (Z.quot (d_ns d) unit)).
Proof. intros Hd H0 H1. unfold duration_jv. rewrite wrap64_id by (apply quot_in_range; assumption). reflexivity. Qed.

Lemma AppendDuration_shape dst d unit useInt prec :
  AppendDuration dst d unit useInt prec = dst ++ duration_txt d unit useInt prec.
Proof. unfold AppendDuration, duration_txt. destruct useInt; [reflexivity|apply appendFloat_shape]. Qed.

Theorem duration_good_txt d unit useInt prec : (useInt = false -> float_ok (d_quot d)) ->
  GoodVal (duration_txt d unit useInt prec) (duration_jv d unit useInt prec).
Proof.
  intros H. unfold duration_txt, duration_jv. destruct useInt.
  - apply GoodVal_num, print_Z_JNumber.
  - apply float_good_txt; auto.
Qed.

Theorem duration_good dst d unit useInt prec : (useInt = false -> float_ok (d_quot d)) ->
  AppendDuration dst d unit useInt prec = dst ++ duration_txt d unit useInt prec /\
  GoodVal (duration_txt d unit useInt prec) (duration_jv d unit useInt prec).
Proof. intros H. split; [apply AppendDuration_shape|apply duration_good_txt; auto]. Qed.

Theorem durations_good dst l unit useInt prec : (useInt = false -> Forall (fun d => float_ok (d_quot d)) l) ->
  AppendDurations dst l unit useInt prec = dst ++ slice_txt (fun d => duration_txt d unit useInt prec) l /\
  GoodVal (slice_txt (fun d => duration_txt d unit useInt prec) l)
          (JArr (map (fun d => duration_jv d unit useInt prec) l)).
Proof.
  intros H. apply append_slice_good; [intros; apply AppendDuration_shape|].
  intros x Hx. apply duration_good_txt. intros E. specialize (H E). rewrite Forall_forall in H. auto.
Qed.

(* ================================================================== *)
(* interface, stringer, raw JSON, raw CBOR                              *)

Definition iface_txt (r : ifaceres) : bytes :=
  match r with IfOk raw => raw | IfErr msg => json_string msg end.

(* premise: a successful marshal answer is a good JSON text for v; an error
   always yields the escaped message string *)
Definition iface_denotes (r : ifaceres) (v : jv) : Prop :=
  match r with IfOk raw => GoodVal raw v | IfErr msg => v = JStr (go_runes msg) end.

Lemma AppendInterface_shape dst r : AppendInterface dst r = dst ++ iface_txt r.
Proof. destruct r; reflexivity. Qed.

Theorem interface_good dst r v : iface_denotes r v ->
  AppendInterface dst r = dst ++ iface_txt r /\ GoodVal (iface_txt r) v.
Proof.
  intros H. split; [apply AppendInterface_shape|]. destruct r as [raw|msg]; cbn [iface_denotes iface_txt] in *.
  - exact H.
  - subst v. apply json_string_GoodVal.
Qed.

Corollary interface_ok_good dst raw v : Json raw v /\ GoodTxt raw ->
  AppendInterface dst (IfOk raw) = dst ++ raw /\ GoodVal raw v.
Proof. intros H. apply (interface_good dst (IfOk raw) v H). Qed.

Corollary interface_err_good dst msg :
  AppendInterface dst (IfErr msg) = dst ++ json_string msg /\ GoodVal (json_string msg) (JStr (go_runes msg)).
Proof. apply (interface_good dst (IfErr msg)). reflexivity. Qed.

Definition stringer_txt (v : option bytes) (nil_iface : ifaceres) : bytes :=
  match v with None => iface_txt nil_iface | Some s => json_string s end.
Definition stringer_denotes (v : option bytes) (nil_iface : ifaceres) (j : jv) : Prop :=
  match v with None => iface_denotes nil_iface j | Some s => j = JStr (go_runes s) end.

Lemma AppendStringer_shape dst v ni : AppendStringer dst v ni = dst ++ stringer_txt v ni.
Proof. destruct v; [reflexivity|apply AppendInterface_shape]. Qed.

Theorem stringer_good dst v ni j : stringer_denotes v ni j ->
  AppendStringer dst v ni = dst ++ stringer_txt v ni /\ GoodVal (stringer_txt v ni) j.
Proof.
  intros H. split; [apply AppendStringer_shape|]. destruct v as [s|]; cbn [stringer_denotes stringer_txt] in *.
  - subst j. apply json_string_GoodVal.
  - apply (interface_good [] ni j H).
Qed.

(* the value a stringer element denotes, given what the nil case denotes *)
Definition stringer_jv (nil_jv : jv) (v : option bytes) : jv :=
  match v with None => nil_jv | Some s => JStr (go_runes s) end.

Theorem stringers_good dst l ni nil_jv : (In None l -> iface_denotes ni nil_jv) ->
  AppendStringers dst l ni = dst ++ slice_txt (fun v => stringer_txt v ni) l /\
  GoodVal (slice_txt (fun v => stringer_txt v ni) l) (JArr (map (stringer_jv nil_jv) l)).
Proof.
  intros H. apply append_slice_good; [intros; apply AppendStringer_shape|].
  intros x Hx. apply (stringer_good [] x ni). destruct x; cbn; [reflexivity|auto].
Qed.

Theorem rawjson_good dst j v : GoodVal j v -> appendJSON dst j = dst ++ j /\ GoodVal j v.
Proof. intros H. split; [reflexivity|exact H]. Qed.

(* base64 alphabet (standard encoding with padding) *)
Definition b64char (b : N) : Prop :=
  65 <= b <= 90 \/ 97 <= b <= 122 \/ 48 <= b <= 57 \/ b = 43 \/ b = 47 \/ b = 61.

(* data:application/cbor;base64,  (the scalars of the prefix) *)
Definition cbor_pfx : list N :=
  [100;97;116;97;58;97;112;112;108;105;99;97;116;105;111;110;47;99;98;111;114;59;98;97;115;101;54;52;44].
Definition cbor_txt (b64 : bytes) : bytes := quoted (cbor_pfx ++ b64).

Lemma appendCBOR_shape dst b64 : appendCBOR dst b64 = dst ++ cbor_txt b64.
Proof.
  reflexivity.
Qed.

Theorem rawcbor_good dst b64 : Forall b64char b64 ->
  appendCBOR dst b64 = dst ++ cbor_txt b64 /\ GoodVal (cbor_txt b64) (JStr (cbor_pfx ++ b64)).
Proof.
  intros H. split; [apply appendCBOR_shape|]. apply quoted_ascii_good. apply Forall_app; split.
  - unfold cbor_pfx. plain_list.
  - eapply Forall_impl; [|exact H]. unfold b64char, printable. intros; lia.
Qed.

(* ================================================================== *)
(* AppendObjectData                                                     *)

Definition strip_brace (o : bytes) : bytes :=
  match o with b :: o' => if b =? 0x7B then o' else o | [] => o end.

(* the three-way condition: the object's opening brace is dropped; a comma is
   inserted iff dst already holds more than one byte *)
Theorem AppendObjectData_shape dst o :
  AppendObjectData dst o = (if (2 <=? length dst)%nat then dst ++ [0x2C] else dst) ++ strip_brace o.
Proof.
  unfold AppendObjectData, strip_brace.
  replace (1 <? N.of_nat (length dst)) with (2 <=? length dst)%nat by lia.
  destruct o as [|b o']; [reflexivity|].
  destruct (N.eqb_spec b 0x7B) as [->|Hb]; [reflexivity|]. off_path b.
Qed.

Corollary AppendObjectData_brace_first dst o' :
  (length dst <= 1)%nat -> AppendObjectData dst (0x7B :: o') = dst ++ o'.
Proof. intros H. rewrite AppendObjectData_shape. replace (2 <=? length dst)%nat with false by lia. reflexivity. Qed.

Corollary AppendObjectData_brace_next dst o' :
  (2 <= length dst)%nat -> AppendObjectData dst (0x7B :: o') = dst ++ [0x2C] ++ o'.
Proof.
  intros H. rewrite AppendObjectData_shape. replace (2 <=? length dst)%nat with true by lia.
  cbn [strip_brace N.eqb Pos.eqb]. rewrite <- app_assoc. reflexivity.
Qed.

Corollary AppendObjectData_nobrace dst b o' : b <> 0x7B ->
  AppendObjectData dst (b :: o') = (if (2 <=? length dst)%nat then dst ++ [0x2C] else dst) ++ b :: o'.
Proof. intros H. rewrite AppendObjectData_shape. unfold strip_brace. replace (b =? 0x7B) with false by lia. reflexivity. Qed.

(* ================================================================== *)
(* the last byte of a value text is never an opening brace (what lets
   AppendKey's "last byte is '{'" test mean "no member yet")             *)

Lemma last_Forall {A} (P : A -> Prop) l d : Forall P l -> l <> [] -> P (last l d).
Proof.
  intros HF Hne. destruct (exists_last Hne) as [l' [x ->]]. rewrite last_last.
  apply Forall_app in HF. destruct HF as [_ Hx]. inversion Hx; auto.
Qed.

Lemma last_app_r {A} (a b : list A) d : b <> [] -> last (a ++ b) d = last b d.
Proof.
  intros Hne. destruct (exists_last Hne) as [b' [x ->]]. rewrite app_assoc, !last_last. reflexivity.
Qed.

Lemma JVal_last t v : JVal t v -> t <> [] /\ last_byte t <> 0x7B.
Proof.
  unfold last_byte.
  destruct 1 as [| | |t HN|t cs HS|w|es l|w|ms kvs];
    try (split; [discriminate|]; cbn [app]; try (rewrite app_comm_cons, last_last); cbn; lia).
  - pose proof (JNumber_printable _ HN) as HP. destruct (JNumber_head _ HN) as [b [t0 [-> _]]].
    split; [discriminate|].
    assert (HF : Forall (fun b => b <> 0x7B) (b :: t0)).
    { destruct HN as [sg i f e Hsg HI HF HE]. repeat (apply Forall_app; split).
      - destruct Hsg as [-> | ->]; repeat constructor; lia.
      - eapply Forall_impl; [|apply (JInt_int_ok _ HI)]. unfold digit; intros; lia.
      - destruct HF as [|ds [_ Hd]]; [constructor|]. constructor; [lia|].
        eapply Forall_impl; [|exact Hd]. unfold digit; intros; lia.
      - destruct HE as [|e0 sg' ds He0 Hsg' [_ Hd]]; [constructor|].
        constructor; [lia|]. apply Forall_app; split.
        + destruct Hsg' as [-> | [-> | ->]]; repeat constructor; lia.
        + eapply Forall_impl; [|exact Hd]. unfold digit; intros; lia. }
    apply (last_Forall (fun b => b <> 0x7B)); [exact HF|discriminate].
  - destruct HS as [body cs _]. split; [discriminate|].
    rewrite app_assoc, last_last. lia.
Qed.

Theorem Json_last t v : Json t v -> t <> [] /\ last_byte t <> 0x7B.
Proof.
  destruct 1 as [w1 t w2 v H1 HV H2]. destruct (JVal_last _ _ HV) as [Hne Hl]. split.
  - destruct t; [congruence|]. destruct w1; discriminate.
  - unfold last_byte in *. destruct w2 as [|x w2'] eqn:Ew.
    + rewrite app_nil_r, last_app_r by auto. exact Hl.
    + rewrite app_assoc, last_app_r by discriminate.
      assert (HP : is_ws (last (x :: w2') 0) = true).
      { apply (last_Forall (fun b => is_ws b = true)); [exact H2|discriminate]. }
      unfold is_ws in HP. lia.
Qed.

Corollary GoodVal_last t v : GoodVal t v -> t <> [] /\ last_byte t <> 0x7B.
Proof. intros [J _]. eapply Json_last; eauto. Qed.

(* after a value has been appended the buffer does not end in '{' *)
Corollary last_byte_after_value dst t v : GoodVal t v -> last_byte (dst ++ t) <> 0x7B.
Proof. intros H. destruct (GoodVal_last _ _ H) as [Hne Hl]. rewrite last_byte_app; auto. Qed.
