(* Lemmas about Lts/Waiter.v (C12, and the writer-level part of C10). *)
From Verif Require Import Base.Prelude Lts.Diode Lts.Waiter Proofs.DiodeP Proofs.WaiterInvP.
From Coq Require Import Permutation Sorted.
Open Scope N_scope.

(* ------------------------------------------------------------------ *)
(* C12: Close returns, the poller is never stuck                        *)
(* ------------------------------------------------------------------ *)
Definition is_cdone (c : cpc) : bool := match c with CDone => true | _ => false end.

(* after cancel, as long as the consumer goroutine has not finished, the consumer or the
   cancel goroutine has an enabled step (the wrapped writer's Write counts as a step) *)
Lemma close_progress_b w : WInv w -> cancelled w = true -> is_cdone (cons w) = false ->
  enabled w TCons || enabled w TCancel = true.
Proof.
  unfold WInv, winv_b, enabled, wstep, cons_step, cancel_step, wake.
  destruct w as [d0 wt gt m c g k ca pb0 wr wd lo].
  cbn [d waiter gated mu cons cg closer cancelled pb wreturned wdelivered g_lost].
  intros H Hc Hd. subst ca.
  destruct c as [| | | |[|]| |b| |b| |], g, m, wt; cbn in H, Hd; try discriminate; cbn; auto;
    destruct (cstep d0) as [[? ?] [?|]]; auto.
Qed.

(* the state the cancel-path mutex exists to exclude *)
Lemma no_stuck_close_b w : WInv w -> waiter w = true ->
  match cons w, cg w with CParked false, GDone => False | CParked false, GUnlock => False | _, _ => True end.
Proof.
  unfold WInv, winv_b. destruct w as [d0 wt gt m c g k ca pb0 wr wd lo]. cbn.
  intros H ->. destruct c as [| | | |[|]| |b| |b| |], g; auto; destruct m, ca; cbn in H; discriminate.
Qed.

Lemma closer_enabled_when_done w : cons w = CDone -> closer w = KAwait -> enabled w TCloser = true.
Proof. unfold enabled, wstep, closer_step. intros -> ->. reflexivity. Qed.

Lemma poller_not_stuck_b w : WInv w -> waiter w = false -> is_cdone (cons w) = false -> enabled w TCons = true.
Proof.
  unfold WInv, winv_b, enabled, wstep, cons_step.
  destruct w as [d0 wt gt m c g k ca pb0 wr wd lo].
  cbn [d waiter gated mu cons cg closer cancelled pb wreturned wdelivered g_lost].
  intros H -> Hd. destruct c as [| | | |[|]| |b| |b| |]; cbn in H, Hd; try discriminate; cbn; auto;
    try (rewrite !andb_false_r in H; discriminate);
  destruct (cstep d0) as [[? ?] [?|]]; auto.
Qed.

(* producers: whatever the state of the mutex, the consumer, the wrapped writer and Close,
   an unfinished Write has an enabled step *)
Definition prod_unfinished (w : wst) (p : nat) : bool :=
  negb (pb_none (nth p (pb w) None)) || negb (pdone (nth p (prods (d w)) (PIdle []))).

Lemma producer_enabled_writer w p : prod_unfinished w p = true -> enabled w (TProd p) = true.
Proof.
  unfold prod_unfinished, enabled, wstep, prod_step. destruct (nth p (pb w) None) as [m|]; cbn.
  - destruct (wake (cons w)); auto.
  - intros H. apply negb_true_iff in H. destruct (producer_enabled (d w) p H) as (l & s' & ->). reflexivity.
Qed.

(* ------------------------------------------------------------------ *)
(* C12: the only way to park on a non-empty ring is a lost Broadcast    *)
(* ------------------------------------------------------------------ *)
Definition waiting (c : cpc) : bool := match c with CIsDone | CWait | CParked false => true | _ => false end.

Definition PI (w : wst) : Prop :=
  length (pb w) = length (prods (d w)) /\
  (g_lost w = false -> waiting (cons w) = true -> drained (d w) = false ->
   exists p m, nth p (pb w) None = Some m).

Lemma cstep_fail_drained s l s' : cstep s = (l, s', None) -> drained s' = true.
Proof.
  unfold cstep, drained, slot_at.
  destruct (nth (N.to_nat (ri s mod size s)) (slots s) None) as [[sq m]|] eqn:Es.
  - destruct (sq <? ri s) eqn:El; intros H; inversion H; subst; clear H. cbn [ri slots]. unfold size; cbn [slots].
    rewrite upd_length. fold (size s). rewrite nth_upd_eq; auto.
    destruct (Nat.ltb_spec (N.to_nat (ri s mod size s)) (length (slots s))); auto.
    rewrite nth_overflow in Es; [discriminate|lia].
  - intros H; inversion H; subst. rewrite Es. auto.
Qed.

Lemma pstep_keeps_drained s p l s' : pstep s p = Some (l, s') -> l <> LCas true ->
  drained s' = drained s /\ length (prods s') = length (prods s).
Proof.
  unfold pstep, drained, slot_at, size.
  destruct (nth p (prods s) (PIdle [])) as [[|m todo]|m todo wi|m todo wi old]; try discriminate.
  - intros H; inversion H; subst; cbn. rewrite upd_length. auto.
  - destruct (newer_test _ _ _); intros H; inversion H; subst; cbn; rewrite upd_length; auto.
  - destruct (beq _ _); intros H; inversion H; subst; cbn; rewrite upd_length; auto. congruence.
Qed.

Lemma pstep_cas_range s p s' : pstep s p = Some (LCas true, s') ->
  (p < length (prods s))%nat /\ length (prods s') = length (prods s).
Proof.
  unfold pstep. destruct (nth p (prods s) (PIdle [])) as [[|m todo]|m todo wi|m todo wi old] eqn:Ep; try discriminate.
  - destruct (newer_test _ _ _); discriminate.
  - destruct (beq _ _); intros H; inversion H; subst; cbn. rewrite upd_length. split; auto.
    apply nth_default_range. rewrite Ep. discriminate.
Qed.

Lemma winit_pi wt gt n ps : PI (winit wt gt n ps).
Proof.
  split; cbn.
  - rewrite !map_length. auto.
  - intros _ Hw. destruct wt; cbn in Hw; discriminate.
Qed.

Lemma wstep_pi w t : waiter w = true -> PI w -> PI (wexec1 w t).
Proof.
  intros Hwt [Hlen HP]. unfold wexec1, wstep. destruct t as [| | |p].
  - (* consumer *)
    unfold cons_step. destruct (cons w) as [| | | |sig| |b| |b| |] eqn:Ec; cbn [waiting] in *.
    + destruct (mu w); split; cbn; auto; try discriminate. rewrite Ec; auto.
    + destruct (cstep (d w)) as [[l d'] got] eqn:Ecs.
      assert (Hl : length (prods d') = length (prods (d w))).
      { revert Ecs. unfold cstep. destruct (nth _ _ _) as [[sq m]|]; [destruct (sq <? ri (d w))|]; intros H; inversion H; subst; auto. }
      destruct got as [b|]; split; cbn; auto; try congruence.
      * rewrite Hwt. cbn. discriminate.
      * intros _ _ Hdr. apply cstep_fail_drained in Ecs. congruence.
    + rewrite Hwt. destruct (cancelled w); split; cbn; auto; try discriminate.
    + split; cbn; auto.
    + destruct (sig && negb (mu w)); split; cbn; auto; try discriminate. rewrite Ec; auto.
    + split; cbn; auto; discriminate.
    + split; cbn; auto; discriminate.
    + split; cbn; auto; discriminate.
    + rewrite Hwt. split; cbn; auto; discriminate.
    + split; cbn; auto. rewrite Ec; auto.
    + destruct (cstep (d w)) as [[l d'] got] eqn:Ecs.
      assert (Hl : length (prods d') = length (prods (d w))).
      { revert Ecs. unfold cstep. destruct (nth _ _ _) as [[sq m]|]; [destruct (sq <? ri (d w))|]; intros H; inversion H; subst; auto. }
      destruct got as [b|]; rewrite Hwt; split; cbn; auto; try congruence; discriminate.
  - (* cancel goroutine *)
    unfold cancel_step. destruct (cg w).
    + destruct (cancelled w); split; solve [exact Hlen|exact HP].
    + destruct (mu w); split; solve [exact Hlen|exact HP].
    + unfold wake. destruct (cons w) as [| | | |[|]| | | | | |] eqn:Ec; split; cbn; auto; try discriminate.
    + split; solve [exact Hlen|exact HP].
    + split; solve [exact Hlen|exact HP].
  - (* closer *)
    unfold closer_step. destruct (closer w).
    + destruct (gated w && negb (all_written w)); split; solve [exact Hlen|exact HP].
    + destruct (cons w) eqn:Ec; (split; [exact Hlen|]); cbn [cons g_lost d pb]; rewrite ?Ec; exact HP.
    + split; solve [exact Hlen|exact HP].
  - (* producer *)
    unfold prod_step. destruct (nth p (pb w) None) as [m|] eqn:Eb.
    + (* Broadcast *)
      unfold wake. destruct (cons w) as [| | | |[|]| | | | | |] eqn:Ec; split; cbn; rewrite ?upd_length; auto; try discriminate.
      all: rewrite orb_true_r; discriminate.
    + destruct (pstep (d w) p) as [[l d']|] eqn:Eps; [|split; auto].
      destruct l as [wi|o|[|]|o]; cbn.
      1,2,4,5: destruct (pstep_keeps_drained _ _ _ _ Eps ltac:(discriminate)) as [Hd Hl];
               split; cbn; try congruence; rewrite Hd; auto.
      rewrite Hwt. destruct (pstep_cas_range _ _ _ Eps) as [Hr Hl].
      split; cbn; rewrite ?upd_length; try congruence.
      intros _ _ _. exists p, (last_msg d'). apply nth_upd_eq. lia.
Qed.

Lemma wexec_pi w sched : waiter w = true -> PI w -> PI (wexec w sched).
Proof.
  revert w; induction sched as [|t r IH]; intros w Hw H; [exact H|].
  change (wexec w (t :: r)) with (wexec (wexec1 w t) r). apply IH; [rewrite waiter_exec1; auto|apply wstep_pi; auto].
Qed.

(* C12_waiter_prompt_partial, first half: if no producer Broadcast fell between a failed TryNext
   and the Wait, and no Write is between its CAS and its Broadcast, a parked consumer means the
   ring has nothing deliverable at the read index *)
Lemma parked_means_drained gt n ps sched : let w := wrun true gt n ps sched in
  g_lost w = false -> cons w = CParked false -> forallb pb_none (pb w) = true -> drained (d w) = true.
Proof.
  intros w Hl Hc Hpb.
  destruct (wexec_pi (winit true gt n ps) sched eq_refl (winit_pi _ _ _ _)) as [_ HP]. fold (wrun true gt n ps sched) in HP. fold w in HP.
  destruct (drained (d w)) eqn:E; auto. exfalso.
  destruct (HP Hl ltac:(rewrite Hc; reflexivity) eq_refl) as (p & m & Hp).
  assert (In (Some m) (pb w)).
  { rewrite <- Hp. destruct (nth_in_or_default p (pb w) None) as [|E']; auto. rewrite E' in Hp. discriminate. }
  eapply forallb_forall in Hpb; eauto. discriminate.
Qed.

(* second half: with fewer than [n] positions outstanding at every fetch-add and no Write in
   progress, "nothing deliverable" means every returned Write was handed to the consumer *)
Definition quiescent (x : pstate) : bool := match x with PIdle _ => true | _ => false end.

Lemma quiescent_pwi l p : forallb quiescent l = true -> pwi (nth p l (PIdle [])) = None.
Proof.
  intros H. destruct (nth_In_or_default l p (PIdle [])) as [E|E]; [rewrite E; auto|].
  eapply forallb_forall in H; eauto. destruct (nth p l (PIdle [])); cbn in *; try discriminate; auto.
Qed.

Lemma quiescent_cnt l : forallb quiescent l = true -> cnt l = 0.
Proof.
  induction l as [|x l IH]; cbn; auto. intros H. apply andb_true_iff in H as [H1 H2].
  rewrite IH; auto. destruct x; cbn in *; try discriminate; auto.
Qed.

Lemma quiet_all_delivered n ps sched : (0 < n)%nat -> let s := run n ps sched in
  claims s < two64 -> g_overcap s = false -> forallb quiescent (prods s) = true -> drained s = true ->
  ri s = claims s /\ alerts s = [] /\ Permutation (delivered s) (returned s).
Proof.
  intros Hn s Hc Ho Hq Hdr.
  pose proof (cap_run n ps sched Hn Hc Ho) as B. fold s in B.
  pose proof (run_inv _ _ _ Hc) as I. fold s in I.
  destruct (b_zero _ B) as (Z1 & Z2 & Z3 & Z4).
  pose proof (drain_run n ps sched Hn Hc (conj Z1 (conj Z2 Z3))) as HD. fold s in HD.
  pose proof (bal_run n ps sched) as HB. fold s in HB. unfold Bal in HB.
  rewrite (quiescent_cnt _ Hq), Z1, Z2 in HB.
  assert (E : ri s = claims s).
  { pose proof (i_ri _ _ I) as Hle. destruct (N.eq_dec (ri s) (claims s)) as [|Hne]; auto. exfalso.
    destruct (HD (ri s) ltac:(lia)) as [(q & Hq')|(sq & m & Hs & Hle')].
    - rewrite quiescent_pwi in Hq'; auto. discriminate.
    - unfold drained, slot_at in Hdr. rewrite Hs in Hdr. apply N.ltb_lt in Hdr. lia. }
  repeat split; auto.
  apply NoDup_Permutation_bis.
  - eapply nodup_of_map. apply sorted_nodup, (i_sorted _ _ I).
  - pose proof (i_acc _ _ I) as Ha. rewrite Z4 in Ha. change (sumN []) with 0 in Ha. lia.
  - intros b Hb. pose proof (i_del_ret _ _ I) as F. eapply Forall_forall in F; eauto.
Qed.

(* K4 *)
Definition k4_sched : list thr := [TCons; TCons; TCons; TProd 0; TProd 0; TProd 0; TProd 0; TCons].

Lemma lost_wakeup_refuted :
  let w := wrun true true 2 [[100]] k4_sched in
  cons w = CParked false /\ wreturned w = [100] /\ wdelivered w = [] /\ alerts (d w) = [] /\
  drained (d w) = false /\ slot_at (d w) (ri (d w) mod size (d w)) = Some (0, 100) /\
  g_lost w = true /\ all_written w = true /\
  enabled w TCons = false /\ enabled w TCancel = false /\ enabled w (TProd 0) = false /\
  closer w = KIdle.
Proof. vm_compute. repeat split; auto. Qed.

(* ------------------------------------------------------------------ *)
(* writer-level observables vs ring-level logs                          *)
(* ------------------------------------------------------------------ *)
Definition inhand (c : cpc) : list N := match c with CUnlockD b | CWrite b => [snd b] | _ => [] end.
Definition omsg (o : option N) : list N := match o with Some m => [m] | None => [] end.

Definition OI (w : wst) : Prop :=
  map snd (delivered (d w)) = wdelivered w ++ inhand (cons w) /\
  Permutation (map snd (returned (d w))) (wreturned w ++ concat (map omsg (pb w))) /\
  length (pb w) = length (prods (d w)).

Lemma cstep_logs s l s' got : cstep s = (l, s', got) ->
  returned s' = returned s /\ length (prods s') = length (prods s) /\
  delivered s' = delivered s ++ match got with Some b => [b] | None => [] end.
Proof.
  unfold cstep. destruct (nth _ (slots s) None) as [[sq m]|]; [destruct (sq <? ri s)|];
    intros H; inversion H; subst; cbn; rewrite ?app_nil_r; auto.
Qed.

Lemma pstep_logs s p l s' : pstep s p = Some (l, s') ->
  delivered s' = delivered s /\ length (prods s') = length (prods s) /\
  (l <> LCas true -> returned s' = returned s) /\
  (l = LCas true -> exists b, returned s' = returned s ++ [b] /\ last_msg s' = snd b /\ (p < length (prods s))%nat).
Proof.
  unfold pstep. destruct (nth p (prods s) (PIdle [])) as [[|m todo]|m todo wi|m todo wi old] eqn:Ep; try discriminate.
  - intros H; inversion H; subst; cbn. rewrite upd_length. repeat split; auto. discriminate.
  - destruct (newer_test _ _ _); intros H; inversion H; subst; cbn; rewrite upd_length; repeat split; auto; discriminate.
  - destruct (beq _ _); intros H; inversion H; subst; cbn; rewrite upd_length; repeat split; auto; try congruence.
    intros _. exists (wi, m). repeat split; auto.
    + unfold last_msg. cbn. rewrite rev_app_distr. reflexivity.
    + apply nth_default_range. rewrite Ep. discriminate.
Qed.

Lemma concat_omsg_upd l p x : (p < length l)%nat ->
  exists a b, concat (map omsg l) = a ++ omsg (nth p l None) ++ b /\
              concat (map omsg (upd l p x)) = a ++ omsg x ++ b.
Proof.
  intros H. destruct (upd_split l p x None H) as (a & b & E1 & E2 & _).
  exists (concat (map omsg a)), (concat (map omsg b)).
  rewrite E2. rewrite E1 at 1. rewrite !map_app, !concat_app. cbn. auto.
Qed.

Lemma winit_oi wt gt n ps : OI (winit wt gt n ps).
Proof.
  repeat split; cbn.
  - destruct wt; reflexivity.
  - induction ps; cbn; auto.
  - rewrite !map_length. auto.
Qed.

Lemma wstep_oi w t : OI w -> OI (wexec1 w t).
Proof.
  intros (H1 & H2 & H3). unfold wexec1, wstep. destruct t as [| | |p].
  - unfold cons_step. destruct (cons w) as [| | | |sig| |b| |b| |] eqn:Ec; cbn [inhand] in *.
    + destruct (mu w); repeat split; cbn; rewrite ?Ec; auto.
    + destruct (cstep (d w)) as [[l d'] got] eqn:Ecs. destruct (cstep_logs _ _ _ _ Ecs) as (R & L & D).
      destruct got as [b|]; repeat split; cbn; rewrite ?R, ?D, ?map_app; try congruence; unfold bucket in *.
      * rewrite H1, app_nil_r. destruct (waiter w); reflexivity.
      * rewrite H1, !app_nil_r. reflexivity.
    + destruct (cancelled w), (waiter w); repeat split; cbn; auto.
    + repeat split; cbn; auto.
    + destruct (sig && negb (mu w)); repeat split; cbn; rewrite ?Ec; auto.
    + repeat split; cbn; auto.
    + repeat split; cbn; auto.
    + repeat split; cbn; auto.
    + repeat split; cbn; auto. rewrite H1. destruct (waiter w); cbn; rewrite app_nil_r; auto.
    + repeat split; cbn; rewrite ?Ec; auto.
    + destruct (cstep (d w)) as [[l d'] got] eqn:Ecs. destruct (cstep_logs _ _ _ _ Ecs) as (R & L & D).
      destruct got as [b|].
      * repeat split; cbn; rewrite ?R, ?D, ?map_app; try congruence; unfold bucket in *.
        rewrite H1, app_nil_r. destruct (waiter w); reflexivity.
      * destruct (waiter w); repeat split; cbn; rewrite ?R, ?D, ?map_app; try congruence; unfold bucket in *;
          rewrite H1, !app_nil_r; reflexivity.
  - unfold cancel_step. destruct (cg w).
    + destruct (cancelled w); repeat split; auto.
    + destruct (mu w); repeat split; auto.
    + unfold wake. destruct (cons w) as [| | | |[|]| | | | | |] eqn:Ec; repeat split; cbn; rewrite ?Ec in *; auto.
    + repeat split; auto.
    + repeat split; auto.
  - unfold closer_step. destruct (closer w).
    + destruct (gated w && negb (all_written w)); repeat split; auto.
    + destruct (cons w) eqn:Ec; repeat split; cbn; rewrite ?Ec in *; auto.
    + repeat split; auto.
  - unfold prod_step. destruct (nth p (pb w) None) as [m|] eqn:Eb.
    + assert (Hr : (p < length (pb w))%nat).
      { destruct (Nat.ltb_spec p (length (pb w))); auto. rewrite nth_overflow in Eb; [discriminate|lia]. }
      destruct (concat_omsg_upd (pb w) p None Hr) as (a & b & E1 & E2). rewrite Eb in E1. cbn in E1, E2.
      assert (HP : Permutation (map snd (returned (d w))) ((wreturned w ++ [m]) ++ concat (map omsg (upd (pb w) p None)))).
      { rewrite E2. rewrite E1 in H2. etransitivity; [exact H2|]. rewrite <- app_assoc. apply Permutation_app_head.
        cbn. symmetry. apply Permutation_middle. }
      unfold wake. destruct (cons w) as [| | | |[|]| | | | | |] eqn:Ec; repeat split; cbn; rewrite ?upd_length; rewrite ?Ec in *; auto.
    + destruct (pstep (d w) p) as [[l d']|] eqn:Eps; [|repeat split; auto].
      destruct (pstep_logs _ _ _ _ Eps) as (D & L & Rn & Rc).
      destruct l as [wi|o|[|]|o]; cbn.
      1,2,4,5: repeat split; cbn; rewrite ?D, ?Rn; try congruence; discriminate.
      destruct (Rc eq_refl) as (b & Rb & Lb & Hr).
      destruct (waiter w); repeat split; cbn; rewrite ?D, ?Rb, ?upd_length, ?map_app; try congruence.
      * assert (Hr' : (p < length (pb w))%nat) by lia.
        destruct (concat_omsg_upd (pb w) p (Some (last_msg d')) Hr') as (x & y & E1 & E2). rewrite Eb in E1. cbn in E1, E2.
        rewrite E2, Lb. rewrite E1 in H2. cbn.
        etransitivity; [apply Permutation_app_tail; exact H2|].
        rewrite <- !app_assoc. apply Permutation_app_head. apply Permutation_app_head.
        cbn. symmetry. apply Permutation_cons_append.
      * rewrite Lb. cbn. etransitivity; [apply Permutation_app_tail; exact H2|].
        rewrite <- !app_assoc. apply Permutation_app_head. apply Permutation_app_comm.
Qed.

Lemma wexec_oi w sched : OI w -> OI (wexec w sched).
Proof. revert w; induction sched as [|t r IH]; intros w H; [exact H|]. apply IH, wstep_oi, H. Qed.

Lemma concat_omsg_none l : forallb pb_none l = true -> concat (map omsg l) = [].
Proof. induction l as [|[m|] l IH]; cbn; auto; discriminate. Qed.

(* C12_waiter_prompt_partial *)
Lemma prompt_partial gt n ps sched : (0 < n)%nat -> let w := wrun true gt n ps sched in
  claims (d w) < two64 ->
  g_lost w = false ->                              (* no Broadcast fell between a failed TryNext and the Wait *)
  g_overcap (d w) = false ->                       (* fewer than n positions outstanding at every fetch-add *)
  forallb quiescent (prods (d w)) = true -> forallb pb_none (pb w) = true ->   (* no Write in progress *)
  cons w = CParked false ->                        (* the consumer sleeps in Cond.Wait *)
  Permutation (wdelivered w) (wreturned w) /\ alerts (d w) = [] /\ ri (d w) = claims (d w).
Proof.
  intros Hn w Hc Hl Ho Hq Hpb Hcons.
  pose proof (parked_means_drained gt n ps sched Hl Hcons Hpb) as Hdr. fold w in Hdr.
  destruct (wrun_ring true gt n ps sched) as (s' & E). fold w in E.
  rewrite E in *. destruct (quiet_all_delivered n ps s' Hn Hc Ho Hq Hdr) as (Hri & Hal & Hperm).
  destruct (wexec_oi (winit true gt n ps) sched (winit_oi _ _ _ _)) as (O1 & O2 & _).
  fold (wrun true gt n ps sched) in O1, O2. fold w in O1, O2. rewrite E in O1, O2.
  rewrite Hcons in O1. cbn in O1. rewrite app_nil_r in O1.
  rewrite (concat_omsg_none _ Hpb), app_nil_r in O2.
  repeat split; auto.
  rewrite <- O1. etransitivity; [|exact O2]. apply Permutation_map. exact Hperm.
Qed.

(* packaged statements for Properties/C12.v *)
Lemma close_returns wt gt n ps sched : let w := wrun wt gt n ps sched in
  (waiter w = true ->
     match cons w, cg w with CParked false, GDone => False | CParked false, GUnlock => False | _, _ => True end) /\
  (cancelled w = true -> is_cdone (cons w) = false -> enabled w TCons || enabled w TCancel = true) /\
  (cons w = CDone -> closer w = KAwait -> enabled w TCloser = true).
Proof.
  intros w. pose proof (wrun_inv wt gt n ps sched) as I. fold w in I.
  split; [|split].
  - exact (no_stuck_close_b w I).
  - exact (close_progress_b w I).
  - exact (closer_enabled_when_done w).
Qed.

Lemma poller_not_stuck gt n ps sched : let w := wrun false gt n ps sched in
  is_cdone (cons w) = false -> enabled w TCons = true.
Proof.
  intros w. apply poller_not_stuck_b; [apply wrun_inv|].
  unfold w, wrun. rewrite waiter_wexec. reflexivity.
Qed.

(* ------------------------------------------------------------------ *)
(* C11 at the writer level: Close drains (repaired Next: one more       *)
(* TryNext once the context is done)                                    *)
(* ------------------------------------------------------------------ *)
Definition exiting (c : cpc) : bool := match c with CUnlockNil | CDone => true | _ => false end.
Definition is_trylast (c : cpc) : bool := match c with CTryLast => true | _ => false end.
Definition is_kdone (k : kpc) : bool := match k with KDone => true | _ => false end.

Record CInv (w : wst) : Prop := {
  c_written : cancelled w = true -> all_written w = true;
  c_last : is_trylast (cons w) = true -> cancelled w = true;
  c_exit : exiting (cons w) = true -> drained (d w) = true /\ cancelled w = true;
  c_closed : is_kdone (closer w) = true -> cons w = CDone }.

Lemma all_written_no_step w p : all_written w = true -> prod_step w p = None.
Proof.
  unfold all_written, prod_step, producers_done. intros H. apply andb_true_iff in H as [H1 H2].
  assert (E1 : nth p (pb w) None = None).
  { destruct (nth_in_or_default p (pb w) None) as [Hin|E]; auto.
    eapply forallb_forall in H2; eauto. destruct (nth p (pb w) None); cbn in *; auto; discriminate. }
  rewrite E1. unfold pstep.
  assert (E2 : nth p (prods (d w)) (PIdle []) = PIdle []).
  { destruct (nth_in_or_default p (prods (d w)) (PIdle [])) as [Hin|E]; auto.
    eapply forallb_forall in H1; eauto. destruct (nth p (prods (d w)) (PIdle [])) as [[|]| |]; cbn in *; auto; discriminate. }
  rewrite E2. reflexivity.
Qed.

Lemma cstep_prods s : prods (snd (fst (cstep s))) = prods s.
Proof. unfold cstep. destruct (nth _ (slots s) None) as [[sq m]|]; [destruct (sq <? ri s)|]; reflexivity. Qed.

Lemma winit_cinv wt n ps : CInv (winit wt true n ps).
Proof. constructor; cbn; try discriminate; destruct wt; cbn; discriminate. Qed.

Lemma gated_exec1 w t : gated (wexec1 w t) = gated w.
Proof.
  unfold wexec1, wstep, cons_step, cancel_step, closer_step, prod_step. unfold wake. destruct t; wcrush.
Qed.

Ltac cfield J1 J2 J3 J4 :=
  cbn; intros;
  try discriminate; try congruence;
  try (match goal with H : is_kdone _ = true |- _ => apply J4 in H; congruence end);
  try (match goal with H : exiting _ = true |- _ => destruct (J3 H); split; auto; congruence end);
  try (match goal with H : is_trylast _ = true |- _ => apply J2 in H; congruence end);
  try (destruct (waiter _); cbn in *; discriminate);
  try (unfold all_written, producers_done in *; cbn in *;
       repeat match goal with H : prods _ = prods _ |- _ => rewrite H end; auto; fail);
  try (split; auto; fail);
  auto.

Lemma wstep_cinv w t : gated w = true -> CInv w -> CInv (wexec1 w t).
Proof.
  intros Hg I0. pose proof I0 as [J1 J2 J3 J4]. unfold wexec1, wstep. destruct t as [| | |p].
  - (* consumer: never touches producers or pb *)
    unfold cons_step. destruct (cons w) as [| | | |sig| |b| |b| |] eqn:Ec.
    + destruct (mu w); [exact I0|]. constructor; cfield J1 J2 J3 J4.
    + destruct (cstep (d w)) as [[l d'] got] eqn:Ecs. pose proof (cstep_prods (d w)) as Hp. rewrite Ecs in Hp. cbn in Hp.
      destruct got as [b|]; constructor; cfield J1 J2 J3 J4.
    + destruct (cancelled w) eqn:Eca; constructor; cfield J1 J2 J3 J4.
    + constructor; cfield J1 J2 J3 J4.
    + destruct (sig && negb (mu w)); [|exact I0]. constructor; cfield J1 J2 J3 J4.
    + constructor; cfield J1 J2 J3 J4.
    + constructor; cfield J1 J2 J3 J4.
    + destruct (J3 eq_refl) as [Hd Hca]. constructor; cfield J1 J2 J3 J4.
    + constructor; cfield J1 J2 J3 J4.
    + exact I0.
    + destruct (cstep (d w)) as [[l d'] got] eqn:Ecs. pose proof (cstep_prods (d w)) as Hp. rewrite Ecs in Hp. cbn in Hp.
      pose proof (J2 eq_refl) as Hca.
      destruct got as [b|]; [constructor; cfield J1 J2 J3 J4|].
      apply cstep_fail_drained in Ecs.
      destruct (waiter w); constructor; cfield J1 J2 J3 J4.
  - (* cancel goroutine *)
    unfold cancel_step. destruct (cg w).
    + destruct (cancelled w) eqn:E; [|exact I0]. constructor; cfield J1 J2 J3 J4.
    + destruct (mu w); [exact I0|]. constructor; cfield J1 J2 J3 J4.
    + unfold wake. destruct (cons w) as [| | | |[|]| | | | | |] eqn:Ec; constructor; cfield J1 J2 J3 J4.
    + constructor; cfield J1 J2 J3 J4.
    + exact I0.
  - (* closer: cancels only when everything is written *)
    unfold closer_step. destruct (closer w) eqn:Ek.
    + rewrite Hg. cbn. destruct (all_written w) eqn:Ea; cbn; [|exact I0].
      constructor; cfield J1 J2 J3 J4.
    + destruct (cons w) eqn:Ec; try exact I0. constructor; cfield J1 J2 J3 J4.
    + exact I0.
  - (* producers: no step once cancelled (everything is written) *)
    destruct (cancelled w) eqn:Eca.
    + rewrite (all_written_no_step w p (J1 eq_refl)). exact I0.
    + assert (Hx : exiting (cons w) = true -> False) by (intros H; destruct (J3 H); congruence).
      assert (Hy : is_trylast (cons w) = true -> False) by (intros H; apply J2 in H; congruence).
      unfold prod_step. destruct (nth p (pb w) None) as [m|].
      * unfold wake. destruct (cons w) as [| | | |[|]| | | | | |] eqn:Ec; constructor; cbn; rewrite ?Eca; intros; try discriminate;
          try (exfalso; auto; fail); try (match goal with H : is_kdone _ = true |- _ => apply J4 in H; congruence end).
      * destruct (pstep (d w) p) as [[l d']|]; [|exact I0].
        destruct l as [wi|o|[|]|o]; cbn; try (destruct (waiter w)); constructor; cbn; rewrite ?Eca; intros; try discriminate;
          try (exfalso; auto; fail); try (match goal with H : is_kdone _ = true |- _ => apply J4 in H; congruence end).
Qed.

Lemma wexec_cinv w sched : gated w = true -> CInv w -> CInv (wexec w sched).
Proof.
  revert w; induction sched as [|t r IH]; intros w Hg H; [exact H|].
  change (wexec w (t :: r)) with (wexec (wexec1 w t) r). apply IH; [rewrite gated_exec1; auto|apply wstep_cinv; auto].
Qed.

(* Close drains the ring: when Close (called after the last Write returned) has returned, the
   consumer's final TryNext - performed after the cancellation - found nothing deliverable *)
Lemma close_drains wt n ps sched : let w := wrun wt true n ps sched in
  closer w = KDone -> drained (d w) = true /\ all_written w = true /\ cons w = CDone.
Proof.
  intros w Hk. pose proof (wexec_cinv (winit wt true n ps) sched eq_refl (winit_cinv _ _ _)) as [J1 _ J3 J4].
  fold (wrun wt true n ps sched) in *. fold w in J1, J3, J4.
  assert (Hc : cons w = CDone) by (apply J4; rewrite Hk; reflexivity).
  destruct (J3 ltac:(rewrite Hc; reflexivity)) as [Hd Hca]. auto.
Qed.

(* ... hence, whenever the ring-level drain theorem applies (no retried position, no overwrite of a
   larger seq: everything except K2/K3), delivered + reported = written at the Writer *)
Lemma close_accounting wt n ps sched : (0 < n)%nat -> let w := wrun wt true n ps sched in
  closer w = KDone -> claims (d w) < two64 ->
  g_casfail (d w) = 0 -> g_newer (d w) = 0 -> g_ovl (d w) = 0 ->
  N.of_nat (length (wdelivered w)) + sumN (alerts (d w)) = N.of_nat (length (wreturned w)).
Proof.
  intros Hn w Hk Hc Z1 Z2 Z3.
  destruct (close_drains wt n ps sched Hk) as (Hd & Ha & Hcons). fold w in Hd, Ha, Hcons.
  destruct (wexec_oi (winit wt true n ps) sched (winit_oi _ _ _ _)) as (O1 & O2 & _).
  fold (wrun wt true n ps sched) in O1, O2. fold w in O1, O2.
  destruct (wrun_ring wt true n ps sched) as (s' & E). fold w in E.
  unfold all_written in Ha. apply andb_true_iff in Ha as [Hp Hb].
  rewrite E in *.
  destruct (drain_partial n ps s' Hn Hc Z1 Z2 Z3 Hp Hd) as [Hacc _].
  rewrite Hcons in O1. cbn in O1. rewrite app_nil_r in O1.
  rewrite (concat_omsg_none _ Hb), app_nil_r in O2.
  apply Permutation_length in O2. rewrite map_length in O2.
  apply (f_equal (@length N)) in O1. rewrite map_length in O1. unfold bucket in *. rewrite O1, O2 in Hacc. exact Hacc.
Qed.
