(* Proofs about Base/CborSpec.v: big-endian round trips, soundness and
   completeness of the reference parser w.r.t. the relation [Cbor]. *)
From Verif Require Import Base.Prelude Base.CborSpec.
Open Scope N_scope.

(* ------------------------------------------------------------------ *)
(* big-endian bytes                                                    *)
(* ------------------------------------------------------------------ *)
Definition P8 (k : nat) : N := 2 ^ (8 * N.of_nat k).

Lemma P8_S k : P8 (S k) = 256 * P8 k.
Proof.
  unfold P8. replace (8 * N.of_nat (S k)) with (8 + 8 * N.of_nat k) by lia.
  rewrite N.pow_add_r. reflexivity.
Qed.

Lemma P8_pos k : 0 < P8 k.
Proof. unfold P8. apply N.neq_0_lt_0. apply N.pow_nonzero. lia. Qed.

Lemma fold_be l : forall acc,
  fold_left (fun a b => a * 256 + b) l acc = acc * P8 (length l) + be_value l.
Proof.
  induction l as [|x l IH]; intros acc; cbn [fold_left length].
  - unfold P8, be_value. cbn. lia.
  - rewrite IH.
    assert (E : be_value (x :: l) = fold_left (fun a b => a * 256 + b) l (0 * 256 + x)) by reflexivity.
    rewrite E, (IH (0 * 256 + x)), P8_S. ring.
Qed.

Lemma be_value_cons x l : be_value (x :: l) = x * P8 (length l) + be_value l.
Proof. unfold be_value at 1. cbn [fold_left]. rewrite fold_be. ring. Qed.

Lemma be_value_nil : be_value [] = 0.
Proof. reflexivity. Qed.

Lemma be_bytes_length k n : length (be_bytes k n) = k.
Proof. induction k; cbn [be_bytes length]; auto. Qed.

Lemma be_bytes_ok k n : bytes_ok (be_bytes k n).
Proof.
  induction k; cbn [be_bytes]; constructor; auto.
  unfold byte_ok. apply N.mod_upper_bound. lia.
Qed.

Lemma be_value_lt l : bytes_ok l -> be_value l < P8 (length l).
Proof.
  induction 1 as [|x l Hx Hl IH]; [cbv; reflexivity|].
  rewrite be_value_cons. cbn [length]. rewrite P8_S. unfold byte_ok in Hx.
  pose proof (P8_pos (length l)). nia.
Qed.

Lemma be_value_be_bytes_mod k n : be_value (be_bytes k n) = n mod P8 k.
Proof.
  induction k as [|k IH]; cbn [be_bytes].
  - unfold P8. cbn. rewrite N.mod_1_r. reflexivity.
  - rewrite be_value_cons, be_bytes_length, IH. rewrite P8_S.
    fold (P8 k). replace (256 * P8 k) with (P8 k * 256) by ring.
    pose proof (P8_pos k).
    rewrite (N.mod_mul_r n (P8 k) 256) by lia. ring.
Qed.

Lemma be_value_be_bytes k n : n < P8 k -> be_value (be_bytes k n) = n.
Proof. intros H. rewrite be_value_be_bytes_mod. apply N.mod_small; auto. Qed.

Lemma be_bytes_be_value_gen l : bytes_ok l -> forall hi,
  be_bytes (length l) (hi * P8 (length l) + be_value l) = l.
Proof.
  induction 1 as [|x l Hx Hl IH]; intros hi; [reflexivity|].
  cbn [length be_bytes]. fold (P8 (length l)).
  rewrite be_value_cons, P8_S.
  pose proof (P8_pos (length l)) as Hp. pose proof (be_value_lt l Hl) as Hv.
  replace (hi * (256 * P8 (length l)) + (x * P8 (length l) + be_value l))
    with ((hi * 256 + x) * P8 (length l) + be_value l) by ring.
  f_equal.
  - rewrite N.div_add_l by lia. rewrite (N.div_small (be_value l)) by auto.
    rewrite N.add_0_r. unfold byte_ok in Hx.
    rewrite N.add_comm, N.mod_add by lia. apply N.mod_small; auto.
  - apply IH.
Qed.

Lemma be_bytes_be_value l : bytes_ok l -> be_bytes (length l) (be_value l) = l.
Proof. intros H. pose proof (be_bytes_be_value_gen l H 0) as E. rewrite N.mul_0_l, N.add_0_l in E. exact E. Qed.

Lemma P8_1 : P8 1 = 2 ^ 8. Proof. reflexivity. Qed.
Lemma P8_2 : P8 2 = 2 ^ 16. Proof. reflexivity. Qed.
Lemma P8_4 : P8 4 = 2 ^ 32. Proof. reflexivity. Qed.
Lemma P8_8 : P8 8 = 2 ^ 64. Proof. reflexivity. Qed.

(* ------------------------------------------------------------------ *)
(* small list facts                                                    *)
(* ------------------------------------------------------------------ *)
Lemma all_bytes_ok l : all_bytes l = true <-> bytes_ok l.
Proof.
  unfold all_bytes, bytes_ok. rewrite forallb_forall, Forall_forall. unfold byte_ok.
  split; intros H x Hx; specialize (H x Hx); lia.
Qed.

Lemma take_bytes_some n bs s r : take_bytes n bs = Some (s, r) ->
  bs = s ++ r /\ N.of_nat (length s) = n /\ bytes_ok s.
Proof.
  unfold take_bytes. destruct (N.of_nat (length bs) <? n) eqn:E; [discriminate|].
  destruct (all_bytes (firstn (N.to_nat n) bs)) eqn:A; [|discriminate].
  intros H. inversion H; subst. split; [symmetry; apply firstn_skipn|]. split.
  - rewrite firstn_length. lia.
  - apply all_bytes_ok; auto.
Qed.

Lemma take_bytes_app s r : bytes_ok s -> take_bytes (N.of_nat (length s)) (s ++ r) = Some (s, r).
Proof.
  intros H. unfold take_bytes. rewrite app_length.
  replace (N.of_nat (length s + length r) <? N.of_nat (length s)) with false by lia.
  rewrite Nat2N.id. rewrite firstn_app, Nat.sub_diag, firstn_all, firstn_O, app_nil_r.
  rewrite (proj2 (all_bytes_ok s) H).
  rewrite skipn_app, Nat.sub_diag, skipn_all. reflexivity.
Qed.

(* ------------------------------------------------------------------ *)
(* heads                                                               *)
(* ------------------------------------------------------------------ *)
(* the head relation with the additional information made explicit *)
Inductive HeadA : N -> N -> N -> list N -> Prop :=
| HA_imm m n : m < 8 -> n < 24 -> HeadA m n n [m * 32 + n]
| HA_1 m n : m < 8 -> n < 2 ^ 8 -> HeadA m 24 n ((m * 32 + 24) :: be_bytes 1 n)
| HA_2 m n : m < 8 -> n < 2 ^ 16 -> HeadA m 25 n ((m * 32 + 25) :: be_bytes 2 n)
| HA_4 m n : m < 8 -> n < 2 ^ 32 -> HeadA m 26 n ((m * 32 + 26) :: be_bytes 4 n)
| HA_8 m n : m < 8 -> n < 2 ^ 64 -> HeadA m 27 n ((m * 32 + 27) :: be_bytes 8 n).

Lemma HeadA_Head m ai n h : HeadA m ai n h -> Head m n h.
Proof. destruct 1; constructor; auto. Qed.

Lemma Head_HeadA m n h : Head m n h -> exists ai, HeadA m ai n h.
Proof. destruct 1; eexists; constructor; eauto. Qed.

Lemma HeadA_ai m ai n h : HeadA m ai n h -> ai < 28 /\ m < 8.
Proof. destruct 1; lia. Qed.

Lemma wide_sound k r a r' : take_bytes (N.of_nat k) r = Some (a, r') ->
  r = a ++ r' /\ a = be_bytes k (be_value a) /\ be_value a < P8 k.
Proof.
  intros H. apply take_bytes_some in H as (E & L & B).
  apply Nat2N.inj in L. subst k. split; auto. split.
  - symmetry. apply be_bytes_be_value; auto.
  - apply be_value_lt; auto.
Qed.

Lemma parse_head_sound bs m ai a r : parse_head bs = Some (m, ai, a, r) ->
  match a with
  | AVal n => exists h, bs = h ++ r /\ HeadA m ai n h
  | AIndef => m < 8 /\ ai = 31 /\ bs = (m * 32 + 31) :: r
  end.
Proof.
  unfold parse_head. destruct bs as [|b t]; [discriminate|].
  destruct (256 <=? b) eqn:Eb; [discriminate|].
  assert (Hm : b / 32 < 8) by (apply N.div_lt_upper_bound; lia).
  assert (Hb : b = b / 32 * 32 + b mod 32) by (rewrite N.mul_comm; apply N.div_mod'; lia).
  set (m0 := b / 32) in *. set (a0 := b mod 32) in *. clearbody m0 a0. subst b.
  destruct (a0 <? 24) eqn:E0.
  { intros H; inversion H; subst. exists [m * 32 + ai]. split; [reflexivity|]. constructor; lia. }
  destruct (a0 =? 24) eqn:E1.
  { destruct (take_bytes 1 t) as [[x r']|] eqn:T; [|discriminate]. intros H; inversion H; subst.
    apply (wide_sound 1) in T as (E & A & L). exists ((m * 32 + ai) :: x). split; [cbn; congruence|].
    replace ai with 24 by lia. remember (be_value x) as n0 eqn:En0. rewrite A. constructor; auto. }
  destruct (a0 =? 25) eqn:E2.
  { destruct (take_bytes 2 t) as [[x r']|] eqn:T; [|discriminate]. intros H; inversion H; subst.
    apply (wide_sound 2) in T as (E & A & L). exists ((m * 32 + ai) :: x). split; [cbn; congruence|].
    replace ai with 25 by lia. remember (be_value x) as n0 eqn:En0. rewrite A. constructor; auto. }
  destruct (a0 =? 26) eqn:E3.
  { destruct (take_bytes 4 t) as [[x r']|] eqn:T; [|discriminate]. intros H; inversion H; subst.
    apply (wide_sound 4) in T as (E & A & L). exists ((m * 32 + ai) :: x). split; [cbn; congruence|].
    replace ai with 26 by lia. remember (be_value x) as n0 eqn:En0. rewrite A. constructor; auto. }
  destruct (a0 =? 27) eqn:E4.
  { destruct (take_bytes 8 t) as [[x r']|] eqn:T; [|discriminate]. intros H; inversion H; subst.
    apply (wide_sound 8) in T as (E & A & L). exists ((m * 32 + ai) :: x). split; [cbn; congruence|].
    replace ai with 27 by lia. remember (be_value x) as n0 eqn:En0. rewrite A. constructor; auto. }
  destruct (a0 =? 31) eqn:E5; [|discriminate].
  intros H; inversion H; subst. split; auto. split; [lia|]. f_equal. lia.
Qed.

Lemma head_byte_div m ai : m < 8 -> ai < 32 -> (m * 32 + ai) / 32 = m /\ (m * 32 + ai) mod 32 = ai /\ (256 <=? m * 32 + ai) = false.
Proof. intros. repeat split; try lia. Qed.

Lemma parse_head_complete m ai n h r : HeadA m ai n h ->
  parse_head (h ++ r) = Some (m, ai, AVal n, r).
Proof.
  intros H. destruct H as [m n Hm Hn|m n Hm Hn|m n Hm Hn|m n Hm Hn|m n Hm Hn]; cbn [app]; unfold parse_head.
  - destruct (head_byte_div m n Hm ltac:(lia)) as (D & M & B). rewrite B, D, M.
    replace (n <? 24) with true by lia. reflexivity.
  - destruct (head_byte_div m 24 Hm ltac:(lia)) as (D & M & B). rewrite B, D, M.
    change (24 <? 24) with false. change (24 =? 24) with true. cbv iota.
    pose proof (take_bytes_app (be_bytes 1 n) r (be_bytes_ok _ _)) as T. rewrite be_bytes_length in T.
    change (N.of_nat 1) with 1 in T. rewrite T. rewrite be_value_be_bytes by (rewrite P8_1; auto). reflexivity.
  - destruct (head_byte_div m 25 Hm ltac:(lia)) as (D & M & B). rewrite B, D, M.
    change (25 <? 24) with false. change (25 =? 24) with false. change (25 =? 25) with true. cbv iota.
    pose proof (take_bytes_app (be_bytes 2 n) r (be_bytes_ok _ _)) as T. rewrite be_bytes_length in T.
    change (N.of_nat 2) with 2 in T. rewrite T. rewrite be_value_be_bytes by (rewrite P8_2; auto). reflexivity.
  - destruct (head_byte_div m 26 Hm ltac:(lia)) as (D & M & B). rewrite B, D, M.
    change (26 <? 24) with false. change (26 =? 24) with false. change (26 =? 25) with false.
    change (26 =? 26) with true. cbv iota.
    pose proof (take_bytes_app (be_bytes 4 n) r (be_bytes_ok _ _)) as T. rewrite be_bytes_length in T.
    change (N.of_nat 4) with 4 in T. rewrite T. rewrite be_value_be_bytes by (rewrite P8_4; auto). reflexivity.
  - destruct (head_byte_div m 27 Hm ltac:(lia)) as (D & M & B). rewrite B, D, M.
    change (27 <? 24) with false. change (27 =? 24) with false. change (27 =? 25) with false.
    change (27 =? 26) with false. change (27 =? 27) with true. cbv iota.
    pose proof (take_bytes_app (be_bytes 8 n) r (be_bytes_ok _ _)) as T. rewrite be_bytes_length in T.
    change (N.of_nat 8) with 8 in T. rewrite T. rewrite be_value_be_bytes by (rewrite P8_8; auto). reflexivity.
Qed.

Lemma HeadA_length m ai n h : HeadA m ai n h -> (1 <= length h)%nat.
Proof. destruct 1; cbn [length]; lia. Qed.

Lemma HeadA_first m ai n h : HeadA m ai n h -> exists t, h = (m * 32 + ai) :: t.
Proof. destruct 1; eexists; reflexivity. Qed.

(* ------------------------------------------------------------------ *)
(* soundness                                                           *)
(* ------------------------------------------------------------------ *)
Lemma is_break_some bs r : is_break bs = Some r -> bs = 255 :: r.
Proof.
  unfold is_break. destruct bs as [|b t]; [discriminate|]. destruct (b =? 255) eqn:E; [|discriminate].
  intros H; inversion H; subst. f_equal. lia.
Qed.

Lemma parse_chunks_sound f : forall m bs cs r, parse_chunks f m bs = Some (cs, r) ->
  exists b, bs = b ++ 255 :: r /\ Chunks m b cs.
Proof.
  induction f as [|f IH]; intros m bs cs r H; [discriminate|]. cbn [parse_chunks] in H.
  destruct (is_break bs) as [r0|] eqn:B.
  { inversion H; subst. apply is_break_some in B. exists []. split; [exact B|constructor]. }
  destruct (parse_head bs) as [[[[m' ai] [n|]] r1]|] eqn:PH; try discriminate.
  destruct (m' =? m) eqn:Em; [|discriminate]. apply N.eqb_eq in Em; subst m'.
  destruct (take_bytes n r1) as [[s r2]|] eqn:T; [|discriminate].
  destruct (parse_chunks f m r2) as [[cs' r3]|] eqn:R; [|discriminate].
  inversion H; subst.
  apply parse_head_sound in PH as (h & E1 & HA).
  apply take_bytes_some in T as (E2 & L & Bs).
  apply IH in R as (b & E3 & C).
  exists (h ++ s ++ b). split.
  - subst. rewrite <- !app_assoc. reflexivity.
  - constructor; auto. rewrite L. eapply HeadA_Head; eauto.
Qed.

Definition sound_item f := forall bs i r, parse_item f bs = Some (i, r) -> exists b, bs = b ++ r /\ Cbor b i.
Definition sound_seq_n f := forall n bs l r, parse_seq_n f n bs = Some (l, r) ->
  exists b, bs = b ++ r /\ CborSeq b l /\ N.of_nat (length l) = n.
Definition sound_seq_brk f := forall bs l r, parse_seq_brk f bs = Some (l, r) ->
  exists b, bs = b ++ 255 :: r /\ CborSeq b l.
Definition sound_pairs_n f := forall n bs l r, parse_pairs_n f n bs = Some (l, r) ->
  exists b, bs = b ++ r /\ CborPairs b l /\ N.of_nat (length l) = n.
Definition sound_pairs_brk f := forall bs l r, parse_pairs_brk f bs = Some (l, r) ->
  exists b, bs = b ++ 255 :: r /\ CborPairs b l.

Ltac inv H := inversion H; subst; clear H.

Lemma parse_sound f : sound_item f /\ sound_seq_n f /\ sound_seq_brk f /\ sound_pairs_n f /\ sound_pairs_brk f.
Proof.
  induction f as [|f (IHi & IHsn & IHsb & IHpn & IHpb)].
  { repeat split; intros ? **; discriminate. }
  repeat split.
  - (* item *)
    intros bs i r H. cbn [parse_item] in H.
    destruct (parse_head bs) as [[[[m ai] a] r1]|] eqn:PH; [|discriminate].
    apply parse_head_sound in PH.
    destruct (m =? 0) eqn:M0.
    { apply N.eqb_eq in M0; subst. destruct a as [n|]; [|discriminate]. inv H.
      destruct PH as (h & E & HA). exists h. split; auto. constructor. eapply HeadA_Head; eauto. }
    destruct (m =? 1) eqn:M1.
    { apply N.eqb_eq in M1; subst. destruct a as [n|]; [|discriminate]. inv H.
      destruct PH as (h & E & HA). exists h. split; auto. constructor. eapply HeadA_Head; eauto. }
    destruct (m =? 2) eqn:M2.
    { apply N.eqb_eq in M2; subst. destruct a as [n|].
      - destruct (take_bytes n r1) as [[s r2]|] eqn:T; [|discriminate]. inv H.
        destruct PH as (h & E & HA). apply take_bytes_some in T as (E2 & L & Bs).
        exists (h ++ s). split; [subst; rewrite <- app_assoc; reflexivity|].
        constructor; auto. rewrite L. eapply HeadA_Head; eauto.
      - destruct (parse_chunks f 2 r1) as [[cs r2]|] eqn:T; [|discriminate]. inv H.
        destruct PH as (_ & _ & E). apply parse_chunks_sound in T as (b & E2 & C).
        exists (95 :: b ++ [255]). split; [subst; cbn; rewrite <- app_assoc; reflexivity|]. constructor; auto. }
    destruct (m =? 3) eqn:M3.
    { apply N.eqb_eq in M3; subst. destruct a as [n|].
      - destruct (take_bytes n r1) as [[s r2]|] eqn:T; [|discriminate]. inv H.
        destruct PH as (h & E & HA). apply take_bytes_some in T as (E2 & L & Bs).
        exists (h ++ s). split; [subst; rewrite <- app_assoc; reflexivity|].
        constructor; auto. rewrite L. eapply HeadA_Head; eauto.
      - destruct (parse_chunks f 3 r1) as [[cs r2]|] eqn:T; [|discriminate]. inv H.
        destruct PH as (_ & _ & E). apply parse_chunks_sound in T as (b & E2 & C).
        exists (127 :: b ++ [255]). split; [subst; cbn; rewrite <- app_assoc; reflexivity|]. constructor; auto. }
    destruct (m =? 4) eqn:M4.
    { apply N.eqb_eq in M4; subst. destruct a as [n|].
      - destruct (parse_seq_n f n r1) as [[l r2]|] eqn:T; [|discriminate]. inv H.
        destruct PH as (h & E & HA). apply IHsn in T as (b & E2 & S & L).
        exists (h ++ b). split; [subst; rewrite <- app_assoc; reflexivity|].
        constructor; auto. rewrite L. eapply HeadA_Head; eauto.
      - destruct (parse_seq_brk f r1) as [[l r2]|] eqn:T; [|discriminate]. inv H.
        destruct PH as (_ & _ & E). apply IHsb in T as (b & E2 & S).
        exists (159 :: b ++ [255]). split; [subst; cbn; rewrite <- app_assoc; reflexivity|]. constructor; auto. }
    destruct (m =? 5) eqn:M5.
    { apply N.eqb_eq in M5; subst. destruct a as [n|].
      - destruct (parse_pairs_n f n r1) as [[l r2]|] eqn:T; [|discriminate]. inv H.
        destruct PH as (h & E & HA). apply IHpn in T as (b & E2 & S & L).
        exists (h ++ b). split; [subst; rewrite <- app_assoc; reflexivity|].
        constructor; auto. rewrite L. eapply HeadA_Head; eauto.
      - destruct (parse_pairs_brk f r1) as [[l r2]|] eqn:T; [|discriminate]. inv H.
        destruct PH as (_ & _ & E). apply IHpb in T as (b & E2 & S).
        exists (191 :: b ++ [255]). split; [subst; cbn; rewrite <- app_assoc; reflexivity|]. constructor; auto. }
    destruct (m =? 6) eqn:M6.
    { apply N.eqb_eq in M6; subst. destruct a as [t|]; [|discriminate].
      destruct (parse_item f r1) as [[i1 r2]|] eqn:T; [|discriminate]. inv H.
      destruct PH as (h & E & HA). apply IHi in T as (b & E2 & C).
      exists (h ++ b). split; [subst; rewrite <- app_assoc; reflexivity|].
      econstructor; eauto. eapply HeadA_Head; eauto. }
    destruct a as [n|]; [|discriminate].
    destruct PH as (h & E & HA). pose proof (HeadA_ai _ _ _ _ HA) as (Hai & Hm).
    assert (m = 7) by lia. subst m.
    inversion HA; subst; cbn in H.
    + replace (n <? 24) with true in H by lia. inv H. eexists; split; [reflexivity|].
      change (7 * 32 + n) with (224 + n). constructor; auto.
    + destruct (n <? 32) eqn:E32; [discriminate|]. inv H. eexists; split; [reflexivity|].
      assert (Hn : be_bytes 1 n = [n]).
      { cbn. rewrite N.div_1_r. rewrite N.mod_small by (change (2^8) with 256 in *; lia). reflexivity. }
      rewrite Hn. change (7 * 32 + 24) with 248. constructor; change (2^8) with 256 in *; lia.
    + inv H. eexists; split; [reflexivity|]. constructor; auto.
    + inv H. eexists; split; [reflexivity|]. constructor; auto.
    + inv H. eexists; split; [reflexivity|]. constructor; auto.
  - (* seq_n *)
    intros n bs l r H. cbn [parse_seq_n] in H.
    destruct (n =? 0) eqn:En.
    { inv H. exists []. split; auto. split; [constructor|]. cbn. lia. }
    destruct (parse_item f bs) as [[i r1]|] eqn:T; [|discriminate].
    destruct (parse_seq_n f (n - 1) r1) as [[l1 r2]|] eqn:T2; [|discriminate]. inv H.
    apply IHi in T as (b & E & C). apply IHsn in T2 as (b2 & E2 & S & L).
    exists (b ++ b2). split; [subst; rewrite <- app_assoc; reflexivity|].
    split; [constructor; auto|]. cbn [length]. lia.
  - (* seq_brk *)
    intros bs l r H. cbn [parse_seq_brk] in H.
    destruct (is_break bs) as [r0|] eqn:B.
    { inv H. apply is_break_some in B. exists []. split; auto. constructor. }
    destruct (parse_item f bs) as [[i r1]|] eqn:T; [|discriminate].
    destruct (parse_seq_brk f r1) as [[l1 r2]|] eqn:T2; [|discriminate]. inv H.
    apply IHi in T as (b & E & C). apply IHsb in T2 as (b2 & E2 & S).
    exists (b ++ b2). split; [subst; rewrite <- app_assoc; reflexivity|]. constructor; auto.
  - (* pairs_n *)
    intros n bs l r H. cbn [parse_pairs_n] in H.
    destruct (n =? 0) eqn:En.
    { inv H. exists []. split; auto. split; [constructor|]. cbn. lia. }
    destruct (parse_item f bs) as [[k r1]|] eqn:T; [|discriminate].
    destruct (parse_item f r1) as [[v r2]|] eqn:Tv; [|discriminate].
    destruct (parse_pairs_n f (n - 1) r2) as [[l1 r3]|] eqn:T2; [|discriminate]. inv H.
    apply IHi in T as (b & E & C). apply IHi in Tv as (bv & Ev & Cv). apply IHpn in T2 as (b2 & E2 & S & L).
    exists (b ++ bv ++ b2). split; [subst; rewrite <- !app_assoc; reflexivity|].
    split; [constructor; auto|]. cbn [length]. lia.
  - (* pairs_brk *)
    intros bs l r H. cbn [parse_pairs_brk] in H.
    destruct (is_break bs) as [r0|] eqn:B.
    { inv H. apply is_break_some in B. exists []. split; auto. constructor. }
    destruct (parse_item f bs) as [[k r1]|] eqn:T; [|discriminate].
    destruct (parse_item f r1) as [[v r2]|] eqn:Tv; [|discriminate].
    destruct (parse_pairs_brk f r2) as [[l1 r3]|] eqn:T2; [|discriminate]. inv H.
    apply IHi in T as (b & E & C). apply IHi in Tv as (bv & Ev & Cv). apply IHpb in T2 as (b2 & E2 & S).
    exists (b ++ bv ++ b2). split; [subst; rewrite <- !app_assoc; reflexivity|]. constructor; auto.
Qed.

Theorem parse_item_sound f bs i r : parse_item f bs = Some (i, r) -> exists b, bs = b ++ r /\ Cbor b i.
Proof. apply parse_sound. Qed.

Theorem parse_cbor_sound bs i : parse_cbor bs = Some i -> Cbor bs i.
Proof.
  unfold parse_cbor. destruct (parse_item _ bs) as [[i' [|x r]]|] eqn:E; try discriminate.
  intros H; inv H. apply parse_item_sound in E as (b & Eb & C). rewrite app_nil_r in Eb. subst. auto.
Qed.

Fixpoint CborStream (bs : list N) (l : list item) (parts : list (list N)) : Prop :=
  match l, parts with
  | [], [] => bs = []
  | i :: l', p :: ps => Cbor p i /\ exists r, bs = p ++ r /\ CborStream r l' ps
  | _, _ => False
  end.

Theorem parse_stream_sound f : forall bs l, parse_stream f bs = Some l ->
  exists parts, bs = concat parts /\ Forall2 Cbor parts l.
Proof.
  induction f as [|f IH]; intros bs l H; [discriminate|]. cbn [parse_stream] in H.
  destruct bs as [|x t]; [inv H; exists []; split; auto|].
  destruct (parse_item _ (x :: t)) as [[i r]|] eqn:E; [|discriminate].
  destruct (parse_stream f r) as [l'|] eqn:R; [|discriminate]. inv H.
  apply parse_item_sound in E as (b & Eb & C). apply IH in R as (ps & Er & F).
  exists (b :: ps). split; [cbn; congruence|]. constructor; auto.
Qed.

(* ------------------------------------------------------------------ *)
(* completeness                                                        *)
(* ------------------------------------------------------------------ *)
Lemma Cbor_first b i : Cbor b i -> exists x t, b = x :: t /\ x < 252.
Proof.
  assert (HH : forall m ai n h, HeadA m ai n h -> exists x t, h = x :: t /\ x < 252).
  { intros m ai n h HA. destruct (HeadA_first _ _ _ _ HA) as (t & E). destruct (HeadA_ai _ _ _ _ HA).
    exists (m * 32 + ai), t. split; auto. lia. }
  destruct 1 as [n h H|n h H|h s H|? ?|h s H|? ?|h b l H|? ?|h b l H|? ?|t h b i H|v|v|bb|bb|bb];
    try (apply Head_HeadA in H as (ai & HA); destruct (HH _ _ _ _ HA) as (x & t' & E & L); subst h;
         cbn [app]; eexists _, _; split; [reflexivity|auto]);
    try (eexists _, _; split; [reflexivity|lia]).
Qed.

Lemma is_break_item b i r : Cbor b i -> is_break (b ++ r) = None.
Proof.
  intros C. destruct (Cbor_first _ _ C) as (x & t & E & L). subst. cbn.
  replace (x =? 255) with false by lia. reflexivity.
Qed.

Lemma is_break_head m ai n h r : HeadA m ai n h -> is_break (h ++ r) = None.
Proof.
  intros HA. destruct (HeadA_first _ _ _ _ HA) as (t & E). destruct (HeadA_ai _ _ _ _ HA). subst. cbn.
  replace (m * 32 + ai =? 255) with false by lia. reflexivity.
Qed.

Lemma Cbor_length b i : Cbor b i -> (1 <= length b)%nat.
Proof. intros C. destruct (Cbor_first _ _ C) as (x & t & E & _). subst. cbn. lia. Qed.

Lemma parse_chunks_complete m b cs : Chunks m b cs -> forall f r,
  (length b + 1 <= f)%nat -> parse_chunks f m (b ++ 255 :: r) = Some (cs, r).
Proof.
  induction 1 as [|h s b cs H Bs C IH]; intros f r Hf.
  - destruct f; [lia|]. reflexivity.
  - destruct f; [lia|]. cbn [parse_chunks].
    apply Head_HeadA in H as (ai & HA).
    rewrite <- !app_assoc. rewrite (is_break_head _ _ _ _ _ HA).
    rewrite (parse_head_complete _ _ _ _ _ HA). rewrite N.eqb_refl.
    rewrite take_bytes_app by auto.
    pose proof (HeadA_length _ _ _ _ HA). rewrite !app_length in Hf.
    rewrite IH by lia. reflexivity.
Qed.

Lemma Chunks_head_or_nil m b cs : Chunks m b cs -> True.
Proof. auto. Qed.

Definition complete_item (b : list N) (i : item) :=
  forall f r, (2 * length b <= f)%nat -> parse_item f (b ++ r) = Some (i, r).
Definition complete_seq (b : list N) (l : list item) :=
  (forall f r, (2 * length b + 1 <= f)%nat -> parse_seq_brk f (b ++ 255 :: r) = Some (l, r)) /\
  (forall f r, (2 * length b + 1 <= f)%nat -> parse_seq_n f (N.of_nat (length l)) (b ++ r) = Some (l, r)).
Definition complete_pairs (b : list N) (l : list (item * item)) :=
  (forall f r, (2 * length b + 1 <= f)%nat -> parse_pairs_brk f (b ++ 255 :: r) = Some (l, r)) /\
  (forall f r, (2 * length b + 1 <= f)%nat -> parse_pairs_n f (N.of_nat (length l)) (b ++ r) = Some (l, r)).

Ltac head_step HA :=
  rewrite <- ?app_assoc; rewrite (parse_head_complete _ _ _ _ _ HA).

Lemma parse_complete :
  (forall b i, Cbor b i -> complete_item b i) /\
  (forall b l, CborSeq b l -> complete_seq b l) /\
  (forall b l, CborPairs b l -> complete_pairs b l).
Proof.
  apply Cbor_mutind; unfold complete_item, complete_seq, complete_pairs.
  - (* uint *) intros n h H f r Hf. apply Head_HeadA in H as (ai & HA).
    pose proof (HeadA_length _ _ _ _ HA). destruct f; [lia|]. cbn [parse_item]. head_step HA. reflexivity.
  - (* neg *) intros n h H f r Hf. apply Head_HeadA in H as (ai & HA).
    pose proof (HeadA_length _ _ _ _ HA). destruct f; [lia|]. cbn [parse_item]. head_step HA. reflexivity.
  - (* bytes *) intros h s H Bs f r Hf. apply Head_HeadA in H as (ai & HA).
    pose proof (HeadA_length _ _ _ _ HA). rewrite app_length in Hf. destruct f; [lia|]. cbn [parse_item]. head_step HA.
    cbn [N.eqb]. rewrite take_bytes_app by auto. reflexivity.
  - (* bytesI *) intros b cs C f r Hf. cbn [length] in Hf. rewrite app_length in Hf. cbn [length] in Hf.
    destruct f; [lia|]. cbn [parse_item app]. unfold parse_head.
    change (256 <=? 95) with false. change (95 / 32) with 2. change (95 mod 32) with 31. cbn -[parse_chunks].
    rewrite <- app_assoc. cbn [app]. rewrite (parse_chunks_complete _ _ _ C) by lia. reflexivity.
  - (* text *) intros h s H Bs f r Hf. apply Head_HeadA in H as (ai & HA).
    pose proof (HeadA_length _ _ _ _ HA). rewrite app_length in Hf. destruct f; [lia|]. cbn [parse_item]. head_step HA.
    cbn [N.eqb]. rewrite take_bytes_app by auto. reflexivity.
  - (* textI *) intros b cs C f r Hf. cbn [length] in Hf. rewrite app_length in Hf. cbn [length] in Hf.
    destruct f; [lia|]. cbn [parse_item app]. unfold parse_head.
    change (256 <=? 127) with false. change (127 / 32) with 3. change (127 mod 32) with 31. cbn -[parse_chunks].
    rewrite <- app_assoc. cbn [app]. rewrite (parse_chunks_complete _ _ _ C) by lia. reflexivity.
  - (* arr *) intros h b l H Sq (IHb & IHn) f r Hf. apply Head_HeadA in H as (ai & HA).
    pose proof (HeadA_length _ _ _ _ HA). rewrite app_length in Hf. destruct f; [lia|]. cbn [parse_item]. head_step HA.
    cbn [N.eqb]. rewrite IHn by lia. reflexivity.
  - (* arrI *) intros b l Sq (IHb & IHn) f r Hf. cbn [length] in Hf. rewrite app_length in Hf. cbn [length] in Hf.
    destruct f; [lia|]. cbn [parse_item app]. unfold parse_head.
    change (256 <=? 159) with false. change (159 / 32) with 4. change (159 mod 32) with 31.
    cbn -[parse_seq_brk parse_seq_n].
    rewrite <- app_assoc. cbn [app]. rewrite IHb by lia. reflexivity.
  - (* map *) intros h b l H Sq (IHb & IHn) f r Hf. apply Head_HeadA in H as (ai & HA).
    pose proof (HeadA_length _ _ _ _ HA). rewrite app_length in Hf. destruct f; [lia|]. cbn [parse_item]. head_step HA.
    cbn [N.eqb]. rewrite IHn by lia. reflexivity.
  - (* mapI *) intros b l Sq (IHb & IHn) f r Hf. cbn [length] in Hf. rewrite app_length in Hf. cbn [length] in Hf.
    destruct f; [lia|]. cbn [parse_item app]. unfold parse_head.
    change (256 <=? 191) with false. change (191 / 32) with 5. change (191 mod 32) with 31.
    cbn -[parse_pairs_brk parse_pairs_n].
    rewrite <- app_assoc. cbn [app]. rewrite IHb by lia. reflexivity.
  - (* tag *) intros t h b i H C IH f r Hf. apply Head_HeadA in H as (ai & HA).
    pose proof (HeadA_length _ _ _ _ HA). rewrite app_length in Hf. destruct f; [lia|]. cbn [parse_item]. head_step HA.
    cbn [N.eqb]. rewrite IH by lia. reflexivity.
  - (* simple *) intros v Hv f r Hf. cbn [length] in Hf. destruct f; [lia|]. cbn [parse_item app].
    pose proof (parse_head_complete 7 v v [7 * 32 + v] r (HA_imm 7 v ltac:(lia) Hv)) as E.
    change (7 * 32 + v) with (224 + v) in E. cbn [app] in E. rewrite E. cbn [N.eqb].
    replace (v <? 24) with true by lia. reflexivity.
  - (* simple1 *) intros v Hv1 Hv2 f r Hf. cbn [length] in Hf. destruct f; [lia|]. cbn [parse_item app].
    pose proof (parse_head_complete 7 24 v _ r (HA_1 7 v ltac:(lia) Hv2)) as E.
    assert (Hn : be_bytes 1 v = [v]) by (cbn; rewrite N.div_1_r, N.mod_small by lia; reflexivity).
    rewrite Hn in E. change (7 * 32 + 24) with 248 in E. cbn [app] in E. rewrite E. cbn.
    replace (v <? 32) with false by lia. reflexivity.
  - (* f16 *) intros b Hb f r Hf. destruct f; [cbn in Hf; lia|]. cbn [parse_item].
    pose proof (parse_head_complete 7 25 b _ r (HA_2 7 b ltac:(lia) Hb)) as E.
    change (7 * 32 + 25) with 249 in E. rewrite E. reflexivity.
  - (* f32 *) intros b Hb f r Hf. destruct f; [cbn in Hf; lia|]. cbn [parse_item].
    pose proof (parse_head_complete 7 26 b _ r (HA_4 7 b ltac:(lia) Hb)) as E.
    change (7 * 32 + 26) with 250 in E. rewrite E. reflexivity.
  - (* f64 *) intros b Hb f r Hf. destruct f; [cbn in Hf; lia|]. cbn [parse_item].
    pose proof (parse_head_complete 7 27 b _ r (HA_8 7 b ltac:(lia) Hb)) as E.
    change (7 * 32 + 27) with 251 in E. rewrite E. reflexivity.
  - (* seq nil *) split; intros f r Hf; (destruct f; [cbn in Hf; lia|]); reflexivity.
  - (* seq cons *) intros b i bs l C IHi Sq (IHb & IHn). pose proof (Cbor_length _ _ C) as Lb.
    split; intros f r Hf; rewrite app_length in Hf; (destruct f; [lia|]).
    + cbn [parse_seq_brk]. rewrite <- app_assoc. rewrite (is_break_item _ _ _ C).
      rewrite IHi by lia. rewrite IHb by lia. reflexivity.
    + cbn [parse_seq_n length]. replace (N.of_nat (S (length l)) =? 0) with false by lia.
      rewrite <- app_assoc. rewrite IHi by lia.
      replace (N.of_nat (S (length l)) - 1) with (N.of_nat (length l)) by lia.
      rewrite IHn by lia. reflexivity.
  - (* pairs nil *) split; intros f r Hf; (destruct f; [cbn in Hf; lia|]); reflexivity.
  - (* pairs cons *) intros bk k bv v bs l Ck IHk Cv IHv Sq (IHb & IHn).
    pose proof (Cbor_length _ _ Ck) as Lk. pose proof (Cbor_length _ _ Cv) as Lv.
    split; intros f r Hf; rewrite !app_length in Hf; (destruct f; [lia|]).
    + cbn [parse_pairs_brk]. rewrite <- !app_assoc. rewrite (is_break_item _ _ _ Ck).
      rewrite IHk by lia. rewrite IHv by lia. rewrite IHb by lia. reflexivity.
    + cbn [parse_pairs_n length]. replace (N.of_nat (S (length l)) =? 0) with false by lia.
      rewrite <- !app_assoc. rewrite IHk by lia. rewrite IHv by lia.
      replace (N.of_nat (S (length l)) - 1) with (N.of_nat (length l)) by lia.
      rewrite IHn by lia. reflexivity.
Qed.

Theorem parse_item_complete b i r f : Cbor b i -> (2 * length b <= f)%nat -> parse_item f (b ++ r) = Some (i, r).
Proof. intros C. apply (proj1 parse_complete); auto. Qed.

Theorem parse_cbor_complete b i : Cbor b i -> parse_cbor b = Some i.
Proof.
  intros C. unfold parse_cbor. pose proof (parse_item_complete b i [] (2 * length b + 2) C ltac:(lia)) as E.
  rewrite app_nil_r in E. rewrite E. reflexivity.
Qed.

(* the relation is functional in both directions that matter: a byte string
   is at most one item (deterministic decoding) *)
Theorem Cbor_deterministic b i j : Cbor b i -> Cbor b j -> i = j.
Proof. intros H1 H2. apply parse_cbor_complete in H1, H2. congruence. Qed.

(* self-delimiting: an item followed by anything parses to the item and the rest *)
Theorem Cbor_prefix_free b1 i1 r1 b2 i2 r2 : Cbor b1 i1 -> Cbor b2 i2 -> b1 ++ r1 = b2 ++ r2 -> b1 = b2 /\ i1 = i2.
Proof.
  intros C1 C2 E.
  pose proof (parse_item_complete b1 i1 r1 (2 * length b1 + 2 * length b2) C1 ltac:(lia)) as P1.
  pose proof (parse_item_complete b2 i2 r2 (2 * length b1 + 2 * length b2) C2 ltac:(lia)) as P2.
  rewrite E in P1. rewrite P1 in P2. inversion P2; subst. split; auto.
  eapply app_inv_tail; eauto.
Qed.
