(* C10 solo-progress bound: with the other producers paused (the consumer may keep
   running), a producer finishes its current Set within 3*size + 5 of its own steps.
   Potential: 3 * (number of non-empty slots) + phase, where a pending CAS that is
   already doomed (the slot no longer holds the loaded bucket) and a pending load whose
   newer-test would fire each count for one more round. *)
From Verif Require Import Base.Prelude Lts.Diode Proofs.DiodeP.
Open Scope N_scope.

(* slot i only ever holds buckets of positions congruent to i *)
Definition Sidx (s : st) : Prop :=
  forall i sq m, nth i (slots s) None = Some (sq, m) -> N.to_nat (sq mod size s) = i.

Lemma sidx_step s a : 0 < size s -> Sidx s -> Sidx (exec1 s a).
Proof.
  intros Hn H. unfold Sidx. rewrite size_exec1. revert H. unfold Sidx.
  step_cases s a; cbn [slots set_prod]; intros H i sq' m' Hs; eauto.
  - rewrite nth_upd in Hs. destruct (Nat.eqb_spec (N.to_nat (wi mod size s)) i) as [<-|]; eauto.
    destruct (Nat.ltb _ _); eauto. inversion Hs; subst; auto.
  - rewrite nth_upd in Hs. destruct (Nat.eqb _ i); [destruct (Nat.ltb _ _)|]; try discriminate; eauto.
  - rewrite nth_upd in Hs. destruct (Nat.eqb _ i); [destruct (Nat.ltb _ _)|]; try discriminate; eauto.
Qed.

Lemma sidx_exec s sched : 0 < size s -> Sidx s -> Sidx (exec s sched).
Proof.
  revert s; induction sched as [|a t IH]; intros s Hn H; [exact H|].
  change (exec s (a :: t)) with (exec (exec1 s a) t). apply IH; [rewrite size_exec1; auto|apply sidx_step; auto].
Qed.

Lemma sidx_init n ps : Sidx (init n ps).
Proof. intros i sq m H. cbn in H. exfalso. eapply (@repeat_none_nth bucket); eauto. Qed.

Fixpoint nonnil (l : list (option bucket)) : N :=
  match l with [] => 0 | Some _ :: r => 1 + nonnil r | None :: r => nonnil r end.

Lemma nonnil_le l : nonnil l <= N.of_nat (length l).
Proof. induction l as [|[b|] l IH]; cbn [nonnil length]; lia. Qed.

Lemma nonnil_clear l i : nonnil (upd l i None) + match nth i l None with Some _ => 1 | None => 0 end = nonnil l.
Proof.
  revert i; induction l as [|x l IH]; intros [|i]; cbn [upd nonnil nth]; try lia.
  - destruct x; lia.
  - specialize (IH i). destruct x; lia.
Qed.

Definition psi_state (s : st) (x : pstate) : N :=
  match x with
  | PIdle _ => 3
  | PClaimed _ _ wi => 2 + (if newer_test (size s) wi (slot_at s (wi mod size s)) then 3 else 0)
  | PLoaded _ _ wi old => 1 + (if beq (slot_at s (wi mod size s)) old then 0 else 3)
  end.

Definition psi (s : st) (p : nat) : N := 3 * nonnil (slots s) + psi_state s (nth p (prods s) (PIdle [])).

Lemma psi_bound s p : psi s p <= 3 * size s + 5.
Proof.
  unfold psi, size. pose proof (nonnil_le (slots s)).
  destruct (nth p (prods s) (PIdle [])) as [| |]; cbn [psi_state]; try lia.
  - destruct (newer_test _ _ _); lia.
  - destruct (beq _ _); lia.
Qed.

Lemma mod_gap n a b : 0 < n -> a mod n = b mod n -> a < b -> a + n <= b.
Proof.
  intros Hn E Hlt.
  pose proof (N.div_mod' a n) as Ha. pose proof (N.div_mod' b n) as Hb.
  pose proof (N.mod_upper_bound a n ltac:(lia)) as Hr.
  rewrite <- E in Hb. set (qa := a / n) in *. set (qb := b / n) in *. set (r := a mod n) in *. clearbody qa qb r.
  assert (qa < qb) by nia. nia.
Qed.

(* a position claimed now cannot trip the newer-test as long as nobody else installs anything *)
Lemma fresh_claim ps s : 0 < size s -> Inv ps s -> Sidx s -> claims s < two64 ->
  newer_test (size s) (claims s) (slot_at s (claims s mod size s)) = false.
Proof.
  intros Hn I S Hc. unfold newer_test, slot_at.
  destruct (nth (N.to_nat (claims s mod size s)) (slots s) None) as [[sq m]|] eqn:E; auto.
  apply N.ltb_ge.
  pose proof (S _ _ _ E) as Hi. apply N2Nat.inj in Hi.
  destruct (i_slots _ _ I _ _ _ E) as [Hlt _].
  pose proof (mod_gap (size s) sq (claims s) Hn Hi Hlt) as Hg.
  replace (claims s + two64 - size s) with (two64 + (claims s - size s)) by lia.
  replace (two64 + (claims s - size s)) with ((claims s - size s) + 1 * two64) by lia.
  rewrite N.mod_add by (unfold two64; lia). rewrite N.mod_small by lia. lia.
Qed.

Lemma returned_mono1 s a : (length (returned s) <= length (returned (exec1 s a)))%nat.
Proof. step_cases s a; cbn; rewrite ?app_length; cbn; lia. Qed.

Lemma returned_mono s sched : (length (returned s) <= length (returned (exec s sched)))%nat.
Proof.
  revert s; induction sched as [|a t IH]; intros s; [cbn; lia|].
  change (exec s (a :: t)) with (exec (exec1 s a) t). etransitivity; [apply returned_mono1|apply IH].
Qed.

Lemma pdone_absorbing1 s a q : pdone (nth q (prods s) (PIdle [])) = true -> pdone (nth q (prods (exec1 s a)) (PIdle [])) = true.
Proof.
  intros H. step_cases s a; cbn [prods set_prod]; auto;
    (destruct (Nat.eq_dec p q) as [->|Hne]; [rewrite Ep in H; cbn in H; discriminate|rewrite nth_upd_neq; auto]).
Qed.

Lemma pdone_absorbing s sched p : pdone (nth p (prods s) (PIdle [])) = true -> pdone (nth p (prods (exec s sched)) (PIdle [])) = true.
Proof.
  revert s; induction sched as [|a t IH]; intros s H; [exact H|].
  change (exec s (a :: t)) with (exec (exec1 s a) t). apply IH, pdone_absorbing1, H.
Qed.

(* the consumer never raises the potential *)
Lemma psi_cons s p : psi (exec1 s C) p <= psi s p.
Proof.
  unfold psi. assert (Hs : size (exec1 s C) = size s) by apply size_exec1. revert Hs.
  unfold exec1, step, cstep.
  destruct (nth (N.to_nat (ri s mod size s)) (slots s) None) as [[sq m]|] eqn:Es; [|cbn; lia].
  set (i := N.to_nat (ri s mod size s)) in *.
  assert (Hnn : nonnil (upd (slots s) i None) + 1 = nonnil (slots s)).
  { pose proof (nonnil_clear (slots s) i) as H. rewrite Es in H. exact H. }
  assert (Hsl : forall k, slot_at s k <> None -> N.to_nat k <> i -> nth (N.to_nat k) (upd (slots s) i None) None = slot_at s k).
  { intros k _ Hk. rewrite nth_upd_neq; auto. }
  assert (Hgoal : forall s', slots s' = upd (slots s) i None -> prods s' = prods s -> size s' = size s ->
            3 * nonnil (slots s') + psi_state s' (nth p (prods s') (PIdle [])) <=
            3 * nonnil (slots s) + psi_state s (nth p (prods s) (PIdle []))).
  { intros s' E1 E2 E3. rewrite E1, E2.
    destruct (nth p (prods s) (PIdle [])) as [todo|m' todo wi|m' todo wi old]; cbn [psi_state]; rewrite ?E3; try lia.
    - (* pending load: clearing a slot can only switch the newer-test off *)
      unfold slot_at. rewrite E1, nth_upd.
      destruct (Nat.eqb i (N.to_nat (wi mod size s))); [destruct (Nat.ltb _ _)|]; cbn [newer_test];
        destruct (newer_test _ _ _); lia.
    - (* pending CAS: clearing its slot dooms it, which the freed slot pays for *)
      unfold slot_at. rewrite E1, nth_upd.
      destruct (Nat.eqb i (N.to_nat (wi mod size s))); [destruct (Nat.ltb _ _)|];
        repeat match goal with |- context [beq ?a ?b] => destruct (beq a b) end; lia. }
  destruct (sq <? ri s); intros Hs; apply Hgoal; auto.
Qed.

Lemma psi_state_ext s s' x : slots s' = slots s -> psi_state s' x = psi_state s x.
Proof. intros E. unfold psi_state, slot_at, size. rewrite E. reflexivity. Qed.

(* a step of p that does not complete the Set lowers the potential *)
Lemma psi_prod ps s p : 0 < size s -> Inv ps s -> Sidx s -> claims (exec1 s (P p)) < two64 ->
  pdone (nth p (prods s) (PIdle [])) = false ->
  length (returned (exec1 s (P p))) = length (returned s) ->
  psi (exec1 s (P p)) p + 1 <= psi s p.
Proof.
  intros Hn I S Hc Hd Hret. unfold psi.
  assert (Hr : (p < length (prods s))%nat).
  { apply nth_default_range. intros E. rewrite E in Hd. discriminate. }
  revert Hc Hret. unfold exec1, step, pstep.
  destruct (nth p (prods s) (PIdle [])) as [[|m todo]|m todo wi|m todo wi old] eqn:Ep; [discriminate| | |].
  - (* add: the fresh claim cannot trip the newer-test *)
    cbn [claims returned slots prods]. intros Hc _. rewrite nth_upd_eq by auto.
    rewrite (psi_state_ext s) by reflexivity. cbn [psi_state].
    assert (E : claims s mod two64 = claims s) by (apply N.mod_small; lia).
    rewrite E. rewrite (fresh_claim ps s Hn I S ltac:(lia)). lia.
  - (* load *)
    destruct (newer_test (size s) wi (slot_at s (wi mod size s))) eqn:En;
      cbn [claims returned slots prods set_prod]; intros Hc _; rewrite nth_upd_eq by auto;
      rewrite (psi_state_ext s) by reflexivity; cbn [psi_state]; rewrite ?En.
    + lia.
    + assert (Hb : beq (slot_at s (wi mod size s)) (slot_at s (wi mod size s)) = true).
      { destruct (slot_at s (wi mod size s)) as [[a b]|]; cbn; auto. apply N.eqb_refl. }
      rewrite Hb. lia.
  - (* cas: success is excluded, failure costs the doomed round *)
    destruct (beq (slot_at s (wi mod size s)) old) eqn:Eb; cbn [claims returned slots prods]; intros Hc Hret.
    + rewrite app_length in Hret. cbn in Hret. lia.
    + rewrite nth_upd_eq by auto. rewrite (psi_state_ext s) by reflexivity. cbn [psi_state]. rewrite Eb. lia.
Qed.

Fixpoint count_p (p : nat) (sched : list act) : N :=
  match sched with
  | [] => 0
  | P q :: r => (if Nat.eqb p q then 1 else 0) + count_p p r
  | C :: r => count_p p r
  end.

Definition only (p : nat) (a : act) : Prop := a = P p \/ a = C.

Lemma solo_from ps s p sched : 0 < size s -> Inv ps s -> Sidx s ->
  Forall (only p) sched -> let s' := exec s sched in
  claims s' < two64 ->
  pdone (nth p (prods s') (PIdle [])) = false ->
  length (returned s') = length (returned s) ->
  count_p p sched <= psi s p.
Proof.
  revert s. induction sched as [|a t IH]; intros s Hn I S Hf s' Hc Hd Hret; [cbn; lia|].
  inversion Hf as [|? ? Ha Ht]; subst. subst s'.
  change (exec s (a :: t)) with (exec (exec1 s a) t) in *.
  assert (Hc1 : claims (exec1 s a) < two64) by (eapply N.le_lt_trans; [apply claims_mono|exact Hc]).
  assert (Hr1 : length (returned (exec1 s a)) = length (returned s)).
  { apply Nat.le_antisymm; [rewrite <- Hret; apply returned_mono|apply returned_mono1]. }
  assert (IH' : count_p p t <= psi (exec1 s a) p).
  { apply IH; auto; [rewrite size_exec1; auto|apply step_inv; auto|apply sidx_step; auto|congruence]. }
  destruct Ha as [->| ->]; cbn [count_p].
  - rewrite Nat.eqb_refl.
    assert (Hd0 : pdone (nth p (prods s) (PIdle [])) = false).
    { destruct (pdone (nth p (prods s) (PIdle []))) eqn:E; auto.
      pose proof (pdone_absorbing (exec1 s (P p)) t p (pdone_absorbing1 s (P p) p E)). congruence. }
    pose proof (psi_prod ps s p Hn I S Hc1 Hd0 Hr1). lia.
  - pose proof (psi_cons s p). lia.
Qed.

(* C10_solo_bound *)
Lemma solo_bound n ps sched0 p sched : (0 < n)%nat ->
  let s := run n ps sched0 in
  Forall (only p) sched -> let s' := exec s sched in
  claims s' < two64 ->
  pdone (nth p (prods s') (PIdle [])) = false ->
  length (returned s') = length (returned s) ->
  count_p p sched <= 3 * N.of_nat n + 5.
Proof.
  intros Hn. cbv zeta. intros Hf Hc Hd Hret.
  set (s := run n ps sched0) in *.
  assert (Hsz : size s = N.of_nat n) by (unfold s, run; rewrite size_exec, size_init; auto).
  assert (Hcs : claims s < two64) by (eapply N.le_lt_trans; [apply claims_mono|exact Hc]).
  assert (Hpos : 0 < size s) by (rewrite Hsz; lia).
  assert (Hinv : Inv ps s) by (apply run_inv; exact Hcs).
  assert (Hsi : Sidx s).
  { unfold s, run. apply sidx_exec; [rewrite size_init; lia|apply sidx_init]. }
  pose proof (solo_from ps s p sched Hpos Hinv Hsi Hf Hc Hd Hret) as H.
  pose proof (psi_bound s p) as Hb. rewrite Hsz in Hb. clearbody s. lia.
Qed.
