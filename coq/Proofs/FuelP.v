(* The execution fuel of Api/Exec.v is only a device: any fuel that covers the
   nesting depth of the program gives the same result.  So [exec] (fuel =
   depth) is THE execution of the program, never a truncated one, and the
   soundness theorems of Proofs/ExecP.v, stated at every fuel, are statements
   about it. *)
From Verif Require Import Base.Prelude Enc.JsonEnc Misc.Level Api.Exec.
From Coq Require Import Arith Lia.
Open Scope nat_scope.

(* the depth of error values / field values / lists, as named functions *)
Definition de (x : errv (list op)) : nat := match x with EObj fs => depth_list fs | _ => 0 end.
Definition del (l : list (errv (list op))) : nat := fold_right (fun x a => Nat.max (de x) a) 0 l.
Definition dfv (v : fieldval (list op)) : nat :=
  match v with FVPrim _ => 0 | FVObj fs => depth_list fs | FVErr x s => Nat.max (de x) (de s) | FVErrs es => del es end.
Definition dkv (l : list (option bytes * fieldval (list op))) : nat := fold_right (fun kv a => Nat.max (dfv (snd kv)) a) 0 l.

Definition depth_inner (o : op) : nat :=
  match o with
  | ODict _ fs | OArray _ fs | OObject _ (Some fs) | OEmbed (Some fs) | OFunc fs | AObj fs | ADict fs => depth_list fs
  | OFields kvs => dkv kvs
  | OAnErr _ x | AErr x => de x
  | OErr x s => Nat.max (de x) (de s)
  | OErrs _ es => del es
  | _ => 0
  end.

Lemma depth_list_cons o l : depth_list (o :: l) = Nat.max (depth o) (depth_list l).
Proof. reflexivity. Qed.

Lemma dl_eq fs :
  (fix dl (l : list op) : nat := match l with [] => 0 | x :: t => Nat.max (depth x) (dl t) end) fs = depth_list fs.
Proof. induction fs as [|x t IH]; [reflexivity|]. rewrite depth_list_cons, <- IH. reflexivity. Qed.

Lemma depth_unfold o : depth o = S (depth_inner o).
Proof.
  (* the local fixpoints of [depth] are, body for body, the folds named above *)
  destruct o as [k p|k fs|k es|k [fs|]|[fs|]|kvs|k x|x s|k es| |fs|t|r|id| |p|fs|fs|x]; try reflexivity.
  (* OFields: the local fixpoint destructs the pair, [dkv] projects it *)
  cbn [depth depth_inner]. f_equal.
  induction kvs as [|[k v] t IH]; [reflexivity|].
  change (dkv ((k, v) :: t)) with (Nat.max (dfv v) (dkv t)). rewrite <- IH. reflexivity.
Qed.

Lemma depth_pos o : 1 <= depth o.
Proof. rewrite depth_unfold. lia. Qed.

(* array elements: their fragments run one level further down *)
Definition da (o : op) : nat := match o with AObj fs | ADict fs => depth_list fs | AErr x => de x | _ => 0 end.
Definition dal (l : list op) : nat := fold_right (fun o a => Nat.max (da o) a) 0 l.

Lemma da_le o : da o <= depth_inner o.
Proof. destruct o as [k p|k fs|k es|k [fs|]|[fs|]|kvs|k x|x s|k es| |fs|t|r|id| |p|fs|fs|x]; cbn [da depth_inner]; lia. Qed.

Lemma dal_le l : S (dal l) <= depth_list l \/ dal l = 0.
Proof.
  induction l as [|o t IH]; [right; reflexivity|]. rewrite depth_list_cons. cbn [dal fold_right].
  pose proof (da_le o) as H1. rewrite depth_unfold. fold (dal t). destruct IH as [IH|IH]; lia.
Qed.

Section Ext.
  Variable st : settings.
  Variables ex1 ex2 : op -> ev -> ev.
  Variable d : nat.
  Hypothesis agree : forall o e, depth o <= d -> ex1 o e = ex2 o e.

  Lemma run_list_ext l : depth_list l <= d -> forall e, run_list ex1 l e = run_list ex2 l e.
  Proof.
    induction l as [|o t IH]; intros Hd e; [reflexivity|].
    rewrite depth_list_cons in Hd. cbn [run_list]. rewrite agree by lia. apply IH. lia.
  Qed.

  Lemma sub_object_ext fs marks : depth_list fs <= d -> sub_object ex1 fs marks = sub_object ex2 fs marks.
  Proof. intros Hd. unfold sub_object. rewrite run_list_ext by exact Hd. reflexivity. Qed.

  Lemma errv_value_ext dst marks x : de x <= d -> errv_value st ex1 dst marks x = errv_value st ex2 dst marks x.
  Proof. destruct x as [| |fs|s|r]; cbn [de errv_value]; intros Hd; try reflexivity. rewrite sub_object_ext by exact Hd. reflexivity. Qed.

  Lemma arr_op_ext o a : da o <= d -> arr_op st ex1 o a = arr_op st ex2 o a.
  Proof.
    destruct a as [buf marks].
    destruct o as [k p|k fs|k es|k [fs|]|[fs|]|kvs|k x|x s|k es| |fs|t|r|id| |p|fs|fs|x]; cbn [da arr_op]; intros Hd; try reflexivity.
    - rewrite sub_object_ext by exact Hd. reflexivity.
    - rewrite sub_object_ext by exact Hd. reflexivity.
    - apply errv_value_ext. exact Hd.
  Qed.

  Lemma arr_list_ext l : dal l <= d -> forall a, arr_list st ex1 l a = arr_list st ex2 l a.
  Proof.
    unfold arr_list. induction l as [|o t IH]; intros Hd a; [reflexivity|].
    cbn [dal fold_right] in Hd. fold (dal t) in Hd. cbn [fold_left]. rewrite arr_op_ext by lia. apply IH. lia.
  Qed.

  Lemma array_bytes_ext es marks : dal es <= d -> array_bytes st ex1 es marks = array_bytes st ex2 es marks.
  Proof. intros Hd. unfold array_bytes. rewrite arr_list_ext by exact Hd. reflexivity. Qed.

  Lemma errs_fold_ext es : del es <= d -> forall a,
    fold_left (fun a x => errv_value st ex1 (AppendArrayDelim (fst a)) (snd a) x) es a =
    fold_left (fun a x => errv_value st ex2 (AppendArrayDelim (fst a)) (snd a) x) es a.
  Proof.
    induction es as [|x t IH]; intros Hd a; [reflexivity|].
    cbn [del fold_right] in Hd. fold (del t) in Hd. cbn [fold_left]. rewrite errv_value_ext by lia. apply IH. lia.
  Qed.

  Lemma errs_bytes_ext es marks : del es <= d -> errs_bytes st ex1 es marks = errs_bytes st ex2 es marks.
  Proof. intros Hd. unfold errs_bytes. rewrite errs_fold_ext by exact Hd. reflexivity. Qed.

  Lemma fields_errs_ext l : del l <= d -> forall first dd m, fields_errs st ex1 l first dd m = fields_errs st ex2 l first dd m.
  Proof.
    induction l as [|x t IH]; intros Hd first dd m; [reflexivity|].
    cbn [del fold_right] in Hd. fold (del t) in Hd. cbn [fields_errs]. rewrite errv_value_ext by lia.
    destruct (errv_value st ex2 _ m x) as [d1 m1]. apply IH. lia.
  Qed.

  Lemma field_value_ext stack dst marks v : dfv v <= d -> field_value st ex1 stack dst marks v = field_value st ex2 stack dst marks v.
  Proof.
    destruct v as [p|fs|x s|es]; cbn [dfv field_value]; intros Hd; try reflexivity.
    - rewrite sub_object_ext by exact Hd. reflexivity.
    - rewrite errv_value_ext by lia. reflexivity.
    - rewrite fields_errs_ext by exact Hd. reflexivity.
  Qed.

  Lemma fields_ext stack l : dkv l <= d -> forall buf marks, fields st ex1 stack l buf marks = fields st ex2 stack l buf marks.
  Proof.
    induction l as [|[k v] t IH]; intros Hd buf marks; [reflexivity|].
    cbn [dkv fold_right snd] in Hd. fold (dkv t) in Hd. cbn [fields]. destruct k as [key|]; [|apply IH; lia].
    rewrite field_value_ext by lia. destruct (field_value st ex2 stack _ marks v) as [d1 m1]. apply IH. lia.
  Qed.

  Lemma object_on_ext e key fs : depth_list fs <= d -> object_on ex1 e key fs = object_on ex2 e key fs.
  Proof. intros Hd. unfold object_on. rewrite run_list_ext by exact Hd. reflexivity. Qed.

  Lemma an_err_ext e key x : de x <= d -> an_err st ex1 e key x = an_err st ex2 e key x.
  Proof. destruct x as [| |fs|s|r]; cbn [de an_err]; intros Hd; try reflexivity. apply object_on_ext. exact Hd. Qed.

  (* one level up: executors that agree below depth d give bodies that agree up to depth d+1 *)
  Lemma exec_body_ext o e : depth o <= S d -> exec_body st ex1 o e = exec_body st ex2 o e.
  Proof.
    rewrite depth_unfold. intros Hd. apply le_S_n in Hd.
    destruct o as [k p|k fs|k es|k [fs|]|[fs|]|kvs|k x|x s|k es| |fs|t|r|id| |p|fs|fs|x]; cbn [depth_inner] in Hd; cbn [exec_body]; try reflexivity.
    - rewrite sub_object_ext by exact Hd. reflexivity.
    - rewrite array_bytes_ext; [reflexivity|]. destruct (dal_le es) as [H|H]; lia.
    - apply object_on_ext. exact Hd.
    - apply run_list_ext. exact Hd.
    - rewrite fields_ext by exact Hd. reflexivity.
    - apply an_err_ext. exact Hd.
    - destruct (e_stack e && s_stack_marshaler st); [|apply an_err_ext; lia].
      destruct s as [| |fs|s|r]; cbn [de] in Hd; try (apply an_err_ext; lia).
      rewrite object_on_ext by lia. apply an_err_ext. lia.
    - rewrite errs_bytes_ext by exact Hd. reflexivity.
    - destruct (e_discarded e); [reflexivity|]. apply run_list_ext. exact Hd.
  Qed.
End Ext.

(* any two fuels that cover the depth agree *)
Lemma exec_n_stable st : forall d n m, d <= n -> d <= m -> forall o e, depth o <= d -> exec_n st n o e = exec_n st m o e.
Proof.
  induction d as [|d IH]; intros n m Hn Hm o e Hd.
  - pose proof (depth_pos o). lia.
  - destruct n as [|n]; [lia|]. destruct m as [|m]; [lia|]. cbn [exec_n].
    apply (exec_body_ext st (exec_n st n) (exec_n st m) d); [|exact Hd].
    intros o' e' Hd'. apply IH; lia.
Qed.

(* [exec] uses enough fuel: more fuel changes nothing *)
Theorem exec_fuel_enough st : forall n o e, depth o <= n -> exec_n st n o e = exec st o e.
Proof. intros n o e H. unfold exec. apply (exec_n_stable st (depth o)); lia. Qed.

Theorem exec_list_fuel_enough st : forall n l e, depth_list l <= n -> run_list (exec_n st n) l e = exec_list st l e.
Proof.
  intros n l e H. unfold exec_list.
  apply (run_list_ext (exec_n st n) (exec_n st (depth_list l)) (depth_list l)); [|lia].
  intros o e' Hd. apply (exec_n_stable st (depth_list l)); lia.
Qed.

(* each op of a list run by [exec_list] is run exactly as [exec] runs it alone *)
Theorem exec_list_is_exec st : forall l e, exec_list st l e = run_list (exec st) l e.
Proof.
  intros l e. unfold exec_list.
  apply (run_list_ext (exec_n st (depth_list l)) (exec st) (depth_list l)); [|lia].
  intros o e' Hd. apply exec_fuel_enough. exact Hd.
Qed.

(* ------------------------------------------------------------------ *)
(* the same for the declarative specification and for its premises      *)
(* ------------------------------------------------------------------ *)
From Verif Require Import Base.JsonSpec Api.Spec.
Open Scope nat_scope.

Section SpecExt.
  Variable st : settings.
  Variables sp1 sp2 : op -> sstate -> list member * sstate.
  Variable d : nat.
  Hypothesis agree : forall o s, depth o <= d -> sp1 o s = sp2 o s.

  Lemma spec_list_ext l : depth_list l <= d -> forall s, spec_list sp1 l s = spec_list sp2 l s.
  Proof.
    induction l as [|o t IH]; intros Hd s; [reflexivity|].
    rewrite depth_list_cons in Hd. cbn [spec_list]. rewrite agree by lia.
    destruct (sp2 o s) as [m1 s1]. rewrite IH by lia. reflexivity.
  Qed.

  Lemma obj_jv_ext fs : depth_list fs <= d -> obj_jv sp1 fs = obj_jv sp2 fs.
  Proof. intros Hd. unfold obj_jv. rewrite spec_list_ext by exact Hd. reflexivity. Qed.

  Lemma errv_jv_ext x : de x <= d -> errv_jv st sp1 x = errv_jv st sp2 x.
  Proof. destruct x as [| |fs|s|r]; cbn [de errv_jv]; intros Hd; try reflexivity. apply obj_jv_ext. exact Hd. Qed.

  Lemma arr_jv_ext o : da o <= d -> arr_jv st sp1 o = arr_jv st sp2 o.
  Proof.
    destruct o as [k p|k fs|k es|k [fs|]|[fs|]|kvs|k x|x s|k es| |fs|t|r|id| |p|fs|fs|x]; cbn [da arr_jv]; intros Hd; try reflexivity.
    - rewrite obj_jv_ext by exact Hd. reflexivity.
    - rewrite obj_jv_ext by exact Hd. reflexivity.
    - rewrite errv_jv_ext by exact Hd. reflexivity.
  Qed.

  Lemma arr_flat_ext es : dal es <= d -> flat_map (arr_jv st sp1) es = flat_map (arr_jv st sp2) es.
  Proof.
    induction es as [|o t IH]; intros Hd; [reflexivity|].
    cbn [dal fold_right] in Hd. fold (dal t) in Hd. cbn [flat_map]. rewrite arr_jv_ext by lia. rewrite IH by lia. reflexivity.
  Qed.

  Lemma errs_map_ext es : del es <= d -> map (errv_jv st sp1) es = map (errv_jv st sp2) es.
  Proof.
    induction es as [|x t IH]; intros Hd; [reflexivity|].
    cbn [del fold_right] in Hd. fold (del t) in Hd. cbn [map]. rewrite errv_jv_ext by lia. rewrite IH by lia. reflexivity.
  Qed.

  Lemma field_members_ext stack kv : dfv (snd kv) <= d -> field_members st sp1 stack kv = field_members st sp2 stack kv.
  Proof.
    destruct kv as [[key|] v]; [|reflexivity]. destruct v as [p|fs|x s|es]; cbn [snd dfv field_members]; intros Hd; try reflexivity.
    - rewrite obj_jv_ext by exact Hd. reflexivity.
    - rewrite errv_jv_ext by lia. reflexivity.
    - rewrite errs_map_ext by exact Hd. reflexivity.
  Qed.

  Lemma fields_flat_ext stack kvs : dkv kvs <= d -> flat_map (field_members st sp1 stack) kvs = flat_map (field_members st sp2 stack) kvs.
  Proof.
    induction kvs as [|kv t IH]; intros Hd; [reflexivity|].
    cbn [dkv fold_right] in Hd. fold (dkv t) in Hd. cbn [flat_map]. rewrite field_members_ext by lia. rewrite IH by lia. reflexivity.
  Qed.

  Lemma object_members_ext key fs s : depth_list fs <= d -> object_members sp1 key fs s = object_members sp2 key fs s.
  Proof. intros Hd. unfold object_members. rewrite spec_list_ext by exact Hd. reflexivity. Qed.

  Lemma an_err_members_ext key x s : de x <= d -> an_err_members sp1 key x s = an_err_members sp2 key x s.
  Proof. destruct x as [| |fs|t|r]; cbn [de an_err_members]; intros Hd; try reflexivity. apply object_members_ext. exact Hd. Qed.

  Lemma spec_body_ext o s : depth o <= S d -> spec_body st sp1 o s = spec_body st sp2 o s.
  Proof.
    rewrite depth_unfold. intros Hd. apply le_S_n in Hd.
    destruct o as [k p|k fs|k es|k [fs|]|[fs|]|kvs|k x|x t|k es| |fs|t|r|id| |p|fs|fs|x]; cbn [depth_inner] in Hd; cbn [spec_body]; try reflexivity.
    - rewrite obj_jv_ext by exact Hd. reflexivity.
    - rewrite arr_flat_ext; [reflexivity|]. destruct (dal_le es) as [H|H]; lia.
    - apply object_members_ext. exact Hd.
    - apply spec_list_ext. exact Hd.
    - rewrite fields_flat_ext by exact Hd. reflexivity.
    - apply an_err_members_ext. exact Hd.
    - destruct (fst s && s_stack_marshaler st).
      + destruct t as [| |fs|t|r]; cbn [de] in Hd; try (rewrite an_err_members_ext by lia; reflexivity).
        rewrite object_members_ext by lia. destruct (object_members sp2 _ fs s) as [m1 s1].
        rewrite an_err_members_ext by lia. reflexivity.
      + rewrite an_err_members_ext by lia. reflexivity.
    - rewrite errs_map_ext by exact Hd. reflexivity.
    - destruct (snd s); [reflexivity|]. apply spec_list_ext. exact Hd.
  Qed.
End SpecExt.

Lemma spec_n_stable st : forall d n m, d <= n -> d <= m -> forall o s, depth o <= d -> spec_n st n o s = spec_n st m o s.
Proof.
  induction d as [|d IH]; intros n m Hn Hm o s Hd.
  - pose proof (depth_pos o). lia.
  - destruct n as [|n]; [lia|]. destruct m as [|m]; [lia|]. cbn [spec_n].
    apply (spec_body_ext st (spec_n st n) (spec_n st m) d); [|exact Hd].
    intros o' s' Hd'. apply IH; lia.
Qed.

Theorem spec_fuel_enough st : forall n o s, depth o <= n -> spec_n st n o s = op_spec st o s.
Proof. intros n o s H. unfold op_spec. apply (spec_n_stable st (depth o)); lia. Qed.

Theorem spec_ops_is_op_spec st : forall l s, spec_ops st l s = spec_list (op_spec st) l s.
Proof.
  intros l s. unfold spec_ops.
  apply (spec_list_ext (spec_n st (depth_list l)) (op_spec st) (depth_list l)); [|lia].
  intros o s' Hd. apply spec_fuel_enough. exact Hd.
Qed.

(* the premises: with enough fuel [ok_n] constrains every nested fragment, and does not depend on the fuel *)
Section OkExt.
  Variable st : settings.
  Variables ok1 ok2 : op -> Prop.
  Variable d : nat.
  Hypothesis agree : forall o, depth o <= d -> (ok1 o <-> ok2 o).

  Lemma Forall_ok_ext l : depth_list l <= d -> (Forall ok1 l <-> Forall ok2 l).
  Proof.
    induction l as [|o t IH]; intros Hd; [split; constructor|].
    rewrite depth_list_cons in Hd. split; intros H; inversion H; subst; constructor;
      try (apply agree; [lia|assumption]); apply IH; try lia; assumption.
  Qed.

  Lemma errv_ok_ext x : de x <= d -> (errv_ok st ok1 x <-> errv_ok st ok2 x).
  Proof. destruct x as [| |fs|s|r]; cbn [de errv_ok]; intros Hd; try tauto. apply Forall_ok_ext. exact Hd. Qed.

  Lemma arr_ok_ext o : da o <= d -> (arr_ok st ok1 o <-> arr_ok st ok2 o).
  Proof.
    destruct o as [k p|k fs|k es|k [fs|]|[fs|]|kvs|k x|x s|k es| |fs|t|r|id| |p|fs|fs|x]; cbn [da arr_ok]; intros Hd; try tauto;
      try (apply Forall_ok_ext; exact Hd). apply errv_ok_ext. exact Hd.
  Qed.

  Lemma Forall_iff_ext {A} (P Q : A -> Prop) (m : A -> nat) (l : list A) :
    (forall x, m x <= d -> (P x <-> Q x)) -> fold_right (fun x a => Nat.max (m x) a) 0 l <= d -> (Forall P l <-> Forall Q l).
  Proof.
    intros HPQ. induction l as [|x t IH]; intros Hd; [split; constructor|].
    cbn [fold_right] in Hd. split; intros H; inversion H; subst; constructor;
      try (apply HPQ; [lia|assumption]); apply IH; try lia; assumption.
  Qed.

  Lemma ok_body_ext o : depth o <= S d -> (ok_body st ok1 o <-> ok_body st ok2 o).
  Proof.
    rewrite depth_unfold. intros Hd. apply le_S_n in Hd.
    destruct o as [k p|k fs|k es|k [fs|]|[fs|]|kvs|k x|x t|k es| |fs|t|r|id| |p|fs|fs|x]; cbn [depth_inner] in Hd; cbn [ok_body]; try tauto;
      try (apply Forall_ok_ext; exact Hd).
    - (* OArray *) apply (Forall_iff_ext _ _ da); [intros; apply arr_ok_ext; assumption|].
      fold (dal es). destruct (dal_le es) as [H|H]; lia.
    - (* OFields *) apply (Forall_iff_ext _ _ (fun kv => dfv (snd kv))); [|exact Hd].
      intros [k v] Hv. cbn [snd] in *. destruct v as [p|fs|x s|es]; cbn [dfv] in Hv; try tauto.
      + apply Forall_ok_ext. exact Hv.
      + rewrite (errv_ok_ext x) by lia. rewrite (errv_ok_ext s) by lia. tauto.
      + apply (Forall_iff_ext _ _ de); [intros; apply errv_ok_ext; assumption|exact Hv].
    - (* OAnErr *) apply errv_ok_ext. exact Hd.
    - (* OErr *) rewrite (errv_ok_ext x) by lia. rewrite (errv_ok_ext t) by lia. tauto.
    - (* OErrs *) apply (Forall_iff_ext _ _ de); [intros; apply errv_ok_ext; assumption|exact Hd].
  Qed.
End OkExt.

Lemma ok_n_stable st : forall d n m, d <= n -> d <= m -> forall o, depth o <= d -> (ok_n st n o <-> ok_n st m o).
Proof.
  induction d as [|d IH]; intros n m Hn Hm o Hd.
  - pose proof (depth_pos o). lia.
  - destruct n as [|n]; [lia|]. destruct m as [|m]; [lia|]. cbn [ok_n].
    apply (ok_body_ext st (ok_n st n) (ok_n st m) d); [|exact Hd].
    intros o' Hd'. apply IH; lia.
Qed.

Theorem ok_fuel_enough st : forall n o, depth o <= n -> (ok_n st n o <-> op_ok st o).
Proof. intros n o H. unfold op_ok. apply (ok_n_stable st (depth o)); lia. Qed.

(* the premise of the event theorems is the conjunction of the per-op premises *)
Theorem ops_ok_is_op_ok st : forall l, ops_ok st l <-> Forall (op_ok st) l.
Proof.
  intros l. unfold ops_ok.
  apply (Forall_iff_ext (depth_list l) _ _ depth l); [|].
  - intros o Hd. apply ok_fuel_enough. exact Hd.
  - fold (depth_list l). lia.
Qed.
