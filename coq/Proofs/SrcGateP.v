(* log.go's Logger.should (with globals.go's GlobalLevel and samplingDisabled), re-translated by srcgen on every run
   (Gen/GateSrc.v), is the model's level gate [Sampler.should].
   The receiver is the record of Logger's scalar fields; its interface-typed fields w and sampler are opaque
   (Base/GoExt.v): a non-nil flag each, and the call l.sampler.Sample(lvl) is logged and answered by the environment;
   the package variables gLevel and disableSampling (read with atomic.LoadInt32) are the parameters env_gLevel,
   env_disableSampling. *)
From Verif Require Import Base.Prelude Base.GoSem Base.GoEff Base.GoExt Misc.Level Lts.Sampler Gen.GateSrc.
Open Scope Z_scope.

(* the record stands for the gate state g, the environment for the global level, the sampling switch and - when the
   sampler is consulted - for the sampler's verdict *)
Definition represents (envG envD : Z) (l : Logger_st) (g : gate) : Prop :=
  Logger_w l = g_has_writer g /\ Logger_level l = g_level g /\ wraps 8 envG = g_global g /\
  Logger_sampler l = (match g_sampler g with Some _ => true | None => false end) /\
  (envD =? 1) = g_sampling_disabled g.

Definition sample_call (lvl : Z) : ocall := OCall [115;97;109;112;108;101;114]%N [83;97;109;112;108;101]%N [OVInt lvl].

Theorem should_src envG envD (ans : nat -> oval) l g now lvl :
  represents envG envD l g ->
  (forall s, g_sampler g = Some s -> ans (length (Logger_calls l)) = OVBool (fst (sample s now lvl))) ->
  exists l', GateSrc.should envG envD ans l lvl = Ok (fst (Sampler.should g now lvl), l') /\
    Logger_w l' = Logger_w l /\ Logger_level l' = Logger_level l /\ Logger_sampler l' = Logger_sampler l /\
    Logger_calls l' = Logger_calls l ++
      (if g_has_writer g && negb ((lvl <? g_level g) || (lvl <? g_global g)) &&
          (match g_sampler g with Some _ => negb (g_sampling_disabled g) | None => false end)
       then [sample_call lvl] else []).
Proof.
  intros (Hw & Hl & Hg & Hs & Hd) Hans.
  destruct l as [lw ll ls lctx lstk lcalls]. cbn [Logger_w Logger_level Logger_sampler Logger_calls] in *. subst lw ll ls.
  unfold GateSrc.should, Sampler.should, GlobalLevel_val, samplingDisabled_val.
  cbn [Logger_w Logger_level Logger_sampler Logger_calls]. rewrite Hg, Hd.
  destruct (g_has_writer g); cbn [negb andb].
  2:{ eexists. split; [reflexivity|]. cbn. rewrite app_nil_r. repeat split; reflexivity. }
  destruct ((lvl <? g_level g) || (lvl <? g_global g)); cbn [negb andb].
  { eexists. split; [reflexivity|]. cbn. rewrite app_nil_r. repeat split; reflexivity. }
  destruct (g_sampler g) as [s|] eqn:Es; cbn [andb].
  2:{ eexists. split; [reflexivity|]. cbn. rewrite app_nil_r. repeat split; reflexivity. }
  destruct (g_sampling_disabled g); cbn [negb].
  { eexists. split; [reflexivity|]. cbn. rewrite app_nil_r. repeat split; reflexivity. }
  rewrite (Hans s eq_refl). destruct (sample s now lvl) as [r s'] eqn:E. cbn [fst oval_bool].
  eexists. split; [reflexivity|]. unfold set_Logger_calls. cbn. repeat split; reflexivity.
Qed.

Lemma gate_counts : length GateSrc.translated_functions = 3%nat /\ length GateSrc.skipped_functions = 0%nat.
Proof. split; reflexivity. Qed.
