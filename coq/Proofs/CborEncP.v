(* Proofs about Enc/CborEnc.v: every encoder primitive emits exactly one
   well-formed RFC 8949 item carrying the value; sequences of key/value
   primitives between the begin and end markers are one indefinite-length map
   with text keys, for all nestings of arrays and dicts. *)
From Verif Require Import Base.Prelude Base.CborSpec Proofs.CborSpecP Enc.CborEnc.
Open Scope N_scope.

(* ------------------------------------------------------------------ *)
(* major|minor                                                         *)
(* ------------------------------------------------------------------ *)
Definition rangeN (n : nat) : list N := map N.of_nat (seq 0 n).

Lemma in_rangeN x n : x < N.of_nat n -> In x (rangeN n).
Proof.
  intros H. unfold rangeN. apply in_map_iff. exists (N.to_nat x). split; [lia|].
  apply in_seq. lia.
Qed.

Lemma lor_major m k : m < 8 -> k < 32 -> N.lor (m * 32) k = m * 32 + k.
Proof.
  intros Hm Hk.
  assert (C : forallb (fun m => forallb (fun k => N.lor (m * 32) k =? m * 32 + k) (rangeN 32)) (rangeN 8) = true)
    by (vm_compute; reflexivity).
  rewrite forallb_forall in C. specialize (C m (in_rangeN m 8 Hm)).
  rewrite forallb_forall in C. specialize (C k (in_rangeN k 32 Hk)). lia.
Qed.

(* ------------------------------------------------------------------ *)
(* appendCborTypePrefix                                                *)
(* ------------------------------------------------------------------ *)
Definition prefix_ai (n : N) : N :=
  if n <? 256 then 24 else if n <? 65536 then 25 else if n <? 4294967296 then 26 else 27.
Definition prefix_width (n : N) : nat :=
  if n <? 256 then 1 else if n <? 65536 then 2 else if n <? 4294967296 then 4 else 8.

Lemma prefix_headA m n dst : m < 8 -> n < 2 ^ 64 ->
  exists h, appendCborTypePrefix dst (m * 32) n = dst ++ h /\ HeadA m (prefix_ai n) n h /\
            length h = S (prefix_width n).
Proof.
  intros Hm Hn. unfold appendCborTypePrefix, prefix_ai, prefix_width.
  destruct (n <? 256) eqn:E1; [|destruct (n <? 65536) eqn:E2; [|destruct (n <? 4294967296) eqn:E3]].
  - eexists; split; [reflexivity|]. unfold additionalTypeIntUint8. rewrite lor_major by lia.
    split; [constructor; auto; change (2^8) with 256; lia|]. cbn [length]. rewrite be_bytes_length. reflexivity.
  - eexists; split; [reflexivity|]. unfold additionalTypeIntUint16. rewrite lor_major by lia.
    split; [constructor; auto; change (2^16) with 65536; lia|]. cbn [length]. rewrite be_bytes_length. reflexivity.
  - eexists; split; [reflexivity|]. unfold additionalTypeIntUint32. rewrite lor_major by lia.
    split; [constructor; auto; change (2^32) with 4294967296; lia|]. cbn [length]. rewrite be_bytes_length. reflexivity.
  - eexists; split; [reflexivity|]. unfold additionalTypeIntUint64. rewrite lor_major by lia.
    split; [constructor; auto|]. cbn [length]. rewrite be_bytes_length. reflexivity.
Qed.

(* for every major type and every 64-bit argument the prefix bytes are a head
   that parses back to exactly (major, argument), with the narrowest of the
   widths 1, 2, 4, 8 that holds the argument *)
Theorem prefix_wellformed m n dst r : m < 8 -> n < 2 ^ 64 ->
  exists h, appendCborTypePrefix dst (m * 32) n = dst ++ h /\ Head m n h /\
            parse_head (h ++ r) = Some (m, prefix_ai n, AVal n, r) /\
            length h = S (prefix_width n) /\
            (n < 2 ^ (8 * N.of_nat (prefix_width n))) /\
            (forall w, In w [1; 2; 4; 8]%nat -> n < 2 ^ (8 * N.of_nat w) -> (prefix_width n <= w)%nat).
Proof.
  intros Hm Hn. destruct (prefix_headA m n dst Hm Hn) as (h & E & HA & L).
  exists h. split; auto. split; [eapply HeadA_Head; eauto|]. split; [apply parse_head_complete; auto|].
  split; auto. unfold prefix_width.
  destruct (n <? 256) eqn:E1; [|destruct (n <? 65536) eqn:E2; [|destruct (n <? 4294967296) eqn:E3]].
  - split; [change (2 ^ (8 * N.of_nat 1)) with 256; lia|]. intros w [<-|[<-|[<-|[<-|[]]]]] Hw; lia.
  - split; [change (2 ^ (8 * N.of_nat 2)) with 65536; lia|]. intros w [<-|[<-|[<-|[<-|[]]]]] Hw; lia.
  - split; [change (2 ^ (8 * N.of_nat 4)) with 4294967296; lia|]. intros w [<-|[<-|[<-|[<-|[]]]]] Hw; lia.
  - split; [exact Hn|]. intros w [<-|[<-|[<-|[<-|[]]]]] Hw; lia.
Qed.

Lemma prefix_head m n dst : m < 8 -> n < 2 ^ 64 ->
  exists h, appendCborTypePrefix dst (m * 32) n = dst ++ h /\ Head m n h.
Proof.
  intros Hm Hn. destruct (prefix_headA m n dst Hm Hn) as (h & E & HA & _).
  exists h; split; auto. eapply HeadA_Head; eauto.
Qed.

Lemma append_head_head m l dst : m < 8 -> l < 2 ^ 64 ->
  exists h, append_head dst (m * 32) l = dst ++ h /\ Head m l h /\ (l <= 23 -> h = [m * 32 + l]).
Proof.
  intros Hm Hl. unfold append_head, additionalMax. destruct (l <=? 23) eqn:E.
  - eexists; split; [reflexivity|]. unfold to_byte. rewrite N.mod_small by lia. rewrite lor_major by lia.
    split; [constructor; lia|auto].
  - destruct (prefix_head m l dst Hm Hl) as (h & E1 & H). exists h. repeat split; auto. lia.
Qed.

(* ------------------------------------------------------------------ *)
(* "emits": appends exactly one item, whatever is already in dst       *)
(* ------------------------------------------------------------------ *)
Definition emits {A} (app : list N -> A -> list N) (v : A) (it : item) : Prop :=
  exists b, Cbor b it /\ forall dst, app dst v = dst ++ b.

Lemma emits_seq {A} (app : list N -> A -> list N) (spec : A -> item) (vals : list A) :
  Forall (fun v => emits app v (spec v)) vals ->
  exists b, CborSeq b (map spec vals) /\ forall dst, fold_left app vals dst = dst ++ b.
Proof.
  induction 1 as [|v vals (b & C & E) _ (bs & S & Es)].
  - exists []. split; [constructor|]. intros; cbn. rewrite app_nil_r. reflexivity.
  - exists (b ++ bs). split; [cbn [map]; constructor; auto|]. intros dst. cbn [fold_left].
    rewrite E, Es, app_assoc. reflexivity.
Qed.

Definition spec_slice {A} (spec : A -> item) (vals : list A) : item :=
  match vals with [] => IArrI [] | _ => IArr (map spec vals) end.

Lemma len_nil_iff {A} (l : list A) : (len l =? 0) = true <-> l = [].
Proof. unfold len. destruct l; cbn [length]; split; intros; try discriminate; auto; lia. Qed.

Lemma emits_slice {A} (app : list N -> A -> list N) (spec : A -> item) (vals : list A) :
  len vals < 2 ^ 64 -> Forall (fun v => emits app v (spec v)) vals ->
  emits (cbor_slice app) vals (spec_slice spec vals).
Proof.
  intros Hl Hv. unfold emits, cbor_slice. destruct vals as [|v0 vals'].
  - exists [159; 255]. split; [apply (C_arrI [] []); constructor|]. intros dst.
    unfold len; cbn [length N.of_nat N.eqb]. unfold cbor_AppendArrayEnd, cbor_AppendArrayStart.
    rewrite <- app_assoc. reflexivity.
  - set (vals := v0 :: vals') in *.
    destruct (emits_seq app spec vals Hv) as (b & S & E).
    destruct (append_head_head 4 (len vals) [] ltac:(lia) Hl) as (h & Eh & H & _).
    exists (h ++ b). split.
    + unfold spec_slice, vals. fold vals. constructor; auto. rewrite map_length. exact H.
    + intros dst. replace (len vals =? 0) with false by (unfold vals, len; cbn [length]; lia).
      rewrite E. change majorTypeArray with (4 * 32).
      destruct (append_head_head 4 (len vals) dst ltac:(lia) Hl) as (h' & Eh' & H' & _).
      rewrite Eh'. cbn [List.app] in Eh.
      assert (h' = h).
      { unfold append_head in *. destruct (len vals <=? additionalMax).
        - apply app_inv_head in Eh'. rewrite <- Eh'. cbn [List.app] in Eh. auto.
        - unfold appendCborTypePrefix in *. destruct (if len vals <? 256 then _ else _) as [bc mi].
          apply app_inv_head in Eh'. cbn [List.app] in Eh. congruence. }
      subst. rewrite app_assoc. reflexivity.
Qed.

(* heads do not depend on dst *)
Lemma append_head_dst m l dst : append_head dst m l = dst ++ append_head [] m l.
Proof.
  unfold append_head. destruct (l <=? additionalMax); [reflexivity|].
  unfold appendCborTypePrefix. destruct (if l <? 256 then _ else _). reflexivity.
Qed.

(* ------------------------------------------------------------------ *)
(* linear-time forms of the slice methods, equal to the model for all   *)
(* inputs; the harness glue evaluates these on the 65536-element cases  *)
(* (fold_left with append-at-the-end is quadratic under vm_compute)     *)
(* ------------------------------------------------------------------ *)
Definition dst_indep {A} (ap : list N -> A -> list N) : Prop := forall dst v, ap dst v = dst ++ ap [] v.

Lemma fold_left_indep {A} (ap : list N -> A -> list N) : dst_indep ap ->
  forall vals dst, fold_left ap vals dst = dst ++ flat_map (ap []) vals.
Proof.
  intros H. induction vals as [|v vals IH]; intros dst; cbn [fold_left flat_map].
  - rewrite app_nil_r. reflexivity.
  - rewrite IH, (H dst v), <- app_assoc. reflexivity.
Qed.

Definition cbor_slice_fast {A} (ap : list N -> A -> list N) (dst : list N) (vals : list A) : list N :=
  if len vals =? 0 then cbor_AppendArrayEnd (cbor_AppendArrayStart dst)
  else append_head dst majorTypeArray (len vals) ++ flat_map (ap []) vals.

Lemma cbor_slice_fast_eq {A} (ap : list N -> A -> list N) : dst_indep ap ->
  forall dst vals, cbor_slice ap dst vals = cbor_slice_fast ap dst vals.
Proof.
  intros H dst vals. unfold cbor_slice, cbor_slice_fast. destruct (len vals =? 0); [reflexivity|].
  apply fold_left_indep; auto.
Qed.

Lemma bool_indep : dst_indep cbor_AppendBool.
Proof. intros dst v. reflexivity. Qed.

Lemma string_indep : dst_indep cbor_AppendString.
Proof. intros dst s. unfold cbor_AppendString. rewrite append_head_dst, <- app_assoc. reflexivity. Qed.

Definition cbor_AppendBools_fast := cbor_slice_fast cbor_AppendBool.
Definition cbor_AppendStrings_fast (dst : list N) (vals : list (list N)) : list N :=
  append_head dst majorTypeArray (len vals) ++ flat_map (cbor_AppendString []) vals.

Theorem cbor_AppendBools_fast_eq dst vals : cbor_AppendBools dst vals = cbor_AppendBools_fast dst vals.
Proof. apply cbor_slice_fast_eq. exact bool_indep. Qed.

Theorem cbor_AppendStrings_fast_eq dst vals : cbor_AppendStrings dst vals = cbor_AppendStrings_fast dst vals.
Proof. unfold cbor_AppendStrings, cbor_AppendStrings_fast. apply fold_left_indep. exact string_indep. Qed.

(* ------------------------------------------------------------------ *)
(* strings                                                             *)
(* ------------------------------------------------------------------ *)
Lemma emits_string s : bytes_ok s -> len s < 2 ^ 64 -> emits cbor_AppendString s (IText s).
Proof.
  intros Hb Hl. destruct (append_head_head 3 (len s) [] ltac:(lia) Hl) as (h & E & H & _).
  exists (h ++ s). split; [constructor; auto|]. intros dst. unfold cbor_AppendString.
  rewrite append_head_dst. change majorTypeUtf8String with (3 * 32). rewrite E. cbn [app].
  rewrite <- app_assoc. reflexivity.
Qed.

Lemma emits_bytes s : bytes_ok s -> len s < 2 ^ 64 -> emits cbor_AppendBytes s (IBytes s).
Proof.
  intros Hb Hl. destruct (append_head_head 2 (len s) [] ltac:(lia) Hl) as (h & E & H & _).
  exists (h ++ s). split; [constructor; auto|]. intros dst. unfold cbor_AppendBytes.
  rewrite append_head_dst. change majorTypeByteString with (2 * 32). rewrite E. cbn [app].
  rewrite <- app_assoc. reflexivity.
Qed.

Lemma head_tag16 t : 256 <= t -> t < 65536 -> Head 6 t [217; to_byte (t / 256); to_byte (N.land t 255)].
Proof.
  intros H1 H2. pose proof (Head_2 6 t ltac:(lia) H2) as H. cbn [be_bytes] in H.
  change (6 * 32 + 25) with 217 in H. unfold to_byte.
  replace (t / 2 ^ (8 * N.of_nat 1)) with (t / 256) in H by reflexivity.
  replace (t / 2 ^ (8 * N.of_nat 0)) with t in H by (cbn; rewrite N.div_1_r; reflexivity).
  change 255 with (N.ones 8). rewrite N.land_ones. change (2 ^ 8) with 256.
  rewrite (N.mod_small (t mod 256)) by (apply N.mod_upper_bound; lia). exact H.
Qed.

Lemma emits_tag16_bytes t s : 256 <= t -> t < 65536 -> bytes_ok s -> len s < 2 ^ 64 ->
  emits (fun dst s => cbor_AppendBytes (tag16 dst t) s) s (ITag t (IBytes s)).
Proof.
  intros H1 H2 Hb Hl. destruct (emits_bytes s Hb Hl) as (b & C & E).
  exists ([217; to_byte (t / 256); to_byte (N.land t 255)] ++ b). split.
  - econstructor; eauto. apply head_tag16; auto.
  - intros dst. rewrite E. unfold tag16. rewrite <- !app_assoc. reflexivity.
Qed.

Lemma emits_hex s : bytes_ok s -> len s < 2 ^ 64 -> emits cbor_AppendHex s (ITag 263 (IBytes s)).
Proof. intros. apply (emits_tag16_bytes 263); auto; lia. Qed.
Lemma emits_ip s : bytes_ok s -> len s < 2 ^ 64 -> emits cbor_AppendIPAddr s (ITag 260 (IBytes s)).
Proof. intros. apply (emits_tag16_bytes 260); auto; lia. Qed.
Lemma emits_mac s : bytes_ok s -> len s < 2 ^ 64 -> emits cbor_AppendMACAddr s (ITag 260 (IBytes s)).
Proof. intros. apply (emits_tag16_bytes 260); auto; lia. Qed.

Lemma emits_json s : bytes_ok s -> len s < 2 ^ 64 -> emits cbor_AppendEmbeddedJSON s (ITag 262 (IBytes s)).
Proof.
  intros Hb Hl. destruct (emits_tag16_bytes 262 s ltac:(lia) ltac:(lia) Hb Hl) as (b & C & E).
  exists b. split; [exact C|]. intros dst. rewrite <- E. reflexivity.
Qed.

Lemma emits_cbor s : bytes_ok s -> len s < 2 ^ 64 -> emits cbor_AppendEmbeddedCBOR s (ITag 63 (IBytes s)).
Proof.
  intros Hb Hl. destruct (emits_bytes s Hb Hl) as (b & C & E).
  exists ([216; 63] ++ b). split.
  - econstructor; eauto. apply (Head_1 6 63); lia.
  - intros dst. unfold cbor_AppendEmbeddedCBOR. fold (cbor_AppendBytes ((dst ++ [N.lor majorTypeTags additionalTypeIntUint8]) ++ [additionalTypeEmbeddedCBOR]) s).
    rewrite E. rewrite <- !app_assoc. reflexivity.
Qed.

Lemma emits_nil : forall dst, cbor_AppendNil dst = dst ++ [246].
Proof. reflexivity. Qed.
Lemma Cbor_nil : Cbor [246] (ISimple 22).
Proof. apply (C_simple 22). lia. Qed.

Definition spec_stringer (o : option (list N)) : item := match o with None => ISimple 22 | Some s => IText s end.
Definition wf_str (s : list N) : Prop := bytes_ok s /\ len s < 2 ^ 64.
Definition wf_ostr (o : option (list N)) : Prop := match o with None => True | Some s => wf_str s end.

Lemma emits_stringer o : wf_ostr o -> emits cbor_AppendStringer o (spec_stringer o).
Proof.
  destruct o as [s|]; cbn.
  - intros [H1 H2]. apply emits_string; auto.
  - intros _. exists [246]. split; [apply Cbor_nil|reflexivity].
Qed.

Lemma emits_strings l : len l < 2 ^ 64 -> Forall wf_str l -> emits cbor_AppendStrings l (IArr (map IText l)).
Proof.
  intros Hl Hw.
  assert (F : Forall (fun v => emits cbor_AppendString v (IText v)) l).
  { eapply Forall_impl; [|exact Hw]. intros s [H1 H2]. apply emits_string; auto. }
  destruct (emits_seq _ _ _ F) as (b & S & E).
  destruct (append_head_head 4 (len l) [] ltac:(lia) Hl) as (h & Eh & H & _).
  exists (h ++ b). split; [constructor; auto; rewrite map_length; exact H|].
  intros dst. unfold cbor_AppendStrings. rewrite E, append_head_dst. change majorTypeArray with (4 * 32).
  rewrite Eh. cbn [app]. rewrite app_assoc. reflexivity.
Qed.

Lemma emits_stringers l : Forall wf_ostr l -> emits cbor_AppendStringers l (IArrI (map spec_stringer l)).
Proof.
  intros Hw.
  assert (F : Forall (fun v => emits cbor_AppendStringer v (spec_stringer v)) l).
  { eapply Forall_impl; [|exact Hw]. intros s. apply emits_stringer. }
  destruct (emits_seq _ _ _ F) as (b & S & E).
  exists (159 :: b ++ [255]). split; [constructor; auto|].
  intros dst. unfold cbor_AppendStringers. destruct l as [|v0 rest].
  - cbn in E. specialize (E []). cbn in E. subst b. unfold cbor_AppendArrayEnd, cbor_AppendArrayStart.
    rewrite <- app_assoc. reflexivity.
  - specialize (E (cbor_AppendArrayStart dst)). cbn [fold_left] in E. rewrite E.
    unfold cbor_AppendArrayEnd, cbor_AppendArrayStart. rewrite <- !app_assoc. reflexivity.
Qed.

(* ------------------------------------------------------------------ *)
(* booleans, integers                                                  *)
(* ------------------------------------------------------------------ *)
Lemma emits_bool v : emits cbor_AppendBool v (ISimple (if v then 21 else 20)).
Proof.
  destruct v; [exists [245]|exists [244]]; (split; [|reflexivity]).
  - apply (C_simple 21); lia.
  - apply (C_simple 20); lia.
Qed.

(* the value a CBOR integer item denotes *)
Definition item_int_value (i : item) : option Z :=
  match i with IUint n => Some (Z.of_N n) | INeg n => Some (-1 - Z.of_N n)%Z | _ => None end.

Definition item_of_int (z : Z) : item := if (z <? 0)%Z then INeg (Z.to_N (-1 - z)) else IUint (Z.to_N z).

Lemma item_of_int_value z : item_int_value (item_of_int z) = Some z.
Proof. unfold item_of_int. destruct (z <? 0)%Z eqn:E; cbn [item_int_value]; f_equal; lia. Qed.

Definition int64_ok (z : Z) : Prop := (- two63Z <= z < two63Z)%Z.

Lemma neg_content z : int64_ok z -> (z < 0)%Z -> wrap64 (wrap64 (- z) - 1) = (-1 - z)%Z.
Proof. unfold int64_ok, wrap64, two63Z, two64Z. intros. lia. Qed.

Lemma emits_int z : int64_ok z -> emits cbor_AppendInt64 z (item_of_int z).
Proof.
  intros Hz. unfold emits, cbor_AppendInt64, item_of_int.
  destruct (z <? 0)%Z eqn:E.
  - rewrite neg_content by (auto; lia). set (c := (-1 - z)%Z).
    assert (Hc : (0 <= c < two63Z)%Z) by (unfold c, int64_ok, two63Z in *; lia).
    destruct (c <=? Z.of_N additionalMax)%Z eqn:E2; unfold additionalMax in E2.
    + exists [1 * 32 + Z.to_N c]. split; [constructor; constructor; lia|]. intros dst.
      rewrite Z.mod_small by lia. change majorTypeNegativeInt with (1 * 32). rewrite lor_major by lia. reflexivity.
    + rewrite Z.mod_small by (unfold two63Z, two64Z in *; lia).
      destruct (prefix_head 1 (Z.to_N c) [] ltac:(lia) ltac:(unfold two63Z in *; lia)) as (h & Eh & H).
      exists h. split; [constructor; auto|]. intros dst. change majorTypeNegativeInt with (1 * 32).
      unfold appendCborTypePrefix in *. destruct (if Z.to_N c <? 256 then _ else _). cbn [app] in Eh. rewrite Eh. reflexivity.
  - assert (Hc : (0 <= z < two63Z)%Z) by (unfold int64_ok, two63Z in *; lia).
    destruct (z <=? Z.of_N additionalMax)%Z eqn:E2; unfold additionalMax in E2.
    + exists [0 * 32 + Z.to_N z]. split; [constructor; constructor; lia|]. intros dst.
      rewrite Z.mod_small by lia. change majorTypeUnsignedInt with (0 * 32). rewrite lor_major by lia. reflexivity.
    + rewrite Z.mod_small by (unfold two63Z, two64Z in *; lia).
      destruct (prefix_head 0 (Z.to_N z) [] ltac:(lia) ltac:(unfold two63Z in *; lia)) as (h & Eh & H).
      exists h. split; [constructor; auto|]. intros dst. change majorTypeUnsignedInt with (0 * 32).
      unfold appendCborTypePrefix in *. destruct (if Z.to_N z <? 256 then _ else _). cbn [app] in Eh. rewrite Eh. reflexivity.
Qed.

Lemma emits_uint n : n < 2 ^ 64 -> emits cbor_AppendUint64 n (IUint n).
Proof.
  intros Hn. unfold emits, cbor_AppendUint64, additionalMax. destruct (n <=? 23) eqn:E.
  - exists [0 * 32 + n]. split; [constructor; constructor; lia|]. intros dst. unfold to_byte.
    rewrite N.mod_small by lia. change majorTypeUnsignedInt with (0 * 32). rewrite lor_major by lia. reflexivity.
  - destruct (prefix_head 0 n [] ltac:(lia) Hn) as (h & Eh & H).
    exists h. split; [constructor; auto|]. intros dst. change majorTypeUnsignedInt with (0 * 32).
    unfold appendCborTypePrefix in *. destruct (if n <? 256 then _ else _). cbn [app] in Eh. rewrite Eh. reflexivity.
Qed.

(* ------------------------------------------------------------------ *)
(* floats                                                              *)
(* ------------------------------------------------------------------ *)
Definition canon32 (b : N) : N := if f32_is_nan b then f32_canon_nan else b.
Definition canon64 (b : N) : N := if f64_is_nan b then f64_canon_nan else b.

Lemma emits_f32 b : b < 2 ^ 32 -> emits cbor_AppendFloat32 b (IF32 (canon32 b)).
Proof.
  intros Hb. unfold emits, cbor_AppendFloat32, canon32. destruct (f32_is_nan b).
  - exists (250 :: be_bytes 4 f32_canon_nan). split; [constructor; vm_compute; reflexivity|]. reflexivity.
  - exists (250 :: be_bytes 4 b). split; [constructor; auto|]. intros dst.
    destruct (b =? f32_pos_inf) eqn:E1; [apply N.eqb_eq in E1; subst; reflexivity|].
    destruct (b =? f32_neg_inf) eqn:E2; [apply N.eqb_eq in E2; subst; reflexivity|].
    rewrite <- app_assoc. reflexivity.
Qed.

Lemma emits_f64 b : b < 2 ^ 64 -> emits cbor_AppendFloat64 b (IF64 (canon64 b)).
Proof.
  intros Hb. unfold emits, cbor_AppendFloat64, canon64. destruct (f64_is_nan b).
  - exists (251 :: be_bytes 8 f64_canon_nan). split; [constructor; vm_compute; reflexivity|]. reflexivity.
  - exists (251 :: be_bytes 8 b). split; [constructor; auto|]. intros dst.
    destruct (b =? f64_pos_inf) eqn:E1; [apply N.eqb_eq in E1; subst; reflexivity|].
    destruct (b =? f64_neg_inf) eqn:E2; [apply N.eqb_eq in E2; subst; reflexivity|].
    rewrite <- app_assoc. reflexivity.
Qed.

(* non-NaN floats are carried bit-exactly *)
Lemma canon32_exact b : f32_is_nan b = false -> canon32 b = b.
Proof. unfold canon32. intros ->. reflexivity. Qed.
Lemma canon64_exact b : f64_is_nan b = false -> canon64 b = b.
Proof. unfold canon64. intros ->. reflexivity. Qed.
Lemma canon32_nan b : f32_is_nan b = true -> f32_is_nan (canon32 b) = true.
Proof. unfold canon32. intros ->. vm_compute. reflexivity. Qed.
Lemma canon64_nan b : f64_is_nan b = true -> f64_is_nan (canon64 b) = true.
Proof. unfold canon64. intros ->. vm_compute. reflexivity. Qed.

(* ------------------------------------------------------------------ *)
(* interface, type, prefix                                             *)
(* ------------------------------------------------------------------ *)
Definition spec_iface (m : list N + list N) : item :=
  match m with inl j => ITag 262 (IBytes j) | inr e => IText (lit_marshaling_error ++ e) end.
Definition wf_iface (m : list N + list N) : Prop :=
  match m with inl j => wf_str j | inr e => wf_str (lit_marshaling_error ++ e) end.

Lemma emits_iface m : wf_iface m -> emits cbor_AppendInterface m (spec_iface m).
Proof.
  destruct m as [j|e]; cbn; intros [H1 H2].
  - apply emits_json; auto.
  - destruct (emits_string _ H1 H2) as (b & C & E). exists b. split; auto.
Qed.

Definition spec_type (t : option (list N)) : item := match t with None => IText lit_nil | Some s => IText s end.
Lemma emits_type t : wf_ostr t -> emits cbor_AppendType t (spec_type t).
Proof.
  destruct t as [s|]; cbn.
  - intros [H1 H2]. destruct (emits_string _ H1 H2) as (b & C & E). exists b. split; auto.
  - intros _. assert (W : wf_str lit_nil).
    { split; [|vm_compute; reflexivity]. unfold lit_nil, bytes_ok, byte_ok. repeat constructor. }
    destruct W as [H1 H2]. destruct (emits_string _ H1 H2) as (b & C & E). exists b. split; auto.
Qed.

Lemma simpleMaskLength_range mask : (-1 <= simpleMaskLength mask <= 8 * Z.of_nat (length mask))%Z.
Proof.
  induction mask as [|v rest IH]; cbn [simpleMaskLength length]; [lia|].
  destruct (v =? 255).
  - destruct (simpleMaskLength rest) as [|p|p] eqn:E; try lia. destruct p; lia.
  - assert (L : forall f x, fst (leading_ones f x) <= N.of_nat f).
    { induction f as [|f IHf]; intros x; cbn [leading_ones]; [cbn; lia|].
      destruct (N.land x 128 =? 0); [cbn; lia|].
      specialize (IHf ((x * 2) mod 256)). destruct (leading_ones f ((x * 2) mod 256)). cbn [fst] in *. lia. }
    specialize (L 8%nat v). destruct (leading_ones 8 v) as [c v']. cbn [fst] in L.
    destruct (negb (v' =? 0)); [lia|]. destruct (forallb _ rest); lia.
Qed.

Definition spec_prefix (ip mask : list N) : item :=
  ITag 261 (IMap [(IBytes ip, IUint (Z.to_N (mask_size_ones mask mod 256)))]).

Lemma emits_prefix ip mask : wf_str ip ->
  emits (fun dst (p : list N * list N) => cbor_AppendIPPrefix dst (fst p) (snd p)) (ip, mask) (spec_prefix ip mask).
Proof.
  intros [H1 H2]. destruct (emits_bytes ip H1 H2) as (b & C & E).
  set (ml := Z.to_N (mask_size_ones mask mod 256)).
  assert (Hml : ml < 2 ^ 64).
  { unfold ml. pose proof (Z.mod_pos_bound (mask_size_ones mask) 256 ltac:(lia)). change (2 ^ 64) with 18446744073709551616. lia. }
  destruct (emits_uint ml Hml) as (bu & Cu & Eu).
  exists ([217; to_byte (261 / 256); to_byte (N.land 261 255)] ++ [161] ++ b ++ bu ++ []). split.
  - unfold spec_prefix. fold ml. econstructor; [apply head_tag16; lia|].
    apply (C_map [161] (b ++ bu ++ []) [(IBytes ip, IUint ml)]).
    + apply (Head_imm 5 1); lia.
    + constructor; auto. constructor.
  - intros dst. unfold cbor_AppendIPPrefix. cbn [fst snd]. fold ml.
    unfold cbor_AppendUint8, cbor_AppendUint. rewrite Eu, E. unfold tag16.
    rewrite app_nil_r, <- !app_assoc. reflexivity.
Qed.

  Lemma Forall_true {A} (P : A -> Prop) l : (forall x, P x) -> Forall P l.
  Proof. intros H. induction l; constructor; auto. Qed.

  Lemma appendKey_nonempty dst k : dst <> [] -> cbor_AppendKey dst k = cbor_AppendString dst k.
  Proof.
    intros H. unfold cbor_AppendKey. destruct dst; [congruence|]. unfold len. cbn [length].
    replace (N.of_nat (S (length dst)) <? 1) with false by lia. reflexivity.
  Qed.

  Lemma app_nonempty {A} (a b : list A) : a <> [] -> a ++ b <> [].
  Proof. destruct a; cbn; congruence. Qed.

(* ------------------------------------------------------------------ *)
(* time, duration (float conversions are Section variables)            *)
(* ------------------------------------------------------------------ *)
Section Time.
  Variable f64_of_time : Z -> N -> N.
  Variable f64_of_dur : Z -> Z -> N.
  Hypothesis f64_of_time_range : forall s n, f64_of_time s n < 2 ^ 64.
  Hypothesis f64_of_dur_range : forall d u, f64_of_dur d u < 2 ^ 64.

  Notation enc_prim := (CborEnc.enc_prim f64_of_time f64_of_dur).
  Notation enc_cval := (CborEnc.enc_cval f64_of_time f64_of_dur).
  Notation enc_fields := (CborEnc.enc_fields f64_of_time f64_of_dur).
  Notation enc_event := (CborEnc.enc_event f64_of_time f64_of_dur).
  Notation enc_context := (CborEnc.enc_context f64_of_time f64_of_dur).

  Definition spec_time (t : Z * N) : item :=
    let '(secs, nanos) := t in
    if nanos =? 0 then ITag 1 (item_of_int secs) else ITag 1 (IF64 (canon64 (f64_of_time secs nanos))).

  Lemma head_tag1 : Head 6 1 [193].
  Proof. apply (Head_imm 6 1); lia. Qed.

  Lemma emits_time t : int64_ok (fst t) -> emits (cbor_AppendTime f64_of_time) t (spec_time t).
  Proof.
    destruct t as [secs nanos]. cbn [fst]. intros Hs. unfold emits, cbor_AppendTime, spec_time.
    destruct (nanos =? 0).
    - unfold appendIntegerTimestamp, item_of_int. destruct (secs <? 0)%Z eqn:E.
      + rewrite neg_content by (auto; lia). set (c := (-1 - secs)%Z).
        assert (Hc : (0 <= c < two63Z)%Z) by (unfold c, int64_ok, two63Z in *; lia).
        rewrite Z.mod_small by (unfold two63Z, two64Z in *; lia).
        destruct (prefix_head 1 (Z.to_N c) [] ltac:(lia) ltac:(unfold two63Z in *; lia)) as (h & Eh & H).
        exists ([193] ++ h). split; [econstructor; [apply head_tag1|constructor; auto]|]. intros dst.
        change majorTypeNegativeInt with (1 * 32).
        unfold appendCborTypePrefix in *. destruct (if Z.to_N c <? 256 then _ else _). cbn [app] in Eh. rewrite Eh.
        rewrite <- app_assoc. reflexivity.
      + assert (Hc : (0 <= secs < two63Z)%Z) by (unfold int64_ok, two63Z in *; lia).
        rewrite Z.mod_small by (unfold two63Z, two64Z in *; lia).
        destruct (prefix_head 0 (Z.to_N secs) [] ltac:(lia) ltac:(unfold two63Z in *; lia)) as (h & Eh & H).
        exists ([193] ++ h). split; [econstructor; [apply head_tag1|constructor; auto]|]. intros dst.
        change majorTypeUnsignedInt with (0 * 32).
        unfold appendCborTypePrefix in *. destruct (if Z.to_N secs <? 256 then _ else _). cbn [app] in Eh. rewrite Eh.
        rewrite <- app_assoc. reflexivity.
    - destruct (emits_f64 _ (f64_of_time_range secs nanos)) as (b & C & E).
      exists ([193] ++ b). split; [econstructor; [apply head_tag1|auto]|]. intros dst.
      unfold appendFloatTimestamp. rewrite E, <- app_assoc. reflexivity.
  Qed.

  (* an integer timestamp always uses the long form of the head (never the
     one-byte immediate form): 1970-01-01T00:00:05Z is c1 18 05 *)
  Lemma time_head_not_immediate secs dst : int64_ok secs ->
    (length (appendIntegerTimestamp dst secs) >= length dst + 3)%nat.
  Proof.
    intros Hs. unfold appendIntegerTimestamp.
    destruct (if (secs <? 0)%Z then _ else _) as [major val].
    unfold appendCborTypePrefix. destruct (if val <? 256 then _ else _) as [bc mi] eqn:E.
    rewrite !app_length. cbn [length]. rewrite be_bytes_length.
    destruct (val <? 256); [inversion E; lia|]. destruct (val <? 65536); [inversion E; lia|].
    destruct (val <? 4294967296); inversion E; lia.
  Qed.

  Definition spec_dur (unit : Z) (useInt : bool) (d : Z) : item :=
    if useInt then item_of_int (wrap64 (Z.quot d unit)) else IF64 (canon64 (f64_of_dur d unit)).

  Lemma emits_dur unit useInt d : emits (cbor_AppendDuration f64_of_dur unit useInt) d (spec_dur unit useInt d).
  Proof.
    unfold cbor_AppendDuration, spec_dur. destruct useInt.
    - apply emits_int. apply wrap64_range.
    - apply emits_f64. apply f64_of_dur_range.
  Qed.

  (* ---------------------------------------------------------------- *)
  (* all primitives as one datatype                                    *)
  (* ---------------------------------------------------------------- *)


  (* the item each primitive carries *)
  Definition spec_prim (p : prim) : item :=
    match p with
    | PString s => IText s | PStrings l => IArr (map IText l)
    | PStringer o => spec_stringer o | PStringers l => IArrI (map spec_stringer l)
    | PBytes s => IBytes s | PHex s => ITag 263 (IBytes s)
    | PJSON s => ITag 262 (IBytes s) | PCBOR s => ITag 63 (IBytes s)
    | PBool b => ISimple (if b then 21 else 20)
    | PBools l => spec_slice (fun b : bool => ISimple (if b then 21 else 20)) l
    | PInt z => item_of_int z | PInts l => spec_slice item_of_int l
    | PUint n => IUint n | PUints l => spec_slice IUint l
    | PF32 b => IF32 (canon32 b) | PFs32 l => spec_slice (fun b => IF32 (canon32 b)) l
    | PF64 b => IF64 (canon64 b) | PFs64 l => spec_slice (fun b => IF64 (canon64 b)) l
    | PTime t => spec_time t | PTimes l => spec_slice spec_time l
    | PDur u i d => spec_dur u i d | PDurs u i l => spec_slice (spec_dur u i) l
    | PIface m => spec_iface m | PType t => spec_type t
    | PIP ip => ITag 260 (IBytes ip) | PMAC ha => ITag 260 (IBytes ha)
    | PPrefix ip mask => spec_prefix ip mask | PNil => ISimple 22
    end.

  (* what Go guarantees of the arguments: bytes are bytes, lengths fit a
     uint64, integers are in the range of their type *)
  Definition wf_prim (p : prim) : Prop :=
    match p with
    | PString s | PBytes s | PHex s | PJSON s | PCBOR s | PIP s | PMAC s => wf_str s
    | PStrings l => len l < 2 ^ 64 /\ Forall wf_str l
    | PStringer o | PType o => wf_ostr o
    | PStringers l => Forall wf_ostr l
    | PBool _ | PNil | PDur _ _ _ => True
    | PBools l => len l < 2 ^ 64
    | PInt z => int64_ok z | PInts l => len l < 2 ^ 64 /\ Forall int64_ok l
    | PUint n => n < 2 ^ 64 | PUints l => len l < 2 ^ 64 /\ Forall (fun n => n < 2 ^ 64) l
    | PF32 b => b < 2 ^ 32 | PFs32 l => len l < 2 ^ 64 /\ Forall (fun b => b < 2 ^ 32) l
    | PF64 b => b < 2 ^ 64 | PFs64 l => len l < 2 ^ 64 /\ Forall (fun b => b < 2 ^ 64) l
    | PTime t => int64_ok (fst t) | PTimes l => len l < 2 ^ 64 /\ Forall (fun t => int64_ok (fst t)) l
    | PDurs _ _ l => len l < 2 ^ 64
    | PIface m => wf_iface m
    | PPrefix ip _ => wf_str ip
    end.


  Theorem prim_wellformed p : wf_prim p -> emits enc_prim p (spec_prim p).
  Proof.
    destruct p; cbn [wf_prim CborEnc.enc_prim spec_prim]; intros W.
    - destruct W; apply emits_string; auto.
    - destruct W; apply emits_strings; auto.
    - apply emits_stringer; auto.
    - apply emits_stringers; auto.
    - destruct W; apply emits_bytes; auto.
    - destruct W; apply emits_hex; auto.
    - destruct W; apply emits_json; auto.
    - destruct W; apply emits_cbor; auto.
    - apply emits_bool.
    - apply emits_slice; auto. apply Forall_true. apply emits_bool.
    - apply emits_int; auto.
    - destruct W as [W1 W2]. apply emits_slice; auto. eapply Forall_impl; [|exact W2]. apply emits_int.
    - apply emits_uint; auto.
    - destruct W as [W1 W2]. apply emits_slice; auto. eapply Forall_impl; [|exact W2]. apply emits_uint.
    - apply emits_f32; auto.
    - destruct W as [W1 W2]. apply emits_slice; auto. eapply Forall_impl; [|exact W2]. apply emits_f32.
    - apply emits_f64; auto.
    - destruct W as [W1 W2]. apply emits_slice; auto. eapply Forall_impl; [|exact W2]. apply emits_f64.
    - apply emits_time; auto.
    - destruct W as [W1 W2]. apply (emits_slice (cbor_AppendTime f64_of_time)); auto.
      eapply Forall_impl; [|exact W2]. apply emits_time.
    - apply emits_dur.
    - apply (emits_slice (cbor_AppendDuration f64_of_dur unit useInt)); auto. apply Forall_true. apply emits_dur.
    - apply emits_iface; auto.
    - apply emits_type; auto.
    - destruct W; apply emits_ip; auto.
    - destruct W; apply emits_mac; auto.
    - destruct (emits_prefix ip mask W) as (b & C & E). exists b. split; auto.
    - exists [246]. split; [apply Cbor_nil|reflexivity].
  Qed.

  (* ---------------------------------------------------------------- *)
  (* nesting: Arr() and Dict() around primitives, to any depth         *)
  (* ---------------------------------------------------------------- *)


  Fixpoint spec_cval (v : cval) : item :=
    match v with
    | VP p => spec_prim p
    | VArr l => IArrI (map spec_cval l)
    | VDict kvs => IMapI (map (fun kv => (IText (fst kv), spec_cval (snd kv))) kvs)
    end.

  Fixpoint wf_cval (v : cval) : Prop :=
    match v with
    | VP p => wf_prim p
    | VArr l => (fix all (l : list cval) : Prop := match l with [] => True | x :: t => wf_cval x /\ all t end) l
    | VDict kvs =>
        (fix all (l : list (list N * cval)) : Prop :=
           match l with [] => True | (k, x) :: t => wf_str k /\ wf_cval x /\ all t end) kvs
    end.


  Definition spec_fields (kvs : list (list N * cval)) : list (item * item) :=
    map (fun kv => (IText (fst kv), spec_cval (snd kv))) kvs.

  Definition wf_fields (kvs : list (list N * cval)) : Prop :=
    Forall (fun kv => wf_str (fst kv) /\ wf_cval (snd kv)) kvs.



  Lemma cval_ind' (P : cval -> Prop) :
    (forall p, P (VP p)) ->
    (forall l, Forall P l -> P (VArr l)) ->
    (forall kvs, Forall (fun kv => P (snd kv)) kvs -> P (VDict kvs)) ->
    forall v, P v.
  Proof.
    intros HP HA HD. fix IH 1. intros [p|l|kvs].
    - apply HP.
    - apply HA. induction l as [|x t IHl]; constructor; auto.
    - apply HD. induction kvs as [|[k x] t IHl]; constructor; auto.
  Qed.

  Theorem cval_wellformed : forall v, wf_cval v -> Cbor (enc_cval v) (spec_cval v).
  Proof.
    induction v as [p|l IHl|kvs IHl] using cval_ind'; intros W.
    - destruct (prim_wellformed p W) as (b & C & E). cbn [CborEnc.enc_cval spec_cval]. rewrite E. exact C.
    - cbn [CborEnc.enc_cval spec_cval].
      assert (G : forall dst, exists b, CborSeq b (map spec_cval l) /\
                (fix go (l : list cval) (dst : list N) : list N :=
                   match l with [] => dst | x :: t => go t (cbor_AppendArrayDelim dst ++ enc_cval x) end) l dst = dst ++ b).
      { clear -IHl W. induction l as [|x t IHt]; intros dst.
        - exists []. split; [constructor|rewrite app_nil_r; reflexivity].
        - cbn in W. destruct W as [Wx Wt]. inversion IHl as [|? ? Px Pt]; subst.
          destruct (IHt Pt Wt (cbor_AppendArrayDelim dst ++ enc_cval x)) as (b & S & E).
          exists (enc_cval x ++ b). split; [cbn [map]; constructor; auto|].
          rewrite E. unfold cbor_AppendArrayDelim. rewrite app_assoc. reflexivity. }
      destruct (G (cbor_AppendArrayStart [])) as (b & S & E). rewrite E.
      unfold cbor_AppendArrayEnd, cbor_AppendArrayStart. cbn [app]. apply (C_arrI b); auto.
    - cbn [CborEnc.enc_cval spec_cval].
      assert (G : forall dst, dst <> [] -> exists b, CborPairs b (map (fun kv => (IText (fst kv), spec_cval (snd kv))) kvs) /\
                (fix go (l : list (list N * cval)) (dst : list N) : list N :=
                   match l with [] => dst | (k, x) :: t => go t (cbor_AppendKey dst k ++ enc_cval x) end) kvs dst = dst ++ b).
      { clear -IHl W. induction kvs as [|[k x] t IHt]; intros dst Hd.
        - exists []. split; [constructor|rewrite app_nil_r; reflexivity].
        - cbn in W. destruct W as [[Wk1 Wk2] [Wx Wt]]. inversion IHl as [|? ? Px Pt]; subst. cbn [snd] in Px.
          destruct (emits_string k Wk1 Wk2) as (bk & Ck & Ek).
          assert (Hd' : cbor_AppendKey dst k ++ enc_cval x <> []).
          { rewrite appendKey_nonempty, Ek by auto. rewrite <- app_assoc. apply app_nonempty; auto. }
          destruct (IHt Pt Wt _ Hd') as (b & S & E).
          exists (bk ++ enc_cval x ++ b). split; [cbn [map fst snd]; constructor; auto|].
          rewrite E, appendKey_nonempty, Ek by auto. rewrite <- !app_assoc. reflexivity. }
      destruct (G (cbor_AppendBeginMarker []) ltac:(discriminate)) as (b & S & E). rewrite E.
      unfold cbor_AppendEndMarker, cbor_AppendBeginMarker. cbn [app]. apply (C_mapI b); auto.
  Qed.

  Lemma fields_pairs kvs : wf_fields kvs -> forall dst, dst <> [] ->
    exists b, CborPairs b (spec_fields kvs) /\ enc_fields dst kvs = dst ++ b.
  Proof.
    induction 1 as [|[k x] t [[Wk1 Wk2] Wx] Wt IH]; intros dst Hd.
    - exists []. split; [constructor|cbn; rewrite app_nil_r; reflexivity].
    - cbn [fst snd] in *. destruct (emits_string k Wk1 Wk2) as (bk & Ck & Ek).
      assert (Hd' : cbor_AppendKey dst k ++ enc_cval x <> []).
      { rewrite appendKey_nonempty, Ek by auto. rewrite <- app_assoc. apply app_nonempty; auto. }
      destruct (IH _ Hd') as (b & S & E).
      exists (bk ++ enc_cval x ++ b). split.
      + unfold spec_fields. cbn [map fst snd]. constructor; auto. apply cval_wellformed; auto.
      + unfold CborEnc.enc_fields in *. cbn [fold_left fst snd]. rewrite E, appendKey_nonempty, Ek by auto.
        rewrite <- !app_assoc. reflexivity.
  Qed.

  (* every event: one indefinite-length map, text-string keys, an even number
     of items (the pairs), with the values of spec_cval *)
  Theorem event_wellformed kvs : wf_fields kvs ->
    Cbor (enc_event kvs) (IMapI (spec_fields kvs)) /\ event_shape (IMapI (spec_fields kvs)).
  Proof.
    intros W. destruct (fields_pairs kvs W (cbor_AppendBeginMarker []) ltac:(discriminate)) as (b & S & E).
    split.
    - unfold CborEnc.enc_event, cbor_AppendLineBreak, cbor_AppendEndMarker. rewrite E.
      unfold cbor_AppendBeginMarker. cbn [app]. apply (C_mapI b); auto.
    - exists (spec_fields kvs). split; auto. unfold spec_fields. apply Forall_forall. intros kv H.
      apply in_map_iff in H as (x & <- & _). reflexivity.
  Qed.

  Corollary event_parses kvs : wf_fields kvs -> parse_cbor (enc_event kvs) = Some (IMapI (spec_fields kvs)).
  Proof. intros W. apply parse_cbor_complete. apply event_wellformed; auto. Qed.

  (* AppendKey on an empty buffer opens the map itself *)
  Lemma appendKey_empty k : cbor_AppendKey [] k = cbor_AppendString (cbor_AppendBeginMarker []) k.
  Proof. reflexivity. Qed.

  (* a logger context is the begin marker followed by its fields, without the
     end marker; AppendObjectData drops that begin marker when the context is
     spliced into an event (log.go newEvent, context.go): the result is the
     event of the concatenated field lists *)


  Theorem event_with_context ctx ev : wf_fields ctx -> wf_fields ev ->
    cbor_AppendLineBreak (cbor_AppendEndMarker
      (enc_fields (cbor_AppendObjectData (cbor_AppendBeginMarker []) (enc_context ctx)) ev))
    = enc_event (ctx ++ ev).
  Proof.
    intros Wc We. unfold CborEnc.enc_event, CborEnc.enc_context. f_equal. f_equal.
    destruct (fields_pairs ctx Wc (cbor_AppendBeginMarker []) ltac:(discriminate)) as (b & S & E).
    unfold CborEnc.enc_fields at 3. rewrite fold_left_app. fold (enc_fields (cbor_AppendBeginMarker []) ctx).
    rewrite E. unfold cbor_AppendObjectData, cbor_AppendBeginMarker. cbn [app tl]. reflexivity.
  Qed.

  (* a stream of events parses as the list of their maps *)
  Theorem stream_wellformed evs : Forall wf_fields evs ->
    Forall2 Cbor (map enc_event evs) (map (fun kvs => IMapI (spec_fields kvs)) evs).
  Proof.
    induction 1 as [|kvs t W _ IH]; cbn [map]; constructor; auto. apply event_wellformed; auto.
  Qed.
End Time.
