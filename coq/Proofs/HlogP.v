(* Proofs for Misc/Hlog.v (response proxy) and Misc/HlogHeap.v (request isolation). *)
From Verif Require Import Base.Prelude Misc.Hlog Misc.HlogHeap.

(* ================================================================== *)
(* Part 1: the proxy                                                   *)
(* ================================================================== *)
Section Proxy.
Open Scope Z_scope.

Lemma wsum_app b l1 l2 : wsum b (l1 ++ l2) = wsum (wsum b l1) l2.
Proof. unfold wsum. apply fold_left_app. Qed.

Lemma header_calls_app a b : header_calls (a ++ b) = header_calls a ++ header_calls b.
Proof. unfold header_calls. apply flat_map_app. Qed.

Lemma accepted_calls_app a b : accepted_calls (a ++ b) = accepted_calls a ++ accepted_calls b.
Proof. unfold accepted_calls. apply flat_map_app. Qed.

Lemma first_header_hd calls : first_header calls = hd 0 (header_calls calls).
Proof. induction calls as [|[c|l n|l n|] t IH]; cbn; auto. Qed.

(* one step, any state without a tee *)
Record step_facts (k : kind) (p : proxy) (x : op) (p' : proxy) (calls : list ucall) : Prop := {
  sf_tee : p_tee p' = false;
  sf_bytes : p_bytes p' = wsum (p_bytes p) (accepted_list k [x]);
  sf_acc : accepted_calls calls = accepted_list k [x];
  sf_written : p_wroteHeader p = true ->
               p_wroteHeader p' = true /\ p_code p' = p_code p /\ header_calls calls = [];
  sf_fresh : p_wroteHeader p = false ->
             match x with
             | OWriteHeader c => p_wroteHeader p' = true /\ p_code p' = c /\ header_calls calls = [c]
             | _ => if body_write k x
                    then p_wroteHeader p' = true /\ p_code p' = 200 /\ header_calls calls = [200]
                    else p_wroteHeader p' = false /\ p_code p' = p_code p /\ header_calls calls = []
             end
}.

Lemma step_ok k p x : p_tee p = false -> step_facts k p x (fst (step k p x)) (snd (step k p x)).
Proof.
  intros T. destruct p as [wh code bytes tee]. cbn in T. subst tee.
  destruct x as [c|len o|len o|]; destruct k; destruct wh;
    cbn [step write write_header maybe_write_header read_from_fancy add_bytes fst snd
         p_wroteHeader p_code p_bytes p_tee];
    try (destruct (len =? 0) eqn:E);
    cbn [step write write_header maybe_write_header read_from_fancy add_bytes fst snd
         p_wroteHeader p_code p_bytes p_tee app];
    (constructor;
     [ reflexivity
     | unfold accepted_list, wsum; cbn [flat_map body_write accepted app fold_left negb]; try rewrite E; cbn [negb app fold_left]; reflexivity
     | unfold accepted_list; cbn [accepted_calls flat_map body_write accepted app negb]; try rewrite E; cbn [negb app]; reflexivity
     | intros W; try discriminate W; cbn [header_calls flat_map app]; auto
     | intros W; try discriminate W; cbn [body_write negb]; try rewrite E; cbn [negb header_calls flat_map app]; auto ]).
Qed.

(* after the header has been written nothing changes the code, and no further WriteHeader reaches the writer *)
Lemma run_written k : forall ops p, p_tee p = false -> p_wroteHeader p = true ->
  let '(p', calls) := run k p ops in
  p_tee p' = false /\ p_wroteHeader p' = true /\ p_code p' = p_code p /\ header_calls calls = [] /\
  p_bytes p' = wsum (p_bytes p) (accepted_list k ops) /\ accepted_calls calls = accepted_list k ops.
Proof.
  induction ops as [|x t IH]; intros p T W; cbn [run].
  - cbn. repeat split; auto.
  - pose proof (step_ok k p x T) as F. destruct (step k p x) as [p1 c1]. cbn [fst snd] in F.
    destruct F as [F1 F2 F3 F4 _]. destruct (F4 W) as [W1 [C1 H1]].
    specialize (IH p1 F1 W1). destruct (run k p1 t) as [p2 c2].
    destruct IH as [T2 [W2 [C2 [H2 [B2 A2]]]]].
    repeat split; auto.
    + congruence.
    + rewrite header_calls_app, H1, H2. reflexivity.
    + change (x :: t) with ([x] ++ t). unfold accepted_list in *. rewrite flat_map_app, wsum_app. rewrite <- F2. exact B2.
    + change (x :: t) with ([x] ++ t). unfold accepted_list in *. rewrite flat_map_app, accepted_calls_app. congruence.
Qed.

Lemma run_fresh k : forall ops p, p_tee p = false -> p_wroteHeader p = false -> p_code p = 0 ->
  let '(p', calls) := run k p ops in
  p_tee p' = false /\ p_code p' = spec_status k ops /\ first_header calls = spec_status k ops /\
  p_bytes p' = wsum (p_bytes p) (accepted_list k ops) /\ accepted_calls calls = accepted_list k ops.
Proof.
  induction ops as [|x t IH]; intros p T W C0; cbn [run].
  - cbn. repeat split; auto.
  - pose proof (step_ok k p x T) as F. destruct (step k p x) as [p1 c1] eqn:ES. cbn [fst snd] in F.
    destruct F as [F1 F2 F3 _ F5]. specialize (F5 W).
    assert (Hb : forall p2 c2, p_bytes p2 = wsum (p_bytes p1) (accepted_list k t) -> accepted_calls c2 = accepted_list k t ->
                 p_bytes p2 = wsum (p_bytes p) (accepted_list k (x :: t)) /\
                 accepted_calls (c1 ++ c2) = accepted_list k (x :: t)).
    { intros p2 c2 B A. change (x :: t) with ([x] ++ t). unfold accepted_list in *.
      rewrite !flat_map_app, wsum_app, accepted_calls_app. rewrite <- F2. split; congruence. }
    assert (Hw : forall c, p_wroteHeader p1 = true -> p_code p1 = c -> header_calls c1 = [c] ->
                 let '(p', calls) := run k p1 t in
                 p_tee p' = false /\ p_code p' = c /\ first_header (c1 ++ calls) = c /\
                 p_bytes p' = wsum (p_bytes p) (accepted_list k (x :: t)) /\
                 accepted_calls (c1 ++ calls) = accepted_list k (x :: t)).
    { intros c W1 C1 H1. pose proof (run_written k t p1 F1 W1) as R. destruct (run k p1 t) as [p2 c2].
      destruct R as [T2 [_ [C2 [H2 [B2 A2]]]]]. destruct (Hb p2 c2 B2 A2) as [Hb1 Hb2].
      repeat split; auto; [congruence|]. rewrite first_header_hd, header_calls_app, H1. reflexivity. }
    destruct x as [c|len o|len o|].
    + destruct F5 as [W1 [C1 H1]]. cbn [spec_status]. pose proof (Hw c W1 C1 H1) as Q; destruct (run k p1 t) as [p2 c2]; exact Q.
    + cbn [body_write] in F5. destruct F5 as [W1 [C1 H1]]. cbn [spec_status body_write]. pose proof (Hw 200 W1 C1 H1) as Q; destruct (run k p1 t) as [p2 c2]; exact Q.
    + cbn [spec_status]. destruct (body_write k (OReadFrom len o)) eqn:EB.
      * destruct F5 as [W1 [C1 H1]]. pose proof (Hw 200 W1 C1 H1) as Q; destruct (run k p1 t) as [p2 c2]; exact Q.
      * destruct F5 as [W1 [C1 H1]]. assert (C1' : p_code p1 = 0) by congruence.
        specialize (IH p1 F1 W1 C1'). destruct (run k p1 t) as [p2 c2].
        destruct IH as [T2 [C2 [H2 [B2 A2]]]]. destruct (Hb p2 c2 B2 A2) as [Hb1 Hb2].
        repeat split; auto. rewrite first_header_hd, header_calls_app, H1. cbn [app]. rewrite <- first_header_hd. exact H2.
    + cbn [spec_status body_write]. cbn [body_write] in F5. destruct F5 as [W1 [C1 H1]].
      assert (C1' : p_code p1 = 0) by congruence.
      specialize (IH p1 F1 W1 C1'). destruct (run k p1 t) as [p2 c2].
      destruct IH as [T2 [C2 [H2 [B2 A2]]]]. destruct (Hb p2 c2 B2 A2) as [Hb1 Hb2].
      repeat split; auto. rewrite first_header_hd, header_calls_app, H1. cbn [app]. rewrite <- first_header_hd. exact H2.
Qed.

(* sums that stay below 2^63 do not wrap *)
Lemma wsum_exact l : forall b, 0 <= b -> Forall (fun n => 0 <= n) l -> b + fold_right Z.add 0 l < two63Z ->
  wsum b l = b + fold_right Z.add 0 l.
Proof.
  induction l as [|n t IH]; intros b Hb Hl Hs; cbn [wsum fold_left fold_right] in *.
  - lia.
  - inversion Hl as [|? ? Hn Ht]; subst.
    assert (Hsum : 0 <= fold_right Z.add 0 t).
    { clear -Ht. induction Ht; cbn; lia. }
    rewrite wrap64_id by (unfold two63Z in *; lia).
    fold (wsum (b + n) t). rewrite IH; [lia|lia|exact Ht|lia].
Qed.

Lemma accepted_list_sum k ops : fold_right Z.add 0 (accepted_list k ops) = spec_bytes k ops.
Proof.
  unfold spec_bytes, accepted_list. induction ops as [|x t IH]; cbn [flat_map map fold_right]; [reflexivity|].
  destruct (body_write k x) eqn:E; cbn [app fold_right].
  - rewrite IH. reflexivity.
  - rewrite IH. destruct x as [c|len o|len o|]; cbn [body_write accepted] in *; try discriminate; try lia.
Qed.

Lemma accepted_list_nonneg k ops : Forall op_ok ops -> Forall (fun n => 0 <= n) (accepted_list k ops).
Proof.
  unfold accepted_list. induction 1 as [|x t Hx Ht IH]; cbn [flat_map]; [constructor|].
  destruct (body_write k x) eqn:E; cbn [app]; [|exact IH]. constructor; [|exact IH].
  destruct x as [c|len o|len o|]; cbn [accepted op_ok body_write] in *; try discriminate; try lia.
Qed.

Lemma accepted_calls_total calls : fold_right Z.add 0 (accepted_calls calls) = total_accepted calls.
Proof.
  unfold total_accepted, accepted_calls. induction calls as [|[c|l n|l n|] t IH]; cbn [flat_map map fold_right app ucall_accepted]; lia.
Qed.

(* the report of AccessHandler, for every capability set, every handler behaviour and every outcome *)
Lemma status_bytes_wrap c ops :
  let '(status, bytes, calls) := report c ops in
  let k := wrap_writer c in
  status = spec_status k ops /\ bytes = wsum 0 (accepted_list k ops) /\
  status = first_header calls /\ accepted_calls calls = accepted_list k ops.
Proof.
  unfold report. pose proof (run_fresh (wrap_writer c) ops proxy0 eq_refl eq_refl eq_refl) as R.
  destruct (run (wrap_writer c) proxy0 ops) as [p calls]. destruct R as [_ [C [H [B A]]]].
  cbn [p_bytes proxy0] in B. repeat split; auto. congruence.
Qed.

Lemma status_bytes c ops : Forall op_ok ops -> spec_bytes (wrap_writer c) ops < two63Z ->
  let '(status, bytes, calls) := report c ops in
  let k := wrap_writer c in
  status = spec_status k ops /\ bytes = spec_bytes k ops /\
  status = first_header calls /\ bytes = total_accepted calls.
Proof.
  intros Hok Hlt. pose proof (status_bytes_wrap c ops) as R. destruct (report c ops) as [[status bytes] calls].
  cbn zeta in *. destruct R as [S [B [H A]]].
  assert (Bx : bytes = spec_bytes (wrap_writer c) ops).
  { rewrite B. rewrite wsum_exact; [rewrite accepted_list_sum; lia|lia|apply accepted_list_nonneg; exact Hok|].
    rewrite accepted_list_sum. lia. }
  repeat split; auto. rewrite Bx, <- accepted_calls_total, A, accepted_list_sum. reflexivity.
Qed.

(* WrapWriter picks fancyWriter only for the full capability set, flushWriter for any other Flusher *)
Lemma wrap_writer_cases c :
  wrap_writer c = KFancy /\ c_closenotifier c = true /\ c_flusher c = true /\ c_hijacker c = true /\ c_readerfrom c = true \/
  wrap_writer c = KFlush /\ c_flusher c = true /\ (c_closenotifier c && c_hijacker c && c_readerfrom c = false) \/
  wrap_writer c = KBasic /\ c_flusher c = false.
Proof. destruct c as [[|] [|] [|] [|]]; cbn; auto 10. Qed.

(* a later WriteHeader never overwrites the status *)
Lemma first_header_wins k ops1 c ops2 :
  spec_status k (ops1 ++ OWriteHeader c :: ops2) =
  if existsb (fun x => match x with OWriteHeader _ => true | _ => body_write k x end) ops1
  then spec_status k ops1 else c.
Proof.
  induction ops1 as [|x t IH]; cbn [app spec_status existsb]; [reflexivity|].
  destruct x as [c'|len o|len o|]; cbn [orb body_write]; auto.
  destruct k; cbn [orb]; auto; destruct (negb (len =? 0)); cbn [orb]; auto.
Qed.

(* ---- noted, outside the property (its alphabet is WriteHeader/Write/ReadFrom): Flush on a
   net/http writer commits the header with status 200, the proxy does not record that; a later
   WriteHeader still wins inside the proxy ---- *)
Definition full_caps : caps := {| c_closenotifier := true; c_flusher := true; c_hijacker := true; c_readerfrom := true |}.

Lemma note_flush_commits_header_unrecorded :
  let '(status, _, calls) := report full_caps [OFlush; OWriteHeader 500] in
  status = 500 /\ sent_status calls = 200.
Proof. vm_compute. auto. Qed.

(* ---- noted: with a tee (not reachable through the property's calls) fancyWriter.ReadFrom counts twice ---- *)
Lemma note_tee_readfrom_double_count :
  let p := {| p_wroteHeader := false; p_code := 0; p_bytes := 0; p_tee := true |} in
  p_bytes (fst (run KFancy p [OReadFrom 5 {| o_n := 5; o_err := false |}])) = 10.
Proof. vm_compute. reflexivity. Qed.

End Proxy.

(* ================================================================== *)
(* Part 2: request isolation                                           *)
(* ================================================================== *)
Section Heap.
Open Scope nat_scope.

(* ---- lists ---- *)
Lemma nth_upd_same {A} (l : list A) i x d : i < length l -> nth i (upd l i x) d = x.
Proof. revert i; induction l as [|h t IH]; intros [|i] H; cbn in *; try lia; auto. apply IH. lia. Qed.

Lemma nth_upd_other {A} (l : list A) i j x d : i <> j -> nth j (upd l i x) d = nth j l d.
Proof. revert i j; induction l as [|h t IH]; intros [|i] [|j] H; cbn; try congruence; auto. Qed.

Lemma nth_error_upd_same {A} (l : list A) i x : i < length l -> nth_error (upd l i x) i = Some x.
Proof. revert i; induction l as [|h t IH]; intros [|i] H; cbn in *; try lia; auto. apply IH. lia. Qed.

Lemma nth_error_upd_other {A} (l : list A) i j x : i <> j -> nth_error (upd l i x) j = nth_error l j.
Proof. revert i j; induction l as [|h t IH]; intros [|i] [|j] H; cbn; try congruence; auto. Qed.

Lemma array_app_old h x a : a < length h -> array (h ++ [x]) a = array h a.
Proof. intros H. unfold array. apply app_nth1. exact H. Qed.

Lemma array_app_new h x : array (h ++ [x]) (length h) = x.
Proof. unfold array. rewrite app_nth2 by lia. rewrite Nat.sub_diag. reflexivity. Qed.

Lemma write_at_length l i bs : i + length bs <= length l -> length (write_at l i bs) = length l.
Proof.
  intros H. unfold write_at. rewrite !app_length, firstn_length, skipn_length. lia.
Qed.

Lemma view_write l o n bs : o + n + length bs <= length l ->
  firstn (n + length bs) (skipn o (write_at l (o + n) bs)) = firstn n (skipn o l) ++ bs.
Proof.
  intros H. unfold write_at.
  rewrite skipn_app. rewrite firstn_length. replace (o - Nat.min (o + n) (length l)) with 0 by lia.
  cbn [skipn]. rewrite skipn_firstn_comm. replace (o + n - o) with n by lia.
  rewrite app_assoc. rewrite firstn_app.
  assert (L : length (firstn n (skipn o l) ++ bs) = n + length bs).
  { rewrite app_length, firstn_length, skipn_length. lia. }
  rewrite L, Nat.sub_diag. cbn [firstn]. rewrite app_nil_r.
  rewrite firstn_all2 by lia. reflexivity.
Qed.

(* ---- append / make ---- *)
Record append_facts (h : heap) (s : slice) (bs : list N) (h' : heap) (s' : slice) (a : nat) : Prop := {
  af_view : view h' s' = view h s ++ bs;
  af_wf : wf h' s';
  af_len : length h <= length h';
  af_arr : a = arr s';
  af_where : a = arr s \/ (a = length h /\ length h' = S (length h));
  af_same_len : a = arr s -> length h' = length h;
  af_frame : forall b, b < length h -> b <> a -> array h' b = array h b
}.

Lemma append_ok grow h s bs : wf h s ->
  let '(h', s', a) := append grow h s bs in append_facts h s bs h' s' a.
Proof.
  intros [W1 [W2 W3]]. unfold append.
  destruct (Nat.leb_spec (len s + length bs) (cap s)) as [L|L].
  - (* in place *)
    assert (LW : length (write_at (array h (arr s)) (off s + len s) bs) = length (array h (arr s)))
      by (apply write_at_length; lia).
    constructor; cbn [arr off len cap].
    + unfold view; cbn [arr off len cap]. unfold array at 1. rewrite nth_upd_same by exact W1.
      apply view_write. lia.
    + unfold wf; cbn [arr off len cap]. rewrite upd_length. split; [exact W1|]. split; [|lia].
      unfold array. rewrite nth_upd_same by exact W1. fold (array h (arr s)). rewrite LW. exact W2.
    + rewrite upd_length. lia.
    + reflexivity.
    + left. reflexivity.
    + intros _. apply upd_length.
    + intros b Hb Hne. unfold array. apply nth_upd_other. congruence.
  - (* fresh array *)
    set (nc := Nat.max (grow (cap s) (len s + length bs)) (len s + length bs)).
    assert (LV : length (view h s) = len s).
    { unfold view. rewrite firstn_length, skipn_length. lia. }
    constructor; cbn [arr off len cap].
    + unfold view at 1; cbn [arr off len cap]. rewrite array_app_new. cbn [skipn].
      rewrite app_assoc. rewrite firstn_app.
      assert (L2 : length (view h s ++ bs) = len s + length bs) by (rewrite app_length; lia).
      rewrite L2, Nat.sub_diag. cbn [firstn]. rewrite app_nil_r. rewrite firstn_all2 by lia. reflexivity.
    + unfold wf; cbn [arr off len cap]. rewrite app_length; cbn [length]. split; [lia|]. split; [|lia].
      rewrite array_app_new. rewrite !app_length, repeat_length. lia.
    + rewrite app_length. lia.
    + reflexivity.
    + right. split; [reflexivity|]. rewrite app_length; cbn [length]. lia.
    + intros E. lia.
    + intros b Hb Hne. apply array_app_old. exact Hb.
Qed.

Lemma make_ok h c :
  let '(h', s') := make h c in
  h' = h ++ [repeat 0%N c] /\ wf h' s' /\ view h' s' = [] /\ arr s' = length h /\ len s' = 0 /\ cap s' = c.
Proof.
  unfold make. repeat split; cbn [arr off len cap]; auto.
  - rewrite app_length; cbn [length]. lia.
  - rewrite array_app_new, repeat_length. lia.
  - lia.
Qed.

(* what one step of a request does to the heap, abstractly *)
Record step_facts_h (h : heap) (own : option nat) (h' : heap) (s' : slice) (ws : list nat) (v : list N) : Prop := {
  hf_view : view h' s' = v;
  hf_wf : wf h' s';
  hf_len : length h <= length h';
  hf_in : In (arr s') ws;
  hf_ws : forall a, In a ws -> a < length h' /\ (Some a = own \/ length h <= a);
  hf_frame : forall b, b < length h -> ~ In b ws -> array h' b = array h b
}.

Definition base_ok (h0 : heap) (base : option slice) : Prop :=
  match base with Some b => wf h0 b /\ 1 <= len b | None => True end.

Lemma view_frame h h' s : arr s < length h -> array h' (arr s) = array h (arr s) -> view h' s = view h s.
Proof. intros _ E. unfold view. rewrite E. reflexivity. Qed.

Lemma logger_with_ok grow h bytes base :
  bytes = match base with Some b => view h b | None => begin_marker end ->
  let '(h', s', ws) := logger_with grow h base in step_facts_h h None h' s' ws bytes.
Proof.
  intros Eb. unfold logger_with.
  pose proof (make_ok h 500) as M. destruct (make h 500) as [h1 s1]. destruct M as [Eh1 [Wf1 [V1 [A1 [L1 C1]]]]].
  rewrite <- Eb.
  pose proof (append_ok grow h1 s1 bytes Wf1) as AP. destruct (append grow h1 s1 bytes) as [[h2 s2] a].
  destruct AP as [Av Aw Al Aa Awh Asl Afr].
  assert (Lh1 : length h1 = S (length h)) by (subst h1; rewrite app_length; cbn; lia).
  constructor.
  - rewrite Av, V1. reflexivity.
  - exact Aw.
  - lia.
  - rewrite <- Aa. right. left. reflexivity.
  - intros x [E|[E|[]]]; subst x.
    + split; [lia|right; lia].
    + destruct Awh as [E|[E E2]].
      * rewrite E, A1. split; [rewrite (Asl E); lia|right; lia].
      * split; [lia|right; lia].
  - intros b Hb Hn. assert (b <> length h) by (intros E; apply Hn; left; auto).
    assert (b <> a) by (intros E; apply Hn; right; left; auto).
    rewrite Afr by lia. subst h1. apply array_app_old. exact Hb.
Qed.

Lemma update_context_ok grow h s chunk : wf h s -> 1 <= len s ->
  let '(h', s', ws) := update_context grow h s chunk in
  step_facts_h h (Some (arr s)) h' s' ws (view h s ++ chunk).
Proof.
  intros W L. pose proof W as [W1 [W2 W3]]. unfold update_context.
  assert (Ec : (cap s =? 0) = false) by (apply Nat.eqb_neq; lia). rewrite Ec.
  assert (El : (len s =? 0) = false) by (apply Nat.eqb_neq; lia). rewrite El.
  pose proof (append_ok grow h s chunk W) as AP. destruct (append grow h s chunk) as [[h2 s2] a].
  destruct AP as [Av Aw Al Aa Awh Asl Afr]. cbn [app].
  constructor; auto.
  - rewrite <- Aa. left. reflexivity.
  - intros x [E|[]]. subst x. destruct Awh as [E|[E E2]].
    + split; [rewrite (Asl E), E; exact W1|left; congruence].
    + split; [lia|right; lia].
  - intros b Hb Hn. apply Afr; [exact Hb|]. intros E. apply Hn. left. auto.
Qed.

Lemma base_bytes_frame h0 base h : base_ok h0 base ->
  (forall b, b < length h0 -> array h b = array h0 b) ->
  base_bytes h0 base = match base with Some b => view h b | None => begin_marker end.
Proof.
  intros Hb Ho. unfold base_bytes. destruct base as [b|]; [|reflexivity].
  destruct Hb as [[W1 _] _]. symmetry. apply view_frame; [exact W1|]. apply Ho. exact W1.
Qed.

Lemma base_bytes_nonempty h0 base : base_ok h0 base -> 1 <= length (base_bytes h0 base).
Proof.
  intros Hb. unfold base_bytes. destruct base as [b|]; [|cbn; lia].
  destruct Hb as [[W1 [W2 W3]] L]. unfold view. rewrite firstn_length, skipn_length. lia.
Qed.

(* ---- the invariant ---- *)
Section Inv.
  Variables (grow : nat -> nat -> nat) (h0 : heap) (base : option slice) (work : list (list (list N))).
  Hypothesis Hbase : base_ok h0 base.
  Let bb := base_bytes h0 base.

  Record req_ok (s : state) (i : nat) (r : request) : Prop := {
    ro_work : rq_done r ++ rq_todo r = nth i work [];
    ro_logger : match rq_logger r with
                | None => rq_done r = []
                | Some l => wf (st_heap s) l /\ length h0 <= arr l /\
                            view (st_heap s) l = bb ++ concat (rq_done r) /\ In (i, arr l) (st_log s)
                end
  }.

  Record inv (s : state) : Prop := {
    i_len : length h0 <= length (st_heap s);
    i_old : forall b, b < length h0 -> array (st_heap s) b = array h0 b;
    i_reqs : forall i r, nth_error (st_reqs s) i = Some r -> req_ok s i r;
    i_log : forall j a, In (j, a) (st_log s) -> length h0 <= a < length (st_heap s);
    i_own : forall i r l, nth_error (st_reqs s) i = Some r -> rq_logger r = Some l ->
                          forall j, In (j, arr l) (st_log s) -> j = i;
    i_disj : forall a i j, In (i, a) (st_log s) -> In (j, a) (st_log s) -> i = j
  }.

  Lemma bb_nonempty : 1 <= length bb.
  Proof. apply base_bytes_nonempty. exact Hbase. Qed.

  Lemma inv_init : inv (init_state h0 work).
  Proof.
    constructor; cbn [init_state st_heap st_reqs st_log]; try (intros; contradiction); auto.
    intros i r H. rewrite nth_error_map in H. destruct (nth_error work i) as [c|] eqn:E; [|discriminate].
    cbn in H. inversion H; subst. constructor; cbn [new_request rq_done rq_todo rq_logger]; auto.
    cbn [app]. symmetry. apply nth_error_nth. exact E.
  Qed.

  Lemma in_map_pair (i : nat) (ws : list nat) (j a : nat) : In (j, a) (map (fun x => (i, x)) ws) <-> j = i /\ In a ws.
  Proof.
    rewrite in_map_iff. split.
    - intros [x [E H]]. inversion E; subst. auto.
    - intros [-> H]. exists a. auto.
  Qed.

  (* a step of request i that satisfies step_facts_h preserves the invariant *)
  Lemma inv_step_generic s i r h' l' ws done' todo' :
    inv s -> nth_error (st_reqs s) i = Some r ->
    step_facts_h (st_heap s) (match rq_logger r with Some l => Some (arr l) | None => None end) h' l' ws (bb ++ concat done') ->
    done' ++ todo' = nth i work [] ->
    inv {| st_heap := h';
           st_reqs := upd (st_reqs s) i {| rq_logger := Some l'; rq_todo := todo'; rq_done := done' |};
           st_log := map (fun a => (i, a)) ws ++ st_log s |}.
  Proof.
    intros I Hr [Fv Fw Fl Fin Fws Ffr] Hwork.
    destruct I as [Il Io Ir Ilog Iown Idisj].
    assert (Hi : i < length (st_reqs s)) by (apply nth_error_Some; congruence).
    (* entries of ws against the old log: only i's own *)
    assert (Hws_old : forall a j, In a ws -> In (j, a) (st_log s) -> j = i).
    { intros a j Ha Hj. destruct (Fws a Ha) as [_ [E|E]].
      - destruct (rq_logger r) as [l|] eqn:El; [|discriminate]. inversion E; subst a.
        exact (Iown i r l Hr El j Hj).
      - specialize (Ilog j a Hj). lia. }
    (* other requests' arrays are not in ws *)
    assert (Hother : forall m rm lm, m <> i -> nth_error (st_reqs s) m = Some rm -> rq_logger rm = Some lm -> ~ In (arr lm) ws).
    { intros m rm lm Hm Hrm Hlm Hin. destruct (Ir m rm Hrm) as [_ Rl]. rewrite Hlm in Rl.
      destruct Rl as [_ [_ [_ Rin]]]. apply Hm. exact (Hws_old _ _ Hin Rin). }
    constructor; cbn [st_heap st_reqs st_log].
    - lia.
    - intros b Hb. rewrite Ffr; [apply Io; exact Hb|lia|].
      intros Hin. destruct (Fws b Hin) as [_ [E|E]]; [|lia].
      destruct (rq_logger r) as [l|] eqn:El; [|discriminate]. inversion E; subst b.
      destruct (Ir i r Hr) as [_ Rl]. rewrite El in Rl. lia.
    - intros m rm Hm. destruct (Nat.eq_dec m i) as [->|Hne].
      + rewrite nth_error_upd_same in Hm by exact Hi. inversion Hm; subst rm.
        constructor; cbn [rq_done rq_todo rq_logger st_heap st_log]; [exact Hwork|].
        split; [exact Fw|]. split; [|split; [exact Fv|]].
        * destruct (Fws _ Fin) as [_ [E|E]]; [|lia].
          destruct (rq_logger r) as [l|] eqn:El; [|discriminate]. inversion E as [E'].
          destruct (Ir i r Hr) as [_ Rl]. rewrite El in Rl. rewrite E'. tauto.
        * apply in_or_app. left. apply in_map_pair. auto.
      + rewrite nth_error_upd_other in Hm by congruence.
        destruct (Ir m rm Hm) as [Rw Rl]. constructor; [exact Rw|].
        destruct (rq_logger rm) as [lm|] eqn:Elm; [|exact Rl]. cbn [st_heap st_log].
        destruct Rl as [Rwf [Rge [Rv Rin]]].
        assert (Hn : ~ In (arr lm) ws) by (apply (Hother m rm lm Hne Hm Elm)).
        destruct Rwf as [Q1 [Q2 Q3]].
        assert (EA : array h' (arr lm) = array (st_heap s) (arr lm)) by (apply Ffr; assumption).
        split; [|split; [exact Rge|split]].
        * unfold wf. rewrite EA. split; [lia|]. split; assumption.
        * rewrite (view_frame (st_heap s) h' lm Q1 EA). exact Rv.
        * apply in_or_app. right. exact Rin.
    - intros j a Hin. apply in_app_or in Hin as [Hin|Hin].
      + apply in_map_pair in Hin as [-> Ha]. destruct (Fws a Ha) as [Hlt [E|E]]; [|lia].
        destruct (rq_logger r) as [l|] eqn:El; [|discriminate]. inversion E; subst a.
        destruct (Ir i r Hr) as [_ Rl]. rewrite El in Rl. lia.
      + specialize (Ilog j a Hin). lia.
    - intros m rm lm Hm Hlm j Hin. destruct (Nat.eq_dec m i) as [->|Hne].
      + rewrite nth_error_upd_same in Hm by exact Hi. inversion Hm; subst rm. cbn [rq_logger] in Hlm.
        inversion Hlm; subst lm. apply in_app_or in Hin as [Hin|Hin].
        * apply in_map_pair in Hin. tauto.
        * exact (Hws_old _ _ Fin Hin).
      + rewrite nth_error_upd_other in Hm by congruence.
        apply in_app_or in Hin as [Hin|Hin].
        * apply in_map_pair in Hin as [-> Ha]. exfalso. exact (Hother m rm lm Hne Hm Hlm Ha).
        * exact (Iown m rm lm Hm Hlm j Hin).
    - intros a x y Hx Hy. apply in_app_or in Hx as [Hx|Hx]; apply in_app_or in Hy as [Hy|Hy].
      + apply in_map_pair in Hx. apply in_map_pair in Hy. destruct Hx, Hy. congruence.
      + apply in_map_pair in Hx as [-> Ha]. symmetry. exact (Hws_old _ _ Ha Hy).
      + apply in_map_pair in Hy as [-> Ha]. exact (Hws_old _ _ Ha Hx).
      + exact (Idisj a x y Hx Hy).
  Qed.

  Lemma inv_step s i : inv s -> inv (req_step true grow base s i).
  Proof.
    intros I. unfold req_step. destruct (nth_error (st_reqs s) i) as [r|] eqn:Hr; [|exact I].
    pose proof (i_reqs s I i r Hr) as [Rw Rl].
    destruct (rq_logger r) as [l|] eqn:El.
    - destruct (rq_todo r) as [|c rest] eqn:Et; [exact I|].
      destruct Rl as [Rwf [Rge [Rv Rin]]].
      assert (L1 : 1 <= len l).
      { assert (length (view (st_heap s) l) <= len l) by (unfold view; rewrite firstn_length; lia).
        rewrite Rv, app_length in H. pose proof bb_nonempty. lia. }
      pose proof (update_context_ok grow (st_heap s) l c Rwf L1) as U.
      destruct (update_context grow (st_heap s) l c) as [[h1 l1] ws].
      apply (inv_step_generic s i r h1 l1 ws (rq_done r ++ [c]) rest I Hr).
      + rewrite El. rewrite concat_app. cbn [concat]. rewrite app_nil_r, app_assoc, <- Rv. exact U.
      + rewrite <- app_assoc. cbn [app]. exact Rw.
    - assert (Hb : bb = match base with Some b => view (st_heap s) b | None => begin_marker end).
      { apply base_bytes_frame; [exact Hbase|exact (i_old s I)]. }
      pose proof (logger_with_ok grow (st_heap s) bb base Hb) as U.
      destruct (logger_with grow (st_heap s) base) as [[h1 l1] ws].
      apply (inv_step_generic s i r h1 l1 ws (rq_done r) (rq_todo r) I Hr).
      + rewrite El, Rl. cbn [concat]. rewrite app_nil_r. exact U.
      + exact Rw.
  Qed.

  Lemma inv_run sched : forall s, inv s -> inv (run_sched true grow base s sched).
  Proof.
    unfold run_sched. induction sched as [|i t IH]; intros s I; cbn [fold_left]; [exact I|].
    apply IH. apply inv_step. exact I.
  Qed.
End Inv.

(* for all growth policies, initial heaps, base loggers, sets of requests with any handler chains
   (= chunk lists) and all interleavings of the requests' steps *)
Lemma request_isolation grow h0 base work sched : base_ok h0 base ->
  let s := run_sched true grow base (init_state h0 work) sched in
  (forall i r, nth_error (st_reqs s) i = Some r ->
     rq_done r ++ rq_todo r = nth i work [] /\
     match rq_logger r with
     | Some l => view (st_heap s) l = base_bytes h0 base ++ concat (rq_done r)
     | None => rq_done r = []
     end) /\
  (forall a i j, In (i, a) (st_log s) -> In (j, a) (st_log s) -> i = j) /\
  (forall i a, In (i, a) (st_log s) -> length h0 <= a).
Proof.
  intros Hb s. pose proof (inv_run grow h0 base work Hb sched _ (inv_init h0 base work)) as I. fold s in I.
  split; [|split].
  - intros i r Hr. destruct (i_reqs _ _ _ s I i r Hr) as [Rw Rl]. split; [exact Rw|].
    destruct (rq_logger r); [tauto|exact Rl].
  - exact (i_disj _ _ _ s I).
  - intros i a H. apply (i_log _ _ _ s I) in H. lia.
Qed.

(* a request whose handlers have all run carries exactly base ++ its own fields *)
Lemma request_isolation_complete grow h0 base work sched i chunks : base_ok h0 base ->
  nth_error work i = Some chunks ->
  let s := run_sched true grow base (init_state h0 work) sched in
  (exists r, nth_error (st_reqs s) i = Some r /\ rq_logger r <> None /\ rq_todo r = []) ->
  request_context s i = Some (base_bytes h0 base ++ concat chunks).
Proof.
  intros Hb Hw s [r [Hr [Hl Ht]]]. destruct (request_isolation grow h0 base work sched Hb) as [R _].
  fold s in R. destruct (R i r Hr) as [Rw Rv]. unfold request_context. rewrite Hr.
  destruct (rq_logger r) as [l|]; [|congruence]. rewrite Rv. rewrite Ht, app_nil_r in Rw.
  rewrite Rw. rewrite (nth_error_nth _ _ _ Hw). reflexivity.
Qed.

(* nothing that existed before the requests ran is modified: the base logger's bytes, and every other
   pre-existing array including the spare capacity behind the base logger's context *)
Lemma base_unchanged grow h0 base work sched : base_ok h0 base ->
  let s := run_sched true grow base (init_state h0 work) sched in
  (forall b, b < length h0 -> array (st_heap s) b = array h0 b) /\
  (forall bs, base = Some bs -> view (st_heap s) bs = view h0 bs).
Proof.
  intros Hb s. pose proof (inv_run grow h0 base work Hb sched _ (inv_init h0 base work)) as I. fold s in I.
  split; [exact (i_old _ _ _ s I)|].
  intros bs E. subst base. destruct Hb as [[W1 _] _]. apply view_frame; [exact W1|]. apply (i_old _ _ _ s I). exact W1.
Qed.

(* why the copy matters: if NewHandler handed out the base logger's header itself, two requests
   would append into the same spare capacity - the first request's event shows the second's bytes *)
Definition demo_h0 : heap := [[123; 34; 98; 34; 58; 49] ++ repeat 0 20]%N.
Definition demo_base : slice := {| arr := 0; off := 0; len := 6; cap := 26 |}.
Lemma without_copy_requests_interfere :
  let s := run_sched false (fun c n => 2 * c) (Some demo_base) (init_state demo_h0 [[[44; 65; 65]%N]; [[44; 66; 66]%N]]) [0; 1; 0; 1] in
  request_context s 0 = Some [123; 34; 98; 34; 58; 49; 44; 66; 66]%N /\
  request_context s 1 = Some [123; 34; 98; 34; 58; 49; 44; 66; 66]%N.
Proof. vm_compute. auto. Qed.

End Heap.
