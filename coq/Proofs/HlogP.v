(* Proofs for Misc/Hlog.v (response proxy) and Misc/HlogHeap.v (request isolation). *)
From Verif Require Import Base.Prelude Misc.Hlog Misc.HlogHeap.

(* ================================================================== *)
(* Part 1: the proxy                                                   *)
(* ================================================================== *)
Section Proxy.
Open Scope Z_scope.

Lemma wsum_app b l1 l2 : wsum b (l1 ++ l2) = wsum (wsum b l1) l2.
Proof. unfold wsum. apply fold_left_app. Qed.

Lemma header_calls_app a b : header_calls (a ++ b) = header_calls a ++ header_calls b.
Proof. unfold header_calls. apply flat_map_app. Qed.

Lemma accepted_calls_app a b : accepted_calls (a ++ b) = accepted_calls a ++ accepted_calls b.
Proof. unfold accepted_calls. apply flat_map_app. Qed.

Lemma first_header_hd calls : first_header calls = hd 0 (header_calls calls).
Proof. induction calls as [|[c|l n|l n|] t IH]; cbn; auto. Qed.

(* one step, any state without a tee *)
Record step_facts (k : kind) (p : proxy) (x : op) (p' : proxy) (calls : list ucall) : Prop := {
  sf_tee : p_tee p' = false;
  sf_bytes : p_bytes p' = wsum (p_bytes p) (accepted_list k [x]);
  sf_acc : accepted_calls calls = accepted_list k [x];
  sf_written : p_wroteHeader p = true ->
               p_wroteHeader p' = true /\ p_code p' = p_code p /\ header_calls calls = [];
  sf_fresh : p_wroteHeader p = false ->
             match x with
             | OWriteHeader c => p_wroteHeader p' = true /\ p_code p' = c /\ header_calls calls = [c]
             | _ => if body_write k x
                    then p_wroteHeader p' = true /\ p_code p' = 200 /\ header_calls calls = [200]
                    else p_wroteHeader p' = false /\ p_code p' = p_code p /\ header_calls calls = []
             end
}.

Lemma step_ok k p x : p_tee p = false -> step_facts k p x (fst (step k p x)) (snd (step k p x)).
Proof.
  intros T. destruct p as [wh code bytes tee]. cbn in T. subst tee.
  destruct x as [c|len o|len o|]; destruct k; destruct wh;
    cbn [step write write_header maybe_write_header read_from_fancy add_bytes fst snd
         p_wroteHeader p_code p_bytes p_tee];
    try (destruct (len =? 0) eqn:E);
    cbn [step write write_header maybe_write_header read_from_fancy add_bytes fst snd
         p_wroteHeader p_code p_bytes p_tee app];
    (constructor;
     [ reflexivity
     | unfold accepted_list, wsum; cbn [flat_map body_write accepted app fold_left negb]; try rewrite E; cbn [negb app fold_left]; reflexivity
     | unfold accepted_list; cbn [accepted_calls flat_map body_write accepted app negb]; try rewrite E; cbn [negb app]; reflexivity
     | intros W; try discriminate W; cbn [header_calls flat_map app]; auto
     | intros W; try discriminate W; cbn [body_write negb]; try rewrite E; cbn [negb header_calls flat_map app]; auto ]).
Qed.

(* after the header has been written nothing changes the code, and no further WriteHeader reaches the writer *)
Lemma run_written k : forall ops p, p_tee p = false -> p_wroteHeader p = true ->
  let '(p', calls) := run k p ops in
  p_tee p' = false /\ p_wroteHeader p' = true /\ p_code p' = p_code p /\ header_calls calls = [] /\
  p_bytes p' = wsum (p_bytes p) (accepted_list k ops) /\ accepted_calls calls = accepted_list k ops.
Proof.
  induction ops as [|x t IH]; intros p T W; cbn [run].
  - repeat split; reflexivity.
  - pose proof (step_ok k p x T) as F. destruct (step k p x) as [p1 c1]. cbn [fst snd] in F.
    destruct F as [F1 F2 F3 F4 _]. destruct (F4 W) as [W1 [C1 H1]].
    specialize (IH p1 F1 W1). destruct (run k p1 t) as [p2 c2].
    destruct IH as [T2 [W2 [C2 [H2 [B2 A2]]]]].
    repeat split; auto.
    + congruence.
    + rewrite header_calls_app, H1, H2. reflexivity.
    + change (x :: t) with ([x] ++ t). unfold accepted_list in *. rewrite flat_map_app, wsum_app. rewrite <- F2. exact B2.
    + change (x :: t) with ([x] ++ t). unfold accepted_list in *. rewrite flat_map_app, accepted_calls_app. congruence.
Qed.

Lemma run_fresh k : forall ops p, p_tee p = false -> p_wroteHeader p = false -> p_code p = 0 ->
  let '(p', calls) := run k p ops in
  p_tee p' = false /\ p_code p' = spec_status k ops /\ first_header calls = spec_status k ops /\
  p_bytes p' = wsum (p_bytes p) (accepted_list k ops) /\ accepted_calls calls = accepted_list k ops.
Proof.
  induction ops as [|x t IH]; intros p T W C0; cbn [run].
  - cbn. repeat split; auto.
  - pose proof (step_ok k p x T) as F. destruct (step k p x) as [p1 c1] eqn:ES. cbn [fst snd] in F.
    destruct F as [F1 F2 F3 _ F5]. specialize (F5 W).
    assert (Hb : forall p2 c2, p_bytes p2 = wsum (p_bytes p1) (accepted_list k t) -> accepted_calls c2 = accepted_list k t ->
                 p_bytes p2 = wsum (p_bytes p) (accepted_list k (x :: t)) /\
                 accepted_calls (c1 ++ c2) = accepted_list k (x :: t)).
    { intros p2 c2 B A. change (x :: t) with ([x] ++ t). unfold accepted_list in *.
      rewrite !flat_map_app, wsum_app, accepted_calls_app. rewrite <- F2. split; congruence. }
    assert (Hw : forall c, p_wroteHeader p1 = true -> p_code p1 = c -> header_calls c1 = [c] ->
                 let '(p', calls) := run k p1 t in
                 p_tee p' = false /\ p_code p' = c /\ first_header (c1 ++ calls) = c /\
                 p_bytes p' = wsum (p_bytes p) (accepted_list k (x :: t)) /\
                 accepted_calls (c1 ++ calls) = accepted_list k (x :: t)).
    { intros c W1 C1 H1. pose proof (run_written k t p1 F1 W1) as R. destruct (run k p1 t) as [p2 c2].
      destruct R as [T2 [_ [C2 [H2 [B2 A2]]]]]. destruct (Hb p2 c2 B2 A2) as [Hb1 Hb2].
      repeat split; auto; [congruence|]. rewrite first_header_hd, header_calls_app, H1. reflexivity. }
    destruct x as [c|len o|len o|].
    + destruct F5 as [W1 [C1 H1]]. cbn [spec_status]. exact (Hw c W1 C1 H1).
    + cbn [body_write] in F5. destruct F5 as [W1 [C1 H1]]. cbn [spec_status body_write]. exact (Hw 200 W1 C1 H1).
    + cbn [spec_status]. destruct (body_write k (OReadFrom len o)) eqn:EB.
      * destruct F5 as [W1 [C1 H1]]. exact (Hw 200 W1 C1 H1).
      * destruct F5 as [W1 [C1 H1]]. assert (C1' : p_code p1 = 0) by congruence.
        specialize (IH p1 F1 W1 C1'). destruct (run k p1 t) as [p2 c2].
        destruct IH as [T2 [C2 [H2 [B2 A2]]]]. destruct (Hb p2 c2 B2 A2) as [Hb1 Hb2].
        repeat split; auto. rewrite first_header_hd, header_calls_app, H1. cbn [app]. rewrite <- first_header_hd. exact H2.
    + cbn [spec_status body_write]. cbn [body_write] in F5. destruct F5 as [W1 [C1 H1]].
      assert (C1' : p_code p1 = 0) by congruence.
      specialize (IH p1 F1 W1 C1'). destruct (run k p1 t) as [p2 c2].
      destruct IH as [T2 [C2 [H2 [B2 A2]]]]. destruct (Hb p2 c2 B2 A2) as [Hb1 Hb2].
      repeat split; auto. rewrite first_header_hd, header_calls_app, H1. cbn [app]. rewrite <- first_header_hd. exact H2.
Qed.

(* sums that stay below 2^63 do not wrap *)
Lemma wsum_exact l : forall b, 0 <= b -> Forall (fun n => 0 <= n) l -> b + fold_right Z.add 0 l < two63Z ->
  wsum b l = b + fold_right Z.add 0 l.
Proof.
  induction l as [|n t IH]; intros b Hb Hl Hs; cbn [wsum fold_left fold_right] in *.
  - lia.
  - inversion Hl as [|? ? Hn Ht]; subst.
    assert (Hsum : 0 <= fold_right Z.add 0 t).
    { clear -Ht. induction Ht; cbn; lia. }
    rewrite wrap64_id by (unfold two63Z in *; lia).
    fold (wsum (b + n) t). rewrite IH; [lia|lia|exact Ht|lia].
Qed.

Lemma accepted_list_sum k ops : fold_right Z.add 0 (accepted_list k ops) = spec_bytes k ops.
Proof.
  unfold spec_bytes, accepted_list. induction ops as [|x t IH]; cbn [flat_map map fold_right]; [reflexivity|].
  destruct (body_write k x) eqn:E; cbn [app fold_right].
  - rewrite IH. reflexivity.
  - rewrite IH. destruct x as [c|len o|len o|]; cbn [body_write accepted] in *; try discriminate; try lia.
    rewrite E. lia.
Qed.

Lemma accepted_list_nonneg k ops : Forall op_ok ops -> Forall (fun n => 0 <= n) (accepted_list k ops).
Proof.
  unfold accepted_list. induction 1 as [|x t Hx Ht IH]; cbn [flat_map]; [constructor|].
  destruct (body_write k x) eqn:E; cbn [app]; [|exact IH]. constructor; [|exact IH].
  destruct x as [c|len o|len o|]; cbn [accepted op_ok body_write] in *; try discriminate; try lia.
  rewrite E. lia.
Qed.

Lemma accepted_calls_total calls : fold_right Z.add 0 (accepted_calls calls) = total_accepted calls.
Proof.
  unfold total_accepted, accepted_calls. induction calls as [|[c|l n|l n|] t IH]; cbn [flat_map map fold_right app ucall_accepted]; lia.
Qed.

(* the report of AccessHandler, for every capability set, every handler behaviour and every outcome *)
Lemma status_bytes_wrap c ops :
  let '(status, bytes, calls) := report c ops in
  let k := wrap_writer c in
  status = spec_status k ops /\ bytes = wsum 0 (accepted_list k ops) /\
  status = first_header calls /\ accepted_calls calls = accepted_list k ops.
Proof.
  unfold report. pose proof (run_fresh (wrap_writer c) ops proxy0 eq_refl eq_refl eq_refl) as R.
  destruct (run (wrap_writer c) proxy0 ops) as [p calls]. destruct R as [_ [C [H [B A]]]].
  cbn [p_bytes proxy0] in B. repeat split; auto. congruence.
Qed.

Lemma status_bytes c ops : Forall op_ok ops -> spec_bytes (wrap_writer c) ops < two63Z ->
  let '(status, bytes, calls) := report c ops in
  let k := wrap_writer c in
  status = spec_status k ops /\ bytes = spec_bytes k ops /\
  status = first_header calls /\ bytes = total_accepted calls.
Proof.
  intros Hok Hlt. pose proof (status_bytes_wrap c ops) as R. destruct (report c ops) as [[status bytes] calls].
  cbn zeta in *. destruct R as [S [B [H A]]].
  assert (Bx : bytes = spec_bytes (wrap_writer c) ops).
  { rewrite B. rewrite wsum_exact; [rewrite accepted_list_sum; lia|lia|apply accepted_list_nonneg; exact Hok|].
    rewrite accepted_list_sum. lia. }
  repeat split; auto. rewrite Bx, <- accepted_calls_total, A, accepted_list_sum. reflexivity.
Qed.

(* WrapWriter picks fancyWriter only for the full capability set, flushWriter for any other Flusher *)
Lemma wrap_writer_cases c :
  wrap_writer c = KFancy /\ c_closenotifier c = true /\ c_flusher c = true /\ c_hijacker c = true /\ c_readerfrom c = true \/
  wrap_writer c = KFlush /\ c_flusher c = true /\ (c_closenotifier c && c_hijacker c && c_readerfrom c = false) \/
  wrap_writer c = KBasic /\ c_flusher c = false.
Proof. destruct c as [[|] [|] [|] [|]]; cbn; auto 10. Qed.

(* a later WriteHeader never overwrites the status *)
Lemma first_header_wins k ops1 c ops2 :
  spec_status k (ops1 ++ OWriteHeader c :: ops2) =
  if existsb (fun x => match x with OWriteHeader _ => true | _ => body_write k x end) ops1
  then spec_status k ops1 else c.
Proof.
  induction ops1 as [|x t IH]; cbn [app spec_status existsb]; [reflexivity|].
  destruct x as [c'|len o|len o|]; cbn [orb body_write]; auto.
  destruct k; cbn [orb]; auto; destruct (negb (len =? 0)); cbn [orb]; auto.
Qed.

(* ---- noted, outside the property (its alphabet is WriteHeader/Write/ReadFrom): Flush on a
   net/http writer commits the header with status 200, the proxy does not record that; a later
   WriteHeader still wins inside the proxy ---- *)
Definition full_caps : caps := {| c_closenotifier := true; c_flusher := true; c_hijacker := true; c_readerfrom := true |}.

Lemma note_flush_commits_header_unrecorded :
  let '(status, _, calls) := report full_caps [OFlush; OWriteHeader 500] in
  status = 500 /\ sent_status calls = 200.
Proof. vm_compute. auto. Qed.

Definition no_flush_before_header (k : kind) (ops : list op) : Prop :=
  k = KBasic \/ forall pre post, ops = pre ++ OFlush :: post ->
    existsb (fun x => match x with OWriteHeader _ => true | _ => body_write k x end) pre = true.

(* ---- noted: with a tee (not reachable through the property's calls) fancyWriter.ReadFrom counts twice ---- *)
Lemma note_tee_readfrom_double_count :
  let p := {| p_wroteHeader := false; p_code := 0; p_bytes := 0; p_tee := true |} in
  p_bytes (fst (run KFancy p [OReadFrom 5 {| o_n := 5; o_err := false |}])) = 10.
Proof. vm_compute. reflexivity. Qed.

End Proxy.
