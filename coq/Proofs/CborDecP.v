(* Proofs about Enc/CborDec.v (the model of decode_stream.go).
   Part 1: generic facts about [prog]/[run]: bind, extension of the input,
           a weakest-precondition calculus with an allocation credit.
   Part 2: the decoder never crashes, never runs out of fuel, allocates
           linearly (for every oracle, every byte string).
   Part 3: prefix stability of streams of decodable events. *)
From Verif Require Import Base.Prelude Base.Decimal Base.CborSpec Enc.CborEnc Enc.CborDec Proofs.CborSpecP Proofs.CborEncP.
Open Scope Z_scope.

(* ================================================================== *)
(* Part 1: generic                                                     *)
(* ================================================================== *)
Lemma lenZ_nonneg {A} (l : list A) : 0 <= lenZ l.
Proof. unfold lenZ. lia. Qed.
Lemma lenZ_app {A} (a b : list A) : lenZ (a ++ b) = lenZ a + lenZ b.
Proof. unfold lenZ. rewrite app_length. lia. Qed.
Lemma lenZ_cons {A} (x : A) l : lenZ (x :: l) = 1 + lenZ l.
Proof. unfold lenZ. cbn [length]. lia. Qed.
Lemma lenZ_nil {A} : lenZ (@nil A) = 0.
Proof. reflexivity. Qed.

Lemma rev'_rev {A} (l : list A) : rev' l = rev l.
Proof. unfold rev'. rewrite <- rev_alt. reflexivity. Qed.

(* split_at = firstn / skipn when there are enough elements *)
Lemma split_at_spec l : forall n acc,
  split_at l n acc =
  if (N.of_nat (length l) <? n)%N then None
  else Some (rev acc ++ firstn (N.to_nat n) l, skipn (N.to_nat n) l).
Proof.
  induction l as [|x t IH]; intros n acc; cbn [split_at length].
  - destruct (n =? 0)%N eqn:E.
    + apply N.eqb_eq in E; subst. cbn. rewrite rev'_rev, app_nil_r. reflexivity.
    + replace (N.of_nat 0 <? n)%N with true by lia. reflexivity.
  - destruct (n =? 0)%N eqn:E.
    + apply N.eqb_eq in E; subst. cbn. rewrite rev'_rev, app_nil_r. reflexivity.
    + rewrite IH. replace (N.of_nat (length t) <? n - 1)%N with (N.of_nat (S (length t)) <? n)%N by lia.
      destruct (N.of_nat (S (length t)) <? n)%N; [reflexivity|].
      replace (N.to_nat n) with (S (N.to_nat (n - 1))) by lia. cbn [firstn skipn rev].
      rewrite <- app_assoc. reflexivity.
Qed.

Lemma split_at_some l n bs r : split_at l n [] = Some (bs, r) ->
  l = bs ++ r /\ N.of_nat (length bs) = n.
Proof.
  rewrite split_at_spec. destruct (N.of_nat (length l) <? n)%N eqn:E; [discriminate|].
  intros H; inversion H; subst. cbn [rev app]. split; [symmetry; apply firstn_skipn|].
  rewrite firstn_length. lia.
Qed.

Lemma split_at_none l n : split_at l n [] = None -> (N.of_nat (length l) < n)%N.
Proof. rewrite split_at_spec. destruct (N.of_nat (length l) <? n)%N eqn:E; [lia|discriminate]. Qed.

Lemma split_at_app l n bs r tail : split_at l n [] = Some (bs, r) -> split_at (l ++ tail) n [] = Some (bs, r ++ tail).
Proof.
  intros H. destruct (split_at_some _ _ _ _ H) as [E L]. subst l.
  rewrite split_at_spec. rewrite !app_length.
  replace (N.of_nat (length bs + length r + length tail) <? n)%N with false by lia.
  cbn [rev app]. replace (N.to_nat n) with (length bs) by lia.
  rewrite <- app_assoc. rewrite firstn_app, Nat.sub_diag, firstn_all, firstn_O, app_nil_r.
  rewrite skipn_app, Nat.sub_diag, skipn_all. reflexivity.
Qed.

(* ---- bind ---- *)
Lemma run_pbind {A B} (p : prog A) (f : A -> prog B) : forall s,
  run (pbind p f) s =
  match run p s with
  | Ret a s' => run (f a) s'
  | Fail k s' => Fail k s'
  | Crash k s' => Crash k s'
  | OOF => OOF
  end.
Proof.
  induction p as [a|k|k| |k IH|k IH|k IH|n k IH|n k IH|bs k IH]; intros s; cbn [pbind run]; auto.
  - destruct (rest s); auto.
  - destruct (rest s); auto.
  - destruct (rest s); auto.
  - destruct (n <=? 0); auto. destruct (split_at (rest s) (Z.to_N n) []) as [[bs r]|]; auto.
Qed.

(* ---- extension of the input: every outcome other than an end-of-input
   failure is unchanged when more bytes follow ---- *)
Definition ext_st (s : st) (tail : list N) : st := mkst (rest s ++ tail) (outr s) (alloc s).

Definition ext_res {A} (r1 r2 : res A) (tail : list N) : Prop :=
  match r1 with
  | Ret a s' => r2 = Ret a (ext_st s' tail)
  | Fail k s' => is_eof k = true \/ r2 = Fail k (ext_st s' tail)
  | Crash k s' => r2 = Crash k (ext_st s' tail)
  | OOF => r2 = OOF
  end.

Theorem run_ext {A} (p : prog A) : forall s tail, ext_res (run p s) (run p (ext_st s tail)) tail.
Proof.
  induction p as [a|k|k| |k IH|k IH|k IH|n k IH|n k IH|bs k IH]; intros s tail; cbn [run]; try (cbn; auto; fail).
  - destruct s as [r o a]. cbn [rest ext_st outr alloc]. destruct r as [|b t]; cbn; auto; try apply (IH b (mkst t o a)).
  - destruct s as [r o a]. cbn [rest ext_st outr alloc]. destruct r as [|b t]; cbn; auto; try apply (IH b (mkst (b :: t) o a)).
  - destruct s as [r o a]. cbn [rest ext_st outr alloc]. destruct r as [|b t]; cbn; auto; try apply (IH b (mkst (b :: t) o a)).
  - destruct s as [r o a]. cbn [rest ext_st outr alloc]. destruct (n <=? 0).
    + apply (IH [] (mkst r o a)).
    + destruct (split_at r (Z.to_N n) []) as [[bs r']|] eqn:E.
      * rewrite (split_at_app _ _ _ _ tail E). apply (IH bs (mkst r' o (a + Z.to_N n)%N)).
      * cbn. auto.
  - destruct s as [r o a]. apply (IH (mkst r o (a + n)%N)).
  - destruct s as [r o a]. apply (IH (mkst r (rev_append bs o) (a + N.of_nat (length bs))%N)).
Qed.

(* ---- the output and the meter only grow; they do not influence control ---- *)
Definition shift_st (s : st) (o : list N) (a : N) : st := mkst (rest s) (outr s ++ o) (alloc s + a).
Definition shift_res {A} (r : res A) (o : list N) (a : N) : res A :=
  match r with
  | Ret x s => Ret x (shift_st s o a) | Fail k s => Fail k (shift_st s o a)
  | Crash k s => Crash k (shift_st s o a) | OOF => OOF
  end.

Lemma rev_append_app {A} (l a b : list A) : rev_append l (a ++ b) = rev_append l a ++ b.
Proof. rewrite !rev_append_rev, app_assoc. reflexivity. Qed.

Theorem run_shift {A} (p : prog A) : forall s o a, run p (shift_st s o a) = shift_res (run p s) o a.
Proof.
  induction p as [x|k|k| |k IH|k IH|k IH|n k IH|n k IH|bs k IH]; intros s o a; cbn [run]; try reflexivity.
  - destruct s as [r o0 a0]; cbn [shift_st rest outr alloc]. destruct r; [reflexivity|]. apply (IH n (mkst r o0 a0)).
  - destruct s as [r o0 a0]; cbn [shift_st rest outr alloc]. destruct r; [reflexivity|]. apply (IH n (mkst (n :: r) o0 a0)).
  - destruct s as [r o0 a0]; cbn [shift_st rest outr alloc]. destruct r; [reflexivity|]. apply (IH n (mkst (n :: r) o0 a0)).
  - destruct s as [r o0 a0]; cbn [shift_st rest outr alloc]. destruct (n <=? 0); [apply (IH [] (mkst r o0 a0))|].
    destruct (split_at r (Z.to_N n) []) as [[bs r']|].
    + replace (a0 + a + Z.to_N n)%N with (a0 + Z.to_N n + a)%N by lia. apply (IH bs (mkst r' o0 (a0 + Z.to_N n)%N)).
    + cbn. unfold shift_st; cbn. f_equal. f_equal. lia.
  - destruct s as [r o0 a0]; cbn [shift_st rest outr alloc].
    replace (a0 + a + n)%N with (a0 + n + a)%N by lia. apply (IH (mkst r o0 (a0 + n)%N)).
  - destruct s as [r o0 a0]; cbn [shift_st rest outr alloc]. rewrite rev_append_app.
    replace (a0 + a + N.of_nat (length bs))%N with (a0 + N.of_nat (length bs) + a)%N by lia.
    apply (IH (mkst r (rev_append bs o0) (a0 + N.of_nat (length bs))%N)).
Qed.

(* ---- weakest preconditions with an allocation credit ----
   c : credit = (Cc * bytes consumed so far) - (units allocated so far);
   L : an upper bound of the number of input bytes left.
   No rule for PCrash and POOF: a program with a wp never crashes and never
   runs out of fuel.  With [chk = false] the credit is not checked (used for
   the statements that hold for every oracle, bounded or not). *)
Definition Cc : Z := 256.
Definition Dd : Z := 8192.

Section WP.
Variable chk : bool.

Fixpoint wp {A} (p : prog A) (c L : Z) (Q : A -> Z -> Z -> Prop) : Prop :=
  match p with
  | PRet a => Q a c L
  | PFail _ => True
  | PCrash _ => False
  | POOF => False
  | PReadByte k => 1 <= L -> forall b, wp (k b) (c + Cc) (L - 1) Q
  | PPeekRB k => 1 <= L -> forall b, wp (k b) c L Q
  | PPeek k => 1 <= L -> forall b, wp (k b) c L Q
  | PReadN n k =>
      (n <= 0 -> wp (k []) c L Q) /\
      (0 < n -> n <= L -> forall bs, lenZ bs = n -> wp (k bs) (c + (Cc - 1) * n) (L - n) Q)
  | PAlloc n k => (chk = true -> - Dd <= c - Z.of_N n) /\ wp k (c - Z.of_N n) L Q
  | PWrite bs k => (chk = true -> - Dd <= c - lenZ bs) /\ wp k (c - lenZ bs) L Q
  end.

Lemma wp_conseq {A} (p : prog A) : forall c L (Q Q' : A -> Z -> Z -> Prop),
  (forall a c' L', Q a c' L' -> Q' a c' L') -> wp p c L Q -> wp p c L Q'.
Proof.
  induction p as [x|k|k| |k IH|k IH|k IH|n k IH|n k IH|bs k IH]; intros c L Q Q' HQ; cbn [wp]; auto.
  - intros H HL b. eapply IH; eauto.
  - intros H HL b. eapply IH; eauto.
  - intros H HL b. eapply IH; eauto.
  - intros [H1 H2]. split; [intros; eapply IH; eauto|]. intros; eapply IH; eauto.
  - intros [H1 H2]. split; auto. eapply IH; eauto.
  - intros [H1 H2]. split; auto. eapply IH; eauto.
Qed.

Lemma wp_bind {A B} (p : prog A) (f : A -> prog B) : forall c L Q,
  wp p c L (fun a c' L' => wp (f a) c' L' Q) -> wp (pbind p f) c L Q.
Proof.
  induction p as [x|k|k| |k IH|k IH|k IH|n k IH|n k IH|bs k IH]; intros c L Q; cbn [wp pbind]; auto.
  - intros [H1 H2]. split; auto.
  - intros [H1 H2]. split; auto.
  - intros [H1 H2]. split; auto.
Qed.

Definition Psi (s : st) : Z := Z.of_N (alloc s) + Cc * lenZ (rest s).

Theorem wp_sound {A} (p : prog A) : forall c L Q s,
  wp p c L Q -> lenZ (rest s) <= L -> (chk = true -> - Dd <= c) ->
  match run p s with
  | Ret a s' => exists c' L', Q a c' L' /\ lenZ (rest s') <= L' /\
                              (chk = true -> Psi s' + c' <= Psi s + c /\ - Dd <= c')
  | Fail _ s' => chk = true -> Psi s' <= Psi s + c + Dd
  | Crash _ _ => False
  | OOF => False
  end.
Proof.
  unfold Psi, Cc, Dd.
  induction p as [x|k|k| |k IH|k IH|k IH|n k IH|n k IH|bs k IH]; intros c L Q s W HL Hc; cbn [run wp] in *; unfold Cc, Dd in *; auto.
  - exists c, L. split; [auto|]. split; [lia|]. intros Hk. split; [lia|auto].
  - intros Hk. specialize (Hc Hk). lia.
  - destruct s as [r o a]; cbn [rest outr alloc] in *. destruct r as [|b t]; cbn [rest outr alloc]; [intros Hk; specialize (Hc Hk); lia|].
    rewrite lenZ_cons in HL.
    specialize (IH b (c + 256) (L - 1) Q (mkst t o a) (W ltac:(pose proof (lenZ_nonneg t); lia) b)).
    cbn [rest outr alloc] in IH. specialize (IH ltac:(lia) ltac:(intros Hk; specialize (Hc Hk); lia)).
    destruct (run (k b) (mkst t o a)) as [x s'|kk s'|kk s'|]; auto.
    + destruct IH as (c' & L' & HQ & H1 & H2). exists c', L'. rewrite lenZ_cons. repeat split; auto; specialize (H2 H); lia.
    + rewrite lenZ_cons. intros Hk. specialize (IH Hk). lia.
  - destruct s as [r o a]; cbn [rest outr alloc] in *. destruct r as [|b t]; cbn [rest outr alloc]; [intros Hk; specialize (Hc Hk); lia|].
    pose proof (lenZ_nonneg t). rewrite lenZ_cons in HL.
    specialize (IH b c L Q (mkst (b :: t) o a) (W ltac:(lia) b)). cbn [rest] in IH. rewrite lenZ_cons in IH.
    specialize (IH ltac:(lia) Hc). rewrite lenZ_cons. exact IH.
  - destruct s as [r o a]; cbn [rest outr alloc] in *. destruct r as [|b t]; cbn [rest outr alloc]; [intros Hk; specialize (Hc Hk); lia|].
    pose proof (lenZ_nonneg t). rewrite lenZ_cons in HL.
    specialize (IH b c L Q (mkst (b :: t) o a) (W ltac:(lia) b)). cbn [rest] in IH. rewrite lenZ_cons in IH.
    specialize (IH ltac:(lia) Hc). rewrite lenZ_cons. exact IH.
  - destruct W as [W1 W2]. destruct s as [r o a]; cbn [rest outr alloc] in *.
    destruct (n <=? 0) eqn:En.
    + apply (IH [] c L Q (mkst r o a)); auto. apply W1. lia.
    + destruct (split_at r (Z.to_N n) []) as [[bs r']|] eqn:E.
      * destruct (split_at_some _ _ _ _ E) as [Er Lb]. subst r. rewrite lenZ_app in *.
        assert (Hb : lenZ bs = n) by (unfold lenZ; lia).
        pose proof (lenZ_nonneg r').
        specialize (IH bs (c + 255 * n) (L - n) Q (mkst r' o (a + Z.to_N n)%N) (W2 ltac:(lia) ltac:(lia) bs Hb)).
        cbn [rest outr alloc] in IH. specialize (IH ltac:(lia) ltac:(intros Hk; specialize (Hc Hk); lia)).
        destruct (run (k bs) _) as [x s'|kk s'|kk s'|]; auto.
        -- destruct IH as (c' & L' & HQ & H1 & H2). exists c', L'. repeat split; auto; specialize (H2 H0); lia.
        -- intros Hk. specialize (IH Hk). lia.
      * apply split_at_none in E. cbn [rest alloc]. unfold lenZ in *. cbn [length]. intros Hk. specialize (Hc Hk). lia.
  - destruct W as [W1 W2]. destruct s as [r o a]; cbn [rest outr alloc] in *.
    specialize (IH (c - Z.of_N n) L Q (mkst r o (a + n)%N) W2). cbn [rest alloc] in IH.
    specialize (IH HL W1). destruct (run k _) as [x s'|kk s'|kk s'|]; auto.
    + destruct IH as (c' & L' & HQ & H1 & H2). exists c', L'. repeat split; auto; specialize (H2 H); lia.
    + intros Hk. specialize (IH Hk). lia.
  - destruct W as [W1 W2]. destruct s as [r o a]; cbn [rest outr alloc] in *.
    specialize (IH (c - lenZ bs) L Q (mkst r (rev_append bs o) (a + N.of_nat (length bs))%N) W2). cbn [rest alloc] in IH.
    specialize (IH HL W1). unfold lenZ in *. destruct (run k _) as [x s'|kk s'|kk s'|]; auto.
    + destruct IH as (c' & L' & HQ & H1 & H2). exists c', L'. repeat split; auto; specialize (H2 H); lia.
    + intros Hk. specialize (IH Hk). lia.
Qed.
End WP.

(* ================================================================== *)
(* Part 2: the decoder                                                  *)
(* ================================================================== *)
Open Scope Z_scope.

(* lengths of the Go library's answers (validated by the harness on every
   answer it ships: float32 <= 48, float64 <= 326, timestamps <= 38 bytes) *)
Definition oracle_bounded (O : oracle) : Prop :=
  (forall b t, o_f32 O b = Some t -> lenZ t <= 64) /\
  (forall b t, o_f64 O b = Some t -> lenZ t <= 400) /\
  (forall n t, o_tsi O n = Some t -> lenZ t <= 64) /\
  (forall w b t, o_tsf O w b = Some t -> lenZ t <= 64).

(* ---- sizes of the pure helpers ---- *)
Lemma digits_fuel_length f : forall n acc, (length (digits_fuel f n acc) <= f + length acc)%nat.
Proof.
  induction f as [|f IH]; intros n acc; cbn [digits_fuel]; [lia|].
  destruct (n <? 10)%N; cbn [length]; [lia|]. specialize (IH (n / 10)%N ((48 + n mod 10)%N :: acc)). cbn [length] in IH. lia.
Qed.

Lemma print_N_length n : (n < 2 ^ 64)%N -> lenZ (print_N n) <= 65.
Proof.
  intros H. unfold print_N, lenZ. pose proof (digits_fuel_length (S (N.to_nat (N.log2 n))) n []) as D. cbn [length] in D.
  assert (N.log2 n < 64)%N.
  { destruct (N.eq_dec n 0) as [->|Hn]; [cbn; lia|]. apply N.log2_lt_pow2; lia. }
  lia.
Qed.

Lemma print_Z_length z : - two64Z < z < two64Z -> lenZ (print_Z z) <= 66.
Proof.
  intros H. unfold print_Z, two64Z in *. destruct (z <? 0) eqn:E.
  - pose proof (print_N_length (Z.to_N (- z)) ltac:(lia)). unfold lenZ in *. cbn [length]. lia.
  - pose proof (print_N_length (Z.to_N z) ltac:(lia)). lia.
Qed.

Lemma go_decode_size_bounds s n : go_decode_size s = Some n -> (1 <= n <= 4 /\ n <= length s)%nat.
Proof.
  unfold go_decode_size. destruct s as [|b0 t]; [discriminate|].
  destruct (b0 <? 128)%N; [intros H; inversion H; cbn; lia|].
  destruct (in_rng 194 223 b0).
  { destruct t as [|b1 t]; [discriminate|]. destruct (in_rng 128 191 b1); [|discriminate]. intros H; inversion H; cbn; lia. }
  destruct (in_rng 224 239 b0).
  { destruct t as [|b1 [|b2 t]]; try discriminate. destruct (_ && _); [|discriminate]. intros H; inversion H; cbn; lia. }
  destruct (in_rng 240 244 b0); [|discriminate].
  destruct t as [|b1 [|b2 [|b3 t]]]; try discriminate. destruct (_ && _); [|discriminate]. intros H; inversion H; cbn; lia.
Qed.

Lemma esc1_length b : (length (esc1 b) <= 6)%nat.
Proof. unfold esc1. repeat (destruct (_ || _) || destruct (_ =? _)%N); cbn; lia. Qed.

Lemma esc_json_length f : forall s, (length (esc_json f s) <= 6 * length s)%nat.
Proof.
  induction f as [|f IH]; intros s; cbn [esc_json]; [cbn; lia|].
  destruct s as [|b t]; [cbn; lia|].
  destruct (128 <=? b)%N.
  - destruct (go_decode_size (b :: t)) as [n|] eqn:E.
    + destruct (go_decode_size_bounds _ _ E) as [H1 H2]. rewrite app_length, firstn_length.
      specialize (IH (skipn n (b :: t))). rewrite skipn_length in IH. lia.
    + rewrite app_length. specialize (IH t). cbn [length lit_ufffd]. lia.
  - destruct (plain_byte b); cbn [length]; [specialize (IH t); lia|].
    rewrite app_length. pose proof (esc1_length b). specialize (IH t). lia.
Qed.

Lemma appendQuotedJSON_length s : lenZ (appendQuotedJSON s) <= 6 * lenZ s + 2.
Proof.
  unfold appendQuotedJSON, lenZ. cbn [length]. rewrite app_length. cbn [length].
  pose proof (esc_json_length (length s) s). lia.
Qed.

Lemma b64enc_length f : forall s, (length (b64enc f s) <= 2 * length s + 4)%nat.
Proof.
  induction f as [|f IH]; intros s; cbn [b64enc]; [cbn; lia|].
  destruct s as [|a [|b [|c t]]]; cbn [length]; try lia. specialize (IH t). lia.
Qed.

Lemma hexString_length s : length (hexString s) = (2 * length s)%nat.
Proof. induction s as [|x t IH]; cbn [hexString flat_map length app]; [reflexivity|]. unfold hexString in IH. rewrite IH. lia. Qed.

Lemma mac_string_length s : (length (mac_string s) <= 3 * length s)%nat.
Proof.
  induction s as [|x t IH]; [cbn; lia|]. cbn [mac_string]. destruct t as [|y t']; [cbn; lia|].
  cbn [length] in *. lia.
Qed.

Lemma dec_u8_length x : (length (dec_u8 x) <= 3)%nat.
Proof. unfold dec_u8. destruct (100 <=? x)%N; destruct (10 <=? x)%N; cbn; lia. Qed.
Lemma hex_u16_length x : (length (hex_u16 x) <= 4)%nat.
Proof. unfold hex_u16. destruct (4096 <=? x)%N; destruct (256 <=? x)%N; destruct (16 <=? x)%N; cbn; lia. Qed.

Lemma ip4_string_length p : (length (ip4_string p) <= 15)%nat.
Proof.
  unfold ip4_string. destruct p as [|a [|b [|c [|d [|e t]]]]]; cbn [length]; try lia.
  rewrite !app_length. cbn [length]. pose proof (dec_u8_length a). pose proof (dec_u8_length b).
  pose proof (dec_u8_length c). pose proof (dec_u8_length d). lia.
Qed.

Lemma ip6_print_length f : forall i gs zs ze, (length (ip6_print f i gs zs ze) <= 6 * f)%nat.
Proof.
  induction f as [|f IH]; intros i gs zs ze; cbn [ip6_print]; [cbn; lia|].
  destruct (8 <=? i)%N; [cbn; lia|]. destruct (i =? zs)%N.
  - cbn [app length]. destruct (8 <=? ze)%N; [cbn; lia|]. rewrite app_length.
    pose proof (hex_u16_length (nth (N.to_nat ze) gs 0%N)). specialize (IH (ze + 1)%N gs zs ze). lia.
  - rewrite !app_length. pose proof (hex_u16_length (nth (N.to_nat i) gs 0%N)). specialize (IH (i + 1)%N gs zs ze).
    destruct (0 <? i)%N; cbn [length]; lia.
Qed.

Lemma ip_string_length ip : (length ip = 4 \/ length ip = 16)%nat -> (length (ip_string ip) <= 54)%nat.
Proof.
  intros H. unfold ip_string.
  destruct (length ip =? 0)%nat eqn:E0; [apply Nat.eqb_eq in E0; lia|].
  destruct (negb (length ip =? 4)%nat && negb (length ip =? 16)%nat) eqn:E1.
  { destruct H as [H|H]; rewrite H in E1; discriminate. }
  destruct (to4 ip) as [p|].
  - pose proof (ip4_string_length p). lia.
  - unfold ip6_string. destruct (best_run 0 (groups16 ip) 255 255) as [zs ze].
    pose proof (ip6_print_length 9 0%N (groups16 ip) zs ze). lia.
Qed.

Lemma to4_length ip p : to4 ip = Some p -> length p = 4%nat.
Proof.
  unfold to4. destruct (length ip =? 4)%nat eqn:E; [intros H; inversion H; subst; apply Nat.eqb_eq; auto|].
  destruct (_ && _) eqn:E2; [|discriminate]. intros H. assert (Hp : p = skipn 12 ip) by congruence. subst p. clear H.
  apply andb_true_iff in E2 as [E2 _]. apply andb_true_iff in E2 as [E2 _]. apply andb_true_iff in E2 as [E2 _].
  apply Nat.eqb_eq in E2. rewrite skipn_length. lia.
Qed.

Lemma cidr_bytes_length l : forall n, length (cidr_bytes l n) = l.
Proof. induction l as [|l IH]; intros n; cbn [cidr_bytes length]; auto. destruct (8 <=? n)%N; cbn [length]; rewrite IH; auto. Qed.

Lemma ipnet_string_length octets pfx : lenZ (ipnet_string octets pfx) <= 160.
Proof.
  unfold ipnet_string, lenZ.
  destruct (CIDRMask pfx _) as [m|] eqn:EM; [|cbn; lia].
  assert (Hm : (length m = 4 \/ length m = 16)%nat).
  { unfold CIDRMask in EM. destruct (negb _ && negb _); [discriminate|]. destruct (_ || _); [discriminate|].
    assert (E : m = cidr_bytes (Z.to_nat ((if (length octets =? 4)%nat then 32 else 128) / 8)) (Z.to_N pfx)) by congruence.
    rewrite E, cidr_bytes_length. destruct (length octets =? 4)%nat; [left|right]; reflexivity. }
  set (nn := match to4 octets with Some p => Some p | None => if (length octets =? 16)%nat then Some octets else None end).
  assert (Hnn : forall ip, nn = Some ip -> (length ip = 4 \/ length ip = 16)%nat).
  { intros ip. unfold nn. destruct (to4 octets) as [p|] eqn:E4.
    - intros H; inversion H; subst. left. eapply to4_length; eauto.
    - destruct (length octets =? 16)%nat eqn:E16; [|discriminate]. intros H; inversion H; subst. right. apply Nat.eqb_eq; auto. }
  destruct nn as [ip|]; [|cbn; lia]. specialize (Hnn ip eq_refl).
  pose proof (ip_string_length ip Hnn) as Hip.
  assert (Hmk : forall mk, (length mk <= 16)%nat ->
     (length (match simpleMaskLength mk with
              | (-1)%Z => ip_string ip ++ [47%N] ++ hexString mk
              | l => ip_string ip ++ [47%N] ++ print_N (Z.to_N l) end) <= 160)%nat).
  { intros mk Hl. pose proof (simpleMaskLength_range mk) as R.
    assert (P : (length (ip_string ip ++ [47%N] ++ hexString mk) <= 160)%nat).
    { rewrite !app_length, hexString_length. cbn [length]. lia. }
    assert (P2 : (length (ip_string ip ++ [47%N] ++ print_N (Z.to_N (simpleMaskLength mk))) <= 160)%nat).
    { rewrite !app_length. cbn [length].
      pose proof (print_N_length (Z.to_N (simpleMaskLength mk)) ltac:(change (2^64)%N with 18446744073709551616%N; lia)).
      unfold lenZ in *. lia. }
    destruct (simpleMaskLength mk) as [|q|q]; auto. destruct q; auto. }
  destruct (length m =? 4)%nat eqn:E4.
  - destruct (length ip =? 4)%nat; [|cbn; lia]. cbv beta iota. apply Nat.eqb_eq in E4.
    pose proof (Hmk m ltac:(lia)). lia.
  - destruct (length m =? 16)%nat eqn:E16; [|cbn; lia]. apply Nat.eqb_eq in E16.
    destruct (length ip =? 4)%nat; cbv beta iota.
    + pose proof (Hmk (skipn 12 m) ltac:(rewrite skipn_length; lia)). lia.
    + pose proof (Hmk m ltac:(lia)). lia.
Qed.

Lemma index_ok_true k bs : lenZ bs = Z.of_nat k -> index_ok k bs = true.
Proof. unfold index_ok, lenZ. intros H. apply Nat.leb_le. lia. Qed.

Lemma acc64_range pb : - two63Z <= acc64 pb < two63Z.
Proof.
  unfold acc64. rewrite <- fold_left_rev_right. induction (rev pb) as [|x t IH]; cbn [fold_right].
  - unfold two63Z; lia.
  - apply wrap64_range.
Qed.

Lemma wrap64_small z : 0 <= z < two63Z -> wrap64 z = z.
Proof. intros H. apply wrap64_id. unfold two63Z in *. lia. Qed.

Lemma quote_length t : lenZ (quote t) = lenZ t + 2.
Proof. unfold quote, lenZ. cbn [length]. rewrite app_length. cbn [length]. lia. Qed.

Lemma lenZ_1 (x : N) : lenZ [x] = 1.
Proof. reflexivity. Qed.

(* ---- wp of every decoder function ---- *)
Section DecoderWP.
Variable chk : bool.
Variable Orc : oracle.
Hypothesis Hob : chk = true -> oracle_bounded Orc.

Notation wpc := (wp chk).
Definition Lmax : Z := 2 ^ 60.

Ltac ck := intros Hk; repeat match goal with H : chk = true -> ?P |- _ =>
  lazymatch P with oracle_bounded _ => fail | _ => specialize (H Hk) end end.

Lemma wp_readNBytes n c L (Q : _ -> Z -> Z -> Prop) :
  (chk = true -> -4096 <= c) ->
  (forall bs c' L', 0 <= n -> lenZ bs = n -> L' = L - n -> (0 < n -> n <= L) -> (chk = true -> c + 254 * n <= c') -> Q bs c' L') ->
  wpc (readNBytes n) c L Q.
Proof.
  intros Hc HQ. unfold readNBytes, maxPrealloc. destruct (n <? 0) eqn:E; [exact I|].
  destruct (4096 <? n) eqn:E2.
  - change (4096 <? 0) with false. cbv iota. cbn [wp]. split; [ck; unfold Dd; lia|].
    split; [intros; lia|]. intros H0 HL bs Hb. apply HQ; auto; try lia. ck. unfold Cc. lia.
  - rewrite E. cbn [wp]. split; [ck; unfold Dd; lia|]. split.
    + intros Hn. assert (n = 0) by lia. subst n. apply HQ; auto; try lia; try (ck; lia).
    + intros H0 HL bs Hb. apply HQ; auto; try lia. ck. unfold Cc. lia.
Qed.



Lemma wp_decodeIntAT minor c L (Q : _ -> Z -> Z -> Prop) :
  (chk = true -> -4000 <= c) ->
  (forall v c' L', L' <= L -> (chk = true -> c <= c') -> - two63Z <= v < two63Z -> Q v c' L') ->
  wpc (decodeIntAdditionalType minor) c L Q.
Proof.
  intros Hc HQ. unfold decodeIntAdditionalType.
  destruct (minor <=? 23)%N eqn:Em; [cbn [wp]; apply HQ; [lia|ck; lia|unfold two63Z; lia]|].
  assert (G : forall k : nat, (k <= 8)%nat ->
    wpc (pb <- readNBytes (Z.of_nat k);; (if index_ok k pb then PRet (acc64 (firstn k pb)) else PCrash PIndexRange)) c L Q).
  { intros k Hk8. apply wp_bind. apply wp_readNBytes; [ck; lia|].
    intros bs c' L' H0 Hb HL' HnL Hc'. rewrite (index_ok_true k bs Hb). cbn [wp]. apply HQ; [lia|ck; lia|apply acc64_range]. }
  destruct (minor =? additionalTypeIntUint8)%N; [apply (G 1%nat); lia|].
  destruct (minor =? additionalTypeIntUint16)%N; [apply (G 2%nat); lia|].
  destruct (minor =? additionalTypeIntUint32)%N; [apply (G 4%nat); lia|].
  destruct (minor =? additionalTypeIntUint64)%N; [apply (G 8%nat); lia|]. exact I.
Qed.

Lemma wp_readByte c L (Q : _ -> Z -> Z -> Prop) : (1 <= L -> forall b, Q b (c + Cc) (L - 1)) -> wpc readByte c L Q.
Proof. intros H. unfold readByte. cbn [wp]. auto. Qed.

Lemma wp_decodeInteger c L (Q : _ -> Z -> Z -> Prop) :
  (chk = true -> -3000 <= c) ->
  (forall v c' L', L' <= L - 1 -> (chk = true -> c + 256 <= c') -> - two63Z <= v < two63Z -> Q v c' L') ->
  wpc decodeInteger c L Q.
Proof.
  intros Hc HQ. unfold decodeInteger. apply wp_bind. apply wp_readByte. intros HL b.
  destruct (negb _ && negb _); [exact I|]. apply wp_bind. apply wp_decodeIntAT; [ck; unfold Cc; lia|].
  intros v c' L' H1 H2 Hv. destruct (major_of b =? 0)%N; cbn [wp]; apply HQ; try lia; try apply wrap64_range; ck; unfold Cc in *; lia.
Qed.

Lemma wp_decodeFloat c L (Q : _ -> Z -> Z -> Prop) :
  (chk = true -> -3000 <= c) ->
  (forall wb c' L', L' <= L - 5 -> (chk = true -> c + 1200 <= c') ->
     (fst wb = W64 -> L' <= L - 9 /\ (chk = true -> c + 2200 <= c')) -> Q wb c' L') ->
  wpc decodeFloat c L Q.
Proof.
  intros Hc HQ. unfold decodeFloat. apply wp_bind. apply wp_readByte. intros HL b.
  destruct (negb _); [exact I|]. destruct (minor_of b =? additionalTypeFloat16)%N; [exact I|].
  destruct (minor_of b =? additionalTypeFloat32)%N.
  { apply wp_bind. apply wp_readNBytes; [ck; unfold Cc; lia|]. intros bs c' L' H0 Hb HL' HnL Hc'.
    rewrite (index_ok_true 4 bs Hb). cbn [wp]. apply HQ; [lia|ck; unfold Cc in *; lia|]. cbn [fst]. discriminate. }
  destruct (minor_of b =? additionalTypeFloat64)%N; [|exact I].
  apply wp_bind. apply wp_readNBytes; [ck; unfold Cc; lia|]. intros bs c' L' H0 Hb HL' HnL Hc'.
  rewrite (index_ok_true 8 bs Hb). cbn [wp]. apply HQ; [lia|ck; unfold Cc in *; lia|]. intros _. split; [lia|ck; unfold Cc in *; lia].
Qed.

Lemma wp_decodeString (nq : bool) c L (Q : _ -> Z -> Z -> Prop) :
  (chk = true -> -2000 <= c) ->
  (forall (s : list N) c' L', L' <= L - 1 - (if nq then lenZ s else 0) ->
     (chk = true -> (if nq then c + 256 + 253 * lenZ s else c + 100 + 2 * lenZ s) <= c') -> Q s c' L') ->
  wpc (decodeString nq) c L Q.
Proof.
  intros Hc HQ. unfold decodeString. apply wp_bind. apply wp_readByte. intros HL b.
  destruct (negb _); [exact I|]. apply wp_bind. apply wp_decodeIntAT; [ck; unfold Cc; lia|].
  intros v c1 L1 H1 H2 Hv. apply wp_bind. apply wp_readNBytes; [ck; unfold Cc in *; lia|].
  intros bs c2 L2 H0 Hb HL2 HnL Hc2. destruct nq; cbn [wp].
  - split; [ck; unfold Dd, Cc, len, lenZ in *; lia|]. apply HQ; [lia|]. ck. unfold Cc, len, lenZ in *. lia.
  - pose proof (appendQuotedJSON_length bs) as Hq. pose proof (lenZ_nonneg (appendQuotedJSON bs)).
    split; [ck; unfold Dd, Cc, len, lenZ in *; lia|]. apply HQ; [lia|]. ck. unfold Cc, len, lenZ in *. lia.
Qed.

Lemma wp_decodeUTF8String c L (Q : _ -> Z -> Z -> Prop) :
  (chk = true -> -2000 <= c) ->
  (forall (s : list N) c' L', L' <= L - 1 -> (chk = true -> c + 100 + 2 * lenZ s <= c') -> Q s c' L') ->
  wpc decodeUTF8String c L Q.
Proof.
  intros Hc HQ. unfold decodeUTF8String. apply wp_bind. apply wp_readByte. intros HL b.
  destruct (negb _); [exact I|]. apply wp_bind. apply wp_decodeIntAT; [ck; unfold Cc; lia|].
  intros v c1 L1 H1 H2 Hv. apply wp_bind. apply wp_readNBytes; [ck; unfold Cc in *; lia|].
  intros bs c2 L2 H0 Hb HL2 HnL Hc2. cbn [wp].
  pose proof (appendQuotedJSON_length bs) as Hq. pose proof (lenZ_nonneg (appendQuotedJSON bs)).
  split; [ck; unfold Dd, Cc, len, lenZ in *; lia|]. apply HQ; [lia|]. ck. unfold Cc, len, lenZ in *. lia.
Qed.


Lemma wp_decodeStringToDataUrl mime c L (Q : _ -> Z -> Z -> Prop) :
  L < Lmax -> lenZ mime <= 16 ->
  (chk = true -> -2000 <= c) ->
  (forall (s : list N) c' L', L' <= L - 1 -> (chk = true -> c + 100 + 2 * lenZ s <= c') -> Q s c' L') ->
  wpc (decodeStringToDataUrl mime) c L Q.
Proof.
  intros HLm Hmime Hc HQ. unfold decodeStringToDataUrl. apply wp_bind. apply wp_readByte. intros HL b.
  destruct (negb _); [exact I|]. apply wp_bind. apply wp_decodeIntAT; [ck; unfold Cc; lia|].
  intros v c1 L1 H1 H2 Hv. apply wp_bind. apply wp_readNBytes; [ck; unfold Cc in *; lia|].
  intros bs c2 L2 H0 Hb HL2 HnL Hc2.
  pose proof (lenZ_nonneg bs) as Hb0. pose proof (lenZ_nonneg mime) as Hm0.
  unfold Lmax in HLm. change (2 ^ 60) with 1152921504606846976 in HLm.
  assert (E1 : wrap64 (lenZ bs + 2) = lenZ bs + 2) by (apply wrap64_small; unfold two63Z; lia).
  rewrite E1.
  assert (Hd : 0 <= (lenZ bs + 2) / 3 <= lenZ bs + 2) by (split; [apply Z.div_pos; lia|apply Z.div_le_upper_bound; lia]).
  assert (E2 : wrap64 ((lenZ bs + 2) / 3) = (lenZ bs + 2) / 3) by (apply wrap64_small; unfold two63Z; lia).
  rewrite E2.
  assert (E3 : wrap64 ((lenZ bs + 2) / 3 * 4) = (lenZ bs + 2) / 3 * 4) by (apply wrap64_small; unfold two63Z; lia).
  rewrite E3.
  assert (E4 : wrap64 (15 + lenZ mime) = 15 + lenZ mime) by (apply wrap64_small; unfold two63Z; lia).
  rewrite E4.
  assert (E5 : wrap64 (15 + lenZ mime + (lenZ bs + 2) / 3 * 4) = 15 + lenZ mime + (lenZ bs + 2) / 3 * 4) by (apply wrap64_small; unfold two63Z; lia).
  rewrite E5.
  replace (15 + lenZ mime + (lenZ bs + 2) / 3 * 4 <? 0) with false by lia.
  cbn [wp]. rewrite Z2N.id by lia.
  assert (Hd2 : (lenZ bs + 2) / 3 * 4 <= 2 * lenZ bs + 4).
  { assert (3 * ((lenZ bs + 2) / 3) <= lenZ bs + 2) by (apply Z.mul_div_le; lia). lia. }
  split; [ck; unfold Dd, Cc in *; lia|]. apply HQ; [lia|]. ck.
  pose proof (b64enc_length (length bs) bs) as Hb64.
  unfold lenZ in *. rewrite !app_length. cbn [length lit_data lit_b64]. unfold Cc in *. lia.
Qed.


Lemma wp_ask {A} (o : option A) c L (Q : A -> Z -> Z -> Prop) : (forall t, o = Some t -> Q t c L) -> wpc (ask o) c L Q.
Proof. intros H. destruct o; cbn [ask wp]; auto. Qed.

Lemma wp_decodeTimeStamp c L (Q : _ -> Z -> Z -> Prop) :
  (chk = true -> -2000 <= c) ->
  (forall (s : list N) c' L', L' <= L - 1 -> (chk = true -> lenZ s <= 66 /\ c + 256 <= c') -> Q s c' L') ->
  wpc (decodeTimeStamp Orc) c L Q.
Proof.
  intros Hc HQ. unfold decodeTimeStamp. cbn [wp]. intros HL b.
  destruct (_ || _).
  - apply wp_bind. apply wp_decodeInteger; [ck; lia|]. intros v c1 L1 H1 H2 Hv.
    apply wp_bind. apply wp_ask. intros t Ht. cbn [wp]. apply HQ; [lia|]. ck.
    destruct (Hob Hk) as (_ & _ & B & _). specialize (B v t Ht). rewrite quote_length. lia.
  - destruct (major_of b =? majorTypeSimpleAndFloat)%N; [|exact I].
    apply wp_bind. apply wp_decodeFloat; [ck; lia|]. intros wb c1 L1 H1 H2 H3.
    apply wp_bind. apply wp_ask. intros t Ht. cbn [wp]. apply HQ; [lia|]. ck.
    destruct (Hob Hk) as (_ & _ & _ & B). specialize (B _ _ t Ht). rewrite quote_length. lia.
Qed.

Lemma wp_decodeTagData c L (Q : _ -> Z -> Z -> Prop) :
  L < Lmax ->
  (chk = true -> -1000 <= c) ->
  (forall (s : list N) c' L', L' <= L - 1 -> (chk = true -> c + 100 + 2 * lenZ s <= c') -> Q s c' L') ->
  wpc (decodeTagData Orc) c L Q.
Proof.
  intros HLm Hc HQ. unfold decodeTagData. apply wp_bind. apply wp_readByte. intros HL b.
  destruct (negb _); [exact I|].
  destruct (minor_of b =? additionalTypeTimestamp)%N.
  { apply wp_decodeTimeStamp; [ck; unfold Cc; lia|]. intros s c1 L1 H1 H2. apply HQ; [lia|]. ck. unfold Cc in *. lia. }
  destruct (minor_of b =? additionalTypeIntUint8)%N.
  { apply wp_bind. apply wp_decodeIntAT; [ck; unfold Cc; lia|]. intros v c1 L1 H1 H2 Hv.
    destruct (_ =? additionalTypeEmbeddedCBOR)%N; [|exact I]. cbn [wp]. intros HL1 b1.
    destruct (negb _); [exact I|].
    apply wp_decodeStringToDataUrl; [unfold Lmax in *; lia|cbn; lia|ck; unfold Cc in *; lia|].
    intros s c2 L2 H3 H4. apply HQ; [lia|]. ck. unfold Cc in *. lia. }
  destruct (minor_of b =? additionalTypeIntUint16)%N; [|exact I].
  apply wp_bind. apply wp_decodeIntAT; [ck; unfold Cc; lia|]. intros v c1 L1 H1 H2 Hv.
  destruct (_ =? additionalTypeEmbeddedJSON)%N.
  { cbn [wp]. intros HL1 b1. destruct (negb _); [exact I|].
    apply wp_decodeString; [ck; unfold Cc in *; lia|]. intros s c2 L2 H3 H4. pose proof (lenZ_nonneg s).
    apply HQ; [lia|]. ck. unfold Cc in *. lia. }
  destruct (_ =? additionalTypeTagNetworkAddr)%N.
  { apply wp_bind. apply wp_decodeString; [ck; unfold Cc in *; lia|]. intros s c2 L2 H3 H4. pose proof (lenZ_nonneg s).
    destruct (length s =? 6)%nat eqn:E6.
    { cbn [wp]. apply HQ; [lia|]. ck. rewrite quote_length. pose proof (mac_string_length s). unfold lenZ, Cc in *. lia. }
    destruct ((length s =? 4)%nat || (length s =? 16)%nat) eqn:E4; [|exact I].
    cbn [wp]. apply HQ; [lia|]. ck. rewrite quote_length.
    assert (Hl : (length s = 4 \/ length s = 16)%nat).
    { apply orb_true_iff in E4 as [E4|E4]; apply Nat.eqb_eq in E4; auto. }
    pose proof (ip_string_length s Hl). unfold lenZ, Cc in *. lia. }
  destruct (_ =? additionalTypeTagNetworkPrefix)%N.
  { apply wp_bind. apply wp_readByte. intros HL1 b1. destruct (negb _); [exact I|].
    apply wp_bind. apply wp_decodeString; [ck; unfold Cc in *; lia|]. intros s c2 L2 H3 H4. pose proof (lenZ_nonneg s).
    apply wp_bind. apply wp_decodeInteger; [ck; unfold Cc in *; lia|]. intros pv c3 L3 H5 H6 Hpv.
    cbn [wp]. apply HQ; [lia|]. ck. rewrite quote_length. pose proof (ipnet_string_length s pv). unfold Cc in *. lia. }
  destruct (_ =? additionalTypeTagHexString)%N; [|exact I].
  apply wp_bind. apply wp_decodeString; [ck; unfold Cc in *; lia|]. intros s c2 L2 H3 H4. pose proof (lenZ_nonneg s).
  cbn [wp]. apply HQ; [lia|]. ck. rewrite quote_length. pose proof (hexString_length s). unfold lenZ, Cc in *. lia.
Qed.

Lemma wp_decodeSimpleFloat c L (Q : _ -> Z -> Z -> Prop) :
  (chk = true -> -1000 <= c) ->
  (forall (s : list N) c' L', L' <= L - 1 -> (chk = true -> c + 100 + 2 * lenZ s <= c') -> Q s c' L') ->
  wpc (decodeSimpleFloat Orc) c L Q.
Proof.
  intros Hc HQ. unfold decodeSimpleFloat. cbn [wp]. intros HL b.
  destruct (negb _); [exact I|].
  destruct (minor_of b =? additionalTypeBoolTrue)%N; [cbn [wp]; intros _ _; apply HQ; [lia|ck; unfold Cc; cbn; lia]|].
  destruct (minor_of b =? additionalTypeBoolFalse)%N; [cbn [wp]; intros _ _; apply HQ; [lia|ck; unfold Cc; cbn; lia]|].
  destruct (minor_of b =? additionalTypeNull)%N; [cbn [wp]; intros _ _; apply HQ; [lia|ck; unfold Cc; cbn; lia]|].
  destruct (_ || _); [|exact I].
  apply wp_bind. apply wp_decodeFloat; [ck; lia|]. intros [w bits] c1 L1 H1 H2 H3. cbn [fst snd] in *.
  destruct w.
  - destruct (f32_is_nan bits); [cbn [wp]; apply HQ; [lia|ck; cbn; lia]|].
    destruct (bits =? f32_pos_inf)%N; [cbn [wp]; apply HQ; [lia|ck; cbn; lia]|].
    destruct (bits =? f32_neg_inf)%N; [cbn [wp]; apply HQ; [lia|ck; cbn; lia]|].
    apply wp_ask. intros t Ht. apply HQ; [lia|]. ck. destruct (Hob Hk) as (B & _). specialize (B _ t Ht). lia.
  - destruct (H3 eq_refl) as [H4 H5].
    destruct (f64_is_nan bits); [cbn [wp]; apply HQ; [lia|ck; cbn; lia]|].
    destruct (bits =? f64_pos_inf)%N; [cbn [wp]; apply HQ; [lia|ck; cbn; lia]|].
    destruct (bits =? f64_neg_inf)%N; [cbn [wp]; apply HQ; [lia|ck; cbn; lia]|].
    apply wp_ask. intros t Ht. apply HQ; [lia|]. ck. destruct (Hob Hk) as (_ & B & _). specialize (B _ t Ht). lia.
Qed.

Lemma wp_leaf major c L (Q : _ -> Z -> Z -> Prop) :
  L < Lmax ->
  (chk = true -> 0 <= c) ->
  (forall (s : list N) c' L', L' <= L - 1 -> (chk = true -> c + 100 + 2 * lenZ s <= c') -> Q s c' L') ->
  wpc (leaf Orc major) c L Q.
Proof.
  intros HLm Hc HQ. unfold leaf.
  destruct (major =? majorTypeUnsignedInt)%N.
  { apply wp_bind. apply wp_readByte. intros HL b. apply wp_bind. apply wp_decodeIntAT; [ck; unfold Cc; lia|].
    intros v c1 L1 H1 H2 Hv. cbn [wp]. apply HQ; [lia|]. ck.
    pose proof (Z.mod_pos_bound v two64Z ltac:(unfold two64Z; lia)) as Hm.
    pose proof (print_N_length (Z.to_N (v mod two64Z)) ltac:(unfold two64Z in *; change (2^64)%N with 18446744073709551616%N; lia)).
    unfold Cc in *. lia. }
  destruct (major =? majorTypeNegativeInt)%N.
  { apply wp_bind. apply wp_decodeInteger; [ck; lia|]. intros v c1 L1 H1 H2 Hv. cbn [wp]. apply HQ; [lia|]. ck.
    pose proof (print_Z_length v ltac:(unfold two63Z, two64Z in *; lia)). lia. }
  destruct (major =? majorTypeByteString)%N; [apply wp_decodeString; [ck; lia|]; intros s c1 L1 H1 H2; apply HQ; [lia|auto]|].
  destruct (major =? majorTypeUtf8String)%N; [apply wp_decodeUTF8String; [ck; lia|]; auto|].
  destruct (major =? majorTypeTags)%N; [apply wp_decodeTagData; auto; ck; lia|].
  apply wp_decodeSimpleFloat; auto. ck; lia.
Qed.

Lemma wp_container_header minor c L (Q : _ -> Z -> Z -> Prop) :
  (chk = true -> -4000 <= c) ->
  (forall h c' L', L' <= L -> (chk = true -> c <= c') -> Q h c' L') ->
  wpc (container_header minor) c L Q.
Proof.
  intros Hc HQ. unfold container_header. destruct (minor =? additionalTypeInfiniteCount)%N.
  - cbn [wp]. apply HQ; [lia|ck; lia].
  - apply wp_bind. apply wp_decodeIntAT; auto. intros v c' L' H1 H2 Hv. cbn [wp]. apply HQ; auto.
Qed.

Definition one_spec (f : nat) : Prop :=
  forall c L (Q : unit -> Z -> Z -> Prop), L < Lmax -> 2 * Z.max L 0 + 1 <= Z.of_nat f -> (chk = true -> 0 <= c) ->
    (forall c' L', 1 <= L -> L' <= L - 1 -> (chk = true -> c + 100 <= c') -> Q tt c' L') ->
    wpc (cbor2JsonOneObject Orc f) c L Q.

Definition loop_spec (loop : nat -> bool -> Z -> Z -> prog unit) (f : nat) : Prop :=
  forall indef i ln c L (Q : unit -> Z -> Z -> Prop), L < Lmax -> 2 * Z.max L 0 + 2 <= Z.of_nat f -> (chk = true -> 2 <= c) ->
    (forall c' L', L' <= L -> (chk = true -> c - 2 <= c') -> Q tt c' L') ->
    wpc (loop f indef i ln) c L Q.


Lemma decoder_wp f : one_spec f /\ loop_spec (array_loop Orc) f /\ loop_spec (map_loop Orc) f.
Proof.
  induction f as [|f (IHone & IHarr & IHmap)].
  { repeat split; intros until Q; intros HLm Hf; exfalso; lia. }
  repeat split.
  - (* cbor2JsonOneObject (S f) *)
    intros c L Q HLm Hf Hc HQ. cbn [cbor2JsonOneObject wp]. intros HL pb.
    destruct (major_of pb =? majorTypeArray)%N.
    { cbn [wp]. rewrite lenZ_1. split; [ck; unfold Dd; lia|].
      apply wp_bind. apply wp_readByte. intros HL1 b. destruct (negb _); [exact I|].
      apply wp_bind. apply wp_container_header; [ck; unfold Cc; lia|]. intros h c1 L1 H1 H2.
      apply IHarr; [lia|lia|ck; unfold Cc in *; lia|]. intros c2 L2 H3 H4. apply HQ; [lia|lia|ck; unfold Cc in *; lia]. }
    destruct (major_of pb =? majorTypeMap)%N.
    { apply wp_bind. apply wp_readByte. intros HL1 b. destruct (negb _); [exact I|].
      apply wp_bind. apply wp_container_header; [ck; unfold Cc; lia|]. intros h c1 L1 H1 H2.
      cbn [wp]. rewrite lenZ_1. split; [ck; unfold Dd, Cc in *; lia|].
      apply IHmap; [lia|lia|ck; unfold Cc in *; lia|]. intros c2 L2 H3 H4. apply HQ; [lia|lia|ck; unfold Cc in *; lia]. }
    apply wp_bind. apply wp_leaf; auto. intros s c1 L1 H1 H2. pose proof (lenZ_nonneg s) as Hs0.
    assert (Hlen : Z.of_N (len s) = lenZ s) by (unfold len, lenZ; lia).
    cbn [wp]. rewrite Hlen. split; [ck; unfold Dd; lia|]. split; [ck; unfold Dd; lia|].
    apply HQ; [lia|lia|ck; lia].
  - (* array_loop (S f) *)
    intros indef i ln c L Q HLm Hf Hc HQ. cbn [array_loop]. cbv zeta.
    assert (Body : forall c0 L0, L0 <= L -> (chk = true -> c <= c0) ->
       wpc (_ <- cbor2JsonOneObject Orc f;;
            (if indef
             then PPeek (fun pb => if is_break_byte pb then PReadByte (fun _ => PWrite [93%N] (PRet tt))
                                   else PWrite [44%N] (array_loop Orc f indef (i + 1) ln))
             else if i + 1 <? ln then PWrite [44%N] (array_loop Orc f indef (i + 1) ln)
                  else array_loop Orc f indef (i + 1) ln)) c0 L0 Q).
    { intros c0 L0 HL0 Hc0. apply wp_bind. apply IHone; [lia|lia|ck; lia|]. intros c1 L1 HL0' H1 H2.
      destruct indef.
      - cbn [wp]. intros HL1 pb1. destruct (is_break_byte pb1).
        + cbn [wp]. intros _ _. rewrite lenZ_1. split; [ck; unfold Dd, Cc; lia|]. apply HQ; [lia|ck; unfold Cc; lia].
        + cbn [wp]. rewrite lenZ_1. split; [ck; unfold Dd; lia|].
          apply IHarr; [lia|lia|ck; lia|]. intros c2 L2 H3 H4. apply HQ; [lia|ck; lia].
      - destruct (i + 1 <? ln).
        + cbn [wp]. rewrite lenZ_1. split; [ck; unfold Dd; lia|].
          apply IHarr; [lia|lia|ck; lia|]. intros c2 L2 H3 H4. apply HQ; [lia|ck; lia].
        + apply IHarr; [lia|lia|ck; lia|]. intros c2 L2 H3 H4. apply HQ; [lia|ck; lia]. }
    destruct indef; cbn [orb].
    + cbn [wp]. intros HL pb. destruct (is_break_byte pb).
      * cbn [wp]. intros _ _. rewrite lenZ_1. split; [ck; unfold Dd, Cc; lia|]. apply HQ; [lia|ck; unfold Cc; lia].
      * apply Body; [lia|ck; lia].
    + destruct (i <? ln).
      * apply Body; [lia|ck; lia].
      * cbn [wp]. rewrite lenZ_1. split; [ck; unfold Dd; lia|]. apply HQ; [lia|ck; lia].
  - (* map_loop (S f) *)
    intros indef i ln c L Q HLm Hf Hc HQ. cbn [map_loop]. cbv zeta.
    assert (Body : forall c0 L0, L0 <= L -> (chk = true -> c <= c0) ->
       wpc (_ <- cbor2JsonOneObject Orc f;;
            (if i mod 2 =? 0 then PWrite [58%N] (map_loop Orc f indef (i + 1) ln)
             else if indef
             then PPeek (fun pb => if is_break_byte pb then PReadByte (fun _ => PWrite [125%N] (PRet tt))
                                   else PWrite [44%N] (map_loop Orc f indef (i + 1) ln))
             else if i + 1 <? ln then PWrite [44%N] (map_loop Orc f indef (i + 1) ln)
                  else map_loop Orc f indef (i + 1) ln)) c0 L0 Q).
    { intros c0 L0 HL0 Hc0. apply wp_bind. apply IHone; [lia|lia|ck; lia|]. intros c1 L1 HL0' H1 H2.
      destruct (i mod 2 =? 0).
      { cbn [wp]. rewrite lenZ_1. split; [ck; unfold Dd; lia|].
        apply IHmap; [lia|lia|ck; lia|]. intros c2 L2 H3 H4. apply HQ; [lia|ck; lia]. }
      destruct indef.
      - cbn [wp]. intros HL1 pb1. destruct (is_break_byte pb1).
        + cbn [wp]. intros _ _. rewrite lenZ_1. split; [ck; unfold Dd, Cc; lia|]. apply HQ; [lia|ck; unfold Cc; lia].
        + cbn [wp]. rewrite lenZ_1. split; [ck; unfold Dd; lia|].
          apply IHmap; [lia|lia|ck; lia|]. intros c2 L2 H3 H4. apply HQ; [lia|ck; lia].
      - destruct (i + 1 <? ln).
        + cbn [wp]. rewrite lenZ_1. split; [ck; unfold Dd; lia|].
          apply IHmap; [lia|lia|ck; lia|]. intros c2 L2 H3 H4. apply HQ; [lia|ck; lia].
        + apply IHmap; [lia|lia|ck; lia|]. intros c2 L2 H3 H4. apply HQ; [lia|ck; lia]. }
    destruct indef; cbn [orb].
    + cbn [wp]. intros HL pb. destruct (is_break_byte pb).
      * cbn [wp]. intros _ _. rewrite lenZ_1. split; [ck; unfold Dd, Cc; lia|]. apply HQ; [lia|ck; unfold Cc; lia].
      * apply Body; [lia|ck; lia].
    + destruct (i <? ln).
      * apply Body; [lia|ck; lia].
      * cbn [wp]. rewrite lenZ_1. split; [ck; unfold Dd; lia|]. apply HQ; [lia|ck; lia].
Qed.
End DecoderWP.

(* ---- the stream loop and the observable result ---- *)
Section Top.
Variable chk : bool.
Variable Orc : oracle.
Hypothesis Hob : chk = true -> oracle_bounded Orc.

Lemma many_inv f : forall s,
  lenZ (rest s) < Lmax -> 2 * lenZ (rest s) + 2 <= Z.of_nat f ->
  match many Orc f s with
  | Ret _ s' => chk = true -> Psi s' <= Psi s
  | Fail _ s' => chk = true -> Psi s' <= Psi s + Dd
  | Crash _ _ => False
  | OOF => False
  end.
Proof.
  induction f as [|f IH]; intros s HLm Hf; [pose proof (lenZ_nonneg (rest s)); lia|].
  cbn [many]. destruct (rest s) as [|b t] eqn:Er; [intros _; lia|]. rewrite <- Er in HLm, Hf.
  pose proof (lenZ_nonneg (rest s)) as H0.
  pose proof (proj1 (decoder_wp chk Orc Hob f) 0 (lenZ (rest s))
                (fun _ c' L' => L' <= lenZ (rest s) - 1 /\ (chk = true -> 100 <= c'))
                HLm ltac:(lia) ltac:(intros; lia)
                ltac:(intros c' L' _ H1 H2; split; [lia|intros Hk; specialize (H2 Hk); lia])) as W.
  pose proof (wp_sound chk _ _ _ _ s W ltac:(lia) ltac:(intros; unfold Dd; lia)) as S.
  destruct (run (cbor2JsonOneObject Orc f) s) as [x s'|k s'|k s'|]; auto.
  - destruct S as (c' & L' & (HL' & Hc') & HR & HP).
    specialize (IH (write_nl s')). cbn [write_nl rest] in IH.
    specialize (IH ltac:(lia) ltac:(lia)).
    destruct (many Orc f (write_nl s')) as [y s''|k s''|k s''|]; auto.
    + intros Hk. specialize (IH Hk). specialize (HP Hk). specialize (Hc' Hk).
      unfold Psi, write_nl in *. cbn [rest alloc] in *. lia.
    + intros Hk. specialize (IH Hk). specialize (HP Hk). specialize (Hc' Hk).
      unfold Psi, write_nl in *. cbn [rest alloc] in *. lia.
  - intros Hk. specialize (S Hk). lia.
Qed.
End Top.

Definition fits_memory (bs : list N) : Prop := lenZ bs < 2 ^ 60.

Lemma fuel_for_ok bs : 2 * lenZ bs + 2 <= Z.of_nat (fuel_for bs).
Proof. unfold fuel_for, lenZ. lia. Qed.

(* for EVERY oracle (any answers, even missing ones): enough fuel, no runtime panic *)
Theorem decoder_total Orc bs : fits_memory bs ->
  match cbor2json Orc bs with
  | (_, FOk, _) | (_, FErr _, _) => True
  | (_, FRuntimePanic _, _) | (_, FOutOfFuel, _) => False
  end.
Proof.
  intros Hm. unfold cbor2json.
  pose proof (many_inv false Orc ltac:(discriminate) (fuel_for bs) (mkst bs [] 0%N) Hm (fuel_for_ok bs)) as H.
  destruct (many Orc (fuel_for bs) (mkst bs [] 0%N)); auto.
Qed.

(* allocation is linear in the input: <= 256 per byte + 8192 *)
Theorem decoder_alloc_linear Orc bs : fits_memory bs -> oracle_bounded Orc ->
  let '(_, _, a) := cbor2json Orc bs in Z.of_N a <= 256 * lenZ bs + 8192.
Proof.
  intros Hm Hb. unfold cbor2json.
  pose proof (many_inv true Orc (fun _ => Hb) (fuel_for bs) (mkst bs [] 0%N) Hm (fuel_for_ok bs)) as H.
  destruct (many Orc (fuel_for bs) (mkst bs [] 0%N)) as [x s|k s|k s|]; try contradiction.
  - specialize (H eq_refl). unfold Psi, Cc in *. cbn [rest alloc] in *. pose proof (lenZ_nonneg (rest s)). lia.
  - specialize (H eq_refl). unfold Psi, Cc, Dd in *. cbn [rest alloc] in *. pose proof (lenZ_nonneg (rest s)). lia.
Qed.

(* the other entry points *)
Theorem decodeIfBinary_total Orc bs : fits_memory bs ->
  snd (decodeIfBinaryToBytes Orc bs) = FOk.
Proof.
  intros Hm. unfold decodeIfBinaryToBytes. destruct (binaryFmt bs); [|reflexivity].
  pose proof (decoder_total Orc bs Hm) as H. destruct (cbor2json Orc bs) as [[out f] a].
  destruct f; try contradiction; reflexivity.
Qed.

Theorem decodeObject_total Orc bs : fits_memory bs ->
  match snd (decodeObjectToStr Orc bs) with FRuntimePanic _ | FOutOfFuel => False | _ => True end.
Proof.
  intros Hm. unfold decodeObjectToStr. destruct (binaryFmt bs); [|exact I].
  pose proof (lenZ_nonneg bs) as H0.
  pose proof (proj1 (decoder_wp false Orc ltac:(discriminate) (fuel_for bs)) 0 (lenZ bs) (fun _ _ _ => True)
                Hm ltac:(pose proof (fuel_for_ok bs); lia) ltac:(discriminate) ltac:(intros; exact I)) as W.
  pose proof (wp_sound false _ _ _ _ (mkst bs [] 0%N) W ltac:(cbn; lia) ltac:(discriminate)) as S.
  destruct (run _ _); cbn [snd]; auto.
Qed.

(* ================================================================== *)
(* Part 3: fuel monotonicity, prefix stability                          *)
(* ================================================================== *)
(* p' behaves like p wherever p does not run out of fuel *)
Definition sub {A} (p p' : prog A) : Prop := forall s, run p s <> OOF -> run p' s = run p s.

Lemma sub_refl {A} (p : prog A) : sub p p.
Proof. intros s _. reflexivity. Qed.
Lemma sub_trans {A} (p q r : prog A) : sub p q -> sub q r -> sub p r.
Proof. intros H1 H2 s H. rewrite <- (H1 s H). apply H2. rewrite (H1 s H). exact H. Qed.
Lemma sub_oof {A} (p : prog A) : sub POOF p.
Proof. intros s H. cbn in H. congruence. Qed.
Lemma sub_readbyte {A} (k k' : N -> prog A) : (forall b, sub (k b) (k' b)) -> sub (PReadByte k) (PReadByte k').
Proof. intros H s. cbn [run]. destruct (rest s); auto. apply H. Qed.
Lemma sub_peekrb {A} (k k' : N -> prog A) : (forall b, sub (k b) (k' b)) -> sub (PPeekRB k) (PPeekRB k').
Proof. intros H s. cbn [run]. destruct (rest s); auto. apply H. Qed.
Lemma sub_peek {A} (k k' : N -> prog A) : (forall b, sub (k b) (k' b)) -> sub (PPeek k) (PPeek k').
Proof. intros H s. cbn [run]. destruct (rest s); auto. apply H. Qed.
Lemma sub_write {A} bs (k k' : prog A) : sub k k' -> sub (PWrite bs k) (PWrite bs k').
Proof. intros H s. cbn [run]. apply H. Qed.
Lemma sub_alloc {A} n (k k' : prog A) : sub k k' -> sub (PAlloc n k) (PAlloc n k').
Proof. intros H s. cbn [run]. apply H. Qed.
Lemma sub_bind {A B} (p p' : prog A) (k k' : A -> prog B) :
  sub p p' -> (forall a, sub (k a) (k' a)) -> sub (pbind p k) (pbind p' k').
Proof.
  intros Hp Hk s. rewrite !run_pbind. intros H.
  assert (Hn : run p s <> OOF) by (intros E; rewrite E in H; congruence).
  rewrite (Hp s Hn). destruct (run p s) as [a s'|e s'|e s'|]; auto. apply Hk. exact H.
Qed.

Lemma fuel_mono_step Orc f :
  sub (cbor2JsonOneObject Orc f) (cbor2JsonOneObject Orc (S f)) /\
  (forall u i ln, sub (array_loop Orc f u i ln) (array_loop Orc (S f) u i ln)) /\
  (forall u i ln, sub (map_loop Orc f u i ln) (map_loop Orc (S f) u i ln)).
Proof.
  induction f as [|f (IH1 & IH2 & IH3)].
  { repeat split; intros; apply sub_oof. }
  repeat split.
  - cbn [cbor2JsonOneObject]. apply sub_peek. intros pb.
    destruct (major_of pb =? majorTypeArray)%N.
    { apply sub_write. apply sub_bind; [apply sub_refl|]. intros b. destruct (negb _); [apply sub_refl|].
      apply sub_bind; [apply sub_refl|]. intros h. apply IH2. }
    destruct (major_of pb =? majorTypeMap)%N.
    { apply sub_bind; [apply sub_refl|]. intros b. destruct (negb _); [apply sub_refl|].
      apply sub_bind; [apply sub_refl|]. intros h. apply sub_write. apply IH3. }
    apply sub_refl.
  - intros u i ln. cbn [array_loop]. cbv zeta.
    assert (Body : sub
       (_ <- cbor2JsonOneObject Orc f;;
        (if u then PPeek (fun pb => if is_break_byte pb then PReadByte (fun _ => PWrite [93%N] (PRet tt))
                                    else PWrite [44%N] (array_loop Orc f u (i + 1) ln))
         else if i + 1 <? ln then PWrite [44%N] (array_loop Orc f u (i + 1) ln) else array_loop Orc f u (i + 1) ln))
       (_ <- cbor2JsonOneObject Orc (S f);;
        (if u then PPeek (fun pb => if is_break_byte pb then PReadByte (fun _ => PWrite [93%N] (PRet tt))
                                    else PWrite [44%N] (array_loop Orc (S f) u (i + 1) ln))
         else if i + 1 <? ln then PWrite [44%N] (array_loop Orc (S f) u (i + 1) ln) else array_loop Orc (S f) u (i + 1) ln))).
    { apply sub_bind; [apply IH1|]. intros _. destruct u.
      - apply sub_peek. intros pb. destruct (is_break_byte pb); [apply sub_refl|]. apply sub_write. apply IH2.
      - destruct (i + 1 <? ln); [apply sub_write|]; apply IH2. }
    destruct (u || (i <? ln)); [|apply sub_refl]. destruct u; [|exact Body].
    apply sub_peek. intros pb. destruct (is_break_byte pb); [apply sub_refl|exact Body].
  - intros u i ln. cbn [map_loop]. cbv zeta.
    assert (Body : sub
       (_ <- cbor2JsonOneObject Orc f;;
        (if i mod 2 =? 0 then PWrite [58%N] (map_loop Orc f u (i + 1) ln)
         else if u then PPeek (fun pb => if is_break_byte pb then PReadByte (fun _ => PWrite [125%N] (PRet tt))
                                    else PWrite [44%N] (map_loop Orc f u (i + 1) ln))
         else if i + 1 <? ln then PWrite [44%N] (map_loop Orc f u (i + 1) ln) else map_loop Orc f u (i + 1) ln))
       (_ <- cbor2JsonOneObject Orc (S f);;
        (if i mod 2 =? 0 then PWrite [58%N] (map_loop Orc (S f) u (i + 1) ln)
         else if u then PPeek (fun pb => if is_break_byte pb then PReadByte (fun _ => PWrite [125%N] (PRet tt))
                                    else PWrite [44%N] (map_loop Orc (S f) u (i + 1) ln))
         else if i + 1 <? ln then PWrite [44%N] (map_loop Orc (S f) u (i + 1) ln) else map_loop Orc (S f) u (i + 1) ln))).
    { apply sub_bind; [apply IH1|]. intros _. destruct (i mod 2 =? 0); [apply sub_write; apply IH3|]. destruct u.
      - apply sub_peek. intros pb. destruct (is_break_byte pb); [apply sub_refl|]. apply sub_write. apply IH3.
      - destruct (i + 1 <? ln); [apply sub_write|]; apply IH3. }
    destruct (u || (i <? ln)); [|apply sub_refl]. destruct u; [|exact Body].
    apply sub_peek. intros pb. destruct (is_break_byte pb); [apply sub_refl|exact Body].
Qed.

Lemma fuel_mono Orc f f' : (f <= f')%nat -> sub (cbor2JsonOneObject Orc f) (cbor2JsonOneObject Orc f').
Proof.
  induction 1 as [|f' _ IH]; [apply sub_refl|]. eapply sub_trans; [exact IH|]. apply fuel_mono_step.
Qed.

(* the output only grows *)
Lemma run_out_mono {A} (p : prog A) : forall s,
  match run p s with
  | Ret _ s' | Fail _ s' | Crash _ s' => exists part, outr s' = part ++ outr s
  | OOF => True
  end.
Proof.
  induction p as [x|k|k| |k IH|k IH|k IH|n k IH|n k IH|bs k IH]; intros s; cbn [run]; try (exists []; reflexivity); auto.
  - destruct s as [r o a]; cbn [rest outr alloc]. destruct r; [exists []; reflexivity|]. apply (IH n (mkst r o a)).
  - destruct s as [r o a]; cbn [rest outr alloc]. destruct r; [exists []; reflexivity|]. apply (IH n (mkst (n :: r) o a)).
  - destruct s as [r o a]; cbn [rest outr alloc]. destruct r; [exists []; reflexivity|]. apply (IH n (mkst (n :: r) o a)).
  - destruct s as [r o a]; cbn [rest outr alloc]. destruct (n <=? 0); [apply (IH [] (mkst r o a))|].
    destruct (split_at r (Z.to_N n) []) as [[bs r']|]; [apply (IH bs (mkst r' o (a + Z.to_N n)%N))|exists []; reflexivity].
  - destruct s as [r o a]; cbn [rest outr alloc]. apply (IH (mkst r o (a + n)%N)).
  - destruct s as [r o a]; cbn [rest outr alloc].
    specialize (IH (mkst r (rev_append bs o) (a + N.of_nat (length bs))%N)). cbn [outr] in IH.
    destruct (run k _) as [x s'|e s'|e s'|]; auto; destruct IH as (part & E); exists (part ++ rev bs);
      rewrite E, rev_append_rev, app_assoc; reflexivity.
Qed.

(* [e] is one decodable top-level item with JSON text [j] *)
Definition decodes (Orc : oracle) (e j : list N) : Prop :=
  e <> [] /\ exists f al, run (cbor2JsonOneObject Orc f) (mkst e [] 0%N) = Ret tt (mkst [] (rev j) al).

Lemma one_total Orc f s : lenZ (rest s) < Lmax -> 2 * lenZ (rest s) + 1 <= Z.of_nat f ->
  match run (cbor2JsonOneObject Orc f) s with Crash _ _ | OOF => False | _ => True end.
Proof.
  intros HLm Hf. pose proof (lenZ_nonneg (rest s)).
  pose proof (proj1 (decoder_wp false Orc ltac:(discriminate) f) 0 (lenZ (rest s)) (fun _ _ _ => True)
                HLm ltac:(lia) ltac:(discriminate) ltac:(intros; exact I)) as W.
  pose proof (wp_sound false _ _ _ _ s W ltac:(lia) ltac:(discriminate)) as S.
  destruct (run _ _); auto.
Qed.

Lemma one_decodes Orc e j : decodes Orc e j -> forall f tail o a,
  lenZ (e ++ tail) < Lmax -> 2 * lenZ (e ++ tail) + 1 <= Z.of_nat f ->
  exists a', run (cbor2JsonOneObject Orc f) (mkst (e ++ tail) o a) = Ret tt (mkst tail (rev j ++ o) a').
Proof.
  intros (Hne & f0 & al & R) f tail o a HLm Hf.
  pose proof (run_ext (cbor2JsonOneObject Orc f0) (mkst e [] 0%N) tail) as E. rewrite R in E. cbn in E.
  pose proof (run_shift (cbor2JsonOneObject Orc f0) (mkst (e ++ tail) [] 0%N) o a) as Sh.
  unfold ext_st in E. cbn [rest outr alloc] in E. rewrite E in Sh.
  unfold shift_st, shift_res in Sh. cbn [rest outr alloc app N.add] in Sh.
  (* the same with any sufficient fuel *)
  set (s := mkst (e ++ tail) o a) in *.
  pose proof (one_total Orc f s HLm Hf) as T.
  set (fm := Nat.max f f0).
  assert (M0 : run (cbor2JsonOneObject Orc fm) s = run (cbor2JsonOneObject Orc f0) s).
  { apply (fuel_mono Orc f0 fm); [unfold fm; lia|]. rewrite Sh. discriminate. }
  assert (M1 : run (cbor2JsonOneObject Orc fm) s = run (cbor2JsonOneObject Orc f) s).
  { apply (fuel_mono Orc f fm); [unfold fm; lia|]. destruct (run (cbor2JsonOneObject Orc f) s); try contradiction; discriminate. }
  rewrite <- M1, M0, Sh. eexists. reflexivity.
Qed.

Definition lines (js : list (list N)) : list N := concat (map (fun j => j ++ [10%N]) js).

Lemma decodes_nonempty Orc e j : decodes Orc e j -> (1 <= lenZ e).
Proof. intros (H & _). destruct e; [congruence|]. rewrite lenZ_cons. pose proof (lenZ_nonneg e). lia. Qed.

(* whole events are decoded one after the other, whatever follows *)
Lemma many_whole Orc es js : Forall2 (decodes Orc) es js -> forall tail f o a,
  lenZ (concat es ++ tail) < Lmax -> 2 * lenZ (concat es ++ tail) + 2 <= Z.of_nat f ->
  exists a', many Orc f (mkst (concat es ++ tail) o a) =
             many Orc (f - length es) (mkst tail (rev (lines js) ++ o) a') /\
             2 * lenZ tail + 2 <= Z.of_nat (f - length es).
Proof.
  induction 1 as [|e j es js D _ IH]; intros tail f o a HLm Hf.
  - cbn [concat app length lines map rev]. rewrite Nat.sub_0_r. exists a. cbn in Hf. split; auto.
  - cbn [concat] in *. rewrite <- app_assoc in *.
    pose proof (decodes_nonempty _ _ _ D) as He. rewrite lenZ_app in HLm, Hf.
    pose proof (lenZ_nonneg (concat es ++ tail)).
    destruct f as [|f]; [lia|]. cbn [many rest].
    destruct (e ++ concat es ++ tail) as [|b t] eqn:Eb.
    { destruct D as (Hne & _). destruct e; [congruence|discriminate]. }
    rewrite <- Eb.
    destruct (one_decodes Orc e j D f (concat es ++ tail) o a ltac:(rewrite lenZ_app; lia) ltac:(rewrite lenZ_app; lia)) as (a1 & R).
    rewrite R. unfold write_nl. cbn [rest outr alloc].
    destruct (IH tail f (10%N :: rev j ++ o) (a1 + 1)%N ltac:(lia) ltac:(lia)) as (a2 & R2 & F2).
    exists a2. rewrite R2. cbn [length]. replace (S f - S (length es))%nat with (f - length es)%nat by lia.
    split; auto. f_equal. f_equal. unfold lines. cbn [map concat]. rewrite !rev_app_distr. cbn [rev app].
    rewrite <- !app_assoc. reflexivity.
Qed.

(* a stream of whole events decodes to one line per event, no error *)
Theorem stream_decodes Orc es js : Forall2 (decodes Orc) es js -> fits_memory (concat es) ->
  exists a, cbor2json Orc (concat es) = (lines js, FOk, a).
Proof.
  intros F Hm. unfold cbor2json.
  destruct (many_whole Orc es js F [] (fuel_for (concat es)) [] 0%N) as (a' & R & Hf).
  { rewrite app_nil_r. exact Hm. } { rewrite app_nil_r. apply fuel_for_ok. }
  rewrite app_nil_r in R. rewrite R.
  destruct (fuel_for (concat es) - length es)%nat as [|g] eqn:Eg; [cbn in Hf; lia|].
  cbn [many rest outr alloc]. rewrite app_nil_r, rev'_rev, rev_involutive. eexists; reflexivity.
Qed.

(* a torn event: a proper prefix of a decodable item is an end-of-input error *)
Lemma torn_event Orc e j p q : decodes Orc e j -> e = p ++ q -> p <> [] -> q <> [] ->
  forall f o a, lenZ e < Lmax -> 2 * lenZ e + 1 <= Z.of_nat f ->
  exists k s', run (cbor2JsonOneObject Orc f) (mkst p o a) = Fail k s' /\ is_eof k = true /\
               exists part, outr s' = part ++ o.
Proof.
  intros D Ee Hp Hq f o a HLm Hf. subst e. rewrite lenZ_app in *. pose proof (lenZ_nonneg q).
  destruct (one_decodes Orc (p ++ q) j D f [] o a) as (a1 & R).
  { rewrite app_nil_r, lenZ_app. lia. } { rewrite app_nil_r, lenZ_app. lia. }
  rewrite app_nil_r in R.
  pose proof (run_ext (cbor2JsonOneObject Orc f) (mkst p o a) q) as E. unfold ext_st in E. cbn [rest outr alloc] in E.
  rewrite R in E.
  pose proof (run_out_mono (cbor2JsonOneObject Orc f) (mkst p o a)) as Mo. cbn [outr] in Mo.
  destruct (run (cbor2JsonOneObject Orc f) (mkst p o a)) as [x s'|k s'|k s'|]; cbn [ext_res] in E.
  - exfalso. inversion E as [[E1 E2]]. destruct (rest s'); [destruct q; [congruence|discriminate]|discriminate].
  - destruct E as [E|E]; [|discriminate]. exists k, s'. repeat split; auto.
  - discriminate.
  - discriminate.
Qed.

(* a cut inside an event: the whole events before it are decoded as in the
   full stream, then an end-of-input error is reported *)
Theorem stream_torn Orc es js e j p q : Forall2 (decodes Orc) es js -> decodes Orc e j ->
  e = p ++ q -> p <> [] -> q <> [] -> fits_memory (concat es ++ e) ->
  exists part k a, cbor2json Orc (concat es ++ p) = (lines js ++ part, FErr k, a) /\ is_eof k = true.
Proof.
  intros F D Ee Hp Hq Hm. unfold cbor2json, fits_memory in *.
  assert (Hlen : lenZ (concat es ++ p) <= lenZ (concat es ++ e)).
  { subst e. rewrite !lenZ_app. pose proof (lenZ_nonneg q). lia. }
  destruct (many_whole Orc es js F p (fuel_for (concat es ++ p)) [] 0%N) as (a' & R & Hf).
  { unfold Lmax. lia. } { apply fuel_for_ok. }
  rewrite R. rewrite app_nil_r.
  destruct (fuel_for (concat es ++ p) - length es)%nat as [|g] eqn:Eg; [pose proof (lenZ_nonneg p); lia|].
  cbn [many rest]. destruct p as [|b t] eqn:Ep; [congruence|]. rewrite <- Ep in *.
  assert (HLe : lenZ e < Lmax).
  { rewrite lenZ_app in Hm. pose proof (lenZ_nonneg (concat es)). unfold Lmax. lia. }
  (* the torn event with fuel g: first with enough fuel for e, then transported *)
  set (G := Nat.max g (2 * length e + 1)).
  destruct (torn_event Orc e j p q D Ee ltac:(subst p; discriminate) Hq G (rev (lines js)) a' HLe
              ltac:(unfold G, lenZ; lia)) as (k & s' & RG & Hk & part & Ho).
  assert (Tg : match run (cbor2JsonOneObject Orc g) (mkst p (rev (lines js)) a') with Crash _ _ | OOF => False | _ => True end).
  { apply one_total; cbn [rest]; [subst e; rewrite lenZ_app in HLe; pose proof (lenZ_nonneg q); lia|lia]. }
  assert (Mg : run (cbor2JsonOneObject Orc G) (mkst p (rev (lines js)) a') = run (cbor2JsonOneObject Orc g) (mkst p (rev (lines js)) a')).
  { apply (fuel_mono Orc g G); [unfold G; lia|]. destruct (run (cbor2JsonOneObject Orc g) _); try contradiction; discriminate. }
  rewrite <- Mg, RG. exists (rev part), k, (alloc s'). split; auto.
  rewrite rev'_rev, Ho, rev_app_distr, rev_involutive. reflexivity.
Qed.

(* every cut point of a stream is either an event boundary or inside an event *)
Lemma cut_cases (es : list (list N)) : (forall e, In e es -> e <> []) -> forall k, (k <= length (concat es))%nat ->
  (exists n, firstn k (concat es) = concat (firstn n es)) \/
  (exists es1 e es2 p q, es = es1 ++ e :: es2 /\ e = p ++ q /\ p <> [] /\ q <> [] /\ firstn k (concat es) = concat es1 ++ p).
Proof.
  induction es as [|e es IH]; intros Hne k Hk.
  - left. exists 0%nat. cbn. destruct k; reflexivity.
  - cbn [concat] in *. rewrite app_length in Hk.
    destruct (Nat.eq_dec k 0) as [->|Hk0]; [left; exists 0%nat; reflexivity|].
    destruct (Nat.lt_ge_cases k (length e)) as [Hlt|Hge].
    + right. exists [], e, es, (firstn k e), (skipn k e). repeat split.
      * symmetry. apply firstn_skipn.
      * intros E. apply (f_equal (@length N)) in E. rewrite firstn_length in E. cbn in E. lia.
      * intros E. apply (f_equal (@length N)) in E. rewrite skipn_length in E. cbn in E. lia.
      * rewrite firstn_app. replace (k - length e)%nat with 0%nat by lia. rewrite firstn_O, app_nil_r. reflexivity.
    + rewrite firstn_app. rewrite (firstn_all2 e) by lia.
      destruct (IH ltac:(intros x Hx; apply Hne; right; auto) (k - length e)%nat ltac:(lia)) as [(n & E)|(es1 & e1 & es2 & p & q & E1 & E2 & E3 & E4 & E5)].
      * left. exists (S n). cbn [firstn concat]. rewrite E. reflexivity.
      * right. exists (e :: es1), e1, es2, p, q. repeat split; auto.
        -- cbn. rewrite E1. reflexivity.
        -- cbn [concat]. rewrite E5, app_assoc. reflexivity.
Qed.
