(* writer.go: multiLevelWriter.Write / WriteLevel, FilteredLevelWriter.Write / WriteLevel and
   LevelWriterAdapter.WriteLevel, re-translated by srcgen on every run (Gen/WriterSrc.v), against the model
   Lts/Writers.v.  The destinations behind the interface-typed fields are opaque (Base/GoExt.v): the record carries
   the identities of multiLevelWriter's writers, every call through them is logged and answered by the environment. *)
From Verif Require Import Base.Prelude Base.GoSem Base.GoEff Base.GoExt Misc.Level Lts.Writers Gen.WriterSrc.
Open Scope Z_scope.

Definition fWriters : list N := [119;114;105;116;101;114;115]%N.
Definition fWriter : list N := [87;114;105;116;101;114]%N.
Definition mWrite : list N := [87;114;105;116;101]%N.
Definition mWriteLevel : list N := [87;114;105;116;101;76;101;118;101;108]%N.
Definition errShortWrite : goerr := Some (ErrNamed [105;111;46;69;114;114;83;104;111;114;116;87;114;105;116;101]%N).  (* io.ErrShortWrite *)

(* the answer of the k-th external call read as (n, err) *)
Definition answer (ans : nat -> oval) (k : nat) : Z * goerr := (oval_int (oval_fst (ans k)), oval_err (oval_snd (ans k))).

(* the loop body of multiLevelWriter.Write / WriteLevel on (n, err) *)
Definition acc_src (plen : Z) (acc r : Z * goerr) : Z * goerr :=
  if err_isnil (snd acc) then
    (if negb (err_isnil (snd r)) then (fst r, snd r)
     else if negb (fst r =? plen) then (fst r, errShortWrite) else (fst r, snd acc))
  else acc.

Fixpoint fold_answers (ans : nat -> oval) (plen : Z) (k : nat) (ws : list N) (acc : Z * goerr) : Z * goerr :=
  match ws with
  | [] => acc
  | _ :: t => fold_answers ans plen (S k) t (acc_src plen acc (answer ans k))
  end.

Lemma WriteLevel_loop ans : forall ws l p t n err,
  multiLevelWriter_WriteLevel_loop1 ans ws l p t n err =
  Ok (LExit (set_multiLevelWriter_calls t (multiLevelWriter_calls t ++
               map (fun w => OCall fWriters mWriteLevel [OVInt (Z.of_N w); OVInt l; OVBytes p]) ws),
             fst (fold_answers ans (len p) (length (multiLevelWriter_calls t)) ws (n, err)),
             snd (fold_answers ans (len p) (length (multiLevelWriter_calls t)) ws (n, err)))).
Proof.
  induction ws as [|w ws IH]; intros l p t n err; cbn [multiLevelWriter_WriteLevel_loop1 map fold_answers fst snd].
  - rewrite app_nil_r. destruct t; reflexivity.
  - cbv zeta. unfold acc_src, answer. cbn [fst snd].
    destruct (err_isnil err) eqn:E1; [destruct (negb (err_isnil (oval_err (oval_snd (ans (length (multiLevelWriter_calls t))))))) eqn:E2;
      [|destruct (negb (oval_int (oval_fst (ans (length (multiLevelWriter_calls t)))) =? len p)) eqn:E3]|];
      rewrite IH; unfold set_multiLevelWriter_calls; cbn [multiLevelWriter_calls multiLevelWriter_writers];
      rewrite app_length; cbn [length]; rewrite Nat.add_1_r, <- app_assoc; reflexivity.
Qed.

Lemma Write_loop ans : forall ws p t n err,
  multiLevelWriter_Write_loop1 ans ws p t n err =
  Ok (LExit (set_multiLevelWriter_calls t (multiLevelWriter_calls t ++
               map (fun w => OCall fWriters mWrite [OVInt (Z.of_N w); OVBytes p]) ws),
             fst (fold_answers ans (len p) (length (multiLevelWriter_calls t)) ws (n, err)),
             snd (fold_answers ans (len p) (length (multiLevelWriter_calls t)) ws (n, err)))).
Proof.
  induction ws as [|w ws IH]; intros p t n err; cbn [multiLevelWriter_Write_loop1 map fold_answers fst snd].
  - rewrite app_nil_r. destruct t; reflexivity.
  - cbv zeta. unfold acc_src, answer. cbn [fst snd].
    destruct (err_isnil err) eqn:E1; [destruct (negb (err_isnil (oval_err (oval_snd (ans (length (multiLevelWriter_calls t))))))) eqn:E2;
      [|destruct (negb (oval_int (oval_fst (ans (length (multiLevelWriter_calls t)))) =? len p)) eqn:E3]|];
      rewrite IH; unfold set_multiLevelWriter_calls; cbn [multiLevelWriter_calls multiLevelWriter_writers];
      rewrite app_length; cbn [length]; rewrite Nat.add_1_r, <- app_assoc; reflexivity.
Qed.

(* every destination is called exactly once, in order, with the event's level and bytes; the result is the fold of
   the loop body over their answers: the first failure (an error, or a short count turned into io.ErrShortWrite) wins,
   later destinations are still called *)
Theorem multi_WriteLevel_src ans t l p :
  multiLevelWriter_WriteLevel ans t l p =
  Ok (fold_answers ans (len p) (length (multiLevelWriter_calls t)) (multiLevelWriter_writers t) (0, None),
      set_multiLevelWriter_calls t (multiLevelWriter_calls t ++
        map (fun w => OCall fWriters mWriteLevel [OVInt (Z.of_N w); OVInt l; OVBytes p]) (multiLevelWriter_writers t))).
Proof.
  unfold multiLevelWriter_WriteLevel. cbv zeta. rewrite WriteLevel_loop. cbn [lbind].
  destruct (fold_answers _ _ _ _ _); reflexivity.
Qed.

Theorem multi_Write_src ans t p :
  multiLevelWriter_Write ans t p =
  Ok (fold_answers ans (len p) (length (multiLevelWriter_calls t)) (multiLevelWriter_writers t) (0, None),
      set_multiLevelWriter_calls t (multiLevelWriter_calls t ++
        map (fun w => OCall fWriters mWrite [OVInt (Z.of_N w); OVBytes p]) (multiLevelWriter_writers t))).
Proof.
  unfold multiLevelWriter_Write. cbv zeta. rewrite Write_loop. cbn [lbind].
  destruct (fold_answers _ _ _ _ _); reflexivity.
Qed.

(* the loop body is the model's acc_step: model results embed into Go values, and the two steps commute *)
Definition inj_err (e : option Writers.err) : goerr :=
  match e with
  | None => None
  | Some (EDest k) => Some (ErrFmt [k])
  | Some EShortWrite => errShortWrite
  end.
Definition inj_ret (r : Writers.ret) : Z * goerr := (fst r, inj_err (snd r)).

Theorem acc_src_is_model plen acc r : acc_src plen (inj_ret acc) (inj_ret r) = inj_ret (acc_step acc r plen).
Proof.
  destruct acc as [an [[ak|]|]], r as [rn [[rk|]|]]; unfold acc_src, acc_step, inj_ret, inj_err, errShortWrite; cbn [fst snd err_isnil negb];
    try reflexivity; destruct (rn =? plen); reflexivity.
Qed.

(* FilteredLevelWriter: WriteLevel forwards at or above its level and otherwise claims success without a call; Write
   forwards always (the model's [through] for WFiltered) *)
Theorem filtered_WriteLevel_src ans w level p :
  FilteredLevelWriter_WriteLevel ans w level p =
  if (FilteredLevelWriter_Level w <=? level) then
    Ok (answer ans (length (FilteredLevelWriter_calls w)),
        set_FilteredLevelWriter_calls w (FilteredLevelWriter_calls w ++ [OCall fWriter mWriteLevel [OVInt level; OVBytes p]]))
  else Ok ((len p, None), w).
Proof. reflexivity. Qed.

Theorem filtered_Write_src ans w p :
  FilteredLevelWriter_Write ans w p =
  Ok (answer ans (length (FilteredLevelWriter_calls w)),
      set_FilteredLevelWriter_calls w (FilteredLevelWriter_calls w ++ [OCall fWriter mWrite [OVBytes p]])).
Proof. reflexivity. Qed.

Theorem filtered_through_model w level :
  (FilteredLevelWriter_Level w <=? level) = match through [WFiltered (FilteredLevelWriter_Level w)] (MLevel level) with Some _ => true | None => false end.
Proof. cbn [through]. rewrite Z.geb_leb. destruct (FilteredLevelWriter_Level w <=? level); reflexivity. Qed.

(* LevelWriterAdapter.WriteLevel drops the level: one Write *)
Theorem adapter_WriteLevel_src ans lw l p :
  LevelWriterAdapter_WriteLevel ans lw l p =
  Ok (answer ans (length (LevelWriterAdapter_calls lw)),
      set_LevelWriterAdapter_calls lw (LevelWriterAdapter_calls lw ++ [OCall fWriter mWrite [OVBytes p]])).
Proof. reflexivity. Qed.

Lemma writer_counts : length WriterSrc.translated_functions = 5%nat /\ length WriterSrc.skipped_functions = 4%nat.
Proof. split; reflexivity. Qed.
