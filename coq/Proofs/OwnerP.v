From Verif Require Import Base.Prelude Lts.Owner.

Lemma nth_error_upd {A} (l : list A) t t' x :
  nth_error (upd l t x) t' = if Nat.eqb t t' then match nth_error l t with Some _ => Some x | None => None end else nth_error l t'.
Proof.
  revert t t'. induction l as [|h l IH]; intros t t'.
  - cbn. destruct t, t'; cbn; try reflexivity; destruct (Nat.eqb t t'); reflexivity.
  - destruct t as [|t], t' as [|t']; cbn [upd nth_error Nat.eqb]; try reflexivity. apply IH.
Qed.

Definition owner (s : gstate) (t : nat) (o : obj) : Prop :=
  exists ts, nth_error (g_threads s) t = Some ts /\ In o (owned_of ts).

(* the buffer of a built event holds exactly the bytes built *)
Definition mem_ok (s : gstate) : Prop :=
  forall t ts, nth_error (g_threads s) t = Some ts ->
    match ts with TBuilt o b _ | TInWrite o b _ => g_mem s o = b | _ => True end.

Definition OInv (s : gstate) : Prop :=
  NoDup (g_pool s) /\
  (forall o, In o (g_pool s) -> o < g_next s) /\
  (forall t o, owner s t o -> o < g_next s /\ ~ In o (g_pool s)) /\
  (forall t1 t2 o, owner s t1 o -> owner s t2 o -> t1 = t2) /\
  mem_ok s.

Lemma In_remove_nth {A} (l : list A) i x : In x (remove_nth l i) -> In x l.
Proof. revert i; induction l as [|h l IH]; intros [|i]; cbn; auto. intros [H|H]; auto. right; eauto. Qed.

Lemma NoDup_remove_nth {A} (l : list A) i : NoDup l -> NoDup (remove_nth l i).
Proof.
  revert i; induction l as [|h l IH]; intros [|i] H; cbn; auto; inversion H; subst; auto.
  constructor; auto. intros C. apply In_remove_nth in C. contradiction.
Qed.

Lemma remove_nth_not_in {A} (l : list A) i x : NoDup l -> nth_error l i = Some x -> ~ In x (remove_nth l i).
Proof.
  revert i; induction l as [|h l IH]; intros [|i] H E; cbn in *; try discriminate; inversion H; subst.
  - inversion E; subst. auto.
  - intros [C|C]; [subst; apply nth_error_In in E; contradiction|]. eapply IH; eauto.
Qed.

Lemma owner_upd s t ts' t' o threads' :
  threads' = upd (g_threads s) t ts' ->
  (exists ts0, nth_error (g_threads s) t = Some ts0) ->
  (exists ts, nth_error threads' t' = Some ts /\ In o (owned_of ts)) ->
  (t' = t /\ In o (owned_of ts')) \/ (t' <> t /\ owner s t' o).
Proof.
  intros -> [ts0 E0] [ts [E I]]. rewrite nth_error_upd in E. destruct (Nat.eqb t t') eqn:Q.
  - apply Nat.eqb_eq in Q. subst. rewrite E0 in E. inversion E; subst. left; auto.
  - apply Nat.eqb_neq in Q. right. split; [congruence|]. exists ts. auto.
Qed.

Ltac inv_owner H s t :=
  eapply (owner_upd s t) in H; [|reflexivity|eexists; eassumption].

(* the part of the invariant that is the same for Build / Enter / Exit: ownership does not change *)
Lemma own_same s t ts ts' threads' :
  nth_error (g_threads s) t = Some ts -> (forall o, In o (owned_of ts') <-> In o (owned_of ts)) ->
  threads' = upd (g_threads s) t ts' ->
  forall t' o, (exists x, nth_error threads' t' = Some x /\ In o (owned_of x)) <-> owner s t' o.
Proof.
  intros Et Hsame -> t' o. unfold owner. rewrite nth_error_upd. destruct (Nat.eqb t t') eqn:Q.
  - apply Nat.eqb_eq in Q. subst t'. rewrite Et. split.
    + intros [x [E I]]. inversion E; subst. exists ts. split; auto. apply Hsame; auto.
    + intros [x [E I]]. inversion E; subst. exists ts'. split; auto. apply Hsame; auto.
  - tauto.
Qed.

Lemma gstep_inv s a : OInv s -> OInv (gstep s a).
Proof.
  intros Hall. pose proof Hall as (Hnd & Hlt & Hown & Huniq & Hmem). destruct a as [t choice]. unfold gstep.
  destruct (nth_error (g_threads s) t) as [ts|] eqn:Et; [|exact Hall].
  assert (Hme : forall o, In o (owned_of ts) -> owner s t o) by (intros o I; exists ts; auto).
  destruct ts as [[|b todo]|o b todo|o b todo|o b todo|o todo].
  - exact Hall.
  - (* Get *)
    destruct choice as [i|].
    + destruct (nth_error (g_pool s) i) as [o|] eqn:Ei; [|exact Hall].
      pose proof (nth_error_In _ _ Ei) as Io.
      unfold OInv, owner, mem_ok; cbn [g_pool g_next g_mem g_threads g_log].
      refine (conj _ (conj _ (conj _ (conj _ _)))).
      * apply NoDup_remove_nth; auto.
      * intros o' I. apply Hlt. eapply In_remove_nth; eauto.
      * intros t' o' H. inv_owner H s t. destruct H as [[-> I]|[N O]].
        -- cbn in I. destruct I as [<-|[]]. split; [auto|apply remove_nth_not_in; auto].
        -- split; [apply (Hown _ _ O)|]. intros C. apply In_remove_nth in C. apply (Hown _ _ O); auto.
      * intros t1 t2 o' H1 H2. inv_owner H1 s t. inv_owner H2 s t.
        destruct H1 as [[-> I1]|[N1 O1]]; destruct H2 as [[-> I2]|[N2 O2]]; auto.
        -- cbn in I1. destruct I1 as [<-|[]]. exfalso. apply (Hown _ _ O2); auto.
        -- cbn in I2. destruct I2 as [<-|[]]. exfalso. apply (Hown _ _ O1); auto.
        -- eapply Huniq; eauto.
      * intros t' ts' E'. rewrite nth_error_upd in E'. destruct (Nat.eqb t t') eqn:Q.
        -- rewrite Et in E'. inversion E'; subst. exact I.
        -- specialize (Hmem t' ts' E'). destruct ts' as [?|? ? ?|o' b' ?|o' b' ?|? ?]; auto;
             unfold set_mem; destruct (Nat.eqb o' o) eqn:Qo; auto; apply Nat.eqb_eq in Qo; subst o';
             exfalso; assert (O : owner s t' o) by (eexists; split; [eassumption|cbn; auto]); apply (Hown _ _ O); auto.
    + unfold OInv, owner, mem_ok; cbn [g_pool g_next g_mem g_threads g_log].
      refine (conj _ (conj _ (conj _ (conj _ _)))).
      * auto.
      * intros o' I. specialize (Hlt _ I). lia.
      * intros t' o' H. inv_owner H s t. destruct H as [[-> I]|[N O]].
        -- cbn in I. destruct I as [<-|[]]. split; [lia|]. intros C. specialize (Hlt _ C). lia.
        -- destruct (Hown _ _ O). split; [lia|auto].
      * intros t1 t2 o' H1 H2. inv_owner H1 s t. inv_owner H2 s t.
        destruct H1 as [[-> I1]|[N1 O1]]; destruct H2 as [[-> I2]|[N2 O2]]; auto.
        -- cbn in I1. destruct I1 as [<-|[]]. destruct (Hown _ _ O2). lia.
        -- cbn in I2. destruct I2 as [<-|[]]. destruct (Hown _ _ O1). lia.
        -- eapply Huniq; eauto.
      * intros t' ts' E'. rewrite nth_error_upd in E'. destruct (Nat.eqb t t') eqn:Q.
        -- rewrite Et in E'. inversion E'; subst. exact I.
        -- specialize (Hmem t' ts' E'). destruct ts' as [?|? ? ?|o' b' ?|o' b' ?|? ?]; auto;
             unfold set_mem; destruct (Nat.eqb o' (g_next s)) eqn:Qo; auto; apply Nat.eqb_eq in Qo; subst o';
             exfalso; assert (O : owner s t' (g_next s)) by (eexists; split; [eassumption|cbn; auto]); destruct (Hown _ _ O); lia.
  - (* Build *)
    pose proof (own_same s t _ (TBuilt o b todo) _ Et ltac:(cbn; tauto) eq_refl) as OS.
    unfold OInv, owner, mem_ok; cbn [g_pool g_next g_mem g_threads g_log].
    refine (conj Hnd (conj Hlt (conj _ (conj _ _)))).
    + intros t' o' H. apply OS in H. apply (Hown _ _ H).
    + intros t1 t2 o' H1 H2. apply OS in H1. apply OS in H2. eapply Huniq; eauto.
    + intros t' ts' E'. rewrite nth_error_upd in E'. destruct (Nat.eqb t t') eqn:Q.
      * rewrite Et in E'. inversion E'; subst. unfold set_mem. rewrite Nat.eqb_refl. reflexivity.
      * specialize (Hmem t' ts' E'). apply Nat.eqb_neq in Q.
        destruct ts' as [?|? ? ?|o' b' ?|o' b' ?|? ?]; auto;
          unfold set_mem; destruct (Nat.eqb o' o) eqn:Qo; auto; apply Nat.eqb_eq in Qo; subst o';
          exfalso; apply Q; eapply (Huniq t t' o); first [apply Hme; cbn; auto; fail | eexists; split; first [eassumption|cbn; auto]].
  - (* Enter *)
    pose proof (own_same s t _ (TInWrite o b todo) _ Et ltac:(cbn; tauto) eq_refl) as OS.
    unfold OInv, owner, mem_ok; cbn [g_pool g_next g_mem g_threads g_log].
    refine (conj Hnd (conj Hlt (conj _ (conj _ _)))).
    + intros t' o' H. apply OS in H. apply (Hown _ _ H).
    + intros t1 t2 o' H1 H2. apply OS in H1. apply OS in H2. eapply Huniq; eauto.
    + intros t' ts' E'. rewrite nth_error_upd in E'. destruct (Nat.eqb t t') eqn:Q.
      * rewrite Et in E'. inversion E'; subst. exact (Hmem t _ Et).
      * exact (Hmem t' ts' E').
  - (* Exit *)
    pose proof (own_same s t _ (TReturned o todo) _ Et ltac:(cbn; tauto) eq_refl) as OS.
    unfold OInv, owner, mem_ok; cbn [g_pool g_next g_mem g_threads g_log].
    refine (conj Hnd (conj Hlt (conj _ (conj _ _)))).
    + intros t' o' H. apply OS in H. apply (Hown _ _ H).
    + intros t1 t2 o' H1 H2. apply OS in H1. apply OS in H2. eapply Huniq; eauto.
    + intros t' ts' E'. rewrite nth_error_upd in E'. destruct (Nat.eqb t t') eqn:Q.
      * rewrite Et in E'. inversion E'; subst. exact I.
      * exact (Hmem t' ts' E').
  - (* Put *)
    assert (Ho : owner s t o) by (apply Hme; cbn; auto).
    unfold OInv, owner, mem_ok; cbn [g_pool g_next g_mem g_threads g_log].
    refine (conj _ (conj _ (conj _ (conj _ _)))).
    + constructor; auto. apply (Hown _ _ Ho).
    + intros o' [<-|I]; [apply (Hown _ _ Ho)|auto].
    + intros t' o' H. inv_owner H s t. destruct H as [[-> I]|[N O]]; [destruct I|].
      split; [apply (Hown _ _ O)|]. intros [<-|C]; [apply N; eapply Huniq; eauto|apply (Hown _ _ O); auto].
    + intros t1 t2 o' H1 H2. inv_owner H1 s t. inv_owner H2 s t.
      destruct H1 as [[-> I1]|[N1 O1]]; destruct H2 as [[-> I2]|[N2 O2]]; auto; try (destruct I1); try (destruct I2).
      eapply Huniq; eauto.
    + intros t' ts' E'. rewrite nth_error_upd in E'. destruct (Nat.eqb t t') eqn:Q.
      * rewrite Et in E'. inversion E'; subst. exact I.
      * exact (Hmem t' ts' E').
Qed.

Lemma ginit_inv pool next mem progs : NoDup pool -> (forall o, In o pool -> o < next) -> OInv (ginit pool next mem progs).
Proof.
  intros Hnd Hlt. unfold OInv, ginit, owner, mem_ok; cbn [g_pool g_next g_mem g_threads g_log]. repeat split; auto.
  - destruct H as [ts [E I]]. apply nth_error_In in E. apply in_map_iff in E as [p [<- _]]. destruct I.
  - destruct H as [ts [E I]]. apply nth_error_In in E. apply in_map_iff in E as [p [<- _]]. destruct I.
  - intros t1 t2 o [ts [E I]]. apply nth_error_In in E. apply in_map_iff in E as [p [<- _]]. destruct I.
  - intros t ts E. apply nth_error_In in E. apply in_map_iff in E as [p [<- _]]. exact I.
Qed.

Theorem grun_inv s sched : OInv s -> OInv (grun s sched).
Proof. unfold grun. revert s. induction sched as [|a sched IH]; intros s H; cbn [fold_left]; auto. apply IH, gstep_inv, H. Qed.

(* ------------------------------------------------------------------ *)
(* what the writer sees: per thread, exactly its own events, intact     *)
(* ------------------------------------------------------------------ *)
Definition exits_by (t : nat) (l : list wev) : list bytes :=
  flat_map (fun e => match e with WExit t' _ b => if Nat.eqb t t' then [b] else [] | _ => [] end) l.
Definition rem_exit (ts : tstate) : list bytes :=
  match ts with TInWrite _ b todo => b :: todo | _ => todo_of ts end.

Definition Prog (s : gstate) (progs : list (list bytes)) : Prop :=
  forall t ts, nth_error (g_threads s) t = Some ts ->
    exists p, nth_error progs t = Some p /\
      p = written_by t (g_log s) ++ todo_of ts /\ p = exits_by t (g_log s) ++ rem_exit ts.

Lemma written_by_snoc t l e : written_by t (l ++ [e]) = written_by t l ++ written_by t [e].
Proof. unfold written_by. rewrite flat_map_app. reflexivity. Qed.
Lemma exits_by_snoc t l e : exits_by t (l ++ [e]) = exits_by t l ++ exits_by t [e].
Proof. unfold exits_by. rewrite flat_map_app. reflexivity. Qed.

Lemma gstep_prog s a progs : OInv s -> Prog s progs -> Prog (gstep s a) progs.
Proof.
  intros (_ & _ & _ & _ & Hmem) HP. destruct a as [t choice]. unfold gstep.
  destruct (nth_error (g_threads s) t) as [ts|] eqn:Et; [|exact HP].
  destruct (HP t ts Et) as (p & Ep & Pw & Pe).
  (* a step of thread t that leaves the log alone and keeps todo_of / rem_exit *)
  assert (Hsame : forall ts' pool next mem,
            todo_of ts' = todo_of ts -> rem_exit ts' = rem_exit ts ->
            Prog {| g_pool := pool; g_next := next; g_mem := mem; g_threads := upd (g_threads s) t ts'; g_log := g_log s |} progs).
  { intros ts' pool next mem E1 E2 t' x E'. cbn [g_threads g_log] in *. rewrite nth_error_upd in E'.
    destruct (Nat.eqb t t') eqn:Q.
    - apply Nat.eqb_eq in Q. subst t'. rewrite Et in E'. injection E' as <-. exists p. rewrite E1, E2. auto.
    - apply HP; auto. }
  destruct ts as [[|b todo]|o b todo|o b todo|o b todo|o todo].
  - exact HP.
  - destruct choice as [i|]; [destruct (nth_error (g_pool s) i); [|exact HP]|]; apply Hsame; reflexivity.
  - apply Hsame; reflexivity.
  - (* Enter: the writer sees the bytes that were built *)
    pose proof (Hmem t _ Et) as Em. cbn in Em.
    intros t' x E'. cbn [g_threads g_log] in *. rewrite nth_error_upd in E'.
    rewrite written_by_snoc, exits_by_snoc. cbn [written_by exits_by flat_map app].
    destruct (Nat.eqb t t') eqn:Q.
    + apply Nat.eqb_eq in Q. subst t'. rewrite Et in E'. injection E' as <-. exists p. rewrite Nat.eqb_refl.
      cbn [todo_of rem_exit] in *. rewrite Em. rewrite ?app_nil_r. rewrite <- ?app_assoc. cbn [app]. auto.
    + rewrite Nat.eqb_sym in Q. rewrite Q. rewrite !app_nil_r. apply HP; auto.
  - (* Exit: and they are still the same bytes when it returns *)
    pose proof (Hmem t _ Et) as Em. cbn in Em.
    intros t' x E'. cbn [g_threads g_log] in *. rewrite nth_error_upd in E'.
    rewrite written_by_snoc, exits_by_snoc. cbn [written_by exits_by flat_map app].
    destruct (Nat.eqb t t') eqn:Q.
    + apply Nat.eqb_eq in Q. subst t'. rewrite Et in E'. injection E' as <-. exists p. rewrite Nat.eqb_refl.
      cbn [todo_of rem_exit] in *. rewrite Em. rewrite ?app_nil_r. rewrite <- ?app_assoc. cbn [app]. auto.
    + rewrite Nat.eqb_sym in Q. rewrite Q. rewrite !app_nil_r. apply HP; auto.
  - apply Hsame; reflexivity.
Qed.

Lemma ginit_prog pool next mem progs : Prog (ginit pool next mem progs) progs.
Proof.
  intros t ts E. unfold ginit in E. cbn [g_threads g_log] in *. rewrite nth_error_map in E.
  destruct (nth_error progs t) as [p|] eqn:Ep; [|discriminate]. inversion E; subst. exists p. cbn. auto.
Qed.

Theorem grun_prog pool next mem progs sched :
  NoDup pool -> (forall o, In o pool -> o < next) ->
  OInv (grun (ginit pool next mem progs) sched) /\ Prog (grun (ginit pool next mem progs) sched) progs.
Proof.
  intros Hnd Hlt. unfold grun.
  assert (H0 : OInv (ginit pool next mem progs) /\ Prog (ginit pool next mem progs) progs)
    by (split; [apply ginit_inv; auto|apply ginit_prog]).
  revert H0. generalize (ginit pool next mem progs). induction sched as [|a sched IH]; intros s [I P]; cbn [fold_left]; auto.
  apply IH. split; [apply gstep_inv; auto|apply gstep_prog; auto].
Qed.

(* ------------------------------------------------------------------ *)
(* SyncWriter: never two threads inside the wrapped writer              *)
(* ------------------------------------------------------------------ *)
Definition SwInv (s : sw) : Prop :=
  match sw_lock s with
  | None => sw_inside s = [] /\ forall t, nth_error (sw_threads s) t <> Some MIn
  | Some t => sw_inside s = [t] /\ nth_error (sw_threads s) t = Some MIn /\ forall t', nth_error (sw_threads s) t' = Some MIn -> t' = t
  end.

Lemma swstep_inv s t : SwInv s -> SwInv (swstep s t).
Proof.
  unfold SwInv, swstep. intros H. destruct (nth_error (sw_threads s) t) as [[| |]|] eqn:E; auto.
  - (* MOut -> MWant *)
    cbn [sw_lock sw_threads sw_inside]. destruct (sw_lock s) as [h|].
    + destruct H as (A & B & C). split; auto. split.
      * rewrite nth_error_upd. destruct (Nat.eqb t h) eqn:Q; auto. apply Nat.eqb_eq in Q. subst. congruence.
      * intros t' E'. rewrite nth_error_upd in E'. destruct (Nat.eqb t t'); [rewrite E in E'; discriminate|auto].
    + destruct H as (A & B). split; auto. intros t' E'. rewrite nth_error_upd in E'.
      destruct (Nat.eqb t t'); [rewrite E in E'; discriminate|apply (B _ E')].
  - (* MWant *)
    destruct (sw_lock s) as [h|] eqn:L; [rewrite L; auto|].
    cbn [sw_lock sw_threads sw_inside]. destruct H as (A & B). rewrite A. split; auto. split.
    + rewrite nth_error_upd, Nat.eqb_refl, E. reflexivity.
    + intros t' E'. rewrite nth_error_upd in E'. destruct (Nat.eqb t t') eqn:Q; [apply Nat.eqb_eq in Q; auto|exfalso; apply (B _ E')].
  - (* MIn -> MOut *)
    cbn [sw_lock sw_threads sw_inside]. destruct (sw_lock s) as [h|].
    + destruct H as (A & B & C). assert (t = h) by (apply C; auto). subst h. rewrite A. cbn [remove].
      destruct (Nat.eq_dec t t); [|congruence]. split; auto.
      intros t' E'. rewrite nth_error_upd in E'. destruct (Nat.eqb t t') eqn:Q; [rewrite E in E'; discriminate|].
      apply Nat.eqb_neq in Q. apply Q. symmetry. apply C; auto.
    + destruct H as (A & B). exfalso. apply (B _ E).
Qed.

Theorem swrun_exclusive n sched : (length (sw_inside (swrun n sched)) <= 1)%nat.
Proof.
  assert (I : SwInv (swrun n sched)).
  { unfold swrun.
    assert (I0 : SwInv {| sw_lock := None; sw_threads := repeat MOut n; sw_inside := [] |}).
    { unfold SwInv. cbn. split; auto. intros t E. apply nth_error_In, repeat_spec in E. discriminate. }
    revert I0. generalize {| sw_lock := None; sw_threads := repeat MOut n; sw_inside := [] |}.
    induction sched as [|t sched IH]; intros s I0; cbn [fold_left]; auto. apply IH, swstep_inv, I0. }
  unfold SwInv in I. destruct (sw_lock (swrun n sched)); [destruct I as [-> _]|destruct I as [-> _]]; cbn; lia.
Qed.

(* ------------------------------------------------------------------ *)
(* SyncWriter when the wrapped call may panic (the caller recovers)     *)
(* ------------------------------------------------------------------ *)
(* with the deferred Unlock a panicking call is one more way of leaving the bracket: the same LTS *)
Lemma swpstep_deferred s a : swpstep true s a = swstep s (fst a).
Proof.
  destruct a as [t p]. unfold swpstep, swstep. cbn [fst].
  destruct (nth_error (sw_threads s) t) as [[| |]|]; try reflexivity.
  rewrite andb_false_r. reflexivity.
Qed.

Lemma swprun_deferred n sched : swprun true n sched = swrun n (map fst sched).
Proof.
  unfold swprun, swrun. generalize {| sw_lock := None; sw_threads := repeat MOut n; sw_inside := [] |}.
  induction sched as [|a sched IH]; intros s; cbn [fold_left map]; auto. rewrite swpstep_deferred. apply IH.
Qed.

Lemma swrun_inv n sched : SwInv (swrun n sched).
Proof.
  unfold swrun.
  assert (I0 : SwInv {| sw_lock := None; sw_threads := repeat MOut n; sw_inside := [] |}).
  { unfold SwInv. cbn. split; auto. intros t E. apply nth_error_In, repeat_spec in E. discriminate. }
  revert I0. generalize {| sw_lock := None; sw_threads := repeat MOut n; sw_inside := [] |}.
  induction sched as [|t sched IH]; intros s I0; cbn [fold_left]; auto. apply IH, swstep_inv, I0.
Qed.

(* whatever calls panicked before: at most one thread inside; the mutex is held only while its holder is inside the
   wrapped call; and a thread waiting for the mutex while nobody is inside gets in with its next step *)
Theorem swprun_deferred_live n sched :
  let s := swprun true n sched in
  (length (sw_inside s) <= 1)%nat /\
  (sw_inside s = [] -> sw_lock s = None) /\
  (forall t p, nth_error (sw_threads s) t = Some MWant -> sw_inside s = [] ->
     nth_error (sw_threads (swpstep true s (t, p))) t = Some MIn /\ sw_inside (swpstep true s (t, p)) = [t]).
Proof.
  cbn zeta. rewrite swprun_deferred. pose proof (swrun_inv n (map fst sched)) as I.
  set (s := swrun n (map fst sched)) in *. split; [apply swrun_exclusive|].
  assert (L : sw_inside s = [] -> sw_lock s = None).
  { intros E. unfold SwInv in I. destruct (sw_lock s); auto. destruct I as (A & _). rewrite A in E. discriminate. }
  split; auto. intros t p W E. rewrite swpstep_deferred. cbn [fst]. unfold swstep. rewrite W, (L E).
  cbn [sw_threads sw_inside]. rewrite E, nth_error_upd, Nat.eqb_refl, W. auto.
Qed.

(* with the inline Unlock one panicking call is enough: the mutex stays held although nobody is inside, and no
   schedule ever lets a thread in again - every later event through that SyncWriter is lost *)
Definition SwStuck (s : sw) : Prop :=
  (exists h, sw_lock s = Some h) /\ sw_inside s = [] /\ forall t, nth_error (sw_threads s) t <> Some MIn.

Lemma swpstep_stuck d s a : SwStuck s -> SwStuck (swpstep d s a).
Proof.
  intros ((h & L) & E & B). destruct a as [t p]. unfold swpstep, swstep.
  destruct (nth_error (sw_threads s) t) as [[| |]|] eqn:Q.
  - unfold SwStuck. cbn [sw_lock sw_threads sw_inside]. split; [eauto|]. split; auto.
    intros t' Q'. rewrite nth_error_upd in Q'. destruct (Nat.eqb t t'); [rewrite Q in Q'; discriminate|apply (B _ Q')].
  - rewrite L. unfold SwStuck. eauto.
  - exfalso. apply (B _ Q).
  - unfold SwStuck. eauto.
Qed.

Theorem swprun_inline_stuck :
  exists n sched, let s := swprun false n sched in
    SwStuck s /\ forall sched', sw_inside (fold_left (swpstep false) sched' s) = [].
Proof.
  exists 2, [(0, false); (0, false); (0, true)]. cbn zeta.
  assert (S0 : SwStuck (swprun false 2 [(0, false); (0, false); (0, true)])).
  { unfold SwStuck. vm_compute. split; [eauto|]. split; auto. intros [|[|[|t]]] H; discriminate. }
  split; auto. generalize dependent (swprun false 2 [(0, false); (0, false); (0, true)]).
  intros s S0 sched'. revert s S0. induction sched' as [|a r IH]; intros s S0; cbn [fold_left].
  - apply S0.
  - apply IH, swpstep_stuck, S0.
Qed.
