(* Lemmas about Lts/WriterTree.v: a writer built from writers is the one-level
   MultiLevelWriter over its flattened destinations. *)
From Verif Require Import Base.Prelude Misc.Level Lts.Writers Proofs.WritersP.
From Verif Require Import Lts.WriterTree.
Open Scope Z_scope.

Section wtree_induction.
  Variable P : wtree -> Prop.
  Hypothesis Hd : forall d, P (TDest d).
  Hypothesis Hm : forall ws args, Forall P args -> P (TMulti ws args).
  Fixpoint wtree_ind' (t : wtree) : P t :=
    match t with
    | TDest d => Hd d
    | TMulti ws args =>
        Hm ws args ((fix go (l : list wtree) : Forall P l :=
                       match l with
                       | [] => Forall_nil P
                       | a :: r => Forall_cons a (wtree_ind' a) (go r)
                       end) args)
    end.
End wtree_induction.

Lemma through_app ws : forall ws' m,
  through (ws ++ ws') m = match through ws m with None => None | Some m' => through ws' m' end.
Proof.
  induction ws as [|w t IH]; intros; cbn [app through]; auto.
  destruct w; auto. destruct m; auto. destruct (l >=? min); auto.
Qed.

Lemma dest_calls_under ws d i m p :
  dest_calls i (under ws d) m p = match through ws m with None => [] | Some m' => dest_calls i d m' p end.
Proof.
  unfold dest_calls, delivered, under. cbn [d_wraps d_leaf]. rewrite through_app.
  destruct (through ws m); reflexivity.
Qed.

Lemma dest_err_under ws d m p oc :
  dest_err (under ws d) m p oc = match through ws m with None => None | Some m' => dest_err d m' p oc end.
Proof.
  unfold dest_err, under. cbn [d_wraps]. rewrite through_app. destruct (through ws m); reflexivity.
Qed.

Lemma fanout_under ws ds : forall i m p,
  fanout (map (under ws) ds) i m p = match through ws m with None => [] | Some m' => fanout ds i m' p end.
Proof.
  induction ds as [|d t IH]; intros; cbn [map fanout].
  - destruct (through ws m); reflexivity.
  - rewrite IH, dest_calls_under. destruct (through ws m); reflexivity.
Qed.

Lemma first_fail_under ws ds : forall i m p o,
  first_fail (map (under ws) ds) i m p o = match through ws m with None => None | Some m' => first_fail ds i m' p o end.
Proof.
  induction ds as [|d t IH]; intros; cbn [map first_fail].
  - destruct (through ws m); reflexivity.
  - rewrite IH, dest_err_under. destruct (through ws m); reflexivity.
Qed.

Lemma fanout_app a : forall b i m p,
  fanout (a ++ b) i m p = fanout a i m p ++ fanout b (i + length a)%nat m p.
Proof.
  induction a as [|d t IH]; intros; cbn [app fanout length].
  - rewrite Nat.add_0_r. reflexivity.
  - rewrite IH, <- app_assoc. replace (S i + length t)%nat with (i + S (length t))%nat by lia. reflexivity.
Qed.

Lemma first_fail_app a : forall b i m p o,
  first_fail (a ++ b) i m p o =
  match first_fail a i m p o with Some e => Some e | None => first_fail b (i + length a)%nat m p o end.
Proof.
  induction a as [|d t IH]; intros; cbn [app first_fail length].
  - rewrite Nat.add_0_r. reflexivity.
  - destruct (dest_err d m p (o i)); auto. rewrite IH. replace (S i + length t)%nat with (i + S (length t))%nat by lia. reflexivity.
Qed.

(* the error an answer (n, err) amounts to for the loop that receives it:
   err, or io.ErrShortWrite when n != len(p) *)
Definition eff (r : ret) (len : Z) : option err :=
  match snd r with
  | Some e => Some e
  | None => if fst r =? len then None else Some EShortWrite
  end.

Lemma acc_step_eff acc r len :
  snd (acc_step acc r len) = match snd acc with Some e => Some e | None => eff r len end.
Proof.
  unfold acc_step, eff. destruct (snd acc) eqn:Ea; [rewrite Ea; reflexivity|].
  destruct (snd r); [reflexivity|]. destruct (fst r =? len); reflexivity.
Qed.

Lemma acc_step_n acc r len :
  snd acc = None -> eff r len = None -> fst (acc_step acc r len) = len.
Proof.
  unfold acc_step, eff. intros -> H. destruct (snd r); [discriminate|].
  destruct (fst r =? len) eqn:E; [|discriminate]. cbn [fst]. lia.
Qed.

(* what one argument's call must satisfy for the loop to be the flat loop *)
Definition arg_spec (t : wtree) (m : mode) (p : bytes) (o : nat -> outcome) : Prop :=
  forall i,
    fst (tree_call t i m p o) = fanout (flatten t) i m p /\
    eff (snd (tree_call t i m p o)) (blen p) = first_fail (flatten t) i m p o.

Lemma length_flatten t : length (flatten t) = leaves t.
Proof.
  induction t as [d|ws args IH] using wtree_ind'; cbn [flatten leaves length]; auto.
  rewrite map_length. induction IH as [|a r Ha _ IHr]; cbn [flat_map map list_sum]; auto.
  rewrite app_length, Ha, IHr. reflexivity.
Qed.

Lemma args_loop_spec m p o (l : list wtree) :
  Forall (fun a => arg_spec a m p o) l ->
  forall i acc,
    let r := args_loop wtree (fun a j => tree_call a j m p o) leaves (blen p) l i acc in
    fst r = fanout (flat_map flatten l) i m p /\
    snd (snd r) = match snd acc with Some e => Some e | None => first_fail (flat_map flatten l) i m p o end /\
    (snd acc = None -> (l <> [] \/ fst acc = blen p) -> first_fail (flat_map flatten l) i m p o = None ->
     fst (snd r) = blen p).
Proof.
  induction 1 as [|a rest Ha _ IH]; intros i acc; cbn [args_loop flat_map].
  - cbn [fst snd fanout first_fail]. repeat split.
    + destruct (snd acc); reflexivity.
    + intros _ [H|H] _; [congruence|exact H].
  - destruct (Ha i) as (A1 & A2).
    destruct (tree_call a i m p o) as [cs rr] eqn:E. cbn [fst snd] in A1, A2.
    specialize (IH (i + leaves a)%nat (acc_step acc rr (blen p))).
    destruct (args_loop wtree (fun a j => tree_call a j m p o) leaves (blen p) rest (i + leaves a)%nat (acc_step acc rr (blen p))) as [rest' acc'] eqn:E2.
    cbn [fst snd] in *. destruct IH as (I1 & I2 & I3).
    rewrite fanout_app, first_fail_app, length_flatten.
    pose proof (acc_step_eff acc rr (blen p)) as S1. rewrite A2 in S1.
    repeat split.
    + rewrite A1, I1. reflexivity.
    + rewrite I2, S1. destruct (snd acc); [reflexivity|]. destruct (first_fail (flatten a) i m p o); reflexivity.
    + intros Hacc _ Hf. destruct (first_fail (flatten a) i m p o) eqn:Ef; [discriminate|].
      apply I3; [rewrite S1, Hacc; reflexivity| |exact Hf].
      right. apply acc_step_n; assumption.
Qed.

Lemma nonempty_args ws args : nonempty (TMulti ws args) = true -> args <> [] /\ forallb nonempty args = true.
Proof. cbn [nonempty]. destruct args; [discriminate|]. intros H. split; [discriminate|exact H]. Qed.

Lemma dest_call_eff i d m p oc : eff (snd (dest_call i d m p oc)) (blen p) = dest_err d m p oc.
Proof.
  unfold eff, dest_call, dest_err. destruct (through (d_wraps d) m); cbn [snd fst].
  - destruct oc; cbn [dest_ret outcome_err snd fst]; try reflexivity. rewrite Z.eqb_refl. reflexivity.
  - rewrite Z.eqb_refl. reflexivity.
Qed.

Lemma tree_call_spec t : nonempty t = true -> forall m p o,
  arg_spec t m p o /\
  (forall ws args, t = TMulti ws args -> forall i, snd (snd (tree_call t i m p o)) = first_fail (flatten t) i m p o).
Proof.
  induction t as [d|ws args IH] using wtree_ind'; intros Hn m p o.
  - split; [|discriminate]. intros i. cbn [tree_call flatten fanout first_fail]. rewrite app_nil_r. split.
    + apply dest_call_fst.
    + rewrite dest_call_eff. destruct (dest_err d m p (o i)); reflexivity.
  - destruct (nonempty_args _ _ Hn) as [Hne Hall].
    assert (Hargs : forall m', Forall (fun a => arg_spec a m' p o) args).
    { intros m'. rewrite Forall_forall. intros a Ha. rewrite Forall_forall in IH.
      rewrite forallb_forall in Hall. exact (proj1 (IH a Ha (Hall a Ha) m' p o)). }
    assert (Main : forall i,
      fst (tree_call (TMulti ws args) i m p o) = fanout (flatten (TMulti ws args)) i m p /\
      snd (snd (tree_call (TMulti ws args) i m p o)) = first_fail (flatten (TMulti ws args)) i m p o /\
      (first_fail (flatten (TMulti ws args)) i m p o = None -> fst (snd (tree_call (TMulti ws args) i m p o)) = blen p)).
    { intros i. cbn [tree_call flatten]. rewrite fanout_under, first_fail_under.
      destruct (through ws m) as [m'|]; [|cbn [fst snd]; auto].
      destruct (args_loop_spec m' p o args (Hargs m') i (0, None)) as (L1 & L2 & L3). cbn [snd] in L2.
      repeat split; auto. }
    split.
    + intros i. destruct (Main i) as (M1 & M2 & M3). split; [exact M1|].
      unfold eff. rewrite M2. destruct (first_fail (flatten (TMulti ws args)) i m p o) eqn:Ef; [reflexivity|].
      rewrite (M3 eq_refl), Z.eqb_refl. reflexivity.
    + intros ws0 args0 _ i. exact (proj1 (proj2 (Main i))).
Qed.

(* a writer built from writers = MultiLevelWriter over its flattened destinations:
   the same destination calls in the same order, the same error *)
Lemma nested_is_flat ws args m p o :
  nonempty (TMulti ws args) = true ->
  fst (tree_call (TMulti ws args) 0%nat m p o) = fst (multi_write (flatten (TMulti ws args)) m p o) /\
  snd (snd (tree_call (TMulti ws args) 0%nat m p o)) = snd (snd (multi_write (flatten (TMulti ws args)) m p o)).
Proof.
  intros Hn. destruct (tree_call_spec _ Hn m p o) as [A B].
  destruct (multi_write_spec (flatten (TMulti ws args)) m p o) as [F1 F2].
  rewrite F1, F2. split; [exact (proj1 (A 0%nat))|exact (B ws args eq_refl 0%nat)].
Qed.

(* every destination of the derived writer is called as the one-level model says:
   its call log is the event pushed through the wrappers above it and its own *)
Lemma nested_calls_of ws args m p o d :
  nonempty (TMulti ws args) = true ->
  calls_of d (fst (tree_call (TMulti ws args) 0%nat m p o)) =
  match nth_error (flatten (TMulti ws args)) d with Some dd => delivered dd m p | None => [] end.
Proof.
  intros Hn. rewrite (proj1 (nested_is_flat ws args m p o Hn)), (proj1 (multi_write_spec _ m p o)).
  rewrite calls_of_fanout. rewrite Nat.sub_0_r. reflexivity.
Qed.
